"""C16 — signals describe every change exactly once, to exactly the subscribers."""
from . import core, signals_common as S

PROP = "C16"
DRIVER = "drv_signals"
LEAN_MODULES = ["MesaModel.Props.C16", "MesaModel.Props.C18Signals"]
THEOREMS = ["Mesa.Signals." + t for t in (
    "C16_observe_pointwise", "C16_unobserve_pointwise", "C16_unobserve_removes", "C16_unobserve_keeps_others", "C16_clear_removes",
    "C16_registry_is_subscription_history", "C16_delivery_exactly_once_in_order", "C16_dead_never_called",
    "C16_unsubscribed_never_called", "C16_unknown_rejected", "C16_assign_payload", "C16_signals_track_list",
    "C16_replica_all_histories", "C16_listener_receives_all", "C16_listener_replica_all_histories", "C16_pi_independent",
    "C16_reentrant_passive_is_run", "C16_reentrant_round_registry", "C16_reentrant_called_are_subscribed",
    "C16_reentrant_untouched_called_once_per_subscription", "C16_reentrant_registry_is_call_history",
    "C16_slicex_set_rejected_iff", "C16_slicex_positions_exist", "C16_slicex_extended_set_frame",
    "C16_slicex_extended_set_values", "C16_slicex_del_erases_selected",
    "C16_extend_signals", "C16_iadd_signals", "C16_clear_signals",
    "C16_extend_failing_source", "C16_failing_source_is_extend_of_consumed",
    "C16_failing_source_histories", "C16_listener_replica_failing_sources",
    "C18_signals_reject_unchanged", "C18_signals_observe_reject_unchanged", "C18_signals_observe_rejects_exactly",
    "C18_signals_rejected_calls_can_be_deleted")]
COUNTS = {"quick": 1500, "thorough": 150000}
TRUSTED = [
    "CPython weakref: a handler dies exactly when the harness drops its last strong reference (refcounting)",
    "iteration order of the signal-type sets: pinned by substituting an insertion-ordered mapping (3/4 of the scenarios) or "
    "left to CPython and covered by the proved independence from that order (1/4)",
    "collections.abc.MutableSequence mixin methods (pop, remove, extend, +=, reverse, clear) are modelled as the "
    "compositions of primitives CPython 3.12 uses",
    "handlers record and may call observe / unobserve / clear_all_subscriptions (accepted calls only) while they are being "
    "notified; handlers that assign or raise while notified are not modelled; values are ints, lists of ints; slices: "
    "CPython's slice.indices semantics (open bounds, any step) is modelled and compared on every run",
]
TRUSTED.append(
    "`__eq__` of user objects is outside the model (handlers are identities there): in the `veq` scenarios the owners of the "
    "bound-method handlers are value objects that compare equal while they have recorded the same signals; that CPython "
    "compares bound methods by the identity of `__self__` (so these are different handlers) is trusted, the delivery "
    "clause of the oracle and the registry dumps are compared as for any other handler")
ASSUMPTIONS = ["handlers do not assign and do not raise while being notified (re-entrant registry calls are covered)"]
RULE = ("random classes with 2-4 Observables / ObservableLists split over 1-3 classes of an inheritance chain, in 3/10 of the chains a base class defines one of the names again (overridden: the most derived definition is in effect), random orders of "
        "the signal-type sets, 2-6 handlers (functions and bound methods, some dropped; in 3/10 of the scenarios the owners of the bound methods are value objects with an __eq__ by recorded signals - equal owners, different handlers - and at least two of them; in 1/4 of the scenarios 1-2 handlers make 1-2 registry calls - unobserve of themselves or of others, clear_all, observe of a passive handler - whenever they are called), 6-28 ops from observe/unobserve (name "
        "or All x type or All, incl. invalid ones), clear_all, drop, assignment (of fresh items or of another list of the object) and all list mutations with in-range, negative "
        "and out-of-range indices, extend / += from an iterable that raises after some items, slices with open / negative / out-of-range bounds and steps -3..3 (0 and wrong item counts are rejected); non-trivial = at least 3 signals delivered and at least one All subscription")


# G13b (a handler with a value-equal owner that unsubscribed while notified was called again in the same round) is repaired:
# its witness is corpus/C16/G13b-equal-owner-renotified.ops
KNOWN = {}


def generate(rng, tier, count):
    for _ in range(count):
        yield S.gen_sig_scenario(rng, rejecting=rng.random() < 0.15)


def generate_rejecting(rng, tier, count):
    for _ in range(count):
        yield S.gen_sig_scenario(rng, rejecting=True)


run_impl = S.run_sig
oracle = S.oracle_sig
tags = S.tags_sig


def nontrivial(sc, obs):
    deliveries = sum(len(o.split()) - 1 for l, o in zip(sc.lines, obs) if o.startswith("ok ") and l.split()[0] not in ("subs", "get"))
    return deliveries >= 3 and any(l.startswith("observe") and "*" in l.split()[1:3] for l in sc.lines)


def _hashseed_main():
    """child process (own PYTHONHASHSEED): natural-set-order scenarios, implementation vs model vs oracle"""
    import json, random, sys
    seed, count = int(sys.argv[1]), int(sys.argv[2])
    core.import_mesa()
    rng = random.Random(f"C16/hash/{seed}")
    scs = []
    for _ in range(count):
        sc = S.gen_sig_scenario(rng)
        if "natural" not in sc.lines[0].split():
            sc.lines[0] = " ".join(
                [":".join(t.split(":")[:2] + [",".join(S.KIND_TYPES[t.split(":")[1]])]) if ":" in t and not t.startswith(("prog:", "ovr:"))
                 else t for t in sc.lines[0].split()] + ["natural"])
        scs.append(sc)
    obs = [run_impl(sc) for sc in scs]
    mobs = core.model_obs(DRIVER, scs)
    bad = []
    for sc, o, m in zip(scs, obs, mobs):
        cl = oracle(sc, o)
        if o != m or cl:
            bad.append({"ops": sc.lines, "impl": o, "model": m, "oracle": cl})
    print(json.dumps({"n": len(scs), "bad": bad[:3], "nbad": len(bad)}))


def extra(ctx):
    """thorough: the same check under three other hash seeds (other iteration orders of the real signal-type sets)"""
    if ctx.tier != "thorough":
        return
    import json, os, subprocess, sys
    total = 0
    for hs in ("1", "2", "3"):
        env = dict(os.environ, PYTHONHASHSEED=hs)
        p = subprocess.run([sys.executable, "-c", "from harness import c16; c16._hashseed_main()", str(ctx.seed), "400"],
                           cwd=core.VERIF, env=env, capture_output=True, text=True, timeout=600)
        if p.returncode != 0:
            raise core.Infra("hash-seed child failed: " + p.stderr[-800:])
        res = json.loads(p.stdout.strip().splitlines()[-1])
        total += res["n"]
        if res["nbad"]:
            b = res["bad"][0]
            ctx.violation(f"hashseed{hs}", {"kind": "impl-counterexample" if b["oracle"] else "no-failing-input",
                                            "ops": b["ops"], "impl_observations": b["impl"], "model_observations": b["model"],
                                            "oracle_clause": b["oracle"], "pythonhashseed": hs}, no_input=not b["oracle"])
    ctx.cov["hashseed_scenarios"] = total


if __name__ == "__main__":
    import sys
    core.main(sys.modules[__name__])
