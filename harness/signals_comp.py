"""Implementation runner, generator and trace oracle for C17 (Computable / Computed).

Protocol: see lean/Driver/Signals.lean (`scenario comp …`).  A Computed's function is a read tree that the
harness interprets against the real descriptors; the interpreter records what it reads (for the oracle).
"""
from __future__ import annotations

from . import core
from .signals_common import _mesa, err_of


def parse_tree(toks):
    """tokens -> (tree, rest); tree = ('ret', v) | ('read', o, n, [t…]) | ('readc', c, [t…]) | ('write', o, n, v, t) |
    ('fail',) = the function raises ZeroDivisionError"""
    assert toks[0] == "(", toks
    k = toks[1]
    if k == "fail":
        assert toks[2] == ")"
        return ("fail",), toks[3:]
    if k == "ret":
        assert toks[3] == ")"
        return ("ret", p_val(toks[2])), toks[4:]
    if k in ("read", "readc"):
        head = (int(toks[2]), int(toks[3])) if k == "read" else (int(toks[2]),)
        rest = toks[4:] if k == "read" else toks[3:]
        bs = []
        while rest[0] != ")":
            t, rest = parse_tree(rest)
            bs.append(t)
        assert bs
        return (k, *head, bs), rest[1:]
    if k == "write":
        t, rest = parse_tree(toks[5:])
        assert rest[0] == ")"
        return ("write", int(toks[2]), int(toks[3]), p_val(toks[4]), t), rest[1:]
    raise ValueError(toks)


def p_val(s):
    """a value on a protocol line: an int or N (= None)"""
    return None if s == "N" else int(s)


def f_val(v):
    return "N" if v is None else str(v)


def fmt_tree(t):
    if t[0] == "fail":
        return "( fail )"
    if t[0] == "ret":
        return f"( ret {f_val(t[1])} )"
    if t[0] == "read":
        return f"( read {t[1]} {t[2]} " + " ".join(fmt_tree(b) for b in t[3]) + " )"
    if t[0] == "readc":
        return f"( readc {t[1]} " + " ".join(fmt_tree(b) for b in t[2]) + " )"
    return f"( write {t[1]} {t[2]} {f_val(t[3])} {fmt_tree(t[4])} )"


def pick(bs, v):
    return bs[v] if isinstance(v, int) and 0 <= v < len(bs) else bs[-1]


def has_write(t):
    if t[0] in ("ret", "fail"):
        return False
    if t[0] == "write":
        return True
    return any(has_write(b) for b in t[-1])


def parse_header(line):
    w = line.split()
    decls = []
    for d in w[2].split(","):
        o, n, k = d.split(".")
        decls.append((int(o), int(n), k))
    progs = {}
    if w[3] != "-":
        for p in w[3].split(","):
            h, cs = p.split(":")
            progs[int(h)] = [int(c) for c in cs.split(".")] if cs else []
    return decls, progs


def o_str(v):
    return "N" if v is None else str(int(v))


class CompImpl:
    def __init__(self, header):
        ms, core_ms = _mesa()
        self.ms, self.core_ms = ms, core_ms
        core_ms.PROCESSING_SIGNALS.clear()
        core_ms.CURRENT_COMPUTED = None
        if hasattr(core_ms, "EVALUATION_DEPTH"):
            core_ms.EVALUATION_DEPTH = 0
        self.decls, self.progs = parse_header(header)
        self.kind = {(o, n): k for o, n, k in self.decls}
        owners = sorted({o for o, _, _ in self.decls})
        self.inst = {}
        for o in owners:
            ns = {}
            for oo, n, k in self.decls:
                if oo == o:
                    ns[f"a{n}"] = ms.Observable() if k == "obs" else ms.Computable()
            self.inst[o] = type(f"O{o}", (ms.HasObservables,), ns)()
        for o, n, k in self.decls:
            if k == "obs":
                setattr(self.inst[o], f"a{n}", 0)      # every Observable starts at 0
        self.idx = {id(v): o for o, v in self.inst.items()}
        self.comps = {}     # c -> (o, n, tree)
        self.order = []
        self.evals = {}
        self.keep = {}
        self.dead = set()
        self.log = []
        self.trace = []

    def store(self):
        return {f"{o}.{n}": getattr(self.inst[o], f"_a{n}") for o, n, k in self.decls if k == "obs"}

    # the function of Computed c -------------------------------------------------------------
    def func(self, c):
        def f():
            self.evals[c] += 1
            self.trace.append(("eval-start", c, self.store()))
            t = self.comps[c][2]
            try:
                while True:
                    if t[0] == "ret":
                        self.trace.append(("eval-end", c, t[1]))
                        return t[1]
                    if t[0] == "fail":
                        raise ZeroDivisionError("the function raises")
                    if t[0] == "read":
                        v = getattr(self.inst[t[1]], f"a{t[2]}")
                        self.trace.append(("eval-read", c, f"{t[1]}.{t[2]}", v))
                        t = pick(t[3], v)
                    elif t[0] == "readc":
                        if t[1] not in self.comps:
                            raise AttributeError(f"computable {t[1]}")
                        o, n, _ = self.comps[t[1]]
                        v = getattr(self.inst[o], f"a{n}")
                        self.trace.append(("eval-read", c, f"c{t[1]}", v))
                        t = pick(t[2], v)
                    else:
                        _, o, n, v, nxt = t
                        try:
                            setattr(self.inst[o], f"a{n}", v)
                        except ValueError as e:
                            # "rejected" = the cycle check of Observable.__set__; anything else was raised by what
                            # the assignment triggered
                            how = "rejected" if "cyclical dependency" in str(e) else "raised"
                            self.trace.append(("eval-write", c, f"{o}.{n}", v, how))
                            raise
                        self.trace.append(("eval-write", c, f"{o}.{n}", v, "done"))
                        t = nxt
            except BaseException:
                self.trace.append(("eval-end", c, "exc"))
                raise

        return f

    # user handlers ---------------------------------------------------------------------------------
    def handler(self, hid):
        if hid in self.dead or hid not in self.keep:
            impl = self

            def fn(signal, hid=hid):
                impl.on_signal(hid, signal)

            if hid in self.dead:
                return fn
            self.keep[hid] = fn
        return self.keep[hid]

    def on_signal(self, hid, signal):
        o = self.idx[id(signal.owner)]
        rec = f"{hid}:{o}.{signal.name[1:]}:{o_str(signal.old)}>{o_str(signal.new)}"
        self.log.append(rec)
        self.trace.append(("deliver", rec))
        for c in self.progs.get(hid, []):
            if c not in self.comps:
                raise AttributeError(f"computable {c}")
            oo, n, _ = self.comps[c]
            v = getattr(self.inst[oo], f"a{n}")
            self.trace.append(("hread", hid, c, v, self.store()))

    # operations ------------------------------------------------------------------------------------
    def fmt(self, head):
        log, self.log = self.log, []
        evs = " ".join(f"{c}:{self.evals[c]}" for c in self.order)
        return f"{head} | {' '.join(log)} | {evs}"

    def line(self, w):
        k = w[0]
        # malformed lines (the driver answers `bad-op`): nothing is executed
        if k == "define" and (int(w[1]) in self.comps or self.kind.get((int(w[2]), int(w[3]))) != "comp"):
            return "bad-op"
        if k == "assign" and self.kind.get((int(w[1]), int(w[2]))) != "obs":
            return "bad-op"
        if k == "read" and int(w[1]) not in self.comps:
            return "bad-op"
        self.trace.append(("op", " ".join(w), self.store()))
        try:
            if k == "define":
                c, o, n = int(w[1]), int(w[2]), int(w[3])
                tree, rest = parse_tree(w[4:])
                assert not rest and c not in self.comps and self.kind[(o, n)] == "comp"
                self.comps[c] = (o, n, tree)
                self.order.append(c)
                self.evals[c] = 0
                setattr(self.inst[o], f"a{n}", self.ms.Computed(self.func(c)))
                v = self.inst[o].__dict__[f"_a{n}"]._value
                head = f"ok {v}"
            elif k == "assign":
                o, n, v = int(w[1]), int(w[2]), p_val(w[3])
                assert self.kind[(o, n)] == "obs"
                setattr(self.inst[o], f"a{n}", v)
                head = "ok 0"
            elif k == "read":
                o, n, _ = self.comps[int(w[1])]
                head = f"ok {getattr(self.inst[o], f'a{n}')}"
            elif k == "observe":
                h = self.handler(int(w[3]))
                self.inst[int(w[1])].observe(f"a{w[2]}", "change", h)
                del h
                head = "ok 0"
            elif k == "unobserve":
                h = self.handler(int(w[3]))
                self.inst[int(w[1])].unobserve(f"a{w[2]}", "change", h)
                del h
                head = "ok 0"
            elif k == "drop":
                self.keep.pop(int(w[1]), None)
                self.dead.add(int(w[1]))
                head = "ok 0"
            else:
                raise AssertionError(w)
        except (ValueError, KeyError, IndexError, AttributeError, ZeroDivisionError) as e:
            head = err_of(e)
        except RecursionError:
            # unbounded mutual recursion (the model runs out of fuel): the scenario is over
            self.trace.append(("done", "err Fuel", self.store()))
            self.log = []
            return "err Fuel"
        self.trace.append(("done", head, self.store()))
        return self.fmt(head)


def run_comp(sc):
    impl = CompImpl(sc.lines[0])
    obs = ["ok"]
    for line in sc.lines[1:]:
        obs.append(impl.line(line.split()))
    sc.meta["trace"] = impl.trace
    return obs


# ------------------------------------------------------------------------------------------
# generator


# values assigned to Observables: small ints (which CPython interns) and large ones (equal values are then
# distinct objects, so an identity comparison instead of an equality comparison would show)
def gen_val(R):
    return R.choice([0, 1, 2, 0, 1, 2, 0, 1, 2, 1000, 1001, "N"])


def gen_ret(R):
    """what a function returns: a small int or None (a Computable's own dirty signal carries None as new value)"""
    return None if R.random() < 0.12 else R.randrange(0, 4)


def gen_tree(R, depth, obs_keys, lower, allow_write, root=False, p_fail=0.0):
    k = R.random()
    if depth == 0 or (not root and k < 0.22):
        if p_fail and R.random() < p_fail:
            return ("fail",)            # the function raises along this branch
        return ("ret", gen_ret(R))
    nb = R.choice([2, 2, 3, 3, 1])
    if allow_write and k > 0.85:
        o, n = R.choice(obs_keys)
        return ("write", o, n, R.randrange(0, 3), gen_tree(R, depth - 1, obs_keys, lower, allow_write, p_fail=p_fail))
    if lower and k > 0.55:
        return ("readc", R.choice(lower), [gen_tree(R, depth - 1, obs_keys, lower, allow_write, p_fail=p_fail) for _ in range(nb)])
    o, n = R.choice(obs_keys)
    return ("read", o, n, [gen_tree(R, depth - 1, obs_keys, lower, allow_write, p_fail=p_fail) for _ in range(nb)])


def gen_raise_scenario(R):
    """directed: functions that raise on their own.
    * a Computable whose function raised must run it again at the next read — not re-validate what it read before the
      failure and serve the value cached earlier (finding G11) —, also when unrelated Observables were assigned in
      between, through a chain, and after the input is repaired;
    * the dirty pre-check looks at the remembered values owner by owner, i.e. not in the order the function read them: a
      remembered Computable that raises now, but that the function would not read any more because an Observable read
      EARLIER (on another owner) changed, must not make the read fail (finding G12)."""
    bad, good, other = R.choice([0, 1, 2]), None, None
    good, other = R.sample([v for v in (0, 1, 2, 1000) if v != bad], 2)
    div = ("read", 0, 1, [("fail",) if i == bad else ("ret", R.randrange(0, 4)) for i in range(3)] + [("ret", 3)])
    kind = R.choice(["again", "again", "chain", "order", "order"])
    if kind in ("again", "chain"):
        lines = ["scenario comp 0.0.obs,0.1.obs,0.2.comp,0.3.comp -", f"assign 0 1 {R.choice([good, bad])}",
                 f"define 0 0 2 {fmt_tree(div)}"]
        top = 0
        if kind == "chain":
            lines.append(f"define 1 0 3 {fmt_tree(('read', 0, 0, [('readc', 0, [('ret', 0), ('ret', 1), ('ret', 2), ('ret', 3)])] * 2))}")
            top = R.choice([0, 1, 1])
        lines += [f"read {top}", f"assign 0 1 {bad}", f"read {top}"]
        for _ in range(R.randrange(1, 4)):
            lines.append(R.choice([f"read {top}", f"assign 0 0 {gen_val(R)}", f"assign 0 1 {bad}", "read 0"]))
        lines += [f"read {top}", f"assign 0 1 {R.choice([good, other])}", f"read {top}", f"assign 0 1 {bad}", f"read {top}",
                  f"read {top}"]
        return core.Scenario(lines, {"mode": "raise"})
    # x = 0.0 and c4 = 0.2 (function of d = 0.1) on owner 0, flag = 1.0 on owner 1; c = (x; flag; c4 if flag)
    c = ("read", 0, 0, [("read", 1, 0, [("ret", 7), ("readc", 0, [("ret", 0), ("ret", 1), ("ret", 2), ("ret", 3)])])] * 2)
    lines = ["scenario comp 0.0.obs,0.1.obs,0.2.comp,0.3.comp,1.0.obs -", f"assign 0 1 {good}", "assign 1 0 1",
             f"define 0 0 2 {fmt_tree(div)}", f"define 1 0 3 {fmt_tree(c)}", "read 1"]
    tail = ["assign 1 0 0", f"assign 0 1 {bad}"]
    R.shuffle(tail)
    lines += tail + ["read 1", "read 1"]
    for _ in range(R.randrange(0, 4)):
        lines.append(R.choice(["read 1", "read 0", f"assign 1 0 {R.choice([0, 1])}", f"assign 0 1 {R.choice([good, bad])}",
                               f"assign 0 0 {gen_val(R)}"]))
    lines += ["read 1", "read 0"]
    return core.Scenario(lines, {"mode": "raise"})


G16_WITNESS = [
    "scenario comp 0.0.obs,0.1.obs,0.2.comp,0.3.comp,0.4.comp -",
    "define 0 0 2 ( read 0 0 ( ret 0 ) ( ret 1 ) ( ret 2 ) )",
    "define 1 0 3 ( read 0 1 ( write 0 0 0 ( ret 1 ) ) ( write 0 0 1 ( ret 1 ) ) ( write 0 0 2 ( ret 1 ) ) )",
    "define 2 0 4 ( readc 0 ( readc 1 ( ret 0 ) ( ret 1 ) ) ( readc 1 ( ret 1 ) ( ret 2 ) ) ( readc 1 ( ret 2 ) ( ret 3 ) ) )",
    "assign 0 1 2",
    "read 2",
    "read 2",
]


def gen_precheck_write_scenario(R):
    """directed, open finding G16: c0 = x; c1 = (x = z; return 1); c2 = c0 + c1 (or c1 + c0).  After z changed, the dirty
    pre-check of c2 validates c0 (unchanged) and then c1, which re-evaluates - as an outermost evaluation with an empty
    record, the pre-check runs under CURRENT_COMPUTED = None - and assigns x: c0 is dirty again, c1 still gives 1, the
    pre-check finds nothing changed and c2 is served from its cache although c0 evaluates to the new x.  With c1 read
    before c0 the pre-check validates c0 after the assignment and c2 recomputes."""
    rd0 = lambda bs: ("readc", 0, bs)
    rd1 = lambda bs: ("readc", 1, bs)
    if R.random() < 0.7:
        c2 = rd0([rd1([("ret", i), ("ret", i + 1)]) for i in range(3)])
    else:
        c2 = rd1([("ret", 0), rd0([("ret", 1), ("ret", 2), ("ret", 3)])])
    lines = list(G16_WITNESS[:3]) + [f"define 2 0 4 {fmt_tree(c2)}"]
    for _ in range(R.randrange(1, 5)):
        lines.append(R.choice([f"assign 0 1 {R.choice([0, 1, 2])}", f"assign 0 1 {R.choice([0, 1, 2])}", "read 2", "read 2", "read 0",
                               "read 1", f"assign 0 0 {R.choice([0, 1, 2])}"]))
    lines += [f"assign 0 1 {R.choice([1, 2])}", "read 2", "read 2"]
    return core.Scenario(lines, {"mode": "cycle"})


def gen_cycle_scenario(R):
    """directed: cycles that must be rejected whatever happens between the read and the assignment, and assignments
    that are no cycles.  x = 0.0, y = 0.1 (read by the inner Computable c0), p = 0.4; c1 is the function under test:
    * it reads x, then — in any order — assigns p (finding G10: any assignment used to clear the record of what was
      read), reads c0 that has to recompute at that very moment, reads p; then assigns x;
    * or it reads c0 (which evaluates now and reads y) and then assigns y: a cycle through c0;
    * or it assigns y without any evaluating function having read it, although an EARLIER evaluation (of c0) did:
      not a cycle, must not be rejected.
    In 4/10 of the scenarios c0 reads y through a further Computable c2, so that the pre-check of the dirty c0 — run
    outside any evaluation context — re-evaluates c2 in the middle of the evaluation of c1."""
    a, b, v = R.choice([0, 1, 2, 1000]), R.choice([1, 2, 1001]), R.choice([0, 1, 2])
    if a == b:
        b = 1001
    if R.random() < 0.15:
        # a cycle is rejected (the evaluation raises) and AFTERWARDS an unrelated function assigns what the failed one had
        # read: that is no cycle and must not be rejected (the record must not outlive a failed evaluation either)
        failing = ("read", 0, 0, [("write", 0, 0, v, ("ret", 3))] * 3)
        later = ("write", 0, 0, R.choice([0, 1, 2]), ("ret", 4))
        lines = ["scenario comp 0.0.obs,0.1.obs,0.2.comp,0.3.comp -", f"assign 0 0 {a}", f"define 0 0 2 {fmt_tree(failing)}"]
        lines += R.sample(["read 0", f"assign 0 1 {b}", "read 0"], R.randrange(0, 3))
        lines += [f"define 1 0 3 {fmt_tree(later)}", "read 1", f"assign 0 1 {gen_val(R)}", "read 1"]
        return core.Scenario(lines, {"mode": "cycle"})
    if R.random() < 0.12:
        return gen_precheck_write_scenario(R)
    inner = ("read", 0, 1, [("ret", 0), ("ret", 1), ("ret", 2)])
    kind = R.choice(["direct", "direct", "direct", "through", "nocycle", "cached", "cached", "cached-nocycle"])
    # Computables are numbered in definition order (a function reads only Computables with a smaller number):
    # ci = the Computable the function under test (co) reads; with a chain ci reads y through Computable 0
    chain = R.random() < 0.4
    ci = 1 if chain else 0
    co = ci + 1
    if kind == "direct":
        t = ("write", 0, 0, v, ("ret", 3))
        for _ in range(R.choice([0, 1, 1, 2, 3])):
            m = R.choice(["write-p", "write-p", "readc", "read-p"])
            if m == "write-p":
                t = ("write", 0, 4, R.choice([0, 1, 2, 1000]), t)
            elif m == "readc":
                t = ("readc", ci, [t, t, t])
            else:
                t = ("read", 0, 4, [t, t])
        outer = ("read", 0, 0, [t] * 3)
    elif kind in ("through", "cached", "cached-nocycle"):
        # cached (finding G15): ci is served from its cache (or re-validated without running) when the function reads
        # it, so nothing reads y during the evaluation, and yet the function depends on y; cached-nocycle: it assigns
        # x, which ci does not depend on
        t = ("write", 0, 0 if kind == "cached-nocycle" else 1, v, ("ret", 3))
        if R.random() < 0.5:
            t = ("write", 0, 4, 1, t)
        if kind != "through" and R.random() < 0.3:
            t = ("read", 0, 4, [t, t])
        outer = ("readc", ci, [t, t, t])
    else:
        t = ("write", 0, 1, v, ("ret", 3))
        outer = ("read", 0, 0, [t, t]) if R.random() < 0.5 else t
    lines = ["scenario comp 0.0.obs,0.1.obs,0.2.comp,0.3.comp,0.4.obs,0.5.comp -", f"assign 0 1 {a}"]
    if chain:
        lines += [f"define 0 0 5 {fmt_tree(inner)}", f"define 1 0 2 {fmt_tree(('readc', 0, [('ret', 0), ('ret', 1), ('ret', 2)]))}"]
    else:
        lines.append(f"define 0 0 2 {fmt_tree(inner)}")
    lines += [f"read {ci}", f"assign 0 0 {R.choice([0, 1, 2])}"]
    if kind in ("cached", "cached-nocycle"):
        if R.random() < 0.5:
            lines += [f"assign 0 1 {b}", f"assign 0 1 {a}"]      # dirty, but the pre-check finds nothing changed
        elif R.random() < 0.5:
            lines += [f"assign 0 1 {b}", f"read {ci}"]            # evaluated by an EARLIER read: clean now
    else:
        if R.random() < 0.8:
            lines.append(f"assign 0 1 {b}")     # the inner Computable is now dirty and really changed
        if kind == "nocycle" and R.random() < 0.7:
            lines.append(f"read {ci}")          # … and evaluated again: its read of y is what must not be remembered
    lines.append(f"define {co} 0 3 {fmt_tree(outer)}")
    for _ in range(R.randrange(0, 4)):
        lines.append(R.choice([f"assign 0 1 {gen_val(R)}", f"assign 0 0 {gen_val(R)}", f"read {co}", f"read {ci}"]))
    return core.Scenario(lines, {"mode": "cycle"})


def gen_comp_scenario(R, mode=None, n_ops=None):
    """mode: 'pure' (quantifier of C17), 'raise' (pure functions some branches of which raise), 'write' (functions that
    assign: cycle detection), 'hread' (user handlers that read Computables while notified: G7 territory)"""
    if mode is None and n_ops is None:
        k = R.random()
        if k < 0.04:
            return gen_cycle_scenario(R)
        if k < 0.08:
            return gen_raise_scenario(R)
    mode = mode or R.choice(["pure"] * 8 + ["raise"] * 2 + ["write", "hread"])
    n_owner = 1 if mode == "hread" else R.choice([1, 2, 2])
    n_obs = R.randrange(2, 5)
    n_comp = R.randrange(1, 4)
    decls, obs_keys, comp_keys = [], [], []
    per_owner = {o: 0 for o in range(n_owner)}
    kinds = ["obs"] * n_obs + ["comp"] * n_comp
    R.shuffle(kinds)
    for k in kinds:
        o = R.randrange(n_owner)
        n = per_owner[o]
        per_owner[o] += 1
        decls.append(f"{o}.{n}.{k}")
        (obs_keys if k == "obs" else comp_keys).append((o, n))
    nh = R.randrange(1, 4)
    progs = {}
    if mode == "hread":
        for h in range(nh):
            progs[h] = [R.randrange(n_comp) for _ in range(R.choice([0, 1, 1, 2]))]
        if not any(progs.values()):
            progs[0] = [R.randrange(n_comp)]
    ptxt = ",".join(f"{h}:{'.'.join(map(str, cs))}" for h, cs in progs.items()) or "-"
    lines = [f"scenario comp {','.join(decls)} {ptxt}"]
    defined = []
    pending = list(range(n_comp))
    total = n_ops or R.randrange(8, 30)
    dead = set()

    def define():
        c = pending.pop(0)
        o, n = comp_keys[c]
        t = gen_tree(R, R.choice([1, 2, 2, 3]), obs_keys, list(defined), mode == "write", root=(mode == "hread" or R.random() < 0.9),
                     p_fail=0.3 if mode == "raise" else 0.0)
        lines.append(f"define {c} {o} {n} {fmt_tree(t)}")
        defined.append(c)

    for _ in range(R.randrange(0, 3)):
        o, n = R.choice(obs_keys)
        lines.append(f"assign {o} {n} {gen_val(R)}")
    define()
    for _ in range(total):
        k = R.random()
        if pending and k < 0.25:
            define()
        elif k < 0.62:
            o, n = R.choice(obs_keys)
            lines.append(f"assign {o} {n} {gen_val(R)}")
        elif k < 0.90:
            lines.append(f"read {R.choice(defined)}")
        elif k < 0.96:
            live = [h for h in range(nh) if h not in dead]
            if live:
                h = R.choice(live)
                # a handler that reads Computables is only subscribed to Observables: it then runs outside any
                # evaluation (what it reads would otherwise be captured by the evaluating Computed)
                o, n = R.choice(obs_keys if progs.get(h) else obs_keys + comp_keys)
                lines.append(f"observe {o} {n} {h}")
        elif k < 0.98:
            o, n = R.choice(obs_keys + comp_keys)
            live = [h for h in range(nh) if h not in dead]
            if live:
                lines.append(f"unobserve {o} {n} {R.choice(live)}")
        else:
            live = [h for h in range(nh) if h not in dead]
            if live:
                h = R.choice(live)
                dead.add(h)
                lines.append(f"drop {h}")
    while pending and R.random() < 0.7:
        define()
        lines.append(f"read {defined[-1]}")
    return core.Scenario(lines, {})


def exhaustive_trees():
    """every tree of depth <= 2 over two Observables a=(0,0), b=(0,1) with 2-way branching and results in {0,1}"""
    leaves = [("ret", 0), ("ret", 1)]
    inner = list(leaves)
    for n in (0, 1):
        for l in leaves:
            for r in leaves:
                inner.append(("read", 0, n, [l, r]))
    for n in (0, 1):
        for l in inner:
            for r in inner:
                yield ("read", 0, n, [l, r])


EX_OPS = ["assign 0 0 0", "assign 0 0 1", "assign 0 1 0", "assign 0 1 1", "read 0", "read 1"]


def exhaustive_chunk(args):
    """worker: all op sequences of length 4 for a slice of the trees; c1 = 10*c0 when a == 1 (a chain that switches)"""
    import itertools

    trees, lo, hi = args
    out = []
    chain = "( read 0 0 ( ret 5 ) ( readc 0 ( ret 0 ) ( ret 10 ) ) )"
    for t in trees[lo:hi]:
        head = ["scenario comp 0.0.obs,0.1.obs,0.2.comp,0.3.comp -", f"define 0 0 2 {fmt_tree(t)}", f"define 1 0 3 {chain}"]
        for seq in itertools.product(EX_OPS, repeat=4):
            sc = core.Scenario(head + list(seq), {})
            obs = run_comp(sc)
            cl = oracle_comp(sc, obs)
            out.append((sc.lines, obs, cl))
    return out


# ------------------------------------------------------------------------------------------
# oracle: C17's clauses on the implementation's trace


def spec_eval(comps, store, c, depth=0):
    """what the function of Computed c returns for the given Observable values (pure trees only): a value, "raise" (it
    arrives at a `fail`, possibly in the function of a Computable it reads), or "exc" (not covered: assignments,
    undefined Computables)"""
    if c not in comps or depth > 50:
        return "exc"
    t = comps[c][2]
    while True:
        if t[0] == "ret":
            return t[1]
        if t[0] == "fail":
            return "raise"
        if t[0] == "read":
            t = pick(t[3], store[f"{t[1]}.{t[2]}"])
        elif t[0] == "readc":
            v = spec_eval(comps, store, t[1], depth + 1)
            if v in ("exc", "raise"):
                return v
            t = pick(t[2], v)
        else:
            return "exc"


def sources_of(last_reads, c, seen=None):
    """the Observables Computable c depends on: the ones its last completed evaluation read and, through the Computables it
    read, the ones those depend on"""
    seen = set() if seen is None else seen
    if c in seen:
        return []
    seen.add(c)
    out = []
    for ref, _ in last_reads.get(c) or []:
        if ref.startswith("c"):
            out += sources_of(last_reads, int(ref[1:]), seen)
        else:
            out.append(ref)
    return out


def oracle_comp(sc, obs):
    tr = sc.meta.get("trace") or []
    bad = []
    comps = {}
    writes = False
    last_reads = {}      # c -> reads of its last completed evaluation, or None after a failed one
    stack = []           # evaluations in progress: [c, reads]
    record = []          # Observables read, by whichever function, since the outermost evaluation in progress began
    hread_seen = False   # a user handler has read a Computable while being notified (the history of finding G7)
    nested_write = False # a function other than the one read at top level has assigned an Observable (history of G16)
    ran = set()
    for ev in tr:
        k = ev[0]
        if k == "hread":
            hread_seen = True
            if not writes and len(ev) > 4:
                # G7 repaired: a handler notified by an Observable reads what the function gives for the values as they
                # are now (the new value is stored, every dependent is dirty before the handler runs)
                want = spec_eval(comps, ev[4], ev[2])
                if want not in ("raise", "exc") and want != ev[3]:
                    bad.append(f"stale-in-handler: handler {ev[1]} read Computable {ev[2]} = {ev[3]} while notified, "
                               f"its function evaluated then gives {want}")
        if k == "op":
            w = ev[1].split()
            if w[0] == "define":
                tree, _ = parse_tree(w[4:])
                comps[int(w[1])] = (int(w[2]), int(w[3]), tree)
                writes = writes or has_write(tree)
            cur_op = w
            ran = set()          # Computables whose function ran during this operation
        elif k == "eval-start":
            _, c, store = ev
            ran.add(c)
            if not writes and c in last_reads and last_reads[c] is not None:
                changed = False
                for ref, v in last_reads[c]:
                    now = spec_eval(comps, store, int(ref[1:])) if ref.startswith("c") else store[ref]
                    if now != v:
                        changed = True
                if not changed:
                    bad.append(f"needless{'-after-handler-read' if hread_seen else ''}: function of {c} re-ran during `{' '.join(cur_op)}` although every value it read last time "
                               f"({last_reads[c]}) is unchanged")
            stack.append([c, []])
        elif k == "eval-read":
            stack[-1][1].append((ev[2], ev[3]))
            if not ev[2].startswith("c"):
                record.append((ev[2], ev[1]))
            else:
                # G15: the function depends on whatever the Computable it reads depends on — also when that one was
                # served from its cache and read nothing now: the Observables its last evaluation read, and so on
                for kk in sources_of(last_reads, int(ev[2][1:])):
                    record.append((kk, int(ev[2][1:])))
        elif k == "eval-write":
            _, c, key, v, how = ev
            readers = [rc for kk, rc in record if kk == key]
            if how == "done" and (len(stack) > 1 or (cur_op[0] in ("read", "define") and int(cur_op[1]) != c)):
                # an assignment by a function that is not the one being read at top level: it runs inside another
                # function or inside a dirty pre-check (the history of the open finding G16)
                nested_write = True
            if how == "done" and readers:
                # a Computable that is being evaluated depends on `key` — its own function read it, or the function of
                # a Computable evaluated for it did — and the evaluation assigned it: a cycle
                who = "read" if c in readers else f"depends (through Computable {readers[0]}) on"
                bad.append(f"cycle-not-rejected: function of {c} assigned {key}, which the evaluation in progress {who} "
                           f"(reads so far: {[kk for kk, _ in record]}), without being rejected")
            if how == "rejected" and not readers:
                bad.append(f"cycle-falsely-rejected: function of {c} was rejected for assigning {key}, which nothing "
                           f"read since the outermost evaluation began (reads so far: {[kk for kk, _ in record]})")
        elif k == "eval-end":
            c, reads = stack.pop()
            last_reads[c] = None if ev[2] == "exc" else reads
            if not stack:
                record = []
        elif k == "done":
            head, store = ev[1], ev[2]
            if cur_op[0] in ("read", "define") and not writes:
                c = int(cur_op[1])
                want = spec_eval(comps, store, c)
                sfx = "-after-handler-read" if hread_seen else ""
                if head.startswith("ok"):
                    if want == "raise":
                        bad.append(f"stale{sfx}: `{' '.join(cur_op)}` returned {head.split()[1]}, its function evaluated now raises")
                    elif want != "exc" and str(want) != head.split()[1]:
                        bad.append(f"stale{sfx}: `{' '.join(cur_op)}` returned {head.split()[1]}, its function evaluated now gives {want}")
                elif head == "err Zero" and want not in ("raise", "exc"):
                    bad.append(f"raised-needlessly{sfx}: `{' '.join(cur_op)}` raised although its function evaluated now returns {want}")
            elif cur_op[0] in ("read", "define") and head.startswith("ok") and int(cur_op[1]) not in ran:
                # functions assign in this scenario ("evaluated from scratch" is no yardstick then), but a value served
                # without running the function must still rest on remembered values that are the present ones
                c = int(cur_op[1])
                for ref, v in last_reads.get(c) or []:
                    now = spec_eval(comps, store, int(ref[1:])) if ref.startswith("c") else store[ref]
                    if now != "exc" and now != v:
                        name = "stale-after-nested-write" if nested_write else "stale-cached"
                        bad.append(f"{name}: `{' '.join(cur_op)}` returned {head.split()[1]} without running the function of {c}, "
                                   f"which read {ref} = {v} last time; it is {now} now")
                        break
    return bad


def tags_comp(sc, obs):
    decls, progs = parse_header(sc.lines[0])
    yield f"owners:{len({o for o, _, _ in decls})}"
    if any(progs.values()):
        yield "mode:handler-reads-computables"
    tr = sc.meta.get("trace") or []
    depth = 0
    mx = 0
    direct = set()       # Observables read by a function that ran during the outermost evaluation in progress
    top = ["-"]
    for e in tr:
        if e[0] == "eval-start":
            depth += 1
            mx = max(mx, depth)
            if depth == 1 and top[0] in ("read", "define") and int(top[1]) != e[1]:
                yield "branch:evaluation-inside-top-level-pre-check"
        elif e[0] == "eval-end":
            depth -= 1
            if depth == 0:
                direct = set()
            if e[2] == "exc":
                yield "branch:evaluation-raised"
        elif e[0] == "eval-read" and not e[2].startswith("c"):
            direct.add(e[2])
        elif e[0] == "eval-read":
            yield "branch:function-reads-computable"
        elif e[0] == "eval-write":
            yield "branch:write-" + e[4]
            if e[4] == "rejected" and e[2] not in direct:
                yield "branch:write-rejected-through-cached-computable"
        elif e[0] == "op":
            top = e[1].split()
    if mx >= 2:
        yield "branch:nested-evaluation"
    for l, o in zip(sc.lines[1:], obs[1:]):
        yield "op:" + l.split()[0]
        if o.startswith("err"):
            yield "reject:" + l.split()[0] + ":" + o.split()[1]
    for cl in oracle_comp(sc, obs):
        if cl.startswith("stale-after-nested-write"):
            yield "known:G16-stale-after-write-inside-pre-check"
    # a read that did not re-run the function although the Computed was dirty / a branch switch
    prev = None
    for l, o in zip(sc.lines[1:], obs[1:]):
        evs = o.split("|")[-1].strip() if "|" in o else ""
        if l.startswith("read") and prev is not None and evs == prev:
            yield "branch:read-served-from-cache"
        prev = evs


# ------------------------------------------------------------------------------------------
# open finding G17: an owner the function read is garbage-collected (quantifier item; not in the model)

GC_WITNESS = ["scenario gc-witness", "define c = a.y + (b.x if b is alive else 0)", "read c", "drop-owner b", "read c"]


def run_gc_witness(sc):
    """a.y = 1, b.x = 5, c = Computed(a.y + (b.x if b alive else 0)) on a, the function reaching b through a weak reference;
    b is collected; c is read again.  Observations: the values read and what the function gives when called directly"""
    import gc
    import weakref

    ms, _ = _mesa()

    class A(ms.HasObservables):
        y = ms.Observable()
        c = ms.Computable()

    class B(ms.HasObservables):
        x = ms.Observable()

    a, b = A(), B()
    a.y, b.x = 1, 5
    rb = weakref.ref(b)

    def f():
        bb = rb()
        return a.y + (bb.x if bb is not None else 0)

    obs = ["ok", "ok 0"]
    a.c = ms.Computed(f)
    obs.append(f"ok {a.c}")
    del b
    gc.collect()
    obs.append("ok 0" if rb() is None else "err Alive")
    got = a.c
    obs.append(f"ok {got}")
    sc.meta["gc"] = {"served": got, "now": f()}
    return obs


def oracle_gc_witness(sc, obs):
    g = sc.meta.get("gc") or {}
    if obs[3] == "ok 0" and g.get("served") != g.get("now"):
        return [f"stale-after-owner-collected: reading c returned {g.get('served')} after the owner b it read was garbage-collected, "
                f"its function evaluated now gives {g.get('now')}"]
    return []
