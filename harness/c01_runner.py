"""Runs one seeded mesa program and prints its trajectory digests as JSON (property C01).

Used in-process (import run_spec) and as a subprocess (`python -m harness.c01_runner '<json spec>'`) under
different PYTHONHASHSEED values.  A spec is
  {"prog": "example:<Name>" | "api", "seed": int, "form": "seed"|"rng_int"|"rng_seq"|"rng_gen",
   "steps": n, "ops": [...api op codes...], "grid": "moore|vn|hex|network|single|multi|none", "n": agents,
   "warm": [spec, ...]   # programs to run first in the same process (prior in-process history)
  }
Output: {"digests": [per-step sha1], "global_py_unchanged": bool, "global_np_unchanged": bool,
         "derived_ok": [names of derived collections whose .random is not model.random], "reseed_ok": bool}
"""
from __future__ import annotations

import hashlib
import json
import os
import random
import sys
import warnings

warnings.simplefilter("ignore")
REPO = os.environ.get("MESA_REPO", "/repo")
if REPO not in sys.path[:1]:
    sys.path.insert(0, REPO)

import numpy as np  # noqa: E402


def _simple(v):
    if isinstance(v, (bool, int, str, type(None))):
        return v
    if isinstance(v, float):
        return repr(v)
    if isinstance(v, (np.integer,)):
        return int(v)
    if isinstance(v, (np.floating,)):
        return repr(float(v))
    if isinstance(v, (tuple, list)) and len(v) <= 8 and all(isinstance(x, (bool, int, float, str, np.integer, np.floating)) for x in v):
        return tuple(_simple(x) for x in v)
    if isinstance(v, np.ndarray) and v.size <= 8:
        return tuple(repr(float(x)) for x in v.ravel())
    if hasattr(v, "name") and hasattr(v, "value") and isinstance(getattr(v, "value"), (int, str)):  # enums
        return str(v)
    return None


def agent_record(a):
    rec = [type(a).__name__, a.unique_id]
    loc = None
    for attr in ("pos", "position"):
        try:
            if getattr(a, attr, None) is not None:
                loc = _simple(getattr(a, attr))
                break
        except Exception:
            pass
    cell = getattr(a, "cell", None)
    if cell is not None and hasattr(cell, "coordinate"):
        loc = (loc, _simple(cell.coordinate))
    rec.append(loc)
    for k in sorted(vars(a)):
        if k.startswith("_") or k in ("model", "pos", "cell", "random", "space"):
            continue
        sv = _simple(vars(a)[k])
        if sv is not None or vars(a)[k] is None:
            rec.append((k, sv))
    return tuple(rec)


def digest(model):
    recs = [agent_record(a) for a in model.agents]
    extra = []
    dc = getattr(model, "datacollector", None)
    if dc is not None:
        extra.append(tuple((k, tuple(_simple(x) for x in v)) for k, v in sorted(dc.model_vars.items())))
        try:
            extra.append(tuple((k, tuple(map(str, rows))) for k, rows in sorted(dc._agent_records.items())))
        except Exception:
            pass
    return hashlib.sha1(repr((model.steps, recs, extra)).encode()).hexdigest()


def seed_kwargs(form, seed):
    if form == "seed":
        return {"seed": seed}
    if form == "rng_int":
        return {"rng": seed}
    if form == "rng_seq":
        return {"rng": np.random.SeedSequence(seed)}
    if form == "rng_gen":
        return {"rng": np.random.default_rng(seed)}
    if form == "seed_str":
        # a seed numpy does not accept (Model.__init__'s TypeError branch: the numpy generator is seeded from model.random);
        # random.seed(str) hashes the text with sha512, so the stream must not depend on PYTHONHASHSEED
        return {"seed": f"run-{seed}"}
    raise ValueError(form)


EXAMPLES = {
    "BoltzmannWealth": ("mesa.examples.basic.boltzmann_wealth_model.model", "BoltzmannWealth", {"n": 12, "width": 4, "height": 4}),
    "Schelling": ("mesa.examples.basic.schelling.model", "Schelling", {"height": 6, "width": 6, "density": 0.7}),
    "VirusOnNetwork": ("mesa.examples.basic.virus_on_network.model", "VirusOnNetwork", {"num_nodes": 10}),
    "ConwaysGameOfLife": ("mesa.examples.basic.conways_game_of_life.model", "ConwaysGameOfLife", {"width": 6, "height": 6}),
    "BoidFlockers": ("mesa.examples.basic.boid_flockers.model", "BoidFlockers", {"population_size": 10, "width": 20, "height": 20}),
    "EpsteinCivilViolence": ("mesa.examples.advanced.epstein_civil_violence.model", "EpsteinCivilViolence", {"width": 8, "height": 8}),
    "PdGrid": ("mesa.examples.advanced.pd_grid.model", "PdGrid", {"width": 5, "height": 5}),
    "SugarscapeG1mt": ("mesa.examples.advanced.sugarscape_g1mt.model", "SugarscapeG1mt", {"initial_population": 12}),
    "WolfSheep": ("mesa.examples.advanced.wolf_sheep.model", "WolfSheep", {"width": 6, "height": 6, "initial_sheep": 8, "initial_wolves": 4}),
}


# other valid constructor arguments of the same classes: used for the prior in-process history ("the same model class built with
# other arguments earlier in this process must not change a later default run": class-level state)
ALT = {
    "BoltzmannWealth": {"n": 5, "width": 3, "height": 3},
    "Schelling": {"density": 0.5, "minority_pc": 0.4, "homophily": 0.3, "radius": 2},
    "VirusOnNetwork": {"num_nodes": 7, "avg_node_degree": 2, "initial_outbreak_size": 2, "virus_spread_chance": 0.9},
    "ConwaysGameOfLife": {"width": 4, "height": 5, "initial_fraction_alive": 0.6},
    "BoidFlockers": {"population_size": 5, "speed": 2, "vision": 5, "separation": 1},
    "EpsteinCivilViolence": {"width": 6, "height": 6, "citizen_density": 0.5, "cop_density": 0.1, "legitimacy": 0.5},
    "PdGrid": {"width": 4, "height": 4, "activation_order": "Sequential",
               "payoffs": {("C", "C"): 2, ("C", "D"): -1, ("D", "C"): 3, ("D", "D"): 0.5}},
    "SugarscapeG1mt": {"initial_population": 6, "endowment_min": 10, "endowment_max": 20},
    "WolfSheep": {"width": 5, "height": 5, "initial_sheep": 3, "initial_wolves": 2, "grass": True, "sheep_reproduce": 0.2},
}


def build_example(name, form, seed, alt=False):
    import importlib
    import inspect

    modname, cls, kw = EXAMPLES[name]
    if alt:
        kw = {**kw, **ALT.get(name, {})}
    klass = getattr(importlib.import_module(modname), cls)
    params = inspect.signature(klass.__init__).parameters
    sk = seed_kwargs(form, seed)
    if not all(k in params or any(p.kind == p.VAR_KEYWORD for p in params.values()) for k in sk):
        sk = {"seed": seed}  # examples take `seed` only
    kw = {k: v for k, v in kw.items() if k in params}
    if "simulator" in params:
        from mesa.experimental.devs import ABMSimulator

        kw["simulator"] = ABMSimulator()
    return klass(**kw, **sk), ("seed" if "seed" in sk else form)


# ---------------------------------------------------------------------------------------
# generated API programs


def build_api(spec, rng_override=None):
    import networkx as nx
    from mesa import Agent, Model
    from mesa.discrete_space import CellAgent, HexGrid, Network, OrthogonalMooreGrid, OrthogonalVonNeumannGrid
    from mesa.space import MultiGrid, SingleGrid

    gk = spec.get("grid", "moore")
    n = spec.get("n", 6)
    ops = spec.get("ops", [])

    class Walker(CellAgent):
        def __init__(self, model, wealth=0):
            super().__init__(model)
            self.wealth = wealth
            self.moves = 0

        def act(self):
            if self.cell is not None:
                self.cell = self.cell.neighborhood.select_random_cell()
                self.moves += 1
            self.wealth += self.random.randint(0, 3)

    class Plain(Agent):
        def __init__(self, model, wealth=0):
            super().__init__(model)
            self.wealth = wealth
            self.pos = None

        def act(self):
            self.wealth += self.random.randrange(5)
            g = self.model.grid
            if self.pos is not None:
                if self.model.gk == "single":
                    g.move_to_empty(self)
                else:
                    nb = g.get_neighborhood(self.pos, moore=True, include_center=False)
                    g.move_agent_to_one_of(self, list(nb), selection=self.model.random.choice(["random", "closest"]))

    class M(Model):
        def __init__(self, **kw):
            super().__init__(**kw)
            self.gk = gk
            if gk == "moore":
                self.grid = OrthogonalMooreGrid((4, 4), torus=True, random=self.random)
            elif gk == "vn":
                self.grid = OrthogonalVonNeumannGrid((3, 4), torus=False, random=self.random)
            elif gk == "hex":
                self.grid = HexGrid((4, 4), torus=True, random=self.random)
            elif gk == "network":
                self.grid = Network(nx.cycle_graph(9), random=self.random)
            elif gk == "network_str":
                # string-labelled nodes: anything that iterates a set of labels depends on PYTHONHASHSEED
                g0 = nx.relabel_nodes(nx.petersen_graph(), {i: f"node-{i}" for i in range(10)})
                self.grid = Network(g0, random=self.random)
            elif gk == "single":
                self.grid = SingleGrid(4, 4, torus=True)
            elif gk == "multi":
                self.grid = MultiGrid(4, 3, torus=False)
            else:
                self.grid = None
            if gk in ("moore", "vn", "hex", "network", "network_str"):
                ws = Walker.create_agents(self, n, wealth=self.rng.integers(0, 5, n))
                for a in ws:
                    a.cell = self.grid.select_random_empty_cell() if gk != "moore" else self.grid.all_cells.select_random_cell()
            else:
                ps = Plain.create_agents(self, n, wealth=list(range(n)))
                if self.grid is not None:
                    for a in ps:
                        if gk == "single":
                            self.grid.move_to_empty(a)
                        else:
                            self.grid.place_agent(a, (self.random.randrange(self.grid.width), self.random.randrange(self.grid.height)))

        def step(self):
            for op in ops:
                self.apply(op)

        def apply(self, op):
            A = self.agents
            if op == "shuffle_do":
                A.shuffle_do("act")
            elif op == "do":
                A.do("act")
            elif op == "shuffle_inplace":
                A.shuffle(inplace=True)
            elif op == "select_frac":
                A.select(at_most=0.5).shuffle().do("act")
            elif op == "select_rich":
                A.select(lambda a: a.wealth > 2, at_most=3).do("act")
            elif op == "groupby":
                for _, grp in A.groupby(lambda a: a.wealth % 2):
                    grp.shuffle_do("act")
            elif op == "create":
                cls = type(A[0]) if len(A) else None
                if cls is not None:
                    new = cls.create_agents(self, 2, wealth=1)
                    for a in new:
                        if hasattr(a, "cell") and self.grid is not None:
                            a.cell = self.grid.all_cells.select_random_cell()
            elif op == "remove":
                if len(A) > 2:
                    a = self.random.choice(list(A))
                    if getattr(a, "pos", None) is not None and gk in ("single", "multi"):
                        self.grid.remove_agent(a)
                    a.remove()
            elif op == "by_type":
                for _, s in self.agents_by_type.items():
                    s.shuffle_do("act")
            elif op == "np_rng":
                for a, w in zip(A, self.rng.permutation(len(A))):
                    a.wealth += int(w) % 2
            elif op == "cell_agents":
                if gk in ("moore", "vn", "hex", "network", "network_str"):
                    c = self.grid.all_cells.select_random_cell()
                    ags = list(c.neighborhood.agents)
                    if ags:
                        self.random.choice(ags).wealth += 1
                    a = self.grid.all_cells.select_random_agent() if len(self.grid.agents) else None
                    if a is not None:
                        a.wealth += 1
            elif op == "sort":
                A.sort("wealth", ascending=bool(self.random.getrandbits(1))).do("act")
            else:
                raise ValueError(op)

    if rng_override is not None:
        return M(rng=rng_override)
    return M(**seed_kwargs(spec["form"], spec["seed"]))


def derived_bad(model):
    """names of derived collections whose generator is not the model's"""
    R = model.random
    bad = []

    def chk(name, obj):
        if getattr(obj, "random", R) is not R:
            bad.append(name)

    A = model.agents
    chk("agents", A)
    try:
        chk("select", A.select())
        chk("select_at_most", A.select(at_most=2))
        chk("sort", A.sort(lambda a: a.unique_id))
        state = R.getstate()
        chk("shuffle", A.shuffle())
        R.setstate(state)
        half = A.select(lambda a: a.unique_id % 2 == 0)
        chk("union", half | A)
        chk("intersection", A & half)
        chk("difference", A - half)
        chk("symmetric_difference", half ^ A)
        for t, s in model.agents_by_type.items():
            chk(f"by_type[{t.__name__}]", s)
        for k, g in A.groupby(lambda a: a.unique_id % 2):
            chk(f"group[{k}]", g)
    except Exception as e:  # noqa: BLE001
        bad.append(f"error:{type(e).__name__}")
    g = getattr(model, "grid", None)
    if g is not None and hasattr(g, "all_cells"):
        chk("grid", g)
        chk("all_cells", g.all_cells)
        chk("empties", g.empties)
        chk("grid.agents", g.agents)
        c = g.all_cells.cells[0]
        chk("cell", c)
        chk("neighborhood", c.neighborhood)
        chk("get_neighborhood(2)", c.get_neighborhood(2))
        chk("cells.select", g.all_cells.select(lambda c: True, at_most=2))
    return bad


def churn():
    """prior in-process history: many short-lived models and agents, then a collection pass, so that later
    objects are likely to land on recycled addresses"""
    import gc

    from mesa import Agent, Model

    for _ in range(60):
        m = Model(seed=1)
        Agent.create_agents(m, 7)
        del m
    gc.collect()


def run_spec(spec):
    for w in spec.get("warm", []):
        run_spec(w)
    if spec.get("warm"):
        churn()
    from mesa import Model

    py0, np0 = random.getstate(), np.random.get_state()
    form = spec["form"]
    if spec["prog"].startswith("example:"):
        model, form = build_example(spec["prog"].split(":", 1)[1], form, spec["seed"], alt=bool(spec.get("alt")))
    else:
        model = build_api(spec)
    digs = [digest(model)]
    for _ in range(spec.get("steps", 3)):
        model.step()
        digs.append(digest(model))
    bad = derived_bad(model)
    # re-seeding with the seed the generators started from replays the stream: compare with
    # brand-new generators seeded the same way
    model.reset_randomizer()
    model.reset_rng()
    # ... and re-seeding keeps every derived collection on the model's generator (the generator object is re-seeded in
    # place, never replaced behind the collections' back)
    bad += ["after-reset:" + b for b in derived_bad(model)]
    ref = Model(**seed_kwargs(form, spec["seed"]))
    reseed_ok = ([model.random.random() for _ in range(4)] == [ref.random.random() for _ in range(4)]
                 and model.rng.random(4).tolist() == ref.rng.random(4).tolist())
    # the same for a plain Model under every seed / rng form
    for f in ("seed", "rng_int", "rng_seq", "rng_gen", "seed_str"):
        m1 = Model(**seed_kwargs(f, spec["seed"]))
        first = ([m1.random.random() for _ in range(3)], m1.rng.random(3).tolist())
        m1.reset_randomizer()
        m1.reset_rng()
        again = ([m1.random.random() for _ in range(3)], m1.rng.random(3).tolist())
        if first != again:
            reseed_ok = False
        # re-seeding with a NEW seed gives the streams of a brand-new model built with that seed, and that seed is what a
        # later argument-less reset replays
        s2 = spec["seed"] + 17
        m1.reset_randomizer(seed=s2)
        m1.reset_rng(rng=s2)
        fresh = Model(seed=s2)
        new1 = ([m1.random.random() for _ in range(3)], m1.rng.random(3).tolist())
        if new1 != ([fresh.random.random() for _ in range(3)], fresh.rng.random(3).tolist()):
            reseed_ok = False
        m1.reset_randomizer()
        m1.reset_rng()
        if new1 != ([m1.random.random() for _ in range(3)], m1.rng.random(3).tolist()):
            reseed_ok = False
    # the same seed OBJECT handed to two models gives the same trajectory (SeedSequence is a value, not a stream)
    same_obj_ok = True
    if spec["prog"] == "api" and spec["form"] == "rng_seq":
        seq = np.random.SeedSequence(spec["seed"])
        runs = []
        for _ in range(2):
            mm = build_api(spec, rng_override=seq)
            d = [digest(mm)]
            for _ in range(2):
                mm.step()
                d.append(digest(mm))
            runs.append(d)
        same_obj_ok = runs[0] == runs[1] == digs[:3]
    # an unseeded model must not take its seed from (or otherwise disturb) the process-global generators either
    m0 = Model()
    m0.random.random()
    m0.rng.random()
    py1, np1 = random.getstate(), np.random.get_state()
    return {
        "digests": digs,
        "global_py_unchanged": py0 == py1,
        "global_np_unchanged": bool(np0[0] == np1[0] and (np0[1] == np1[1]).all() and np0[2:] == np1[2:]),
        "derived_bad": bad,
        "reseed_ok": reseed_ok,
        "same_obj_ok": same_obj_ok,
    }


class BatchProbe:
    pass


def _make_batch_probe():
    import mesa

    class Wealthy(mesa.Agent):
        def __init__(self, model):
            super().__init__(model)
            self.wealth = model.random.randrange(100)

        def step(self):
            self.wealth += self.random.randrange(10) + int(self.model.rng.integers(0, 3))

    class BatchProbeModel(mesa.Model):
        """top-level (picklable) model for batch_run process comparisons; takes rng="""

        def __init__(self, n=5, rng=None):
            super().__init__(rng=rng)
            Wealthy.create_agents(self, n)
            self.datacollector = mesa.DataCollector(model_reporters={"total": lambda m: sum(a.wealth for a in m.agents)},
                                                    agent_reporters={"wealth": "wealth"})
            self.datacollector.collect(self)

        def step(self):
            self.agents.shuffle_do("step")
            self.datacollector.collect(self)

    return Wealthy, BatchProbeModel


Wealthy, BatchProbeModel = None, None
try:
    Wealthy, BatchProbeModel = _make_batch_probe()
    Wealthy.__qualname__ = "Wealthy"
    BatchProbeModel.__qualname__ = "BatchProbeModel"
except Exception:  # noqa: BLE001
    pass


if __name__ == "__main__":
    print(json.dumps(run_spec(json.loads(sys.argv[1]))))
