"""Implementation runners, generators and trace oracles shared by C16 / C17 / C18-signals.

Protocol: see lean/Driver/Signals.lean.  Observables are named by small ints (attribute `o<k>`),
handlers by small ints (even = plain function, odd = bound method); the harness holds the only
strong reference to every handler, so `drop h` kills it at once (refcounting).  A handler with a program
(`prog:h:ACT,…` in the header) makes those registry calls — observe / unobserve / clear_all_subscriptions — every
time it is called, while the notification that called it is still going on.
"""
from __future__ import annotations

from . import core

TYPES = ["change", "append", "insert", "remove", "replace"]
KIND_TYPES = {"obs": ["change"], "lst": ["remove", "replace", "change", "insert", "append"]}
ERR = {ValueError: "err Value", KeyError: "err Key", IndexError: "err Index", AttributeError: "err Attr",
       ZeroDivisionError: "err Zero"}     # err Zero: a Computed's function raised on its own (C17, `( fail )`)


def _mesa():
    core.import_mesa()
    from mesa.experimental import mesa_signals as ms
    from mesa.experimental.mesa_signals import mesa_signal as core_ms

    return ms, core_ms


# open finding G13b (known_findings.d/C16.txt): `_mesa_notify` asks `observer in current` - equality of weak references, for a
# WeakMethod the owners' `==` - whether a handler is still subscribed at its turn: one that has unsubscribed while notified is
# called again if the handler of an *equal* owner is still in the list.  Until that is repaired the generator does not combine
# value-equal owners (`veq`) with handlers that make registry calls (`prog:`); the witness below is replayed on every run.
VEQ_WITH_PROGS = True    # G13b is repaired: value-equal owners and calling handlers are combined
G13B_WITNESS = ["scenario sig 0:obs:change 1:lst:remove,replace,change,insert,append prog:1:u.*.*.1 veq",
                "observe 0 change 3", "observe 0 change 1", "observe 0 * 1", "set 0 1", "subs", "set 0 2"]


class SourceBroke(Exception):
    """raised by the iterable handed to extend / += (`lextendsrc`, `liaddsrc`) when it is asked for one item too many"""


def failing_source(values, k):
    """a generator that yields values[0..k) and raises when asked for the next one (k >= len(values): it just ends)"""
    for i, v in enumerate(values):
        if i == k:
            raise SourceBroke(k)
        yield v


def err_of(e):
    for k, v in ERR.items():
        if isinstance(e, k):
            return v
    raise e


def fmt_ints(l):
    return "[" + ",".join(str(int(x)) for x in l) + "]"


def canon_val(v):
    if v is None:
        return "N"
    if isinstance(v, bool):
        return str(int(v))
    if isinstance(v, int):
        return str(v)
    return fmt_ints(list(v))


def canon_idx(i):
    if i is None:
        return "N"
    if isinstance(i, slice):
        if i.step is None and i.start is not None and i.stop is not None:
            return f"{i.start}..{i.stop}"
        return "..".join("N" if x is None else str(x) for x in (i.start, i.stop, i.step))
    return str(i)


def oi(s):
    """an optional int on a protocol line (N = None)"""
    return None if s == "N" else int(s)


def parse_ints(s):
    return [] if s == "-" else [int(x) for x in s.split(",")]


def ints_arg(l):
    return ",".join(map(str, l)) if l else "-"


# ==========================================================================================
# C16: one owner, several Observables / ObservableLists, passive handlers


class _HObj:
    def __init__(self, impl, hid):
        self.impl, self.hid = impl, hid

    def m(self, signal):
        self.impl.deliver(self.hid, signal)


class _HVal(_HObj):
    """owner of a bound-method handler that is a *value object* (header token `veq`), as a dataclass recorder is: two
    of them compare equal (`__eq__`, no `__hash__`) exactly while they have recorded the same signals - in particular
    two fresh ones.  Their bound methods are nevertheless different handlers (a bound method compares `__self__` by
    identity): each subscription, unobserve and delivery concerns the one handler object that was passed."""

    __hash__ = None

    def __init__(self, impl, hid):
        super().__init__(impl, hid)
        self.log = []

    def __eq__(self, other):
        return isinstance(other, _HVal) and self.log == other.log

    def __ne__(self, other):
        return not self.__eq__(other)

    def m(self, signal):
        self.log.append((signal.name, signal.type, canon_val(signal.old), canon_val(signal.new), canon_idx(signal.get("index"))))
        self.impl.deliver(self.hid, signal)


class SigImpl:
    def __init__(self, header):
        ms, core_ms = _mesa()
        self.ms = ms
        toks = header.split()[2:]
        self.natural = "natural" in toks
        self.veq = "veq" in toks          # owners of the bound-method handlers are value objects (_HVal)
        self.progs = {}
        groups, cur = [], []
        for t in toks:
            if t in ("natural", "veq"):
                continue
            if t.startswith("prog:"):
                _, h, acts = t.split(":")
                self.progs[int(h)] = acts.split(",")
                continue
            if t == "|":
                groups.append(cur)
                cur = []
                continue
            if t.startswith("ovr:"):
                # this (base) class defines the name as well; the more derived definition overrides it
                _, n, k = t.split(":")
                cur.append((int(n), k, None))
                continue
            n, k, ts = t.split(":")
            cur.append((int(n), k, ts.split(",")))
        groups.append(cur)
        self.decls = [d for g in groups for d in g if d[2] is not None]
        self.kind = {n: k for n, k, _ in self.decls}
        impl = self

        # class hierarchy: first group = most derived class, following groups = its bases (MRO order)
        base = None
        for gi in range(len(groups) - 1, -1, -1):
            ns = {}
            for n, k, ts in groups[gi]:
                d = ms.Observable() if k == "obs" else ms.ObservableList()
                if ts is None:          # overridden further down the hierarchy
                    ns[f"o{n}"] = d
                    continue
                assert set(ts) == set(d.signal_types), (ts, d.signal_types)
                if not self.natural:
                    # pin the iteration order of the signal-type set (hash-seed dependent in CPython):
                    # an insertion-ordered mapping behaves as the set for `in` and iteration
                    d.signal_types = dict.fromkeys(ts)
                ns[f"o{n}"] = d
            if base is None:
                def notify(self, observable, old_value, new_value, signal_type, **kwargs):
                    impl.on_notify(self, observable, old_value, new_value, signal_type, kwargs)
                    return ms.HasObservables.notify(self, observable, old_value, new_value, signal_type, **kwargs)

                ns["notify"] = notify
                base = type(f"G{gi}", (ms.HasObservables,), ns)
            else:
                base = type(f"G{gi}", (base,), ns)
        self.inst = base()
        assert list(self.inst.observables.keys()) == [f"o{n}" for n, _, _ in self.decls], (
            list(self.inst.observables.keys()), self.decls)
        self.keep = {}      # hid -> strong reference (function or _HObj)
        self.dead = set()
        self.out = []       # deliveries of the current op
        self.trace = []

    # handlers -----------------------------------------------------------------------------
    def make(self, hid):
        if hid % 2 == 0:
            impl = self

            def fn(signal, hid=hid):
                impl.deliver(hid, signal)

            fn.hid = hid
            return fn, fn
        o = (_HVal if self.veq else _HObj)(self, hid)
        return o, o.m

    def handler(self, hid):
        """callable for handler hid (created on first use); for a dead id a throw-away callable"""
        if hid in self.dead:
            keepalive, h = self.make(hid)
            return keepalive, h
        if hid not in self.keep:
            self.keep[hid], _ = self.make(hid)
        k = self.keep[hid]
        return k, (k if hid % 2 == 0 else k.m)

    @staticmethod
    def hid_of(fn):
        return fn.hid if hasattr(fn, "hid") else fn.__self__.hid

    def deliver(self, hid, signal):
        owner_ok = signal.owner is self.inst
        rec = (hid, int(signal.name[1:]), signal.type, canon_val(signal.old), canon_val(signal.new),
               canon_idx(signal.get("index")))
        self.out.append(rec)
        self.trace.append(("deliver",) + rec + (owner_ok,))
        # the handler's own registry calls, made while it is being notified
        for act in self.progs.get(hid, ()):
            a = act.split(".")
            self.trace.append(("act", hid, act))
            if a[0] == "c":
                self.inst.clear_all_subscriptions(self.sel_name(a[1]))
            else:
                keepalive, h = self.handler(int(a[3]))
                (self.inst.observe if a[0] == "o" else self.inst.unobserve)(self.sel_name(a[1]), self.sel_type(a[2]), h)
                del h, keepalive

    def on_notify(self, inst, name, old, new, typ, kw):
        # `now` = what is behind the observable at the moment the signal is emitted (what a handler that looks at the
        # real object while it is being notified sees)
        self.trace.append(("notify", int(name[1:]), typ, canon_val(old), canon_val(new), canon_idx(kw.get("index")),
                           sorted(kw.keys()), self.value(int(name[1:]))))

    # observations -------------------------------------------------------------------------
    def subs_snapshot(self):
        res = {}
        for n, k, ts in self.decls:
            d = self.inst.subscribers.get(f"o{n}", {})
            for t in TYPES:
                if t in ts:
                    l = []
                    for ref in d.get(t, []):
                        fn = ref()
                        l.append("x" if fn is None else str(self.hid_of(fn)))
                    res[f"{n}/{t}"] = l
        return res

    def fmt_subs(self):
        snap = self.subs_snapshot()
        parts = []
        for n, k, ts in self.decls:
            per = [t + "=" + ",".join(snap[f"{n}/{t}"]) for t in TYPES if t in ts]
            parts.append(f"{n}:" + ";".join(per))
        return " ".join(["ok"] + parts)

    def value(self, n):
        if self.kind[n] == "obs":
            return canon_val(getattr(self.inst, f"_o{n}", None))
        v = getattr(self.inst, f"_o{n}", None)
        return None if v is None else fmt_ints(list(v))

    def values(self):
        return {n: self.value(n) for n in self.kind}

    # operations ---------------------------------------------------------------------------
    def sel_name(self, s):
        return self.ms.All() if s == "*" else f"o{s}"

    def sel_type(self, s):
        return self.ms.All() if s == "*" else s

    def line(self, w):
        k = w[0]
        self.out = []
        inst = self.inst
        if k == "subs":
            return self.fmt_subs()
        if k == "get":
            n = int(w[1])
            v = self.value(n)
            if self.kind[n] == "lst" and v is None:
                return "err Attr"
            return "ok " + v
        self.trace.append(("op", " ".join(w), self.subs_snapshot(), self.values(), sorted(self.dead)))
        try:
            if k == "observe":
                hid = int(w[3])
                keepalive, h = self.handler(hid)
                inst.observe(self.sel_name(w[1]), self.sel_type(w[2]), h)
                del h, keepalive
            elif k == "unobserve":
                keepalive, h = self.handler(int(w[3]))
                inst.unobserve(self.sel_name(w[1]), self.sel_type(w[2]), h)
                del h, keepalive
            elif k == "clear":
                inst.clear_all_subscriptions(self.sel_name(w[1]))
            elif k == "drop":
                hid = int(w[1])
                self.keep.pop(hid, None)
                self.dead.add(hid)
            elif k == "set":
                setattr(inst, f"o{w[1]}", int(w[2]))
            elif k == "lassign":
                vals = parse_ints(w[2])
                src = None
                if vals:
                    # if another ObservableList of the object currently holds exactly these items, assign THAT list
                    # object (`a.archive = a.inbox`): the assignment must copy, not adopt / alias it
                    for j in range(8):
                        if str(j) != w[1]:
                            other = getattr(inst, f"o{j}", None)
                            if other is not None and hasattr(other, "append") and list(other) == vals:
                                src = other
                                break
                setattr(inst, f"o{w[1]}", src if src is not None else vals)
            else:
                name = f"o{w[1]}"
                if k == "liadd":
                    x = getattr(inst, name)
                    x += parse_ints(w[2])
                    setattr(inst, name, x)
                elif k == "liaddsrc":
                    # `obj.lst += src` with an iterable that raises part-way: the assignment is not reached then
                    x = getattr(inst, name)
                    x += failing_source(parse_ints(w[2]), int(w[3]))
                    setattr(inst, name, x)
                elif k == "lextendsrc":
                    getattr(inst, name).extend(failing_source(parse_ints(w[2]), int(w[3])))
                else:
                    lst = getattr(inst, name)
                    if k == "lset":
                        lst[int(w[2])] = int(w[3])
                    elif k == "lsetslice":
                        lst[int(w[2]):int(w[3])] = parse_ints(w[4])
                    elif k == "ldel":
                        del lst[int(w[2])]
                    elif k == "ldelslice":
                        del lst[int(w[2]):int(w[3])]
                    elif k == "lsetslicex":
                        lst[slice(oi(w[2]), oi(w[3]), oi(w[4]))] = parse_ints(w[5])
                    elif k == "ldelslicex":
                        del lst[slice(oi(w[2]), oi(w[3]), oi(w[4]))]
                    elif k == "linsert":
                        lst.insert(int(w[2]), int(w[3]))
                    elif k == "lappend":
                        lst.append(int(w[2]))
                    elif k == "lpop":
                        lst.pop(int(w[2]))
                    elif k == "lremove":
                        lst.remove(int(w[2]))
                    elif k == "lextend":
                        lst.extend(parse_ints(w[2]))
                    elif k == "lreverse":
                        lst.reverse()
                    elif k == "lclear":
                        lst.clear()
                    else:
                        raise AssertionError(w)
        except SourceBroke:
            # the exception of the iterable came out of extend / +=; what was delivered before it is part of the answer
            self.trace.append(("done", "raised", self.subs_snapshot(), self.values()))
            return " ".join(["raised"] + [":".join(map(str, r)) for r in self.out])
        except (ValueError, KeyError, IndexError, AttributeError) as e:
            res = err_of(e)
            self.trace.append(("done", res, self.subs_snapshot(), self.values()))
            return res
        self.trace.append(("done", "ok", self.subs_snapshot(), self.values()))
        return " ".join(["ok"] + [":".join(map(str, r)) for r in self.out])


def run_sig(sc):
    impl = SigImpl(sc.lines[0])
    obs = ["ok"]
    for line in sc.lines[1:]:
        obs.append(impl.line(line.split()))
    sc.meta["trace"] = impl.trace
    return obs


# ------------------------------------------------------------------------------------------
# generator (C16)


def gen_sig_header(R, natural=None):
    n = R.choice([2, 2, 3, 3, 4])
    kinds = [R.choice(["obs", "lst", "lst"]) for _ in range(n)]
    if "lst" not in kinds:
        kinds[R.randrange(n)] = "lst"
    if "obs" not in kinds and R.random() < 0.7:
        kinds[R.randrange(n)] = "obs"
    natural = (R.random() < 0.25) if natural is None else natural
    names = list(range(n))
    R.shuffle(names)
    toks = []
    cuts = sorted(R.sample(range(1, n), R.choice([0, 1, 1, 2]) if n > 2 else R.choice([0, 1])))
    decls = []
    for i, (nm, k) in enumerate(zip(names, kinds)):
        ts = list(KIND_TYPES[k])
        if not natural:
            R.shuffle(ts)
        if i in cuts:
            toks.append("|")
        toks.append(f"{nm}:{k}:{','.join(ts)}")
        decls.append((nm, k))
    if cuts and R.random() < 0.3:
        # a base class defines one of the names of a more derived class again (mostly with the other kind): the
        # definition in effect is the most derived one
        i = R.randrange(0, cuts[-1])                         # a declaration that is not in the last class
        later = [c for c in cuts if c > i]
        toks.append(f"ovr:{names[i]}:{R.choice(['obs', 'lst', 'lst' if kinds[i] == 'obs' else 'obs'])}")
        if R.random() < 0.5 and len(later) > 1:
            # ... in the class in between rather than in the last one
            at = [j for j, t in enumerate(toks) if t == "|"][-1]
            toks.insert(at, toks.pop())
    if natural:
        toks.append("natural")
    return "scenario sig " + " ".join(toks), decls


def gen_list_op(R, nm, shadow):
    """one list operation on observable nm; shadow = plain list or None (unset); returns the op line"""
    d = shadow.get(nm)
    ln = len(d) if d is not None else 0

    def idx():
        return R.randrange(-ln - 2, ln + 2)

    def val():
        return R.randrange(0, 5)

    def vals():
        return [val() for _ in range(R.choice([0, 1, 2, 2, 3]))]

    def oidx():
        return "N" if R.random() < 0.3 else str(idx())

    def slc():
        """slice(A, B, C): open bounds, steps -3..3 (0 is rejected), mostly a step other than 1"""
        return f"{oidx()} {oidx()} {R.choice(['N', '1', '2', '2', '3', '-1', '-1', '-2', '-3', '0'])}"

    k = R.choice(["lassign", "lset", "lsetslice", "ldel", "ldelslice", "linsert", "lappend", "lappend", "lpop", "lremove",
                  "lextend", "liadd", "lreverse", "lclear", "lset", "ldel", "lpop", "lsetslicex", "ldelslicex",
                  "lextendsrc", "liaddsrc"])
    if d is None and R.random() < 0.85:
        k = "lassign"
    if k == "lassign":
        others = [v for m, v in sorted(shadow.items()) if m != nm and v]
        if others and R.random() < 0.3:
            # the items another ObservableList of the object holds right now: the runner assigns that list object itself
            # (`a.archive = a.inbox`), the assignment must copy it
            return f"lassign {nm} {ints_arg(R.choice(others))}"
        return f"lassign {nm} {ints_arg(vals() + vals())}"
    if k in ("lset",):
        i = idx() if (R.random() < 0.25 or ln == 0) else R.randrange(-ln, ln)
        return f"lset {nm} {i} {val()}"
    if k == "lsetslice":
        return f"lsetslice {nm} {idx()} {idx()} {ints_arg(vals())}"
    if k == "ldel":
        i = idx() if (R.random() < 0.25 or ln == 0) else R.randrange(-ln, ln)
        return f"ldel {nm} {i}"
    if k == "ldelslice":
        return f"ldelslice {nm} {idx()} {idx()}"
    if k == "ldelslicex":
        return f"ldelslicex {nm} {slc()}"
    if k == "lsetslicex":
        sl = slc()
        a, b, c = (oi(x) for x in sl.split())
        want = len(range(*slice(a, b, c).indices(ln))) if c != 0 else 0
        # an extended slice takes exactly as many items as it selects: mostly that many, sometimes not (rejected)
        m = want if R.random() < 0.8 else R.choice([0, 1, 2, 3])
        return f"lsetslicex {nm} {sl} {ints_arg([val() for _ in range(m)])}"
    if k == "linsert":
        return f"linsert {nm} {idx()} {val()}"
    if k == "lappend":
        return f"lappend {nm} {val()}"
    if k == "lpop":
        i = idx() if (R.random() < 0.25 or ln == 0) else R.choice([-1, -1, 0, R.randrange(-ln, ln)])
        return f"lpop {nm} {i}"
    if k == "lremove":
        v = R.choice(d) if (d and R.random() < 0.8) else val()
        return f"lremove {nm} {v}"
    if k == "lextend":
        return f"lextend {nm} {ints_arg(vals())}"
    if k == "liadd":
        return f"liadd {nm} {ints_arg(vals())}"
    if k in ("lextendsrc", "liaddsrc"):
        # extend / += from an iterable that raises after some items (mostly in the middle; sometimes at once / never)
        vs = [val() for _ in range(R.choice([1, 2, 3, 3, 4]))]
        at = R.randrange(1, len(vs)) if (len(vs) > 1 and R.random() < 0.7) else R.randrange(0, len(vs) + 2)
        return f"{k} {nm} {ints_arg(vs)} {at}"
    return f"{k} {nm}"


def shadow_apply(shadow, line):
    """keeps the generator's idea of list lengths (plain list semantics); errors leave it unchanged"""
    w = line.split()
    k = w[0]
    if not k.startswith("l"):
        return
    nm = int(w[1])
    if k == "lassign":
        shadow[nm] = parse_ints(w[2])
        return
    d = shadow.get(nm)
    if d is None:
        return
    try:
        if k == "lset":
            d[int(w[2])] = int(w[3])
        elif k == "lsetslice":
            d[int(w[2]):int(w[3])] = parse_ints(w[4])
        elif k == "ldel":
            del d[int(w[2])]
        elif k == "ldelslice":
            del d[int(w[2]):int(w[3])]
        elif k == "lsetslicex":
            d[slice(oi(w[2]), oi(w[3]), oi(w[4]))] = parse_ints(w[5])
        elif k == "ldelslicex":
            del d[slice(oi(w[2]), oi(w[3]), oi(w[4]))]
        elif k == "linsert":
            d.insert(int(w[2]), int(w[3]))
        elif k == "lappend":
            d.append(int(w[2]))
        elif k == "lpop":
            d.pop(int(w[2]))
        elif k == "lremove":
            d.remove(int(w[2]))
        elif k in ("lextend", "liadd"):
            d.extend(parse_ints(w[2]))
        elif k in ("lextendsrc", "liaddsrc"):
            d.extend(parse_ints(w[2])[:int(w[3])])
        elif k == "lreverse":
            d.reverse()
        elif k == "lclear":
            d.clear()
    except (IndexError, ValueError):
        pass


def gen_act(R, decls, nh, me, passive):
    """one registry call of handler `me` that is accepted whatever the state: mostly about itself (one-shot handlers).
    Only handlers without a program (`passive`) are subscribed by a handler: on code that walks the live list a handler
    that subscribes a subscribing handler would never return"""
    kind = dict(decls)
    names = [n for n, _ in decls]
    k = R.random()
    other = R.randrange(nh)
    if k < 0.15:
        return f"c.{R.choice(['*'] + list(map(str, names)))}"
    verb = "u" if (k < 0.7 or not passive) else "o"
    who = (me if R.random() < 0.7 else other) if verb == "u" else R.choice(passive)
    n = "*" if R.random() < 0.3 else str(R.choice(names))
    if R.random() < 0.4:
        t = "*"
    elif n == "*":
        t = "change"
    else:
        t = R.choice(KIND_TYPES[kind[int(n)]])
    return f"{verb}.{n}.{t}.{who}"


def gen_sig_scenario(R, rejecting=False, n_ops=None):
    header, decls = gen_sig_header(R)
    names = [n for n, _ in decls]
    lsts = [n for n, k in decls if k == "lst"]
    obss = [n for n, k in decls if k == "obs"]
    shadow = {}
    nh = R.randrange(2, 6)
    dead = set()
    if R.random() < 0.25:
        # re-entrant handlers: 1-2 of them make registry calls while they are being notified
        toks = header.split()
        at = len(toks) - 1 if toks[-1] == "natural" else len(toks)
        active = R.sample(range(nh), R.choice([1, 1, 2]))
        passive = [h for h in range(nh + 2) if h not in active]
        for h in active:
            toks.insert(at, f"prog:{h}:" + ",".join(gen_act(R, decls, nh, h, passive) for _ in range(R.choice([1, 1, 2]))))
        header = " ".join(toks)
    veq = R.random() < 0.3 and (VEQ_WITH_PROGS or "prog:" not in header)
    if veq:
        # the owners of the bound-method handlers (odd ids) are value objects that compare equal while they have recorded
        # the same signals (two dataclass recorders): different handlers all the same.  At least two of them, and the
        # registry calls are mostly about them, so that equal owners meet in one subscriber list
        toks = header.split()
        toks.insert(len(toks) - 1 if toks[-1] == "natural" else len(toks), "veq")
        header = " ".join(toks)
        nh = max(nh, 4)
    lines = [header]

    def live_h():
        c = [h for h in range(nh) if h not in dead]
        if veq and R.random() < 0.6:
            c = [h for h in c if h % 2 == 1] or c
        return R.choice(c) if c else R.randrange(nh)

    def sel_n(p_all=0.3):
        return "*" if R.random() < p_all else str(R.choice(names))

    def sel_t(n, p_all=0.35):
        if R.random() < p_all:
            return "*"
        if n == "*":
            # valid only if every observable emits it: `change`
            return "change" if R.random() < 0.7 else R.choice(TYPES)
        kind = dict(decls)[int(n)]
        return R.choice(KIND_TYPES[kind]) if R.random() < 0.9 else R.choice(TYPES)

    def rejecting_call():
        k = R.random()
        if k < 0.2:
            return f"observe {max(names) + 1 + R.randrange(2)} {R.choice(['*', 'change'])} {live_h()}"
        if k < 0.45 and obss:
            return f"observe {R.choice(['*'] + list(map(str, obss)))} {R.choice(TYPES[1:])} {live_h()}"
        if k < 0.55:
            return f"unobserve {max(names) + 1} * {live_h()}"
        nm = R.choice(lsts)
        ln = len(shadow.get(nm) or [])
        c = R.choice(["lpop", "ldel", "lset", "lremove"])
        if c == "lremove":
            return f"lremove {nm} 9"
        i = R.choice([ln, ln + 1, -ln - 1])
        return f"{c} {nm} {i}" + (" 1" if c == "lset" else "")

    # a few subscriptions first, then a mix
    for _ in range(R.randrange(1, 5)):
        n = sel_n()
        lines.append(f"observe {n} {sel_t(n)} {live_h()}")
    total = n_ops or R.randrange(6, 28)
    for _ in range(total):
        k = R.random()
        if rejecting and k < 0.3:
            l = rejecting_call()
            lines.append(l)
            lines.append("subs")
            if R.random() < 0.5:
                lines.append(f"get {R.choice(names)}")
            continue
        if k < 0.14:
            n = sel_n()
            l = f"observe {n} {sel_t(n)} {live_h()}"
        elif k < 0.22:
            n = sel_n(0.4)
            l = f"unobserve {n} {sel_t(n, 0.5)} {live_h()}"
        elif k < 0.25:
            l = f"clear {sel_n(0.3)}"
        elif k < 0.30:
            h = live_h()
            dead.add(h)
            if len(dead) >= nh:
                nh += 1
            l = f"drop {h}"
        elif k < 0.34:
            l = "subs"
        elif k < 0.37:
            l = f"get {R.choice(names)}"
        elif k < 0.47 and obss:
            l = f"set {R.choice(obss)} {R.randrange(0, 4)}"
        elif k < 0.49:
            l = rejecting_call()
        else:
            l = gen_list_op(R, R.choice(lsts), shadow)
        shadow_apply(shadow, l)
        lines.append(l)
    if rejecting:
        lines.append("subs")
    return core.Scenario(lines, {})


# ------------------------------------------------------------------------------------------
# oracle (C16): the property's clauses on the implementation's trace


def _matches(sel, x):
    return sel == "*" or sel == str(x)


def oracle_sig(sc, obs):
    tr = sc.meta.get("trace") or []
    bad = []
    toks = [t for t in sc.lines[0].split()[2:] if t not in ("|", "natural", "veq") and not t.startswith(("prog:", "ovr:"))]
    progs = {int(t.split(":")[1]): t.split(":")[2].split(",") for t in sc.lines[0].split()[2:] if t.startswith("prog:")}
    decls = [(int(t.split(":")[0]), t.split(":")[1]) for t in toks]
    kind = dict(decls)
    spec = {(n, t): [] for n, k in decls for t in KIND_TYPES[k]}   # subscriptions in subscription order

    def apply_act(act):
        """a registry call made by a handler (always an accepted one) on the subscription table"""
        a = act.split(".")
        for (x, ty) in spec:
            if not _matches(a[1], x):
                continue
            if a[0] == "c":
                spec[(x, ty)] = []
            elif _matches(a[2], ty):
                if a[0] == "o":
                    spec[(x, ty)].append(int(a[3]))
                else:
                    spec[(x, ty)] = [g for g in spec[(x, ty)] if g != int(a[3])]

    dead = set()
    replica = {}          # list name -> the listener's copy
    obsval = {}           # observable -> last value
    i = 0
    while i < len(tr):
        ev = tr[i]
        assert ev[0] == "op", ev
        w = ev[1].split()
        before_subs = ev[2]
        j = i + 1
        body = []
        while tr[j][0] != "done":
            body.append(tr[j])
            j += 1
        done = tr[j]
        res, after_subs, after_vals = done[1], done[2], done[3]
        i = j + 1
        k = w[0]
        if k == "observe":
            n, t, h = w[1], w[2], int(w[3])
            names = [x for x, _ in decls if _matches(n, x)]
            known = n == "*" or bool(names)
            valid = known and (t == "*" or all(t in KIND_TYPES[kind[x]] for x in names))
            if valid and res != "ok":
                bad.append(f"observe-valid-rejected: {ev[1]} -> {res}")
            if not valid:
                if res != "err Value":
                    bad.append(f"observe-unknown-accepted: {ev[1]} -> {res}")
                if after_subs != before_subs:
                    bad.append(f"reject-changed: rejected {ev[1]} changed the subscriptions")
            if valid and res == "ok":
                for x in names:
                    for ty in KIND_TYPES[kind[x]]:
                        if _matches(t, ty):
                            spec[(x, ty)].append(h)
        elif k == "unobserve":
            n, t, h = w[1], w[2], int(w[3])
            if res == "ok":
                for (x, ty) in spec:
                    if _matches(n, x) and _matches(t, ty):
                        spec[(x, ty)] = [g for g in spec[(x, ty)] if g != h]
            elif after_subs != before_subs:
                bad.append(f"reject-changed: rejected {ev[1]} changed the subscriptions")
        elif k == "clear":
            for (x, ty) in spec:
                if _matches(w[1], x):
                    spec[(x, ty)] = []
        elif k == "drop":
            dead.add(int(w[1]))
        if k in ("lextendsrc", "liaddsrc") and res in ("ok", "raised"):
            # the exception of the iterable comes out of extend / += exactly when the iterable raised
            breaks = int(w[3]) < len(parse_ints(w[2]))
            if breaks != (res == "raised"):
                bad.append(f"source-exception: `{ev[1]}` -> {res}, the iterable {'raised' if breaks else 'did not raise'}")
        if res not in ("ok", "raised") and k not in ("observe", "unobserve"):
            # a rejected mutation: no signal, nothing changed
            if body:
                bad.append(f"reject-signalled: rejected {ev[1]} emitted signals")
            if after_subs != before_subs or after_vals != ev[3]:
                bad.append(f"reject-changed: rejected {ev[1]} changed observable state")
        # signals of this op: each notify must reach exactly the live subscribers, in order, with its payload
        p = 0
        while p < len(body):
            nt = body[p]
            if nt[0] != "notify":
                bad.append(f"delivery-without-notify: {nt}")
                p += 1
                continue
            _, n, ty, old, new, idx, keys, now = nt
            got = []
            p += 1
            while p < len(body) and body[p][0] in ("deliver", "act"):
                if body[p][0] == "deliver":
                    got.append(body[p])
                p += 1
            # the live subscribers the signal had when it was emitted, in order; one that a handler called before it has
            # unsubscribed meanwhile (unobserve / clear_all_subscriptions) receives nothing more; the calls of a handler
            # take effect when it is called
            want = []
            for h in [h for h in spec.get((n, ty), []) if h not in dead]:
                if h in spec[(n, ty)]:
                    want.append(h)
                    for act in progs.get(h, ()):
                        apply_act(act)
            if [g[1] for g in got] != want:
                bad.append(f"delivery: signal {n}/{ty} of `{ev[1]}` reached {[g[1] for g in got]}, subscribed (in order, at "
                           f"their turn) {want}")
            for g in got:
                if g[2:7] != (n, ty, old, new, idx) or not g[7]:
                    bad.append(f"payload: handler {g[1]} got {g[2:8]} for notify {(n, ty, old, new, idx)}")
            # payload = what applied
            if kind.get(n) == "obs":
                if ty != "change" or old != obsval.get(n, "N") or new != w[2]:
                    bad.append(f"payload-assign: `{ev[1]}` signalled {ty} {old}->{new}, value was {obsval.get(n, 'N')}")
            else:
                r = _apply_replica(replica.get(n), ty, old, new, idx)
                if isinstance(r, str):
                    bad.append(f"replica: `{ev[1]}` signal {ty} old={old} new={new} index={idx}: {r}")
                else:
                    replica[n] = r
                    # a list mutator changes the list and then announces that one change: a listener that applies the
                    # signal and then looks at the real list (a handler doing so while it is notified) sees its copy -
                    # no item that has not been announced yet, none missing (`change` is emitted before the new list is
                    # stored: nothing to compare at that moment)
                    if ty != "change" and now != fmt_ints(r):
                        bad.append(f"replica-at-delivery: when `{ev[1]}` emitted {ty} new={new} old={old} index={idx} the "
                                   f"real list {n} was {now}, the listener's copy after applying it {fmt_ints(r)}")
        # after the op the listener's copy equals the real state - also when the iterable handed to extend / += raised
        # part-way: the items taken from it before are in the list, and each of them has been announced
        if res in ("ok", "raised"):
            if k == "set":
                obsval[int(w[1])] = w[2]
                if after_vals[int(w[1])] != w[2]:
                    bad.append(f"store: after `{ev[1]}` the value is {after_vals[int(w[1])]}")
            for n, d in replica.items():
                if after_vals[n] is None:
                    bad.append(f"replica-diverged: after `{ev[1]}` list {n} cannot be read, the listener's copy {fmt_ints(d)}")
                    continue
                if after_vals[n] != fmt_ints(d):
                    bad.append(f"replica-diverged: after `{ev[1]}` list {n} is {after_vals[n]}, the listener's copy {fmt_ints(d)}")
                    replica[n] = parse_ints(after_vals[n][1:-1] or "-")
    return bad


def _apply_replica(d, ty, old, new, idx):
    """apply one list signal to the listener's copy; returns the new copy or a complaint"""
    def L(s):
        return parse_ints(s[1:-1] or "-")

    if ty == "change":
        if not new.startswith("["):
            return "change without a list payload"
        if old != fmt_ints(d if d is not None else []):
            return f"old payload {old} but the list was {fmt_ints(d or [])}"
        return L(new)
    if d is None:
        return "signal for an unset list"
    d = list(d)
    try:
        if ty in ("append", "insert"):
            if old != "N":
                return "old should be None"
            if ty == "append" and int(idx) != len(d):
                return f"append index {idx} but length {len(d)}"
            d.insert(int(idx), int(new))
        elif ty == "remove":
            if new != "N":
                return "new should be None"
            if ".." in idx:
                sl = slice(*(oi(x) for x in idx.split("..")))
                if old != fmt_ints(d[sl]):
                    return f"old payload {old}, removed items were {fmt_ints(d[sl])}"
                del d[sl]
            else:
                if old != str(d[int(idx)]):
                    return f"old payload {old}, removed item was {d[int(idx)]}"
                del d[int(idx)]
        elif ty == "replace":
            if ".." in idx:
                sl = slice(*(oi(x) for x in idx.split("..")))
                if old != fmt_ints(d[sl]):
                    return f"old payload {old}, replaced items were {fmt_ints(d[sl])}"
                d[sl] = L(new)
            else:
                if old != str(d[int(idx)]):
                    return f"old payload {old}, replaced item was {d[int(idx)]}"
                d[int(idx)] = int(new)
    except (IndexError, ValueError) as e:
        return f"payload does not apply to the copy ({e})"
    return d


def tags_sig(sc, obs):
    yield "natural-set-order" if "natural" in sc.lines[0].split() else "forced-set-order"
    if "prog:" in sc.lines[0]:
        yield "mode:reentrant-handlers"
        acts = [e for e in (sc.meta.get("trace") or []) if e[0] == "act"]
        for e in acts:
            yield "branch:handler-called-" + {"o": "observe", "u": "unobserve", "c": "clear"}[e[2][0]] + "-while-notified"
            if e[2][0] == "u" and e[2].split(".")[3] == str(e[1]):
                yield "branch:handler-unsubscribed-itself-while-notified"
    yield f"classes:{sc.lines[0].split().count('|') + 1}"
    if "veq" in sc.lines[0].split():
        yield "mode:value-equal-handler-owners"
    for l, o in zip(sc.lines[1:], obs[1:]):
        w = l.split()
        yield "op:" + w[0]
        if o.startswith("err"):
            yield "reject:" + w[0] + ":" + o.split()[1]
        if o.startswith("raised"):
            yield "branch:iterable-raised-after-" + ("no" if w[3] == "0" else "some") + "-items"
        if w[0] in ("observe", "unobserve"):
            yield f"{w[0]}:{'All' if w[1] == '*' else 'name'}/{'All' if w[2] == '*' else 'type'}"
        if o.startswith("ok ") and w[0] not in ("subs", "get"):
            hs = [d.split(":")[0] for d in o.split()[1:]]
            if len(hs) != len(set(hs)):
                yield "branch:handler-called-several-times-in-one-op"
    tr = sc.meta.get("trace") or []
    if any(e[0] == "done" and any("x" in v for v in e[2].values()) for e in tr):
        yield "branch:dead-reference-in-registry"
