"""C02 — the model's agent registry is exact and unique_ids are unique per model."""
from . import agents_common as A, core

PROP = "C02"
DRIVER = "drv_agents"
LEAN_MODULES = ["MesaModel.Props.C02"]
THEOREMS = ["Mesa.Agents." + t for t in (
    "C02_registry_exact_all_histories", "C02_by_type_exact_all_histories", "C02_creation_order_unless_reordered",
    "C02_unique_ids_all_histories", "C02_ids_never_change", "C02_remove_atomic_and_idempotent",
    "C02_other_models_untouched", "C02_create_agents_splits_arguments", "C02_sets_nodup_all_histories",
    "C02_other_models_untouched_all_histories", "C02_direct_register_and_deregister",
    "C02_removed_stays_removed_everywhere", "C02_copy_shows_the_members_at_that_moment",
    "C02_new_model_numbers_from_one_also_after_dropped_models")]
COUNTS = {"quick": 1000, "thorough": 150000}
TRUSTED = [
    "CPython dict / WeakKeyDictionary keep insertion order; deleting a key keeps the order of the others (the model uses lists)",
    "CPython refcounting: an agent dies exactly when its model deregisters it and the program holds no reference",
    "itertools.count(1) per model instance (Agent._ids) yields 1,2,3,…",
    "dropmodel (Python only, no model expresses it): a model the program no longer references, with its agents, is reclaimed by gc.collect() "
    "(the harness deletes the Agent._ids[model] entry that keeps it alive in unpatched mesa), and CPython may place the next Model() at the "
    "address of a dead one - the harness steers it there (object.__new__ until the address matches, then __init__; mesa's Model has no __new__)",
    "agent callbacks are scripts (remove self / remove other / create / drop reference / edit a program-made set / raise); arbitrary Python side effects are not modelled",
]
ASSUMPTIONS = ["the program changes model.agents only by in-place shuffle/sort (the property's 'explicitly reordered in place'); "
               "select(inplace=True)/add/discard on the registry's own sets are outside the quantifier"]
RULE = ("random histories over 1-5 coexisting models (and sweeps in which models are dropped with their agents, garbage collected and "
        "replaced by new ones, which must number from 1) and a 4-class hierarchy (T0<-T1<-T3, T2): constructor and create_agents "
        "(n=0..4; one or two arguments, positional or keyword, each a single object or a list / tuple / ndarray of length n or of another "
        "length), the rejected assignment model.agents = [...], remove (also twice, also of held agents), remove_all_agents, "
        "model.register_agent / model.deregister_agent called directly (also twice, also on removed-but-held agents), in-place "
        "shuffle/sort of model.agents and by-type sets, activations whose callbacks remove and create agents in any model, edit program-made "
        "sets and raise (an activation left by an exception keeps the registry exact); "
        "full registry dump after every op; non-trivial = at least one removal and two creations took effect; distinct = "
        "distinct op-line sequences (sha1)")


def generate(rng, tier, count):
    for _ in range(count):
        yield A.gen_world(rng, "c02")


run_impl = A.run_impl
oracle = A.oracle_c02
tags = A.world_tags


def nontrivial(sc, obs):
    tr = sc.meta.get("trace") or []
    return sum(1 for e in tr if e[0] == "create") >= 2 and any(e[0] == "remove" for e in tr)


if __name__ == "__main__":
    import sys
    core.main(sys.modules[__name__])
