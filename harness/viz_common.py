"""Implementation runner, canonicalisers, generator and oracle for C20 (visualisation data).

Protocol: see lean/Driver/Viz.lean.  Everything that crosses the protocol is a token: colour names,
marker symbols, decimal integers (alpha is given in percent).  matplotlib / Altair objects are read back
through their public getters only (offsets, sizes, face/edge colours, z-order, marker path of the
PathCollections on the Axes; `chart.to_dict()`), never through rendered pixels.
"""
from __future__ import annotations

import copy

import inspect
import math
import os
import warnings

from . import core

os.environ.setdefault("MPLBACKEND", "Agg")
# 16 scenario workers x an OpenBLAS pool of 16+ spinning threads each starves the machine (scenarios of 60 ms
# hit the 20 s watchdog under load); the arrays here are tiny.  Set before numpy is first imported.
for _v in ("OPENBLAS_NUM_THREADS", "OMP_NUM_THREADS", "MKL_NUM_THREADS"):
    os.environ.setdefault(_v, "1")

GRID_LEGACY = ("single", "multi", "hexs", "hexm")
GRID_NEW = ("moore", "vn", "hex")
GRIDS = GRID_LEGACY + GRID_NEW
HEXES = ("hexs", "hexm", "hex")
NETS = ("netgrid", "net")
NEW_STYLE = GRID_NEW + ("net", "vor")
EXCLUSIVE = ("single", "hexs")
ALTAIR_OK = GRIDS + ("cs",)
FAMILIES = GRIDS + NETS + ("vor", "cs", "xcs")

FACE_COLORS = ["red", "green", "blue", "#ff8800", "purple"]
EDGE_COLORS = ["white", "gray", "yellow"]
# colours given as RGB / RGBA tuples (components in percent): numpy cannot put them into one array with
# colour names, with tuples of another length or with None (V14)
FACE_TUPLES = ["rgb_0_100_0", "rgb_0_100_100", "rgba_100_0_100_100"]
EDGE_TUPLES = ["rgb_0_0_0", "rgba_50_0_0_100"]
LAYER_COLORS = ["red", "blue", "green"]
LAYER_CMAPS = ["viridis", "plasma"]
LAYER_NAMES = ["v", "heat", "b"]
MARKERS = ["o", "s", "^", "v", "D"]
SIZES = [5, 10, 20, 40]
ZORDERS = [0, 1, 2, 3]
ALPHAS = [25, 50, 75]
LINEWIDTHS = [2, 3]
VOR_POINTS = [(0, 0), (4, 1), (1, 5), (6, 6), (3, 2), (8, 3), (2, 8)]
SQ3 = math.sqrt(3.0)

_lazy = {}


def L():
    """lazy imports of mesa + plotting libraries (after core has put MESA_REPO on sys.path)"""
    if _lazy:
        return _lazy
    core.import_mesa()
    import logging

    import altair  # noqa
    import matplotlib
    import matplotlib.pyplot as plt
    import networkx as nx
    import numpy as np
    import solara
    from matplotlib.collections import PathCollection, PolyCollection
    from matplotlib.colors import Normalize, to_rgba
    from matplotlib.figure import Figure
    from matplotlib.markers import MarkerStyle

    import mesa
    import mesa.space as ms
    from mesa.discrete_space import CellAgent, HexGrid, Network, OrthogonalMooreGrid, OrthogonalVonNeumannGrid, VoronoiGrid
    from mesa.discrete_space.property_layer import PropertyLayer as NewLayer
    from mesa.experimental.continuous_space import ContinuousSpace as XCS
    from mesa.experimental.continuous_space import ContinuousSpaceAgent
    from mesa.visualization import Slider
    from mesa.visualization import solara_viz as sv
    from mesa.visualization.components.altair_components import _draw_grid, make_altair_space
    from mesa.visualization.components.matplotlib_components import make_mpl_space_component
    from mesa.visualization.mpl_space_drawing import collect_agent_data, draw_property_layers, draw_space

    # components that raise (expected: NotImplementedError) are logged with a traceback by reacton
    logging.getLogger("reacton").setLevel(logging.CRITICAL)
    mpaths = {}
    for m in MARKERS:
        ms_ = MarkerStyle(m)
        mpaths[m] = ms_.get_path().transformed(ms_.get_transform()).vertices
    _lazy.update(locals())
    return _lazy


# ----------------------------------------------------------------------------------------------
# tokens <-> python values


def color_py(tok):
    if tok.startswith(("rgb_", "rgba_")):
        return tuple(int(c) / 100 for c in tok.split("_")[1:])
    return tok


def color_tok(v):
    import numpy as np

    if isinstance(v, (tuple, list, np.ndarray)):
        return ("rgb_" if len(v) == 3 else "rgba_") + "_".join(str(int(round(float(c) * 100))) for c in v)
    return str(v)


def to_py(key, tok):
    if key in ("size", "zorder", "linewidths"):
        return int(tok)
    if key == "alpha":
        return int(tok) / 100
    if key in ("color", "edgecolors"):
        return color_py(tok)
    return tok


def to_tok(key, v):
    import numpy as np

    if isinstance(v, np.generic) or (isinstance(v, np.ndarray) and v.ndim == 0):
        v = v.item()
    if key in ("color", "edgecolors") or isinstance(v, (tuple, list, np.ndarray)):
        return color_tok(v)
    if isinstance(v, float) and not math.isfinite(v):
        return str(v)  # inf / nan: never a value the model produces
    if key == "alpha":
        return str(int(round(v * 100)))
    if isinstance(v, float) and v == int(v):
        v = int(v)
    return str(v)


def fmt_dict(d):
    return ",".join(f"{k}={to_tok(k, d[k])}" for k in sorted(d))


def or_dash(s):
    return s if s else "-"


EXC = {IndexError: "err Index", AttributeError: "err Attribute", NotImplementedError: "err NotImplemented", ValueError: "err Value",
       ZeroDivisionError: "err ZeroDivision"}


def exc_tok(e):
    for t, s in EXC.items():
        if isinstance(e, t):
            return s
    return "err " + type(e).__name__


def release_widgets():
    """outside a server solara keeps every comm it ever created, with the stack trace of its creation, in a module-level
    dict (solara.comm.orphan_comm_stacks): ~0.4 MB per ctrl scenario, gigabytes over a thorough run's workers"""
    try:
        import solara.comm

        solara.comm.orphan_comm_stacks.clear()
    except Exception:  # noqa: S110
        pass


def render_context(element):
    """solara.render(element, handle_error=False) in two steps: the context exists before rendering, so it can be
    closed also when rendering raises"""
    import ipywidgets
    import reacton.core

    container = ipywidgets.VBox()
    rc = reacton.core._render_context_class()(element, container, children_trait="children", handle_error=False, initial_state=None)
    return rc, container


def render_once(element):
    """render a component and close its render context: the space components subscribe to the global update counter,
    a later force_update (a ctrl scenario in the same worker process) would render them again"""
    rc, container = render_context(element)
    try:
        rc.render(element, container)
    finally:
        try:
            rc.close()
        except Exception:  # noqa: S110
            pass


# ----------------------------------------------------------------------------------------------
# the implementation side of a space scenario


class SpaceImpl:
    def __init__(self, fam, w, h, extra):
        m = L()
        mesa, ms, nx = m["mesa"], m["ms"], m["nx"]
        self.fam, self.w, self.h = fam, w, h
        self.off = (0, 0)
        self.model = mesa.Model(seed=1)
        rnd = self.model.random
        self.labels, self.sites, self.layout = [], [], None
        if fam == "single":
            sp = ms.SingleGrid(w, h, False)
        elif fam == "multi":
            sp = ms.MultiGrid(w, h, False)
        elif fam == "hexs":
            sp = ms.HexSingleGrid(w, h, False)
        elif fam == "hexm":
            sp = ms.HexMultiGrid(w, h, False)
        elif fam == "moore":
            sp = m["OrthogonalMooreGrid"]((w, h), torus=False, random=rnd)
        elif fam == "vn":
            sp = m["OrthogonalVonNeumannGrid"]((w, h), torus=False, random=rnd)
        elif fam == "hex":
            sp = m["HexGrid"]((w, h), torus=False, random=rnd)
        elif fam in NETS:
            self.labels = list(extra)
            g = nx.Graph()
            g.add_nodes_from(self.labels)
            for a, b in zip(self.labels, self.labels[1:]):
                if (a + b) % 3 != 0:  # some graphs have no edges at all
                    g.add_edge(a, b)
            self.graph = g
            sp = ms.NetworkGrid(g) if fam == "netgrid" else m["Network"](g, random=rnd)
        elif fam == "vor":
            self.sites = [tuple(extra[i : i + 2]) for i in range(0, len(extra), 2)]
            sp = m["VoronoiGrid"]([list(s) for s in self.sites], random=rnd)
        elif fam == "cs":
            # an origin other than (0, 0): positions cross the protocol relative to it (the model does not know it), the
            # real space lies at [x0, x0 + w) x [y0, y0 + h)
            if extra:
                self.off = (extra[0], extra[1])
            sp = ms.ContinuousSpace(w + self.off[0], h + self.off[1], False, x_min=self.off[0], y_min=self.off[1])
        elif fam == "xcs":
            sp = m["XCS"]([[0, w], [0, h]], torus=False, random=rnd)
        else:
            raise ValueError(fam)
        self.space = sp
        # solara components look the space up as model.grid, else model.space
        setattr(self.model, "space" if fam in ("cs", "xcs") else "grid", sp)
        self.agents = {}  # vid -> agent object currently in the space
        self.where = {}  # vid -> (x, y): the harness' own record of where it put the agent
        self.heap = []  # the dict objects the portrayal hands out
        self.pmap = {}  # vid -> heap index
        self.layers = {}  # name -> PropertyLayer
        self.trace = []

    # the portrayal callable given to the drawing code ------------------------------------------
    def portrayal(self, agent):
        r = self.pmap.get(agent.vid)
        return {} if r is None else self.heap[r]

    def expected_dict(self, vid):
        r = self.pmap.get(vid)
        return {} if r is None else dict(self.heap[r])

    def snapshot(self):
        """ground truth as the harness knows it: (vid, loc, portrayal dict content) per agent in the space"""
        self.heap_before = self.heap_now()
        return [(v, self.where[v], self.expected_dict(v)) for v in sorted(self.where)]

    # state ops ---------------------------------------------------------------------------------
    def _cell(self, x, y):
        if self.fam == "net":
            return self.space._cells[x]
        if self.fam == "vor":
            return self.space._cells[self.sites.index((x, y))]
        return self.space._cells[(x, y)]

    def place(self, vid, x, y):
        m = L()
        fam, sp = self.fam, self.space
        if vid in self.where:
            return "err Invalid"
        try:
            if fam in NEW_STYLE:
                ag = self.agents.get(vid) or m["CellAgent"](self.model)
                ag.vid = vid
                ag.cell = self._cell(x, y)
            elif fam == "xcs":
                if not (0 <= x < self.w and 0 <= y < self.h):
                    return "err Invalid"
                ag = m["ContinuousSpaceAgent"](sp, self.model)
                ag.vid = vid
                ag.position = [x, y]
            else:
                ag = self.agents.get(vid) or m["mesa"].Agent(self.model)
                ag.vid = vid
                if fam == "cs" and not (0 <= x < self.w and 0 <= y < self.h):
                    return "err Invalid"
                sp.place_agent(ag, x if fam == "netgrid" else (x + self.off[0], y + self.off[1]))
        except Exception:
            return "err Invalid"
        self.agents[vid] = ag
        self.where[vid] = (x, y)
        return "ok"

    def move(self, vid, x, y):
        fam, sp = self.fam, self.space
        if vid not in self.where:
            return "err Invalid"
        ag = self.agents[vid]
        try:
            if fam in NEW_STYLE:
                ag.cell = self._cell(x, y)
            elif fam == "xcs":
                if not (0 <= x < self.w and 0 <= y < self.h):
                    return "err Invalid"
                ag.position = [x, y]
            else:
                if fam == "cs" and not (0 <= x < self.w and 0 <= y < self.h):
                    return "err Invalid"
                sp.move_agent(ag, x if fam == "netgrid" else (x + self.off[0], y + self.off[1]))
        except Exception:
            return "err Invalid"
        self.where[vid] = (x, y)
        return "ok"

    def remove(self, vid):
        fam, sp = self.fam, self.space
        if vid not in self.where:
            return "err Invalid"
        ag = self.agents[vid]
        if fam in NEW_STYLE:
            ag.cell = None
        elif fam == "xcs":
            ag.remove()
            del self.agents[vid]
        else:
            sp.remove_agent(ag)
        del self.where[vid]
        return "ok"

    # observations ------------------------------------------------------------------------------
    def fmt_loc(self, loc):
        import numpy as np

        a = np.asarray(loc)
        if a.ndim == 0:
            return f"{to_tok('', a)},0"
        return f"{to_tok('', a[0] - self.off[0])},{to_tok('', a[1] - self.off[1])}"

    def collect(self, defaults=None):
        m = L()
        snap = self.snapshot()
        kw = {}
        if defaults:
            c, s, mk, z = defaults
            kw = {"color": color_py(c), "size": int(s), "marker": mk, "zorder": int(z)}
        with warnings.catch_warnings(record=True) as wl:
            warnings.simplefilter("always")
            try:
                data = m["collect_agent_data"](self.space, self.portrayal, **kw)
            except Exception as e:
                self.trace.append(("collect", snap, defaults, None, exc_tok(e), self.heap_before, self.heap_now()))
                return exc_tok(e)
        n = len(data["loc"])
        entries = []
        for i in range(n):
            entries.append((self.fmt_loc(data["loc"][i]), to_tok("size", data["s"][i]), color_tok(data["c"][i]),
                            str(data["marker"][i]), to_tok("zorder", data["zorder"][i])))
        # one slot per agent (None: the agent's portrayal does not specify the key), or empty (fix V7)
        opt = {k: ["None" if v is None else to_tok(k, v) for v in data[k]] for k in ("alpha", "edgecolors", "linewidths")}
        ign = []
        for wmsg in wl:
            txt = str(wmsg.message)
            if "not used in agent portrayal" in txt:
                ign.append("+".join(txt.split("ignored: ", 1)[1].rstrip(".").split(", ")))
        self.trace.append(("collect", snap, defaults, entries, opt, self.heap_before, self.heap_now()))
        out = f"ok n={n}" + "".join(" | " + ",".join(e) for e in entries)
        out += (f" # alpha={or_dash('+'.join(opt['alpha']))} edgecolors={or_dash('+'.join(opt['edgecolors']))}"
                f" linewidths={or_dash('+'.join(opt['linewidths']))} ign={or_dash('/'.join(ign))}")
        return out

    def s_default(self):
        fam = self.fam
        if fam in GRIDS:
            return (180 / max(self.w, self.h)) ** 2
        if fam in ("cs", "xcs"):
            return (180 / max(float(self.w), float(self.h))) ** 2
        if fam == "vor":
            xs = [s[0] for s in self.sites]
            ys = [s[1] for s in self.sites]
            # fix V15: centroids without extent (one cell) are sized like a single cell
            return (180 / (max(max(xs) - min(xs), max(ys) - min(ys)) or 1)) ** 2
        pos = self.net_layout()
        x, y = list(zip(*pos.values()))
        # fix V12: a layout without extent (one node) is sized like a single cell
        return (180 / (max(max(x) - min(x), max(y) - min(y)) or 1)) ** 2

    def net_layout(self):
        if self.layout is None:
            self.layout = L()["nx"].spring_layout(self.graph, seed=0)
        return self.layout

    def unloc(self, x, y):
        """invert the per-space location transform of draw_*; exact integer units or '?'"""
        fam = self.fam
        if fam in NETS and getattr(self, "raw_pos", False):
            rx, ry = round(x), round(y)
            return f"{rx},{ry}" if abs(x - rx) < 1e-9 and abs(y - ry) < 1e-9 else "?,?"
        if fam in NETS:
            hits = [lab for lab, p in self.net_layout().items() if abs(p[0] - x) < 1e-12 and abs(p[1] - y) < 1e-12]
            return f"{hits[0]},0" if len(hits) == 1 else "?,?"
        if fam in HEXES:
            x, y = x / (SQ3 / 2), y / 0.5
        x, y = x - self.off[0], y - self.off[1]
        rx, ry = round(x), round(y)
        if abs(x - rx) > 1e-6 or abs(y - ry) > 1e-6:
            return "?,?"
        return f"{rx},{ry}"

    def read_axes(self, ax):
        """groups [(marker, zorder, [marker tuples])] read back from the PathCollections on the Axes"""
        m = L()
        np = m["np"]
        face = {tuple(m["to_rgba"](color_py(c))[:3]): c for c in FACE_COLORS + FACE_TUPLES + ["tab:blue"]}
        edge = {tuple(m["to_rgba"](color_py(c))[:3]): c for c in EDGE_COLORS + EDGE_TUPLES}
        sd = self.s_default()
        groups = []
        for coll in ax.collections:
            if not isinstance(coll, m["PathCollection"]):
                continue
            verts = coll.get_paths()[0].vertices
            mk = next((k for k, v in m["mpaths"].items() if v.shape == verts.shape and np.allclose(v, verts)), "?")
            off = np.ma.filled(coll.get_offsets().astype(float), np.nan)
            sizes, fcs, ecs, lws = coll.get_sizes(), coll.get_facecolors(), coll.get_edgecolors(), coll.get_linewidths()
            members = []
            for i in range(len(off)):
                s = sizes[i % len(sizes)]
                stok = "D" if abs(s - sd) <= 1e-9 * max(1.0, sd) else to_tok("size", s)
                fc = fcs[i % len(fcs)]
                ctok = face.get(tuple(fc[:3]), "?")
                atok = "-" if fc[3] == 1.0 else str(int(round(fc[3] * 100)))
                ec = ecs[i % len(ecs)] if len(ecs) else fc
                etok = "-" if tuple(ec[:3]) == tuple(fc[:3]) else edge.get(tuple(ec[:3]), "?")
                lw = lws[i % len(lws)] if len(lws) else 1.0
                ltok = "-" if float(lw) == 1.0 else to_tok("linewidths", lw)  # patch.linewidth: all MARKERS are filled
                members.append((self.unloc(off[i][0], off[i][1]), stok, ctok, atok, etok, ltok))
            groups.append((mk, int(coll.get_zorder()), members))
        groups.sort(key=lambda g: (g[0], g[1]))
        return groups

    def draw(self, component=False, default=False, kw=None):
        m = L()
        snap = self.snapshot()
        if default:
            snap = [(v, loc, {}) for v, loc, _ in snap]  # the component's own portrayal: {}
        kwargs = {k: to_py(k, v) for k, v in (kw or {}).items()}
        ax = m["Figure"]().add_subplot()
        with warnings.catch_warnings():
            warnings.simplefilter("ignore")
            try:
                if component:
                    # the solara component builds its own Figure; post_process receives the Axes
                    got = []
                    comp = m["make_mpl_space_component"](None if default else self.portrayal, post_process=got.append)
                    render_once(comp(self.model))
                    if len(got) != 1:
                        raise ValueError(f"post_process called {len(got)} times for one draw")
                    ax = got[0]
                else:
                    m["draw_space"](self.space, self.portrayal, ax=ax, **kwargs)
            except Exception as e:
                tok = exc_tok(e)
                if kw and isinstance(e, ValueError) and "is specified in agent portrayal and via plotting kwargs" in str(e):
                    tok = "err Value conflict " + str(e).split()[0]
                self.trace.append(("draw", snap, None, tok + ": " + str(e)[:80], kw, self.heap_before, self.heap_now()))
                return tok
            groups = self.read_axes(ax)
        self.trace.append(("draw", snap, groups, None, kw, self.heap_before, self.heap_now()))
        return "ok" + "".join(
            f" | {mk} {z} n={len(mem)}" + "".join(" " + ",".join(t) for t in mem) for mk, z, mem in groups)

    def draw_net(self, toks):
        """draw_space on a network with the layout given by a callable (and keywords for it); edges are not drawn"""
        m = L()
        layout = {}
        for t in toks:
            n, x, y = t.split(":")
            layout[int(n)] = (int(x), int(y))
        calls = []

        def layout_alg(graph, **kw):
            calls.append((graph is self.graph, dict(kw)))
            return dict(layout)

        snap = self.snapshot()
        saved = self.layout
        self.layout, self.raw_pos = layout, True
        ax = m["Figure"]().add_subplot()
        try:
            with warnings.catch_warnings():
                warnings.simplefilter("ignore")
                try:
                    m["draw_space"](self.space, self.portrayal, ax=ax, layout_alg=layout_alg, layout_kwargs={"scale": 2}, draw_grid=False)
                except Exception as e:
                    tok = f"err Key {e.args[0]}" if isinstance(e, KeyError) and e.args else exc_tok(e)
                    self.trace.append(("drawnet", snap, layout, None, tok, calls, self.heap_before, self.heap_now()))
                    return tok
                groups = self.read_axes(ax)
                size = self.frac_tok(self.s_default(), 10000)
        finally:
            self.layout, self.raw_pos = saved, False
        self.trace.append(("drawnet", snap, layout, groups, size, calls, self.heap_before, self.heap_now()))
        return f"ok size={size}" + "".join(
            f" | {mk} {z} n={len(mem)}" + "".join(" " + ",".join(t) for t in mem) for mk, z, mem in groups)

    def frame(self):
        """the axis limits draw_space asks for (the arguments of its last set_xlim / set_ylim: what matplotlib makes of
        limits without extent is matplotlib's), in the protocol's units"""
        m = L()
        snap = self.snapshot()
        ax = m["Figure"]().add_subplot()
        asked = {}
        for name in ("set_xlim", "set_ylim"):
            orig = getattr(ax, name)

            def rec(*a, _orig=orig, _name=name, **k):
                import sys

                # matplotlib calls set_xlim itself too (axvline, autoscaling): only mesa's own requests count
                if sys._getframe(1).f_code.co_filename.endswith("mpl_space_drawing.py"):
                    asked[_name] = (a, k)
                return _orig(*a, **k)
            setattr(ax, name, rec)
        with warnings.catch_warnings():
            warnings.simplefilter("ignore")
            try:
                m["draw_space"](self.space, self.portrayal, ax=ax)
            except Exception as e:
                self.trace.append(("frame", snap, None, exc_tok(e)))
                return exc_tok(e)
        if self.fam in NETS:
            return "ok -"
        lims = []
        for name, unit, off in (("set_xlim", SQ3 / 2 if self.fam in HEXES else 1.0, self.off[0]),
                                ("set_ylim", 0.5 if self.fam in HEXES else 1.0, self.off[1])):
            a, k = asked.get(name, ((), {}))
            if len(a) != 2 or k:
                lims.append(("?", "?"))
                continue
            lims.append(tuple(self.frac_tok((float(v) - off) / unit, 40) for v in a))
        self.trace.append(("frame", snap, lims, None))
        return f"ok x={lims[0][0]}..{lims[0][1]} y={lims[1][0]}..{lims[1][1]}"

    def sdefault(self):
        """the marker size of agents portrayed by {}: all agents drawn with an empty portrayal"""
        m = L()
        ax = m["Figure"]().add_subplot()
        with warnings.catch_warnings():
            warnings.simplefilter("ignore")
            try:
                m["draw_space"](self.space, lambda a: {}, ax=ax)
            except Exception as e:
                self.trace.append(("sdefault", len(self.where), exc_tok(e)))
                return exc_tok(e)
        sizes = sorted({float(s) for c in ax.collections if isinstance(c, m["PathCollection"]) for s in c.get_sizes()})
        if not sizes:
            tok = "none"
        elif len(sizes) > 1:
            tok = "several"
        elif self.fam in NETS and len(self.labels) > 1:
            sd = self.s_default()
            tok = "layout" if abs(sizes[0] - sd) <= 1e-9 * max(1.0, sd) else self.frac_tok(sizes[0], 10000)
        else:
            tok = self.frac_tok(sizes[0], 10000)
        self.trace.append(("sdefault", len(self.where), tok))
        return "ok " + tok

    def altair(self, component=False, default=False):
        m = L()
        snap = self.snapshot()
        if default:
            # the component's own portrayal: {"id": unique_id}; the harness knows the agents by their vid
            uid = {ag.unique_id: vid for vid, ag in self.agents.items()}
            snap = [(v, loc, {"id": v}) for v, loc, _ in snap]
        with warnings.catch_warnings():
            warnings.simplefilter("ignore")
            try:
                if component:
                    got = []
                    comp = m["make_altair_space"](None if default else self.portrayal, None,
                                                  post_process=lambda ch: (got.append(ch), ch)[1])
                    render_once(comp(self.model))
                    if len(got) != 1:
                        raise ValueError(f"post_process called {len(got)} times for one draw")
                    chart = got[0]
                else:
                    chart = m["_draw_grid"](self.space, self.portrayal)
                d = chart.to_dict()
            except Exception as e:
                self.trace.append(("altair", snap, None, exc_tok(e) + ": " + str(e)[:80], self.heap_before, self.heap_now()))
                return exc_tok(e)
        rows = d["data"]["values"]
        if self.off != (0, 0):
            rows = [{**r, "x": r["x"] - self.off[0], "y": r["y"] - self.off[1]} if "x" in r and "y" in r else r for r in rows]
        if default:
            rows = [{**r, "id": uid.get(r.get("id"), "?")} for r in rows]
        encoding = d.get("encoding", {})
        enc = [k for k in ("color", "size") if k in encoding]
        xy = {encoding.get(k, {}).get("type", "?") for k in ("x", "y")}
        xy = xy.pop() if len(xy) == 1 else "?"
        tip = [t.get("field", "?") for t in encoding.get("tooltip", [])]
        mark = d.get("mark", {})
        mtok = self.frac_tok(mark["size"], 100) if isinstance(mark, dict) and "size" in mark else "-"
        chart_facts = {"enc": enc, "xy": xy, "tip": tip, "mark": mtok, "type": mark.get("type") if isinstance(mark, dict) else mark,
                       "filled": mark.get("filled") if isinstance(mark, dict) else None, "w": d.get("width"), "h": d.get("height")}
        self.trace.append(("altair", snap, rows, None, chart_facts, self.heap_before, self.heap_now()))
        return (f"ok enc={or_dash('+'.join(enc))} xy={xy} tip={or_dash('+'.join(tip))} mark={mtok}"
                + "".join(" | " + or_dash(fmt_dict(r)) for r in rows))

    def heap_now(self):
        return [dict(d) for d in self.heap]

    def heap_line(self):
        return "ok" + "".join(f" {i}:{{{fmt_dict(d)}}}" for i, d in enumerate(self.heap))

    # property layers ---------------------------------------------------------------------------
    def set_layer(self, name, vals):
        m = L()
        np = m["np"]
        if self.fam not in GRIDS or len(vals) != self.w * self.h:
            raise ValueError("layer")
        data = np.asarray(vals, dtype=int).reshape(self.w, self.h)
        if name not in self.layers:
            # the dtype is invisible to the protocol (values are small integers either way): float layers — the
            # library's default dtype — are used for every second value vector so that in-place arithmetic on
            # the layer's own array during drawing would show
            dt = float if sum(vals) % 2 == 0 else int
            if self.fam in GRID_LEGACY:
                lay = m["ms"].PropertyLayer(name, self.w, self.h, dt(0), dtype=dt)
            else:
                lay = m["NewLayer"](name, (self.w, self.h), default_value=dt(0), dtype=dt)
            self.space.add_property_layer(lay)
            self.layers[name] = lay
        self.layers[name].data[:] = data
        return "ok"

    @staticmethod
    def frac_tok(a, maxden=4000):
        """a float read back from the Axes as an exact fraction in lowest terms ('?' if it is none)"""
        from fractions import Fraction

        a = float(a)
        if not math.isfinite(a):
            return "?"
        f = Fraction(a).limit_denominator(maxden)
        if abs(float(f) - a) > 1e-9:
            return "?"
        return str(f.numerator) if f.denominator == 1 else f"{f.numerator}/{f.denominator}"

    @staticmethod
    def cbar_tok(lo, hi):
        """the range of a colour bar; matplotlib widens a range without extent (nonsingular, expander 0.1)"""
        lo, hi = float(lo), float(hi)
        if lo == int(lo) and hi == int(hi):
            return f"{int(lo)}..{int(hi)}"
        mid = (lo + hi) / 2
        if abs(mid - round(mid)) < 1e-9:
            half = 0.1 * abs(round(mid)) if round(mid) else 0.1
            if abs((hi - lo) / 2 - half) < 1e-9:
                return f"{round(mid)}..{round(mid)}"
        return "?..?"

    @staticmethod
    def layer_request(specs):
        request = {}
        for name, mode, arg, alpha, vmin, vmax, cbar in specs:
            port = {}
            if mode == "color":
                port["color"] = arg
            elif mode == "cmap":
                port["colormap"] = arg
            if alpha is not None:
                port["alpha"] = alpha / 100
            if vmin is not None:
                port["vmin"] = vmin
            if vmax is not None:
                port["vmax"] = vmax
            if cbar is not None:
                port["colorbar"] = cbar
            request[name] = port
        return request

    def draw_layers(self, specs, with_agents=False):
        """specs: [(name, mode, colour-or-cmap, alpha%, vmin, vmax, cbar)] with None for keys left out.
        with_agents: through draw_space(space, portrayal, propertylayer_portrayal=request), agents first"""
        m = L()
        np, plt = m["np"], m["plt"]
        before = {n: lay.data.copy() for n, lay in self.layers.items()}
        datas = {n: d.astype(int).tolist() for n, d in before.items()}
        # the same request is the same dict objects again (SolaraViz hands one portrayal dict to every redraw): what a draw
        # writes into it would be read back by the next draw of a layer whose values have changed meanwhile
        if not hasattr(self, "requests"):
            self.requests = {}
        request = self.requests.setdefault(repr(specs), self.layer_request(specs))
        request_before = copy.deepcopy(request)
        snap = self.snapshot() if with_agents else None
        fig = m["Figure"]()
        ax = fig.add_subplot()
        with warnings.catch_warnings():
            warnings.simplefilter("ignore")
            try:
                if with_agents:
                    m["draw_space"](self.space, self.portrayal, propertylayer_portrayal=request, ax=ax)
                else:
                    m["draw_property_layers"](self.space, request, ax)
            except Exception as e:
                # with agents: the agents are drawn first; a request the layers refuse still raises
                self.trace.append(("layers", self.fam, datas, specs, None, exc_tok(e), with_agents))
                return exc_tok(e)
            finally:
                plt.close("all")  # plt.colorbar creates a pyplot figure as a side effect
            groups = self.read_axes(ax) if with_agents else None
        for n, lay in self.layers.items():
            if not np.array_equal(lay.data, before[n]):
                self.trace.append(("layer-mutated", before[n].tolist(), np.asarray(lay.data).tolist()))
        if request != request_before:
            self.trace.append(("request-mutated", repr(request_before), repr(request)))
        out, res = self.read_layers(fig, ax, specs, datas)
        self.trace.append(("layers", self.fam, datas, specs, res, None, with_agents))
        if with_agents:
            self.trace.append(("draw", snap, groups, None, None, self.heap_before, self.heap_now()))
            return "ok" + "".join(
                f" | {mk} {z} n={len(mem)}" + "".join(" " + ",".join(t) for t in mem) for mk, z, mem in groups) + " ## " + out
        return out

    def read_layers(self, fig, ax, specs, datas):
        m = L()
        np = m["np"]
        colors = {tuple(m["to_rgba"](c)[:3]): c for c in LAYER_COLORS}
        bars = {}
        for cax in fig.axes[1:]:
            cb = getattr(cax, "_colorbar", None)
            if cb is not None:
                bars.setdefault(cax.get_ylabel(), []).append(self.cbar_tok(cb.norm.vmin, cb.norm.vmax))
        # the pictures, in the order they were put on the Axes; each is matched to the request by its position among
        # the drawn layers (the names the space has a layer for)
        drawn_names = [name for name, *_ in specs if name in self.layers]
        pics = list(ax.images) if self.fam not in HEXES else [c for c in ax.collections if isinstance(c, m["PolyCollection"])]
        out, res = "ok", []
        for i, pic in enumerate(pics):
            name = drawn_names[i] if i < len(drawn_names) else "?"
            spec = next((sp for sp in specs if sp[0] == name), None)
            bar = bars.get(name, [])
            btok = "-" if not bar else bar[0] if len(bar) == 1 else "twice"
            if self.fam not in HEXES:
                arr = np.ma.filled(pic.get_array().astype(float), np.nan)
                if arr.ndim == 3:
                    ctok = colors.get(tuple(arr[0, 0, :3]), "?")
                    if not (arr[..., :3] == arr[0, 0, :3]).all():
                        ctok = "?"
                    rows = [[self.frac_tok(px[3]) for px in row] for row in arr]
                    head = f"{name} img color={ctok} cbar={btok}"
                    res.append((name, "img", ctok, None, None, None, btok, rows))
                else:
                    rows = [[to_tok("", v) for v in row] for row in arr]
                    al = pic.get_alpha()
                    atok = "100" if al is None else to_tok("alpha", al)
                    head = (f"{name} imgmap cmap={pic.get_cmap().name} alpha={atok} vmin={to_tok('', pic.norm.vmin)} "
                            f"vmax={to_tok('', pic.norm.vmax)} cbar={btok}")
                    res.append((name, "imgmap", pic.get_cmap().name, atok, to_tok("", pic.norm.vmin), to_tok("", pic.norm.vmax), btok, rows))
                out += " | " + head + "".join(f" r{r}=" + ",".join(row) for r, row in enumerate(rows))
            else:
                fcs = pic.get_facecolors()
                cells, where = [], []
                for path in pic.get_paths():
                    cx, cy = path.vertices[:6].mean(axis=0)
                    row = round(cy / 1.5)
                    colf = (cx - (row % 2 == 0) * SQ3 / 2) / SQ3
                    col = round(colf)
                    okc = abs(cy / 1.5 - row) < 1e-6 and abs(colf - col) < 1e-6
                    where.append((col, row) if okc else ("?", "?"))
                if spec is not None and spec[1] == "cmap":
                    cmap = m["matplotlib"].colormaps[spec[2]] if spec[2] in m["matplotlib"].colormaps else None
                    # the level behind a colour: searched among the multiples of 1 / (vmax - vmin) of this request
                    lo = min(min(r) for r in datas[name]) if spec[4] is None else spec[4]
                    hi = max(max(r) for r in datas[name]) if spec[5] is None else spec[5]
                    span = max(hi - lo, 1)
                    from fractions import Fraction

                    cands = [Fraction(k, span) for k in range(span + 1)]
                    alphas = {round(float(fc[3]), 9) for fc in fcs}
                    atok = to_tok("alpha", alphas.pop()) if len(alphas) == 1 else "?"
                    for fc in fcs:
                        hit = [c for c in cands if cmap is not None and np.abs(np.asarray(cmap(float(c)))[:3] - fc[:3]).sum() < 1e-6]
                        cells.append(self.frac_tok(float(hit[0])) if len(hit) == 1 else "?")
                    head = f"{name} hexmap cmap={spec[2]} alpha={atok} cbar={btok}"
                    res.append((name, "hexmap", spec[2], atok, None, None, btok, list(zip(where, cells))))
                else:
                    ctok = colors.get(tuple(fcs[0][:3]), "?") if len(fcs) else "?"
                    if len(fcs) and not (fcs[:, :3] == fcs[0, :3]).all():
                        ctok = "?"
                    cells = [self.frac_tok(fc[3]) for fc in fcs]
                    head = f"{name} hex color={ctok} cbar={btok}"
                    res.append((name, "hex", ctok, None, None, None, btok, list(zip(where, cells))))
                out += " | " + head + "".join(f" {c},{r}={v}" for (c, r), v in zip(where, cells))
        stray = sorted(set(bars) - set(drawn_names))
        if stray:
            out += " | stray-colorbars=" + "+".join(stray)
        return out, res

    LEGACY_SPEC = {
        "cmap": ("v", "cmap", "viridis", None, 0, 9, False),
        "color": ("v", "color", "red", None, 0, 9, False),
        "cmapauto": ("v", "cmap", "viridis", None, None, None, False),
        "colorauto": ("v", "color", "red", None, None, None, False),
    }

    @staticmethod
    def parse_spec(tok):
        name, mode, alpha, vmin, vmax, cbar = tok.split(":")
        kind, _, arg = mode.partition("=")
        opt = lambda t, f: None if t == "-" else f(t)  # noqa: E731
        return (name, kind, arg or None, opt(alpha, int), opt(vmin, int), opt(vmax, int), opt(cbar, lambda t: t == "y"))

    # dispatcher --------------------------------------------------------------------------------
    def line(self, w):
        k = w[0]
        if k == "dict":
            r = int(w[1])
            d = {}
            for kv in w[2:]:
                key, tok = kv.split("=")
                d[key] = to_py(key, tok)
            if r < len(self.heap):
                self.heap[r].clear()  # the same object changes its content
                self.heap[r].update(d)
            elif r == len(self.heap):
                self.heap.append(d)
            else:
                raise ValueError(w)
            return "ok"
        if k == "portray":
            if w[2] == "-":
                self.pmap.pop(int(w[1]), None)
            else:
                self.pmap[int(w[1])] = int(w[2])
            return "ok"
        if k == "place":
            return self.place(int(w[1]), int(w[2]), int(w[3]))
        if k == "move":
            return self.move(int(w[1]), int(w[2]), int(w[3]))
        if k == "remove":
            return self.remove(int(w[1]))
        if k == "ghost":
            m = L()
            g = (m["CellAgent"] if self.fam in NEW_STYLE else m["mesa"].Agent)(self.model)
            g.vid = int(w[1])
            self.ghosts = getattr(self, "ghosts", []) + [g]
            return "ok"
        if k == "collect":
            return self.collect()
        if k == "collectd":
            return self.collect(tuple(w[1:5]))
        if k == "draw":
            return self.draw()
        if k == "drawc":
            return self.draw(component=True)
        if k == "sdefault":
            return self.sdefault()
        if k == "drawnet":
            return self.draw_net(w[1:])
        if k == "frame":
            return self.frame()
        if k == "drawk":
            return self.draw(kw=dict(t.split("=") for t in w[1:]))
        if k == "altair":
            return self.altair()
        if k == "altairc":
            return self.altair(component=True)
        if k == "altairc0":
            return self.altair(component=True, default=True)
        if k == "drawc0":
            return self.draw(component=True, default=True)
        if k == "heap":
            return self.heap_line()
        if k == "layer":
            return self.set_layer("v", [int(v) for v in w[1:]])
        if k == "layern":
            return self.set_layer(w[1], [int(v) for v in w[2:]])
        if k == "drawlayer":
            return self.draw_layers([self.LEGACY_SPEC[w[1]]])
        if k == "drawlayers":
            return self.draw_layers([self.parse_spec(t) for t in w[1:]])
        if k == "drawsp":
            return self.draw_layers([self.parse_spec(t) for t in w[1:]], with_agents=True)
        raise ValueError(w)


# ----------------------------------------------------------------------------------------------
# the implementation side of a params scenario

KIND_TOK = {"po": "POSITIONAL_ONLY", "pk": "POSITIONAL_OR_KEYWORD", "vp": "VAR_POSITIONAL", "ko": "KEYWORD_ONLY", "vk": "VAR_KEYWORD"}


def build_init(params):
    """a real function with the given signature (compiled from a def statement)"""
    parts, seen_slash, seen_star = [], False, False
    n_po = sum(1 for p in params if p[1] == "po")
    for i, (name, kind, dflt) in enumerate(params):
        d = "=None" if dflt == "d" else ""
        if kind == "ko" and not seen_star:
            parts.append("*")
            seen_star = True
        if kind == "vp":
            parts.append("*" + name)
            seen_star = True
        elif kind == "vk":
            parts.append("**" + name)
        else:
            parts.append(name + d)
        if kind == "po" and i == n_po - 1:
            parts.append("/")
            seen_slash = True
    src = "def __init__(" + ", ".join(parts) + "):\n    pass\n"
    ns = {}
    exec(src, ns)  # noqa: S102 - generated from a closed vocabulary
    f = ns["__init__"]
    got = [(p.name, p.kind.name) for p in inspect.signature(f).parameters.values()]
    assert got == [(n, KIND_TOK[k]) for n, k, _ in params], (src, got)
    return f, src


class ParamsImpl:
    def __init__(self):
        self.f = None
        self.sig = None
        self.trace = []
        self.rcs = []

    def close(self):
        for rc in self.rcs:
            try:
                rc.close()
            except Exception:  # noqa: S110
                pass

    def check_tok(self, call):
        try:
            call()
        except ValueError as e:
            t = str(e)
            if t.startswith("Mesa's visualization requires"):
                return "err args"
            if t.startswith("The model initialization function has no parameter"):
                return "err noinstance"
            if "is positional-only" in t:
                return "err posonly " + t.split()[2]
            if t.startswith("Missing required model parameter: "):
                return "err missing " + t.split(": ", 1)[1]
            if t.startswith("Invalid model parameter: "):
                return "err invalid " + t.split(": ", 1)[1]
            return "err Value " + t[:40]
        return "ok accept"

    @staticmethod
    def callable_static(src, keys):
        ns = {}
        exec(src, ns)  # noqa: S102 - the generated def statement of this scenario
        try:
            ns["__init__"](object(), **{k: 1 for k in keys})
            return True
        except TypeError:
            return False

    def callable_with(self, keys):
        try:
            self.f(object(), **{k: 1 for k in keys})
            return True
        except TypeError:
            return False

    def make_value(self, v):
        m = L()
        if v == "slider":
            return m["Slider"]("s", 1, 0, 3)
        if v == "val":
            return 3
        ks = v.split("+")[1:]
        d = {}
        for k in ks:
            d[k] = {"type": "SliderInt", "value": 1, "min": 0, "max": 3, "step": 1, "label": "lbl"}.get(k, 1)
        return d

    def make_param(self, spec):
        """the model_params value of an `inputs` token (values are small ints; a Checkbox gets a bool, InputText a str)"""
        m = L()
        f = spec.split("/")
        if f[0] == "slider":
            return m["Slider"](f[3], int(f[2]), 0, 10, step=1 if f[1] == "i" else 0.5)
        if f[0] == "spec":
            d = {"type": f[1], "min": 0, "max": 10, "step": 1, "values": list(range(10))}
            if f[2] != "-":
                v = int(f[2])
                d["value"] = bool(v) if f[1] == "Checkbox" else str(v) if f[1] == "InputText" else float(v) if f[1] == "SliderFloat" else v
            if f[3] != "-":
                d["label"] = f[3]
            return d
        if f[0] == "fdict":
            return {"a": 1}
        return int(f[1])

    @staticmethod
    def val_tok(v):
        if v is None:
            return "None"
        if isinstance(v, dict):
            return "dict"
        if isinstance(v, bool):
            return str(int(v))
        return to_tok("", v)

    def inputs(self, items):
        """render ModelCreator on the parameter dict; record the inputs it creates at solara's boundary"""
        from unittest import mock

        m = L()
        sv, solara = m["sv"], m["solara"]
        params = {n: self.make_param(v) for n, v in items}
        klass = type("M", (), {"__init__": self.f})
        inst = object.__new__(klass)
        rec = []

        def spy(kind, orig):
            def wrapper(*a, **k):
                cb = k.get("on_value")
                rec.append((kind, cb.__defaults__[0] if cb is not None and cb.__defaults__ else "?",
                            a[0] if a else k.get("label"), k.get("value"), cb))
                return orig(*a, **k)
            return wrapper

        kinds = {"SliderInt": "sliderint", "SliderFloat": "sliderfloat", "Select": "select", "Checkbox": "checkbox", "InputText": "inputtext"}
        self.mp = solara.reactive({})
        self.widgets = {}
        with mock.patch.multiple(solara, **{a: spy(k, getattr(solara, a)) for a, k in kinds.items()}):
            try:
                el = sv.ModelCreator(solara.reactive(inst), params, model_parameters=self.mp)
                rc, container = render_context(el)
                self.rcs.append(rc)  # kept open for the `change` ops that follow, closed with the scenario
                rc.render(el, container)
            except ValueError as e:
                t = str(e)
                self.mp = None
                if t.endswith("is not a supported input type"):
                    out = "err unsupported " + t.split()[0]
                else:
                    out = self.check_tok(lambda: (_ for _ in ()).throw(e))
                self.trace.append(("inputs", self.src, items, out, None, None, None, any(p[1] == "vp" for p in self.sig)))
                return out
        self.widgets = {name: cb for _, name, _, _, cb in rec}
        got = dict(self.mp.value)
        self.trace.append(("inputs", self.src, items, "ok", got, [(k, n, lab, v) for k, n, lab, v, _ in rec], params,
                           any(p[1] == "vp" for p in self.sig)))
        return ("ok params=" + or_dash(",".join(f"{k}:{self.val_tok(v)}" for k, v in got.items()))
                + " widgets=" + or_dash(",".join(f"{k}/{n}/{lab}/{self.val_tok(v)}" for k, n, lab, v, _ in rec)))

    def change(self, name, value):
        if getattr(self, "mp", None) is None or name not in self.widgets:
            return "err noinput"
        before = dict(self.mp.value)
        self.widgets[name](int(value))
        got = dict(self.mp.value)
        self.trace.append(("change", self.src, name, int(value), before, got, self.callable_with_values(got)))
        return "ok params=" + or_dash(",".join(f"{k}:{self.val_tok(v)}" for k, v in got.items()))

    def callable_with_values(self, kw):
        try:
            self.f(object(), **kw)
            return True
        except TypeError:
            return False

    def line(self, w):
        m = L()
        sv = m["sv"]
        k = w[0]
        if k == "sig":
            self.sig = [tuple(p.split(":")) for p in w[1:]]
            self.f, self.src = build_init(self.sig)
            return "ok"
        if k == "inputs":
            return self.inputs([t.split(":") for t in w[1:]])
        if k == "change":
            return self.change(w[1], w[2])
        if k == "check":
            keys = w[1:]
            out = self.check_tok(lambda: sv._check_model_params(self.f, {k_: 1 for k_ in keys}))
            self.trace.append(("check", self.src, keys, out, self.callable_with(keys), any(p[1] == "vp" for p in self.sig)))
            return out
        if k == "checks":
            # the check as ModelCreator runs it under a SimulatorController: the reset passes simulator=... as well
            keys = w[1:]
            out = self.check_tok(lambda: sv._check_model_params(self.f, {k_: 1 for k_ in keys}, ("simulator",)))
            try:
                self.f(object(), simulator=1, **{k_: 1 for k_ in keys})
                can = True
            except TypeError:
                can = False
            self.trace.append(("check", self.src.splitlines()[0] + " called with simulator= and", keys, out, can, any(p[1] == "vp" for p in self.sig)))
            return out
        if k == "split":
            items = [t.split(":") for t in w[1:]]
            params = {n: self.make_value(v) for n, v in items}
            user, fixed = sv.split_model_params(params)
            self.trace.append(("split", items, list(user), list(fixed), params, user, fixed))
            return f"ok input={or_dash(','.join(user))} fixed={or_dash(','.join(fixed))}"
        if k == "creator":
            solara = m["solara"]
            items = [t.split(":") for t in w[1:]]
            params = {n: self.make_value(v) for n, v in items}
            klass = type("M", (), {"__init__": self.f})
            inst = object.__new__(klass)
            out = self.check_tok(lambda: render_once(sv.ModelCreator(solara.reactive(inst), params)))
            keys = [n for n, _ in items]
            self.trace.append(("creator", self.src, keys, out, self.callable_with(keys), any(p[1] == "vp" for p in self.sig)))
            return out
        raise ValueError(w)


# the implementation side of a ctrl scenario: the real SolaraViz, its buttons clicked


class LoopOverrun(BaseException):
    """the play loop did not end where every scenario's loop ends (BaseException: `step` swallows Exception)"""


class CtrlImpl:
    """SolaraViz rendered by solara.render (Sidebar / AppBar replaced by Column: outside an AppLayout their children
    are not rendered).  Buttons, sliders, the checkbox and the inputs are recorded at solara's boundary and operated
    through their on_click / on_value; the play loop (the function handed to solara.lab.use_task) is run to its end in
    this thread, `time.sleep` of mesa.visualization.solara_viz being the point where the scripted user acts."""

    def __init__(self, kind, sig=()):
        from contextlib import ExitStack

        self.kind = kind
        self.sorted = bool(sig)   # parameters bound by name do not show the order of the call
        # the parameters of the model class' __init__ after `self`
        self.sig = [tuple(t.split(":")) for t in sig] or ([("simulator", "pk", "d")] if kind == "sim" else []) + [("kw", "vk", "n")]
        self.stack = ExitStack()
        self.trace = []
        self.ready = False
        self.created = []
        self.btns, self.sliders, self.widgets, self.tasks, self.checks = [], {}, {}, [], {}
        self.script, self.sleeps, self.hook, self.tick_steps = None, 0, None, 0

    def close(self):
        try:
            if getattr(self, "rc", None) is not None:
                self.rc.close()
        except Exception:  # noqa: S110
            pass
        self.stack.close()

    # the model class -------------------------------------------------------------------------
    def model_class(self):
        """a mesa.Model subclass whose __init__ has the scenario's signature (compiled from a def statement); it keeps the
        keyword arguments it was called with (besides the controller's simulator) and is `running` while steps < stop"""
        m = L()
        mesa = m["mesa"]
        impl = self
        absent = object()
        params = [("self", "pk", "n"), *self.sig]

        def setup(model, kw, simulator):
            mesa.Model.__init__(model)
            model.kw = kw
            model.got_simulator = simulator
            impl.created.append(model)
            stop = kw.get("stop")
            if stop is not None and model.steps >= stop:
                model.running = False
            if simulator is not None:
                simulator.setup(model)

        def hook(loc):
            model = loc.pop("self")
            kw = {}
            for name, kind, _ in self.sig:
                if kind == "vk":
                    kw.update(loc[name])
                elif kind != "vp" and loc[name] is not absent:
                    kw[name] = loc[name]
            setup(model, kw, kw.pop("simulator", None) if impl.kind == "sim" else None)

        _, src = build_init(params)
        src = src.replace("=None", "=__absent__").replace("    pass\n", "    __hook__(locals())\n")
        ns = {"__absent__": absent, "__hook__": hook}
        exec(src, ns)  # noqa: S102 - generated from a closed vocabulary
        self.init_src = src
        self.setup_model = setup

        def step(model):
            impl.on_model_step(model)

        return type("CtrlModel", (mesa.Model,), {"__init__": ns["__init__"], "step": step})

    def on_model_step(self, model):
        stop = model.kw.get("stop")
        if stop is not None and model.steps >= stop:
            model.running = False
        self.tick_steps += 1
        if self.hook is not None and self.tick_steps == self.hook:
            self.click(1)

    # solara's boundary -----------------------------------------------------------------------
    def viz(self, r, t, stop0, items):
        from unittest import mock

        m = L()
        sv, solara = m["sv"], m["solara"]
        import solara.lab
        from mesa.visualization import utils as U

        self.U = U
        pv = ParamsImpl()
        params = {n: pv.make_param(v) for n, v in items}
        klass = self.model_class()
        kw0 = {} if stop0 == "-" else {"stop": int(stop0)}
        extra = {}
        # the first model is the caller's business (made without going through the signature of the scenario)
        model0 = klass.__new__(klass)
        self.simulator = None
        if self.kind == "sim":
            from mesa.experimental.devs import ABMSimulator

            self.simulator = ABMSimulator()
            extra["simulator"] = self.simulator
        self.setup_model(model0, kw0, self.simulator)

        def rec_button(orig):
            def wrapper(*a, **k):
                self.btns.append((k.get("label"), k.get("on_click"), bool(k.get("disabled", False))))
                return orig(*a, **k)
            return wrapper

        def rec_input(kind, orig):
            def wrapper(*a, **k):
                label = a[0] if a else k.get("label")
                cb = k.get("on_value")
                if label in ("Play Interval (ms)", "Render Interval (steps)", "Use Threads"):
                    self.sliders[label] = (cb, k.get("value"))
                else:
                    name = cb.__defaults__[0] if cb is not None and cb.__defaults__ else "?"
                    self.widgets[name] = cb
                return orig(*a, **k)
            return wrapper

        def fake_use_task(f, *a, **k):
            self.tasks.append(f)

        def fake_use_thread(f, *a, **k):
            return None

        impl = self

        class FakeTime:
            @staticmethod
            def sleep(_seconds):
                impl.on_sleep()

        patches = {a: rec_input(a, getattr(solara, a)) for a in ("SliderInt", "SliderFloat", "Select", "Checkbox", "InputText")}
        st = self.stack
        st.enter_context(mock.patch.multiple(solara, Button=rec_button(solara.Button), Sidebar=solara.Column, AppBar=solara.Column,
                                             use_thread=fake_use_thread, **patches))
        st.enter_context(mock.patch.object(solara.lab, "use_task", fake_use_task))
        st.enter_context(mock.patch.object(sv, "time", FakeTime))
        self.updates0 = U.update_counter.value
        if self.kind == "sim" and t:
            raise ValueError("threads with a simulator")
        try:
            element = sv.SolaraViz(model0, components=[], model_params=params, render_interval=r, use_threads=bool(t), **extra)
            self.rc, container = render_context(element)
            self.rc.render(element, container)
        except ValueError as e:
            txt = str(e)
            if txt.endswith("is not a supported input type"):
                out = "err unsupported " + txt.split()[0]
            else:
                out = ParamsImpl().check_tok(lambda: (_ for _ in ()).throw(e))
            self.trace.append(("viz", items, out, self.facts_viz(items)))
            return out
        self.ready = True
        self.items = items
        self.trace.append(("viz", items, "ok", self.facts_viz(items)))
        return self.state("viz", None)

    def facts_viz(self, items):
        """can the constructor be called the way a reset of this controller calls it?"""
        f, _ = build_init([("self", "pk", "n"), *self.sig])
        kw = {n: 1 for n, _ in items}
        try:
            if self.kind == "sim":
                # written out as the controller writes it: a `simulator` among the parameters is a second value for it
                f(object(), simulator=1, **kw)
            else:
                f(object(), **kw)
            can = True
        except TypeError:
            can = False
        return {"callable": can, "sig": self.init_src.splitlines()[0], "has_vp": any(p[1] == "vp" for p in self.sig), "kind": self.kind}

    def click(self, i):
        """buttons of the last render of the controller: 0 Reset, 1 the play / pause button, 2 Step"""
        label, cb, disabled = self.btns[-3:][i]
        if disabled:
            return False
        cb()
        return True

    def facts(self):
        cur = self.btns[-3:]
        model = self.created[-1]
        return {
            "gen": len(self.created) - 1, "steps": int(model.steps), "mrunning": bool(model.running),
            "running": not cur[1][2], "playing": cur[1][0] != "\u25b6", "play_dis": cur[1][2], "step_dis": cur[2][2],
            "labels": [b[0] for b in cur],
            "render": int(self.sliders["Render Interval (steps)"][1].value),
            "updates": int(self.U.update_counter.value - self.updates0),
            "kwargs": dict(model.kw),
            "threads": bool(self.sliders["Use Threads"][1].value),
            "sim": model.got_simulator is not None and model.got_simulator is self.simulator,
        }

    def state(self, op, arg, before=None, extra=None):
        f = self.facts()
        self.trace.append(("ctrl", op, arg, before, f, extra))
        b = lambda v: "1" if v else "0"  # noqa: E731
        return (f"ok gen={f['gen']} steps={f['steps']} mrunning={b(f['mrunning'])} running={b(f['running'])} playing={b(f['playing'])}"
                f" play={'dis' if f['play_dis'] else 'en'} stepb={'dis' if f['step_dis'] else 'en'} render={f['render']}"
                f" updates={f['updates']} kwargs=" + or_dash(",".join(f"{k}:{ParamsImpl.val_tok(v)}" for k, v in (sorted(f["kwargs"].items()) if self.sorted else f["kwargs"].items())))
                + f" sim={b(f['sim'])}")

    # the scripted user -----------------------------------------------------------------------
    def act(self, tok):
        if tok == "-":
            return
        if tok == "pause":
            self.click(1)
        elif tok == "reset":
            self.click(0)
        elif tok.startswith("render="):
            self.sliders["Render Interval (steps)"][0](int(tok.split("=")[1]))
        elif tok.startswith("set:"):
            _, name, v = tok.split(":")
            if name in self.widgets:
                self.widgets[name](int(v))
        else:
            raise ValueError(tok)

    def on_sleep(self):
        self.sleeps += 1
        self.tick_steps = 0
        if self.sleeps <= len(self.script):
            sl, self.hook = self.script[self.sleeps - 1]
            self.act(sl)
        elif self.sleeps == len(self.script) + 1:
            self.hook = None
            self.click(1)
        else:
            raise LoopOverrun()

    def loop(self, evs):
        import contextlib
        import io

        self.script = []
        for t in evs:
            sl, _, j = t.partition("@")
            self.script.append((sl, int(j) if j else None))
        self.sleeps, self.hook, self.tick_steps = 0, None, 0
        before = self.facts()
        step = next(f for f in reversed(self.tasks) if getattr(f, "__name__", "") == "step")
        buf = io.StringIO()
        try:
            with contextlib.redirect_stdout(buf):
                step()
        except LoopOverrun:
            self.hook = None
            self.trace.append(("ctrl-loop-overrun", evs))
            return "err overrun"
        finally:
            self.hook = None
        return self.state("loop", evs, before, {"ticks": self.sleeps, "printed": buf.getvalue()[:200], "threads": before["threads"]})

    def line(self, w):
        k = w[0]
        if k == "viz":
            return self.viz(int(w[1]), int(w[2]), w[3], [t.split(":", 1) for t in w[4:]])
        if not self.ready:
            if k in ("step", "play", "reset", "render", "threads", "change", "loop"):
                return "err notrendered"   # SolaraViz raised: there are no controls
            raise ValueError(w)
        before = self.facts()
        if k in ("step", "play", "reset"):
            try:
                if not self.click({"reset": 0, "play": 1, "step": 2}[k]):
                    self.trace.append(("ctrl-disabled", k, before))
                    return "disabled"
            except TypeError as e:
                if k != "reset":
                    raise
                # the constructor refused the arguments of the reset
                self.trace.append(("ctrl-reset-raised", before, str(e)[:200]))
                return "err Type"
            return self.state(k, None, before)
        if k == "render":
            self.sliders["Render Interval (steps)"][0](int(w[1]))
            return self.state(k, int(w[1]), before)
        if k == "threads":
            if self.kind == "sim" and int(w[1]):
                # SimulatorController's loop waits for its visualisation thread: cannot be run in one thread
                raise ValueError("threads with a simulator")
            self.sliders["Use Threads"][0](bool(int(w[1])))
            return self.state(k, int(w[1]), before)
        if k == "change":
            if w[1] not in self.widgets:
                return "err noinput"
            self.widgets[w[1]](int(w[2]))
            return self.state(k, (w[1], int(w[2])), before)
        if k == "loop":
            return self.loop(w[1:])
        raise ValueError(w)


# the implementation side of a plot scenario: PlotMatplotlib on a model with a real DataCollector

PLOT_COLORS = ["red", "green", "blue", "purple"]


class PlotImpl:
    def __init__(self):
        self.trace = []
        self.series = {}

    def data(self, toks):
        m = L()
        mesa = m["mesa"]
        self.series = {}
        for t in toks:
            name, vs = t.split("=")
            self.series[name] = [] if vs == "-" else [int(v) for v in vs.split(",")]
        n = len(next(iter(self.series.values()), []))
        model = mesa.Model(seed=1)
        model.i = 0
        reps = {name: (lambda mm, name=name: self.series[name][mm.i]) for name in self.series}
        # a further reporter that nobody asks to plot and that has no value at every other step: the plot of a measure shows
        # every collected value of THAT measure, whatever the other columns hold
        reps["zz_unplotted_with_gaps"] = lambda mm: None if mm.i % 2 else float("nan") if mm.i % 4 == 0 else 1
        model.datacollector = mesa.DataCollector(model_reporters=reps)
        for i in range(n):
            model.i = i
            model.datacollector.collect(model)
        self.model = model
        return "ok"

    def plot(self, w):
        m = L()
        from mesa.visualization.components import make_plot_component

        kind = w[0]
        measure = {"str": lambda: w[1], "dict": lambda: dict(t.split(":") for t in w[1:]), "list": lambda: list(w[1:]),
                   "tuple": lambda: tuple(w[1:]), "other": lambda: None}[kind]()
        got = []
        comp = make_plot_component(measure, post_process=got.append)
        try:
            with warnings.catch_warnings():
                warnings.simplefilter("ignore")
                render_once(comp(self.model))
        except KeyError as e:
            tok = f"err Key {e.args[0]}"
            self.trace.append(("plot", kind, w[1:], dict(self.series), None, tok, len(got)))
            return tok
        except Exception as e:
            self.trace.append(("plot", kind, w[1:], dict(self.series), None, exc_tok(e), len(got)))
            return exc_tok(e)
        if len(got) != 1:
            self.trace.append(("plot", kind, w[1:], dict(self.series), None, f"post_process called {len(got)} times", len(got)))
            return f"err post-process {len(got)}"
        ax = got[0]
        cycle = m["plt"].rcParams["axes.prop_cycle"].by_key()["color"]
        names = {m["matplotlib"].colors.to_hex(c): c for c in PLOT_COLORS}
        lines = []
        for i, ln in enumerate(ax.lines):
            lab = str(ln.get_label())
            col = m["matplotlib"].colors.to_hex(ln.get_color())
            ctok = "-" if col == m["matplotlib"].colors.to_hex(cycle[i % len(cycle)]) else names.get(col, "?")
            ys = [to_tok("", v) for v in ln.get_ydata()]
            lines.append(("-" if lab.startswith("_") else lab, ctok, ys))
        facts = {"ylabel": ax.get_ylabel() or "-", "legend": ax.get_legend() is not None, "xlabel": ax.get_xlabel(), "calls": len(got)}
        self.trace.append(("plot", kind, w[1:], dict(self.series), lines, facts, len(got)))
        return (f"ok ylabel={facts['ylabel']} legend={'y' if facts['legend'] else 'n'}"
                + "".join(f" | {lab},{c},{or_dash('+'.join(ys))}" for lab, c, ys in lines))

    def backend(self, name):
        from mesa.visualization.components import make_plot_component

        try:
            make_plot_component("m", backend=name)
        except Exception as e:
            self.trace.append(("backend", name, exc_tok(e)))
            return exc_tok(e)
        self.trace.append(("backend", name, "ok"))
        return "ok"

    def line(self, w):
        if w[0] == "data":
            return self.data(w[1:])
        if w[0] == "plot":
            return self.plot(w[1:])
        if w[0] == "backend":
            return self.backend(w[1])
        raise ValueError(w)


def run_impl(sc):
    w0 = sc.lines[0].split()
    assert w0[0] == "scenario"
    if w0[1] == "space":
        impl = SpaceImpl(w0[2], int(w0[3]), int(w0[4]), [int(v) for v in w0[5:]])
    elif w0[1] == "ctrl":
        impl = CtrlImpl(w0[2], w0[3:])
    elif w0[1] == "plot":
        impl = PlotImpl()
    else:
        impl = ParamsImpl()
    obs = ["ok"]
    try:
        for line in sc.lines[1:]:
            obs.append(impl.line(line.split()))
    finally:
        if hasattr(impl, "close"):
            impl.close()
        release_widgets()
    sc.meta["trace"] = impl.trace
    return obs


# ----------------------------------------------------------------------------------------------
# generator


def gen_dict(R, policy):
    kv = []
    if R.random() < 0.6:
        kv.append(("color", R.choice(FACE_TUPLES if R.random() < policy.get("tuples", 0) else FACE_COLORS)))
    if R.random() < 0.5:
        kv.append(("size", R.choice(SIZES)))
    if R.random() < 0.45:
        kv.append(("marker", R.choice(MARKERS[:3] if R.random() < 0.8 else MARKERS)))
    if R.random() < 0.45:
        kv.append(("zorder", R.choice(ZORDERS)))
    for key, vals in (("alpha", ALPHAS), ("edgecolors", EDGE_COLORS), ("linewidths", LINEWIDTHS)):
        pol = policy[key]
        if pol == "all" or (pol == "some" and R.random() < 0.5):
            if key == "edgecolors" and R.random() < policy.get("tuples", 0):
                vals = EDGE_TUPLES
            kv.append((key, R.choice(vals)))
    if R.random() < 0.12:
        kv.append((R.choice(["id", "label", "x", "y"]), R.choice(["7", "q"])))
    R.shuffle(kv)
    return " ".join(f"{k}={v}" for k, v in kv)


def gen_drawlayers(R, names):
    """a request for draw_property_layers: mostly layers the space has, in any order, sometimes a name it has not"""
    req = R.sample(names, R.randint(1, len(names))) if names else []
    if R.random() < 0.2 or not req:
        req.insert(R.randrange(len(req) + 1), "zz")
    specs = []
    for n in req:
        k = R.random()
        mode = f"color={R.choice(LAYER_COLORS)}" if k < 0.55 else f"cmap={R.choice(LAYER_CMAPS)}" if k < 0.97 else "none"
        alpha = "-" if R.random() < 0.5 else str(R.choice([25, 50, 100]))
        k = R.random()
        if k < 0.4:
            vmin = vmax = "-"
        elif k < 0.5:
            vmin, vmax = (str(R.randint(-2, 3)), "-") if R.random() < 0.5 else ("-", str(R.randint(6, 12)))
        else:
            lo = R.randint(-2, 6)
            hi = lo + R.choice([0, 1, 2, 3, 4, 6, 8]) if R.random() < 0.95 else lo - R.randint(1, 3)
            vmin, vmax = str(lo), str(hi)
        cbar = R.choice(["-", "y", "n", "n"])
        if (vmin != "-" and vmax != "-" and int(vmax) < int(vmin)) or (vmax == "-" and vmin != "-" and int(vmin) > 0) \
                or (vmin == "-" and vmax != "-" and int(vmax) < 9):
            # (possibly, with the layer's own minimum / maximum in 0..9) an inverted range: what a colour bar makes of it
            # (nonsingular swaps and widens it) is matplotlib's
            cbar = "n"
        specs.append(f"{n}:{mode}:{alpha}:{vmin}:{vmax}:{cbar}")
    return "drawlayers " + " ".join(specs)


def gen_space(R, tier):
    fam = R.choice(FAMILIES + ("multi", "moore", "hex", "hexm", "netgrid", "net"))
    w, h = R.choice([1, 2, 2, 3, 3, 4, 5]), R.choice([1, 2, 3, 3, 4, 5])
    if fam in GRID_LEGACY + ("cs",) and R.random() < 0.04:
        # a space without room (only the mesa.space classes can be built that small): draw_space raises on 0 x 0
        # (its default size), Altair on width or height 0 (its default mark size)
        w, h = R.choice([(0, 0), (0, 0), (0, 3), (2, 0)])
    extra, cells = [], None
    if fam in NETS:
        n = R.choice([1, 2, 2, 3, 3, 4, 5, 6])  # one node: a layout without extent (V12)
        if R.random() < 0.03:
            n = 0  # a network without nodes: draw_network raises
        labels = list(range(n)) if R.random() < 0.4 else R.sample(range(0, 9), n)
        if R.random() < 0.5:
            R.shuffle(labels)
        extra = labels
        cells = [(lab, 0) for lab in labels]
    elif fam == "vor":
        pts = R.sample(VOR_POINTS, R.choice([1, 1, 2, 3, 3, 4, 5, 6]))  # one centroid: no extent (V15)
        extra = [c for p in pts for c in p]
        cells = list(pts)
    elif fam in GRIDS:
        cells = [(x, y) for x in range(w) for y in range(h)]
    if fam == "cs" and R.random() < 0.5:
        extra = [R.randint(-3, 3), R.randint(-3, 3)]  # x_min, y_min: the width is x_max - x_min, not x_max
    lines = [" ".join(["scenario", "space", fam, str(w), str(h), *map(str, extra)])]

    policy = {}
    for key in ("alpha", "edgecolors", "linewidths"):
        policy[key] = R.choices(["none", "all", "some"], [0.64, 0.18, 0.18])[0]
    must_dict = any(p == "all" for p in policy.values())
    # share of colours given as RGB(A) tuples: none, all, or mixed with names
    policy["tuples"] = R.choices([0, 1, 0.5], [0.6, 0.1, 0.3])[0]
    ndict = R.randint(1 if must_dict else 0, 4)
    for r in range(ndict):
        lines.append(f"dict {r} " + gen_dict(R, policy))
    nag = R.choice([0, 1, 2, 3, 3, 4, 5, 6])
    where, occ = {}, {}

    def pick_loc(vid):
        if cells is None:
            # a continuous space without room: a place that both sides refuse
            return (R.randrange(w), R.randrange(h)) if w and h else (0, 0)
        free = [c for c in cells if not (fam in EXCLUSIVE and occ.get(c) not in (None, vid))]
        if not free:
            return None
        # several agents per cell are frequent
        crowded = [c for c in free if c in occ.values()] if fam not in EXCLUSIVE else []
        return R.choice(crowded) if crowded and R.random() < 0.35 else R.choice(free)

    def gen_drawnet():
        """a layout for the caller's layout algorithm: distinct positions for the nodes, sometimes one node missing, one
        unknown node more, or (rarely) empty"""
        if R.random() < 0.04:
            return "drawnet"
        labs = list(extra)
        if labs and R.random() < 0.25:
            labs.remove(R.choice(labs))
        if R.random() < 0.15:
            labs.append(R.choice([n for n in range(9, 13)]))
        R.shuffle(labs)
        spots = R.sample([(x, y) for x in range(-2, 5) for y in range(-1, 4)], len(labs))
        if len(labs) > 1 and R.random() < 0.1:
            spots = [(spots[0][0], spots[0][1] + i) for i in range(len(labs))]  # all on one vertical line
        return " ".join(["drawnet", *[f"{n}:{x}:{y}" for n, (x, y) in zip(labs, spots)]])

    def observe():
        k = R.random()
        if fam in NETS and k < 0.22:
            return gen_drawnet()
        if fam not in NETS and k < 0.06:
            return "frame"
        if k < 0.28:
            return "collect"
        if k < 0.36:
            return (f"collectd {R.choice(FACE_COLORS + FACE_TUPLES[:1])} {R.choice(SIZES)} {R.choice(MARKERS)} "
                    f"{R.choice(ZORDERS)}")
        if k < 0.69:
            return "draw"
        if k < 0.72:
            kws = R.sample([("alpha", ALPHAS), ("edgecolors", EDGE_COLORS), ("linewidths", LINEWIDTHS)], R.choice([1, 1, 2]))
            return "drawk " + " ".join(f"{key}={R.choice(vals)}" for key, vals in kws)
        if k < 0.74:
            return "drawc"  # through the solara component (renders a PNG: slow, so rare)
        if k < 0.88:
            return "altair"
        if k < 0.93:
            return "altairc"
        if k < 0.95:
            return R.choice(["altairc0", "drawc0", "sdefault", "sdefault"])
        return "heap"

    def set_portray(vid):
        if ndict and (must_dict or R.random() < 0.8):
            lines.append(f"portray {vid} {R.randrange(ndict)}")
        else:
            lines.append(f"portray {vid} -")

    if R.random() < 0.35:
        lines.append(observe())  # a space without agents
    for vid in range(1, nag + 1):
        if R.random() < 0.08:
            lines.append(f"ghost {vid + 10}")
        loc = pick_loc(vid)
        if loc is None:
            continue
        lines.append(f"place {vid} {loc[0]} {loc[1]}")
        where[vid] = loc
        if fam in EXCLUSIVE:
            occ[loc] = vid
        else:
            occ[("m", vid)] = loc
        set_portray(vid)
        if R.random() < 0.15:
            lines.append(observe())
    for _ in range(R.randint(1, 3)):
        lines.append(observe())
    if fam in GRIDS and w * h > 0 and R.random() < 0.5:
        def layer_vals():
            vals = [R.randrange(10) for _ in range(w * h)]
            if R.random() < 0.12:
                vals = [vals[0]] * (w * h)  # a constant layer: under an automatic range vmin == vmax (V13)
            return " ".join(map(str, vals))

        if R.random() < 0.3:
            mode = R.choice(["cmap", "color", "cmapauto", "colorauto"])
            lines.append("layer " + layer_vals())
            lines.append(f"drawlayer {mode}")
            if R.random() < 0.5:
                lines.append(f"drawlayer {R.choice([mode, 'color', 'cmap'])}")  # drawing twice shows the same values
        else:
            names = R.sample(LAYER_NAMES, R.choice([1, 1, 2, 3]))
            for n in names:
                lines.append(f"layern {n} " + layer_vals())
            for _ in range(R.choice([1, 2, 2, 3])):
                line = gen_drawlayers(R, names)
                if R.random() < 0.2:  # agents and layers on one Axes, through draw_space
                    line = ("drawsp" if R.random() < 0.9 else "drawsp") + line[len("drawlayers"):]
                lines.append(line)
                if R.random() < 0.15:
                    lines.append(f"layern {R.choice(names)} " + layer_vals())
    elif fam not in GRIDS and R.random() < 0.05:
        # only grids have property layers; an empty request through draw_space is skipped
        lines.append(R.choice([gen_drawlayers(R, []), "drawsp", "drawsp v:color=red:-:-:-:n"]))
    for _ in range(R.randint(0, 6)):
        k = R.random()
        if k < 0.3 and where:
            vid = R.choice(sorted(where))
            if fam in EXCLUSIVE:
                occ = {c: v for c, v in occ.items() if v != vid}
            loc = pick_loc(vid)
            if loc is not None:
                lines.append(f"move {vid} {loc[0]} {loc[1]}")
                where[vid] = loc
                if fam in EXCLUSIVE:
                    occ[loc] = vid
                else:
                    occ[("m", vid)] = loc
        elif k < 0.42 and where:
            vid = R.choice(sorted(where))
            lines.append(f"remove {vid}")
            del where[vid]
            occ = {c: v for c, v in occ.items() if not (v == vid or c == ("m", vid))}
        elif k < 0.52:
            vid = R.choice([v for v in range(1, nag + 2) if v not in where] or [nag + 1])
            loc = pick_loc(vid)
            if loc is not None:
                lines.append(f"place {vid} {loc[0]} {loc[1]}")
                where[vid] = loc
                if fam in EXCLUSIVE:
                    occ[loc] = vid
                else:
                    occ[("m", vid)] = loc
                if must_dict:
                    set_portray(vid)
        elif k < 0.64 and ndict:
            lines.append(f"dict {R.randrange(ndict)} " + gen_dict(R, policy))
        elif k < 0.76 and where:
            set_portray(R.choice(sorted(where)))
        else:
            lines.append(observe())
    lines.append(observe())
    if R.random() < 0.3:
        lines.append("heap")
    return core.Scenario(lines, {})


NAMES = ["a", "b", "c", "n", "seed", "kwargs", "args", "options", "width", "rest", "kw", "simulator", "simulator"]


def gen_sig(R):
    """a syntactically valid signature: [instance] po* pk* [*args] ko* [**kw], defaults contiguous at the
    end of the positional part, all names distinct"""
    names = list(dict.fromkeys(NAMES))
    R.shuffle(names)
    if R.random() < 0.25:   # `simulator` among the first names drawn
        names.remove("simulator")
        names.append("simulator")

    def fresh(prefer=()):
        for n in prefer:
            if n in names:
                names.remove(n)
                return n
        return names.pop()

    params = []
    npo = R.choice([0, 0, 0, 1, 2])
    npk = R.choice([0, 1, 1, 2, 3])
    # the parameter that receives the instance
    k = R.random()
    if k < 0.8:
        params.append((R.choice(["self", "self", "this"]), "po" if npo else "pk", "n"))
    elif k < 0.9:
        params.append(("self", "po", "n"))
    elif k < 0.94:
        params.append(("self", "po" if npo else "pk", "d"))
    dflt = bool(params) and params[0][2] == "d"
    for i in range(npo + npk):
        dflt = dflt or R.random() < (0.55 if i < npo else 0.3)
        params.append((fresh(), "po" if i < npo else "pk", "d" if dflt else "n"))
    if R.random() < 0.1:
        params.append((fresh(R.sample(["args", "rest"], 1)), "vp", "n"))
    for _ in range(R.choice([0, 0, 1, 2])):
        params.append((fresh(), "ko", "d" if R.random() < 0.4 else "n"))
    if R.random() < 0.3:
        params.append((fresh(R.sample(["kwargs", "options", "kwargs"], 2)), "vk", "n"))
    return params


def gen_keys(R, params):
    inst = params[0] if params and params[0][1] in ("po", "pk") else None
    rest = params[1:] if inst else params
    keys = []
    for n, k, d in rest:
        if k in ("vp", "vk"):
            continue
        p = 0.9 if d == "n" else 0.4
        if k == "po":
            p = 0.25
        if R.random() < p:
            keys.append(n)
    if R.random() < 0.2:
        keys.append(R.choice(["zz", "extra", "kwargs", "args", "simulator"]))
    if inst and R.random() < 0.08:
        keys.append(inst[0])
    keys = list(dict.fromkeys(keys))
    R.shuffle(keys)
    return keys


INPUT_TYPES = ["SliderInt", "SliderFloat", "Select", "Checkbox", "InputText"]


def gen_inputs(R, keys):
    """ModelCreator on a full parameter dict (fixed values, Slider objects, option dicts), then changes of inputs"""
    toks, adjustable = [], []
    for n in keys:
        k = R.random()
        if k < 0.3:
            toks.append(f"{n}:val/{R.randrange(10)}")
        elif k < 0.37:
            toks.append(f"{n}:fdict")
        elif k < 0.65:
            toks.append(f"{n}:slider/{R.choice('if')}/{R.randrange(10)}/{R.choice(['N', 'lbl', n])}")
            adjustable.append(n)
        else:
            t = R.choice(INPUT_TYPES) if R.random() < 0.93 else R.choice(["Foo", "slider", "Slider"])
            v = "-" if R.random() < 0.1 else str(R.randrange(2) if t == "Checkbox" else R.randrange(10))
            toks.append(f"{n}:spec/{t}/{v}/{R.choice(['-', '-', 'K', 'lbl'])}")
            adjustable.append(n)
    out = [" ".join(["inputs", *toks])]
    for _ in range(R.choice([0, 1, 1, 2, 3])):
        pool = adjustable if adjustable and R.random() < 0.9 else (keys or ["zz"])
        out.append(f"change {R.choice(pool)} {R.randrange(10)}")
    return out


def gen_params(R, tier):
    lines = ["scenario params"]
    for _ in range(R.randint(1, 3)):
        params = gen_sig(R)
        lines.append("sig " + " ".join(":".join(p) for p in params))
        for _ in range(R.randint(2, 6)):
            keys = gen_keys(R, params)
            k = R.random()
            if k < 0.12:
                if R.random() < 0.7:
                    # the names a call by keyword needs (and some it may take): mostly accepted, so that inputs get changed
                    rest = params[1:] if params and params[0][1] in ("po", "pk") else params
                    keys = [n for n, kd, d in rest if kd in ("pk", "ko") and (d == "n" or R.random() < 0.4)]
                    R.shuffle(keys)
                lines.extend(gen_inputs(R, keys))
            elif k < 0.8:
                lines.append(" ".join(["checks" if R.random() < 0.25 else "check", *keys]))
            elif k < 0.9:
                vals = [R.choice(["slider", "val", "dict+type+value+min+max", "dict+label", "dict"]) for _ in keys]
                lines.append(" ".join(["creator", *[f"{a}:{b}" for a, b in zip(keys, vals)]]))
            else:
                names = list(dict.fromkeys(keys + R.sample(NAMES, 2)))[:len(keys) + 2]
                vals = [R.choice(["slider", "val", "val", "dict+type+value", "dict+type", "dict+label+value", "dict"]) for _ in names]
                lines.append(" ".join(["split", *[f"{a}:{b}" for a, b in zip(names, vals)]]))
    return core.Scenario(lines, {})


def enum_signatures(maxn=3):
    """every valid signature shape with at most `maxn` parameters after the instance parameter
    (instance: positional-or-keyword, positional-only, or absent), as params scenarios that check
    every subset of {parameter names, the instance's name, an unknown name}"""
    rank = {"po": 0, "pk": 1, "vp": 2, "ko": 3, "vk": 4}
    out = []

    def rec(prefix, n_left):
        yield prefix
        if n_left == 0:
            return
        last = prefix[-1] if prefix else None
        for kind in ("po", "pk", "vp", "ko", "vk"):
            if last and rank[kind] < rank[last[1]]:
                continue
            if kind in ("vp", "vk") and last and last[1] == kind:
                continue
            if kind == "vp" and last and last[1] == "ko":
                continue
            for d in ("n", "d"):
                if kind in ("vp", "vk") and d == "d":
                    continue
                if kind in ("po", "pk") and d == "n" and any(p[1] in ("po", "pk") and p[2] == "d" for p in prefix):
                    continue
                name = {"vp": "rest", "vk": "kw"}.get(kind, "abc"[sum(1 for p in prefix if p[0] in "abc")])
                yield from rec(prefix + [(name, kind, d)], n_left - 1)

    for inst in ([("self", "pk", "n")], [("self", "po", "n")], []):
        for params in rec(list(inst), maxn):
            if inst and inst[0][1] == "pk" and any(p[1] == "po" for p in params[1:]):
                continue
            if not params:
                continue
            names = [p[0] for p in params if p[1] not in ("vp", "vk")] + ["zz"]
            names = list(dict.fromkeys(names))
            lines = ["scenario params", "sig " + " ".join(":".join(p) for p in params)]
            for mask in range(1 << len(names)):
                lines.append(" ".join(["check"] + [n for i, n in enumerate(names) if mask >> i & 1]))
            out.append(core.Scenario(lines, {"exhaustive": True}))
    return out


CTRL_NAMES = ["n", "a", "b", "z"]


def gen_ctrl_param(R, name):
    """a model_params value; `stop` (compared with model.steps) is always a number or None"""
    k = R.random()
    num = name == "stop"
    if k < 0.3:
        return f"{name}:val/{R.randrange(10)}", False
    if k < 0.36 and not num:
        return f"{name}:fdict", False
    if k < 0.65:
        return f"{name}:slider/{R.choice('if')}/{R.randrange(10)}/{R.choice(['N', 'lbl', name])}", True
    t = R.choice(INPUT_TYPES[:3] if num else INPUT_TYPES) if (num or R.random() < 0.96) else R.choice(["Foo", "slider"])
    v = "-" if R.random() < 0.1 else str(R.randrange(2) if t == "Checkbox" else R.randrange(10))
    return f"{name}:spec/{t}/{v}/{R.choice(['-', '-', 'K', 'lbl'])}", True


def gen_ctrl_sig(R, kind, names):
    """the parameters of the model class after `self`: mostly takers for the names of model_params, sometimes one
    missing or one more (with or without a default), with or without **kw, with / without a `simulator` parameter"""
    ps = []
    for n in names:
        if n != "simulator" and R.random() < 0.88:
            ps.append((n, R.choice(["pk", "pk", "ko"]), R.choice("dn")))
    if R.random() < 0.25:
        spare = [n for n in CTRL_NAMES + ["stop"] if n not in names]
        if spare:
            ps.append((R.choice(spare), R.choice(["pk", "ko"]), "d" if R.random() < 0.7 else "n"))
    k = R.random()
    if kind == "sim" and k < 0.8 or kind == "model" and (k < 0.1 or "simulator" in names and k < 0.7):
        ps.append(("simulator", R.choice(["pk", "ko"]), R.choice("dn")))
    if R.random() < 0.25:
        ps.append(("kw", "vk", "n"))
    R.shuffle(ps)
    rank = {("pk", "n"): 0, ("pk", "d"): 1}
    ps.sort(key=lambda p_: 3 if p_[1] == "vk" else rank.get((p_[1], p_[2]), 2))
    return [":".join(p_) for p_ in ps]


def gen_ctrl(R, tier):
    kind = "model" if R.random() < 0.65 else "sim"
    r = R.choice([1, 1, 2, 3, 4, 5])
    t = 1 if kind == "model" and R.random() < 0.15 else 0
    stop0 = "-" if R.random() < 0.25 else str(R.randrange(9))
    names = (["stop"] if R.random() < 0.65 else []) + R.sample(CTRL_NAMES, R.choice([0, 1, 1, 2, 3]))
    if R.random() < 0.06:
        names.append("simulator")
    R.shuffle(names)
    sig = gen_ctrl_sig(R, kind, names) if R.random() < 0.4 else []
    lines = [" ".join([f"scenario ctrl {kind}", *sig])]
    toks, inputs, unsupported = [], [], False
    for n in names:
        tok, adjustable = gen_ctrl_param(R, n)
        toks.append(tok)
        if adjustable:
            inputs.append(n)
        if tok.split("/")[0].endswith("spec") and tok.split("/")[1] not in INPUT_TYPES:
            unsupported = True
    lines.append(" ".join(["viz", str(r), str(t), stop0, *toks]))
    if unsupported:
        return core.Scenario(lines, {})
    if sig and R.random() < 0.5:
        lines.append("reset")   # explicit signatures: the constructor call of a reset is what they are about

    def pick_input():
        pool = inputs if inputs and R.random() < 0.92 else (names or ["zz"])
        n = R.choice(pool)
        return n, (R.randrange(10) if n != "stop" or R.random() < 0.8 else R.randrange(3))

    def gen_loop():
        evs = []
        for _ in range(R.choice([0, 1, 1, 2, 2, 3, 4])):
            k = R.random()
            if k < 0.55:
                e = "-"
            elif k < 0.66:
                e = "pause"
            elif k < 0.73:
                e = "reset"
            elif k < 0.85:
                e = f"render={R.choice([1, 2, 3, 4])}"
            else:
                n, v = pick_input()
                e = f"set:{n}:{v}"
            if R.random() < 0.15:
                e += f"@{R.randint(1, 4)}"
            evs.append(e)
        return " ".join(["loop", *evs])

    for _ in range(R.randint(3, 12)):
        k = R.random()
        if k < 0.25:
            lines.append("step")
        elif k < 0.55:
            if R.random() < 0.9:
                lines.append("play")
            lines.append(gen_loop())
        elif k < 0.7:
            lines.append("reset")
        elif k < 0.85:
            n, v = pick_input()
            lines.append(f"change {n} {v}")
            if R.random() < 0.5:
                lines.append("reset")
        elif k < 0.93:
            lines.append(f"render {R.choice([1, 2, 3, 4, 5])}")
        elif k < 0.97 and kind == "model":
            lines.append(f"threads {R.randrange(2)}")
        else:
            lines.append("play")
    if R.random() < 0.5:
        lines.append("reset")
    return core.Scenario(lines, {})


PLOT_MEASURES = ["a", "b", "c", "Gini"]


def gen_plot(R, tier):
    lines = ["scenario plot"]
    for _ in range(R.randint(1, 2)):
        names = R.sample(PLOT_MEASURES, R.randint(1, 3))
        n = R.choice([0, 1, 2, 3, 5])
        lines.append(" ".join(["data", *[f"{m}=" + (",".join(str(R.randrange(10)) for _ in range(n)) or "-") for m in names]]))
        for _ in range(R.randint(2, 5)):
            def pick(k):
                pool = names if R.random() < 0.85 else PLOT_MEASURES + ["zz"]
                return [R.choice(pool) for _ in range(k)] if R.random() < 0.2 else R.sample(pool, min(k, len(pool)))
            k = R.random()
            if k < 0.25:
                lines.append(f"plot str {pick(1)[0]}")
            elif k < 0.5:
                ms = list(dict.fromkeys(pick(R.randint(0, 3))))
                lines.append(" ".join(["plot", "dict", *[f"{m}:{R.choice(PLOT_COLORS)}" for m in ms]]))
            elif k < 0.7:
                lines.append(" ".join(["plot", "list", *pick(R.randint(0, 3))]))
            elif k < 0.9:
                lines.append(" ".join(["plot", "tuple", *pick(R.randint(0, 3))]))
            elif k < 0.95:
                lines.append("plot other")
            else:
                lines.append(f"backend {R.choice(['matplotlib', 'altair', 'bokeh'])}")
    return core.Scenario(lines, {})


def gen_scenario(R, tier):
    k = R.random()
    if k >= 0.97:
        return gen_plot(R, tier)
    return gen_space(R, tier) if k < 0.4 else gen_ctrl(R, tier) if k < 0.52 else gen_params(R, tier)


# ----------------------------------------------------------------------------------------------
# oracle: the clauses of C20 evaluated on what the implementation did


def expected_marker(fam, loc, d, size_default):
    """the marker the property demands for an agent at `loc` whose portrayal returned `d`"""
    x, y = loc
    if fam in HEXES:
        x, y = 2 * x + ((y - 1) % 2), 3 * y
    return (f"{x},{y}", to_tok("size", d["size"]) if "size" in d else size_default, color_tok(d.get("color", "tab:blue")),
            str(d.get("marker", "o")), int(d.get("zorder", 1)))


def partial_optional(snap):
    n = len(snap)
    for key in ("alpha", "edgecolors", "linewidths"):
        k = sum(1 for _, _, d in snap if key in d)
        if 0 < k < n:
            return key
    return None


def ctrl_expected_params(items):
    """model_parameters as ModelCreator sets it: the fixed values, then the inputs at their value"""
    fixed, user = {}, {}
    for n, v in items:
        f = v.split("/")
        if f[0] == "val":
            fixed[n] = f[1]
        elif f[0] == "fdict":
            fixed[n] = "dict"
        else:
            user[n] = "None" if f[2] == "-" else f[2]
    return {**fixed, **user}, list(user)


def oracle_ctrl(tr):
    """the controls of SolaraViz: what the clauses demand of each click, judged on what the real components did"""
    bad = []
    params, inputs = {}, []
    ctrl_kind = None
    for ev in tr:
        kind = ev[0]
        if kind == "viz":
            if ev[2] == "ok":
                params, inputs = ctrl_expected_params(ev[1])
            facts = ev[3]
            ctrl_kind = facts["kind"]
            # the model-parameter check accepts exactly when the constructor can be called the way a reset of this
            # controller calls it: Model(**model_parameters), under a SimulatorController Model(simulator=..., **model_parameters)
            if not ev[2].startswith("err unsupported") and (ev[2] == "ok") != (facts["callable"] and not facts["has_vp"]):
                bad.append(f"ctrl-check-vs-call: {facts['sig']} with parameters {[n for n, _ in ev[1]]} under a "
                           f"{'SimulatorController' if ctrl_kind == 'sim' else 'ModelController'}: SolaraViz says {ev[2]}, the call a reset makes "
                           f"{'works' if facts['callable'] else 'fails'}")
            continue
        if kind == "ctrl-reset-raised":
            bad.append(f"ctrl-reset-args: the parameter set passed the check, Reset raised TypeError: {ev[2]}")
            continue
        if kind == "ctrl-loop-overrun":
            bad.append(f"ctrl-loop-overrun: the play loop went on after the pause button was clicked ({ev[1]})")
            continue
        if kind != "ctrl":
            continue
        _, op, arg, before, f, extra = ev
        got_kw = {k: ParamsImpl.val_tok(v) for k, v in f["kwargs"].items()}
        # the flag the buttons show is the model's whenever the controller has stepped or replaced the model
        # (seen, not counted: toggling the threads checkbox mounts the controller anew — its flags start over)
        # — except for a model that stopped in its constructor: do_reset turns the flag on without looking at the new
        # model (as the first render does), so until its first step the buttons of such a model are enabled
        fresh_stopped = f["steps"] == 0 and f["running"] and not f["mrunning"] and op != "step"
        if f["sim"] != (ctrl_kind == "sim"):
            bad.append(f"ctrl-simulator: after {op} the current model {'was' if f['sim'] else 'was not'} given the simulator")
        if (op in ("step", "reset") or (op == "loop" and extra["ticks"] > 0)) and f["running"] != f["mrunning"] and not fresh_stopped:
            bad.append(f"ctrl-running-flag: after {op} the controls show running={f['running']}, model.running is {f['mrunning']}")
        if f["step_dis"] != (f["playing"] or not f["running"]) or f["play_dis"] != (not f["running"]):
            bad.append(f"ctrl-buttons: after {op}: playing={f['playing']} running={f['running']} but Step disabled={f['step_dis']}, "
                       f"play / pause disabled={f['play_dis']}")
        if before is None:
            continue
        if f["gen"] < before["gen"]:
            bad.append(f"ctrl-gen: {op} went back to an earlier model")
        if f["gen"] == before["gen"] and f["steps"] < before["steps"]:
            bad.append(f"ctrl-steps-monotone: {op} took model.steps from {before['steps']} to {f['steps']} without a reset")
        if f["updates"] < before["updates"]:
            bad.append(f"ctrl-updates: {op} decreased the update counter")
        # the parameter set as the user's changes leave it; `snap`: what the last reset of this op saw
        snap = None
        if op == "change":
            if arg[0] in inputs:
                params = {**params, arg[0]: str(arg[1])}
        elif op == "reset":
            snap = dict(params)
        elif op == "loop" and before["playing"] and before["running"]:
            for t in arg[: max(0, extra["ticks"])]:
                sl = t.partition("@")[0]
                if sl.startswith("set:"):
                    _, n, v = sl.split(":")
                    if n in inputs:
                        params = {**params, n: v}
                elif sl == "reset":
                    snap = dict(params)
        if op == "step":
            if (f["steps"], f["updates"], f["gen"], f["playing"]) != (before["steps"] + before["render"], before["updates"] + 1, before["gen"], False):
                bad.append(f"ctrl-step-button: Step with render interval {before['render']} took steps {before['steps']} -> {f['steps']}, "
                           f"updates {before['updates']} -> {f['updates']}")
        elif op == "play":
            if f["playing"] == before["playing"] or (f["steps"], f["gen"], f["updates"], f["running"]) != (
                    before["steps"], before["gen"], before["updates"], before["running"]):
                bad.append(f"ctrl-play-button: the play / pause button took playing {before['playing']} -> {f['playing']}, steps "
                           f"{before['steps']} -> {f['steps']}")
        elif op in ("render", "threads", "change"):
            remount = op == "threads" and bool(arg) != before["threads"]
            if (f["steps"], f["gen"]) != (before["steps"], before["gen"]) or (
                    not remount and (f["playing"], f["running"]) != (before["playing"], before["running"])):
                bad.append(f"ctrl-setting: {op} {arg} changed the run state")
            if op == "render" and f["render"] != arg:
                bad.append(f"ctrl-setting: render interval set to {arg}, the controls hold {f['render']}")
        elif op == "reset":
            if (f["gen"], f["steps"], f["playing"], f["running"]) != (before["gen"] + 1, 0, False, True):
                bad.append(f"ctrl-reset: after Reset gen {before['gen']} -> {f['gen']}, steps={f['steps']} playing={f['playing']} running={f['running']}")
        elif op == "loop":
            if extra["printed"]:
                bad.append(f"ctrl-loop-error: the play loop printed {extra['printed']!r}")
            if not (before["playing"] and before["running"]):
                if {k: f[k] for k in f if k != "labels"} != {k: before[k] for k in before if k != "labels"}:
                    bad.append(f"ctrl-loop-idle: a loop started with playing={before['playing']} running={before['running']} changed {before} to {f}")
            else:
                if f["playing"] and f["running"]:
                    bad.append("ctrl-loop-end: the play loop ended while playing and running")
                plain = all(t == "-" for t in arg)
                stop = before["kwargs"].get("stop")
                # a click on pause during the j-th step of a tick (undisturbed ticks before it, the model running up to
                # there): the tick ends right after that step, and so does the loop
                hk = next((i for i, t in enumerate(arg) if "@" in t), None)
                if hk is not None and all(t == "-" for t in arg[:hk]) and arg[hk].startswith("-@") and f["gen"] == before["gen"]:
                    j, r, s0 = int(arg[hk].split("@")[1]), before["render"], before["steps"]
                    end = s0 + r * hk + j
                    if j <= r and (stop is None or end <= stop) and (f["steps"], f["playing"]) != (end, False):
                        bad.append(f"ctrl-pause-during-step: pause clicked during step {j} of tick {hk + 1} (render interval {r}, from step {s0}): "
                                   f"the loop ended at step {f['steps']} with playing={f['playing']}, expected step {end}, paused")
                if plain and f["gen"] == before["gen"]:
                    r, s0, n = before["render"], before["steps"], len(arg)
                    need = None if stop is None or stop <= s0 else -(-(int(stop) - s0) // r)
                    if stop is not None and stop <= s0:
                        need = 1  # running is only looked at after a step
                    if need is not None and need <= n:
                        want = (s0 + r * need, False, True, need)
                    else:
                        want = (s0 + r * (n + 1), True if stop is None or s0 + r * (n + 1) < stop else False, False, n + 1)
                    ups = f["updates"] - before["updates"]
                    # under threads only the tick after the pause (not playing any more) updates
                    want_ups = want[3] if not extra.get("threads") else (1 if not want[2] else 0)
                    if (f["steps"], f["running"], f["playing"]) != want[:3] or ups != want_ups:
                        bad.append(f"ctrl-play-loop: {n} undisturbed ticks from step {s0} at render interval {r} on a model stopping at {stop}: "
                                   f"steps={f['steps']} running={f['running']} playing={f['playing']} updates+{ups}, expected {want[:3]} updates+{want_ups}")
        if snap is not None and f["gen"] > before["gen"]:
            # the model a reset creates gets the parameter set as it then was: every name of model_params, the inputs at
            # the value last reported
            if got_kw != snap:
                bad.append(f"ctrl-reset-params: the model created by the reset got {got_kw}, the parameters were {snap}")
        elif f["gen"] == before["gen"] and f["kwargs"] != before["kwargs"]:
            bad.append(f"ctrl-kwargs: {op} changed the model's arguments without a reset")
    return bad


def oracle_plot(tr):
    """the measure plots: one line per requested measure, in order, with that measure's collected values"""
    bad = []
    for ev in tr:
        if ev[0] != "plot":
            continue
        _, kind, args, series, lines, facts, calls = ev
        req = [a.split(":")[0] for a in args] if kind != "other" else []
        cols = [a.split(":")[1] for a in args] if kind == "dict" else ["-"] * len(req)
        missing = [m for m in req if m not in series]
        if lines is None:
            if not (missing and facts == f"err Key {missing[0]}"):
                bad.append(f"plot-raised: plotting {kind} {args} over the measures {sorted(series)} gave {facts}")
            continue
        if missing:
            bad.append(f"plot-missing-measure: {missing[0]} is not collected, plotted all the same")
            continue
        want = [("-" if kind == "str" else m, c, [str(v) for v in series[m]]) for m, c in zip(req, cols)]
        if [(a, b, list(c)) for a, b, c in lines] != want:
            bad.append(f"plot-one-line-per-measure: lines {lines} for the request {kind} {args} over {series}")
        if facts["calls"] != 1:
            bad.append(f"plot-post-process: the hook was called {facts['calls']} times")
        if facts["legend"] != (kind in ("dict", "list", "tuple")) or (facts["ylabel"] != "-") != (kind == "str") or facts["xlabel"] != "Step":
            bad.append(f"plot-labels: {facts} for a {kind} request")
    return bad


def no_room(w0):
    """space scenarios on a space that cannot hold an agent and that draw_space / Altair refuse for its size (outside the
    property's quantifier: there is no occupancy state to show): (draw_space refuses, Altair refuses)"""
    fam, w, h = w0[2], int(w0[3]), int(w0[4])
    if fam in GRID_LEGACY + ("cs",):
        return (w == 0 and h == 0, w == 0 or h == 0)
    if fam in NETS:
        return (len(w0) == 5, False)
    return (False, False)


def oracle(sc, obs):
    bad = []
    tr = sc.meta.get("trace") or []
    w0 = sc.lines[0].split()
    if w0[1] == "ctrl":
        return oracle_ctrl(tr)
    if w0[1] == "plot":
        return oracle_plot(tr)
    fam = w0[2] if w0[1] == "space" else None
    draw_refuses, altair_refuses = no_room(w0) if fam else (False, False)
    for ev in tr:
        kind = ev[0]
        if kind == "collect":
            _, snap, defaults, entries, opt, _hb, _ha = ev
            if entries is None:
                bad.append(f"collect-raised: collect_agent_data raised {opt} with {len(snap)} agents in the space")
                continue
            c, s, mk, z = defaults or ("tab:blue", "25", "o", "1")
            want = sorted((f"{loc[0]},{loc[1]}", to_tok("size", d["size"]) if "size" in d else s, color_tok(d.get("color", color_py(c))),
                           str(d.get("marker", mk)), str(d.get("zorder", z))) for _, loc, d in snap)
            if sorted(entries) != want:
                bad.append(f"collect-one-entry-per-agent: entries {sorted(entries)} but the agents in the space demand {want}")
            for key in ("alpha", "edgecolors", "linewidths"):
                # empty if no agent supplies the key; else one slot per agent, aligned with the entries:
                # the value its portrayal returned, None otherwise
                if not any(key in d for _, _, d in snap):
                    if opt[key]:
                        bad.append(f"collect-optional: {key} {opt[key]} but no portrayal supplied it")
                    continue
                if len(opt[key]) != len(entries):
                    bad.append(f"collect-optional-length: {key} {opt[key]} has not one slot for each of the {len(entries)} agents")
                    continue
                wk = sorted((f"{loc[0]},{loc[1]}", to_tok("size", d["size"]) if "size" in d else s, color_tok(d.get("color", color_py(c))),
                             str(d.get("marker", mk)), str(d.get("zorder", z)),
                             to_tok(key, d[key]) if key in d else "None") for _, loc, d in snap)
                if sorted(e + (v,) for e, v in zip(entries, opt[key])) != wk:
                    bad.append(f"collect-optional: {key} {opt[key]} along entries {entries} but the agents demand {wk}")
        elif kind == "draw":
            _, snap, groups, err, kw, _hb, _ha = ev
            # plotting keyword arguments reach the scatter calls of grids and networks only; there, a keyword that some
            # agent's portrayal specifies too is refused (documented), otherwise it applies to every marker
            kw = kw if kw and fam not in ("cs", "xcs", "vor") else {}
            clash = [k for k in ("edgecolors", "linewidths", "alpha") if k in kw and any(k in d for _, _, d in snap)]
            if err is not None and clash and err.startswith(f"err Value conflict {clash[0]}"):
                continue
            if err is None and clash:
                bad.append(f"draw-kwargs-clash: {clash[0]} given by a portrayal and as a plotting keyword, and drawn all the same")
                continue
            if kw:
                snap = [(v, loc, {**d, **{k: to_py(k, t) for k, t in kw.items()}}) for v, loc, d in snap]
            if err is not None and draw_refuses and not snap:
                continue
            if err is not None:
                key = partial_optional(snap)
                if key and err.startswith("err Index"):
                    bad.append(f"draw-raised-partial-optional: draw_space raised {err} ({key} supplied for some agents only)")
                else:
                    bad.append(f"draw-raised: draw_space raised {err} with {len(snap)} agents in the space")
                continue
            want = sorted(expected_marker(fam, loc, d, "D") + tuple(
                to_tok(k, d[k]) if k in d else "-" for k in ("alpha", "edgecolors", "linewidths")) for _, loc, d in snap)
            got = sorted((t[0], t[1], t[2], mk, z, t[3], t[4], t[5]) for mk, z, mem in groups for t in mem)
            if got != want:
                bad.append(f"draw-one-marker-per-agent: drawn {got} but the agents in the space demand {want}")
            keys = [(mk, z) for mk, z, _ in groups]
            if len(set(keys)) != len(keys):
                bad.append(f"draw-group-twice: a (marker, zorder) pair is scattered twice: {keys}")
        elif kind == "altair":
            if ev[3] is not None:
                _, snap, rows, err, _hb, _ha = ev
                if fam in ALTAIR_OK and not (altair_refuses and not snap):
                    bad.append(f"altair-raised: _draw_grid raised {err} with {len(snap)} agents in the space")
                continue
            _, snap, rows, err, facts, _hb, _ha = ev
            want = sorted(fmt_dict({**d, "x": loc[0], "y": loc[1]}) for _, loc, d in snap)
            got = sorted(fmt_dict(r) for r in rows)
            if got != want:
                bad.append(f"altair-one-row-per-agent: rows {got} but the agents in the space demand {want}")
            # a channel the chart encodes must be a field of the rows; if every agent is portrayed with a colour / a size
            # the chart must use it; marks are filled points; without sizes from the rows the marks get a default size
            for ch in ("color", "size"):
                if ch in facts["enc"] and not any(ch in r for r in rows):
                    bad.append(f"altair-encoding: the chart encodes {ch}, no row has it")
                if rows and all(ch in d for _, _, d in snap) and ch not in facts["enc"]:
                    bad.append(f"altair-encoding: every agent is portrayed with a {ch}, the chart does not encode it")
                # open finding A1: the channel is read off the first row, so with a key that some agents return and others do
                # not, either returned values are not shown (no channel) or marks have no value for the channel
                has = [ch in d for _, _, d in snap]
                if rows and any(has) and not all(has):
                    bad.append(f"altair-encoding-first-row: {sum(has)} of {len(has)} agents are portrayed with a {ch}; the chart "
                               f"{'encodes it (rows without a value)' if ch in facts['enc'] else 'does not encode it (returned values not shown)'}")
            if ("size" in facts["enc"]) == (facts["mark"] != "-"):
                bad.append(f"altair-mark-size: size encoded: {'size' in facts['enc']}, default mark size {facts['mark']}")
            if facts["type"] != "point" or facts["filled"] is not True:
                bad.append(f"altair-mark: marks are {facts['type']} filled={facts['filled']}")
            if any(t in ("x", "y", "color", "size") or not any(t in r for r in rows) for t in facts["tip"]):
                bad.append(f"altair-tooltip: tooltip fields {facts['tip']} for rows {rows}")
        elif kind == "drawnet":
            _, snap, layout, groups, tok, calls, _hb, _ha = ev
            layout = {int(k): tuple(v) for k, v in layout.items()}
            # the caller's layout algorithm is called once, with the space's graph and the caller's keywords
            if layout and calls != [(True, {"scale": 2})] and calls != [[True, {"scale": 2}]]:
                bad.append(f"drawnet-layout-call: the layout algorithm was called as {calls}")
            missing = [loc[0] for _, loc, _ in snap if loc[0] not in layout]
            if groups is None:
                if not layout or (missing and tok.startswith("err Key")):
                    continue
                bad.append(f"drawnet-raised: draw_network raised {tok} with every agent's node in the layout {layout}")
                continue
            if missing:
                bad.append(f"drawnet-missing-node: agents on nodes {missing} the layout has no position for, drawn all the same")
                continue
            xs, ys = [v[0] for v in layout.values()], [v[1] for v in layout.values()]
            ext = max(max(xs) - min(xs), max(ys) - min(ys)) or 1
            from fractions import Fraction

            if tok != str(Fraction(32400, ext * ext)):
                bad.append(f"drawnet-default-size: default size {tok} for a layout of extent {ext}")
            # one marker per agent, at the position the layout gives for the label of its node
            want = sorted((f"{layout[loc[0]][0]},{layout[loc[0]][1]}",) + expected_marker(fam, loc, d, "D")[1:] + tuple(
                to_tok(k, d[k]) if k in d else "-" for k in ("alpha", "edgecolors", "linewidths")) for _, loc, d in snap)
            got = sorted((t[0], t[1], t[2], mk, z, t[3], t[4], t[5]) for mk, z, mem in groups for t in mem)
            if got != want:
                bad.append(f"drawnet-marker-at-layout-position: drawn {got} but the agents and the layout {layout} demand {want}")
        elif kind == "frame":
            _, snap, lims, err = ev
            if lims is None:
                if not (draw_refuses and not snap):
                    bad.append(f"frame-raised: draw_space raised {err} with {len(snap)} agents in the space")
                continue
            from fractions import Fraction

            # every agent is drawn inside the limits (on them at most where the space has no extent: Voronoi centroids in line)
            try:
                (x0, x1), (y0, y1) = [tuple(Fraction(t) for t in lim) for lim in lims]
            except ValueError:
                bad.append(f"frame-limits: limits {lims} are not what draw_space is expected to ask for")
                continue
            for _, loc, _d in snap:
                px, py = (2 * loc[0] + ((loc[1] - 1) % 2), 3 * loc[1]) if fam in HEXES else loc
                strict = fam != "vor"
                okx = x0 < px < x1 if (strict or x0 != x1) else x0 <= px <= x1
                oky = y0 < py < y1 if (strict or y0 != y1) else y0 <= py <= y1
                if not (okx and oky):
                    bad.append(f"frame-shows-every-agent: the agent at {loc} is drawn at ({px}, {py}), outside the limits {lims}")
                    break
        elif kind == "sdefault":
            _, n, tok = ev
            # the default size is a positive finite number whenever there is an agent to draw (V12)
            if tok.startswith("err") and draw_refuses and n == 0:
                continue
            if tok.startswith("err") or (n > 0 and tok in ("none", "several", "?", "inf", "nan")) or (n == 0 and tok != "none"):
                bad.append(f"default-size: with {n} agents in the space the default marker size is {tok}")
        elif kind == "request-mutated":
            bad.append(f"layer-request-mutated: drawing changed the caller's propertylayer_portrayal from {ev[1]} to {ev[2]}")
        elif kind == "layer-mutated":
            bad.append(f"layer-mutated: drawing the property layer changed the model's layer values from {ev[1]} to {ev[2]}")
        elif kind == "layers":
            from fractions import Fraction

            _, fam_, datas, specs, res, err, with_agents = ev
            known = [sp for sp in specs if sp[0] in datas]
            if with_agents and not specs:
                # draw_space skips an empty request: nothing to refuse, nothing to draw
                if (err is not None and not draw_refuses) or res:
                    bad.append(f"layers-empty-request: draw_space with an empty layer request gave {err or res}")
                continue

            def rng(sp):
                flat = [v for col in datas[sp[0]] for v in col]
                return (min(flat) if sp[4] is None else sp[4], max(flat) if sp[5] is None else sp[5])

            if err is not None:
                # the request itself is at fault: the space class has no property layers, a layer's portrayal names
                # neither a colour nor a colormap, a hex layer is given an inverted range (Normalize refuses it)
                legit = (fam_ not in GRIDS or any(sp[1] == "none" for sp in known)
                         or (fam_ in HEXES and any(rng(sp)[0] > rng(sp)[1] for sp in known)))
                if not legit:
                    bad.append(f"layers-raised: draw_property_layers raised {err} for {specs}")
                continue
            if fam_ not in GRIDS or any(sp[1] == "none" for sp in known):
                bad.append(f"layers-not-refused: {specs} drawn on {fam_} without an error")
                continue
            if [r[0] for r in res] != [sp[0] for sp in known]:
                bad.append(f"layers-drawn: pictures for {[r[0] for r in res]} but the request names the layers {[sp[0] for sp in known]}")
                continue
            for r, sp in zip(res, known):
                name, shape, arg, atok, lotok, hitok, btok, cells = r
                data = datas[name]
                wd, hd = len(data), len(data[0])
                lo, hi = rng(sp)
                alpha = Fraction(100 if sp[3] is None else sp[3], 100)
                if (fam_ in HEXES) != shape.startswith("hex"):
                    bad.append(f"layer-shape: layer {name} of a {fam_} grid drawn as {shape}")
                    continue
                if (sp[1] == "cmap") != shape.endswith("map") or arg != sp[2]:
                    bad.append(f"layer-mode: layer {name} requested as {sp[1]}={sp[2]} drawn as {shape} {arg}")
                want_bar = "-" if sp[6] is False else f"{lo}..{hi}"
                if btok != want_bar and not (lo > hi and btok != "-"):
                    bad.append(f"layer-colorbar: layer {name} has colour bar {btok}, its values are drawn over the range {want_bar}")
                # which cell shows what
                if shape.startswith("img"):
                    if len(cells) != hd or any(len(row) != wd for row in cells):
                        bad.append(f"layer-orientation: image of {len(cells)} rows for a {wd} x {hd} grid")
                        continue
                    shown = {(x, y): cells[y][x] for x in range(wd) for y in range(hd)}
                else:
                    if sorted(c for c, _ in cells) != sorted((x, y) for x in range(wd) for y in range(hd)):
                        bad.append(f"layer-orientation: hexagons {[c for c, _ in cells]} for a {wd} x {hd} grid")
                        continue
                    shown = dict(cells)
                if shape == "imgmap":
                    # the values themselves are handed to imshow together with the range and the opacity
                    if any(shown[x, y] != str(data[x][y]) for x in range(wd) for y in range(hd)):
                        bad.append(f"layer-orientation: image {cells} for data[x][y] {data}")
                    if (lotok, hitok, atok) != (str(lo), str(hi), str(int(alpha * 100))):
                        bad.append(f"layer-range: layer {name} drawn with vmin={lotok} vmax={hitok} alpha={atok}, requested {lo} {hi} {alpha}")
                    continue
                if shape == "hexmap" and atok != str(int(alpha * 100)):
                    bad.append(f"layer-alpha: layer {name} drawn with opacity {atok}, requested {alpha}")
                if lo > hi:
                    continue
                full = alpha if shape in ("img", "hex") else Fraction(1)
                for (x, y), tok in shown.items():
                    v = data[x][y]
                    got = Fraction(tok) if tok != "?" else None
                    if got is None:
                        bad.append(f"layer-value: cell ({x},{y}) of layer {name} shows no value (data {data})")
                        break
                    if lo == hi or v <= lo:
                        ok = got == 0
                    elif v < hi:
                        ok = got == Fraction(v - lo, hi - lo) * full  # linear in the value between vmin and vmax
                    else:
                        ok = (full if v == hi else min(full, 1)) <= got <= 1 if v > hi else got == full
                    if not ok:
                        bad.append(f"layer-value: cell ({x},{y}) of layer {name} holds {v} and is drawn at {tok} "
                                   f"(range {lo}..{hi}, opacity {alpha}, data {data})")
                        break
        elif kind in ("check", "creator"):
            _, src, keys, out, callable_ok, has_vp = ev
            accepted = out == "ok accept"
            want = callable_ok and not has_vp
            if accepted != want:
                bad.append(f"{kind}-vs-call: {src.splitlines()[0]} with keys {keys}: check says {out}, "
                           f"calling it by keyword {'works' if callable_ok else 'fails'}{' (*args: refused by policy)' if has_vp else ''}")
        elif kind == "inputs":
            _, src, items, out, got, widgets, params, has_vp = ev
            names = [n for n, _ in items]
            adjustable = [(n, v) for n, v in items if v.startswith(("slider", "spec"))]
            unsupported = [v.split("/")[1] for _, v in adjustable if v.startswith("spec") and
                           v.split("/")[1] not in ("SliderInt", "SliderFloat", "Select", "Checkbox", "InputText")]
            callable_ok = ParamsImpl.callable_static(src, names)
            if out.startswith("err unsupported"):
                if not unsupported:
                    bad.append(f"inputs-unsupported: {out} but every input type of {items} is supported")
                continue
            if unsupported:
                bad.append(f"inputs-unsupported: {items} holds the unsupported input type {unsupported[0]}, ModelCreator says {out}")
                continue
            if (out == "ok") != (callable_ok and not has_vp):
                bad.append(f"creator-vs-call: {src.splitlines()[0]} with keys {names}: ModelCreator says {out}, "
                           f"calling it by keyword {'works' if callable_ok else 'fails'}{' (*args: refused by policy)' if has_vp else ''}")
                continue
            if out != "ok":
                continue
            # the parameter set for (re-)creating the model: every name of model_params, fixed values as they are, inputs
            # at their value
            if sorted(got) != sorted(names):
                bad.append(f"inputs-lossless: model_parameters has the keys {sorted(got)}, model_params {sorted(names)}")
            for n, v in items:
                f = v.split("/")
                if n not in got:
                    continue
                if f[0] in ("val", "fdict"):
                    if got[n] is not params[n]:
                        bad.append(f"inputs-fixed-value: fixed parameter {n} reaches the model as {got[n]!r}, not as given")
                else:
                    want = "None" if f[2] == "-" else f[2]
                    if ParamsImpl.val_tok(got[n]) != want:
                        bad.append(f"inputs-initial-value: input {n} ({v}) starts at {got[n]!r}")
            # one input per user-adjustable parameter, in order, of the kind its type names, labelled and valued as specified
            want_w = []
            for n, v in adjustable:
                f = v.split("/")
                if f[0] == "slider":
                    want_w.append(("sliderfloat" if f[1] == "f" else "sliderint", n, f[3], f[2]))
                else:
                    want_w.append((f[1].lower(), n, n if f[3] == "-" else f[3], "None" if f[2] == "-" else f[2]))
            if [(k, n, lab, ParamsImpl.val_tok(v)) for k, n, lab, v in widgets] != want_w:
                bad.append(f"inputs-widgets: inputs {widgets} created for {adjustable}")
        elif kind == "change":
            _, src, name, value, before, got, callable_ok = ev
            if {k: v for k, v in got.items() if k != name} != {k: v for k, v in before.items() if k != name} or got.get(name) != value \
                    or list(got) != list(before):
                bad.append(f"inputs-change: input {name} reported {value}: parameters went from {before} to {got}")
            if not callable_ok:
                bad.append(f"inputs-change: after input {name} reported {value} the constructor {src.splitlines()[0]} cannot be called with {sorted(got)}")
        elif kind == "split":
            _, items, user, fixed, params, udict, fdict = ev
            names = [n for n, _ in items]
            if sorted(user + fixed) != sorted(names) or set(user) & set(fixed):
                bad.append(f"split-lossless: {names} split into {user} + {fixed}")
            for n, v in items:
                is_user = v == "slider" or (v.startswith("dict") and "type" in v.split("+")[1:])
                if (n in user) != is_user:
                    bad.append(f"split-kind: {n}:{v} classified as {'user' if n in user else 'fixed'}")
            if any(udict.get(n, fdict.get(n)) is not params[n] for n in names):
                bad.append("split-values: a value changed identity in the split")
        # the dicts the portrayal handed out are as the portrayal left them (V3)
        if kind in ("collect", "draw", "altair", "drawnet") and ev[-2] != ev[-1]:
            bad.append(f"portrayal-dict-mutated: {kind} changed the portrayal's dicts from {ev[-2]} to {ev[-1]}")
    return bad
