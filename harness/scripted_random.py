"""ScriptedRandom — a `random.Random` whose draws follow a script (shared by C01/C03/C04/cells/legacy).

Lean counterpart: `lean/MesaModel/Base/Rng.lean` (`Mesa.Rng`): the same script, consumed left to
right, one entry per primitive draw, 0 once exhausted:

    _randbelow(n)  ->  script[i] % n          (Lean: Rng.below)
    random()       ->  (script[i] % 1024)/1024 (Lean: Rng.random1024, numerator over 1024)

CPython builds `shuffle`, `choice`, `randrange`, `randint`, `sample` on `_randbelow` only (3.12
`random.py`; probed in DESIGN A.7), so those methods of a ScriptedRandom are the *real* stdlib
algorithms driven by the script, and `Rng.shuffle` / `Rng.choice` / `Rng.randrange` reproduce them
draw for draw.  `getrandbits` (and therefore `randbytes`, huge `randrange`) is refused: nothing
Mesa calls on `model.random` needs it, and a silent fallback to the Mersenne Twister would untie
model and implementation.

Usage:

    from harness.scripted_random import ScriptedRandom, scripted_model
    m = scripted_model(MyModel, [3, 1, 4, 1, 5])      # MyModel(seed=0) with m.random scripted
    m.random.calls                                      # [("below", n, value) | ("random", value)]
    m.random.used                                       # number of script entries consumed

`scripted_model` patches `random.Random` only around the constructor call (mesa/model.py does
`random.Random(seed)`), so `model.random`, `model.agents.random` and every collection derived
from them share the one scripted instance; `model.rng` (numpy) is left alone.
"""
from __future__ import annotations

import random
from unittest import mock


class ScriptedRandom(random.Random):
    def __init__(self, script=(), seed=0):
        # seed() of the base class calls nothing we override
        super().__init__(0)
        self.script = [int(x) for x in script]
        self.i = 0
        self.calls = []

    # -- script ---------------------------------------------------------------------------
    def _next(self):
        v = self.script[self.i] if self.i < len(self.script) else 0
        self.i += 1
        return v

    @property
    def used(self):
        return self.i

    def extend(self, more):
        """append draws to the script (already consumed entries stay consumed)"""
        if self.i > len(self.script):
            # entries read past the end were zeros: make that explicit so positions stay aligned
            self.script += [0] * (self.i - len(self.script))
        self.script += [int(x) for x in more]

    def remaining(self):
        return self.script[self.i:]

    # -- the two primitives ---------------------------------------------------------------
    def _randbelow(self, n):
        v = self._next() % n
        self.calls.append(("below", n, v))
        return v

    def random(self):
        v = (self._next() % 1024) / 1024.0
        self.calls.append(("random", v))
        return v

    def getrandbits(self, k):
        raise RuntimeError("ScriptedRandom: getrandbits is not scripted")

    def seed(self, *a, **k):
        # Model.reset_randomizer calls random.seed(seed): the scripted generator restarts its script
        if hasattr(self, "script"):
            self.i = 0
            self.calls = []
        else:
            super().seed(*a, **k)

    # pickling/copy of models in other groups' checks
    def __reduce__(self):
        return (_rebuild, (self.script, self.i))


def _rebuild(script, i):
    r = ScriptedRandom(script)
    r.i = i
    return r


def scripted_model(model_cls, script, *args, **kwargs):
    """`model_cls(*args, seed=0, **kwargs)` with `model.random` a ScriptedRandom(script)"""
    kwargs.setdefault("seed", 0)
    with mock.patch("random.Random", lambda *a, **k: ScriptedRandom(script)):
        return model_cls(*args, **kwargs)


def shuffle_reference(items, script):
    """what Lean's `Rng.shuffle items ⟨script⟩` returns: (shuffled list, remaining script)"""
    r = ScriptedRandom(script)
    l = list(items)
    r.shuffle(l)
    return l, r.remaining()
