/-!
Python primitives the translator `harness/py2lean.py` maps to (hand-written, core Lean only; part of the trusted
base together with the translator; each one is exercised against CPython by `harness/xlate_selftest.py`).

Integers are `Int`.  `a // b` is `Int.fdiv a b` and `a % b` is `Int.fmod a b` (floor division / the remainder with
the sign of the divisor: Python's semantics for every `b ≠ 0`; Python raises `ZeroDivisionError` for `b = 0`, which
is outside the subset — the equivalence theorems carry `0 < b` as a hypothesis wherever the code divides).
-/
namespace Py

/-- the framework's small error enum (BUILDING §2.6) -/
inductive Err where
  | Index | Value | Key | Type | NotImplemented | Exception
  | Fuel   -- a `while` loop did not finish within the `fuel` parameter (never a Python exception)
deriving Repr, DecidableEq, Inhabited

/-- `range(lo, hi)` -/
def range (lo hi : Int) : List Int := (List.range (hi - lo).toNat).map fun (i : Nat) => lo + (i : Int)

/-- `abs(x)` -/
def abs (x : Int) : Int := if 0 ≤ x then x else -x

/-- `d[k] = True` on a dict used as an insertion-ordered set (the list of its keys) -/
def setInsert {α : Type} [BEq α] (d : List α) (k : α) : List α := if d.contains k then d else d ++ [k]

/-- `d.pop(k, None)` on a dict used as an insertion-ordered set -/
def setDiscard {α : Type} [BEq α] (d : List α) (k : α) : List α := d.filter fun x => !(x == k)

/-- `t[i][j]` on a 2-D table (list of rows) for indices within `0..len-1` (negative indices / `IndexError`: outside the subset) -/
def get2 {α : Type} [Inhabited α] (t : List (List α)) (i j : Int) : α := ((t.getD i.toNat []).getD j.toNat default)

/-- `t[i][j] = v` (also `t[i, j] = v` on a numpy 2-D array) for indices within `0..len-1` -/
def set2 {α : Type} (t : List (List α)) (i j : Int) (v : α) : List (List α) :=
  t.set i.toNat ((t.getD i.toNat []).set j.toNat v)

/-- `itertools.product(xs, repeat=n)` in iteration order -/
def productRepeat {α : Type} (xs : List α) : Nat → List (List α)
  | 0 => [[]]
  | n+1 => xs.flatMap fun x => (productRepeat xs n).map (x :: ·)

/-- `heapq.nsmallest(n, xs)` for elements compared with `lt` (`__lt__`): the first `n` of `sorted(xs)` (a stable sort that only
    uses `<`); nothing for `n ≤ 0` -/
def nsmallest {α : Type} (lt : α → α → Bool) (n : Nat) (xs : List α) : List α :=
  (xs.mergeSort fun a b => !lt b a).take n

/-- canonical text of a value, the same text `harness/xlate_selftest.py` prints for the Python value -/
class Show (α : Type) where
  show_ : α → String

instance : Show Int := ⟨fun x => toString x⟩
instance : Show Nat := ⟨fun x => toString x⟩
instance : Show Bool := ⟨fun b => if b then "True" else "False"⟩
instance : Show Unit := ⟨fun _ => "None"⟩
instance : Show Err := ⟨fun e => match e with
  | .Index => "Index" | .Value => "Value" | .Key => "Key" | .Type => "Type"
  | .NotImplemented => "NotImplemented" | .Exception => "Exception" | .Fuel => "Fuel"⟩
instance {α β : Type} [Show α] [Show β] : Show (α × β) := ⟨fun p => "<" ++ Show.show_ p.1 ++ " " ++ Show.show_ p.2 ++ ">"⟩
instance {α : Type} [Show α] : Show (List α) := ⟨fun l => "[" ++ " ".intercalate (l.map Show.show_) ++ "]"⟩
instance {α : Type} [Show α] : Show (Option α) := ⟨fun o => match o with | none => "None" | some x => Show.show_ x⟩
instance {α : Type} [Show α] : Show (Except Err α) := ⟨fun r => match r with
  | .error e => "err " ++ Show.show_ e | .ok x => Show.show_ x⟩

end Py
