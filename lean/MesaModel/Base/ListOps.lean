/-
Small list functions shared by the agent models: Python's insertion-ordered dict / set
behaviour on lists.  Core Lean only (linked into the drivers).
-/
namespace Mesa

/-- dict / ordered-set insertion: a present key keeps its place, a new key goes last -/
def addKey {α} [DecidableEq α] (l : List α) (a : α) : List α := if a ∈ l then l else l ++ [a]

/-- `{x: None for x in l}`: first occurrences, in order -/
def dedup {α} [DecidableEq α] (l : List α) : List α := l.foldl addKey []

/-- `groups[k].append(a)` on an insertion-ordered `defaultdict(list)` -/
def groupInsert {κ α} [DecidableEq κ] : List (κ × List α) → κ → α → List (κ × List α)
  | [], k, a => [(k, [a])]
  | (k', g) :: rest, k, a =>
    if k' = k then (k', g ++ [a]) :: rest else (k', g) :: groupInsert rest k a

/-- `for a in l: groups[key(a)].append(a)`: keys in first-occurrence order, members in order -/
def groupBy {κ α} [DecidableEq κ] (key : α → κ) (l : List α) : List (κ × List α) :=
  l.foldl (fun gs a => groupInsert gs (key a) a) []

/-- Python `seq[i]` for an int index: negative indices count from the end; `none` = IndexError -/
def pyIndex {α} (l : List α) (i : Int) : Option α :=
  if 0 ≤ i then l[i.toNat]? else if -i ≤ l.length then l[(l.length - (-i).toNat)]? else none

/-- Python slice bound normalisation for `seq[i:j]` with int bounds (step 1) -/
def pyClamp (n : Nat) (i : Int) : Nat :=
  if i < 0 then (i + n).toNat else min i.toNat n

def pySlice {α} (l : List α) (i j : Int) : List α :=
  let a := pyClamp l.length i
  let b := pyClamp l.length j
  (l.drop a).take (b - a)

end Mesa
