/-
Scripted random generator shared by every model group (C01, C03, C04, cells, legacy).

The Python side is `harness/scripted_random.py`: a `random.Random` subclass whose
`_randbelow(n)` returns `script[i] % n` and whose `random()` returns `(script[i] % 1024)/1024`,
consuming one script entry per call; an exhausted script yields 0.  Every stdlib method Mesa
calls (`shuffle`, `choice`, `randrange`, `randint`) is built by CPython on `_randbelow`, so
the functions below reproduce CPython 3.12's `random.py` draw for draw.

Core Lean only (this file is linked into the drivers).  The few lemmas at the end
(`shuffle_perm`, `shuffle_length`, `below_lt`, …) are what the property proofs need.
-/
namespace Mesa

/-- draw script; consumed left to right; exhausted script yields 0 -/
structure Rng where
  script : List Nat
deriving Repr, DecidableEq, Inhabited

namespace Rng

/-- raw next script entry (0 when exhausted) -/
def next (r : Rng) : Nat × Rng :=
  match r.script with
  | [] => (0, r)
  | x :: xs => (x, ⟨xs⟩)

/-- `Random._randbelow(n)` of the scripted generator: `script[i] % n` -/
def below (r : Rng) (n : Nat) : Nat × Rng :=
  let (x, r') := r.next
  (x % n, r')

/-- `Random.random()` of the scripted generator as a numerator over 1024 -/
def random1024 (r : Rng) : Nat × Rng :=
  let (x, r') := r.next
  (x % 1024, r')

/-- CPython `Random.shuffle`:
    `for i in reversed(range(1, len(x))): j = randbelow(i + 1); x[i], x[j] = x[j], x[i]` -/
def shuffleAux {α} : Nat → Array α → Rng → Array α × Rng
  | 0, a, r => (a, r)
  | i+1, a, r =>
    let (j, r') := r.below (i+2)
    shuffleAux i (a.swapIfInBounds (i+1) j) r'

def shuffle {α} (l : List α) (r : Rng) : List α × Rng :=
  let a := l.toArray
  let (a', r') := shuffleAux (a.size - 1) a r
  (a'.toList, r')

/-- CPython `Random.choice(seq)`: `seq[randbelow(len(seq))]`; `IndexError` (here `none`,
    no draw consumed) on an empty sequence -/
def choice {α} (l : List α) (r : Rng) : Option α × Rng :=
  match l with
  | [] => (none, r)
  | _ =>
    let (j, r') := r.below l.length
    (l[j]?, r')

/-- CPython `Random.randrange(stop)` for `stop > 0` (`ValueError`, here `none`, for `stop = 0`) -/
def randrange (r : Rng) (stop : Nat) : Option Nat × Rng :=
  if stop = 0 then (none, r) else
    let (j, r') := r.below stop
    (some j, r')

/-- CPython `Random.randrange(start, stop)` / `randint(a, b) = randrange(a, b+1)` on naturals -/
def randrange2 (r : Rng) (start stop : Nat) : Option Nat × Rng :=
  if stop ≤ start then (none, r) else
    let (j, r') := r.below (stop - start)
    (some (start + j), r')

def randint (r : Rng) (a b : Nat) : Option Nat × Rng := r.randrange2 a (b + 1)

/-! ### lemmas -/

theorem below_lt (r : Rng) {n : Nat} (h : 0 < n) : (r.below n).1 < n := by
  unfold below next
  split <;> simp [Nat.mod_lt _ h]

theorem swapIfInBounds_perm {α} (a : Array α) (i j : Nat) : (a.swapIfInBounds i j).Perm a := by
  unfold Array.swapIfInBounds
  split
  · split
    · exact Array.swap_perm _ _
    · exact Array.Perm.refl _
  · exact Array.Perm.refl _

theorem shuffleAux_isPerm {α} (i : Nat) (a : Array α) (r : Rng) :
    (shuffleAux i a r).1.Perm a := by
  induction i generalizing a r with
  | zero => simp [shuffleAux]
  | succ i ih =>
    simp only [shuffleAux]
    exact (ih _ _).trans (swapIfInBounds_perm _ _ _)

/-- `shuffle` loses and duplicates nobody, whatever the script -/
theorem shuffle_perm {α} (l : List α) (r : Rng) : (shuffle l r).1.Perm l := by
  have := shuffleAux_isPerm (l.toArray.size - 1) l.toArray r
  simpa [shuffle, Array.perm_iff_toList_perm] using this

theorem shuffle_length {α} (l : List α) (r : Rng) : (shuffle l r).1.length = l.length :=
  (shuffle_perm l r).length_eq

theorem mem_shuffle {α} (l : List α) (r : Rng) (x : α) : x ∈ (shuffle l r).1 ↔ x ∈ l :=
  (shuffle_perm l r).mem_iff

theorem shuffle_nodup {α} (l : List α) (r : Rng) : (shuffle l r).1.Nodup ↔ l.Nodup :=
  (shuffle_perm l r).nodup_iff

/-- the draws consumed by a shuffle do not depend on the elements, only on the length -/
theorem shuffleAux_rng {α β} (i : Nat) (a : Array α) (b : Array β) (r : Rng) :
    (shuffleAux i a r).2 = (shuffleAux i b r).2 := by
  induction i generalizing a b r with
  | zero => simp [shuffleAux]
  | succ i ih => simp only [shuffleAux]; exact ih _ _ _

theorem shuffle_rng_length {α β} (l : List α) (m : List β) (r : Rng) (h : l.length = m.length) :
    (shuffle l r).2 = (shuffle m r).2 := by
  simp only [shuffle, List.size_toArray, h]
  exact shuffleAux_rng _ _ _ _

end Rng
end Mesa
