import MesaModel.Model.Activation
