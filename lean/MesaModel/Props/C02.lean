import MesaModel.Proofs.Registry
import MesaModel.Proofs.RegistryFrame
/-!
# C02 — the model's agent registry is exact and unique_ids are unique per model

Property theorems only (model: `Model/Registry.lean` + `Model/Activation.lean`; helper lemmas:
`Proofs/Registry.lean`).  `run World.empty ops` ranges over **all** histories: any interleaving of model
creation, agent creation by constructor and by `create_agents` (any number, any classes, any models),
`remove` (also repeated, also of agents the program still holds), `remove_all_agents`, dropping of program
references, in-place `shuffle`/`sort` of any set, construction of AgentSets, and activations
(`do`, `shuffle_do`, `map`, `GroupBy.do/map`) whose callbacks — arbitrary scripts — remove and create agents
in any model in the middle of the iteration.

Reading of a registry `r = regs[m]`: `r.hard` = `Model._agents` (hard references), `r.all` = `model.agents`,
`r.byType` = `model.agents_by_type`, keys of `r.byType` = `model.agent_types`, `r.nextId` the next id.
`info[a]` records for agent `a` (named by its global creation serial) its model, exact class and `unique_id`;
`removedLog` lists the targets of all `remove()` calls so far (ghost state).
-/
namespace Mesa.Agents

/-- **Exactness.**  After every history, for every model: the hard references are exactly the agents
    created for that model and not yet named by a `remove()` call, in creation order; `model.agents` has
    exactly the same members (each once) and shows all of them. -/
theorem C02_registry_exact_all_histories (ops : List Op) (m : Nat) (r : Reg)
    (hr : (run World.empty ops).regs[m]? = some r) :
    r.hard = (createdFor (run World.empty ops).info m).filter (fun a => !(run World.empty ops).removedLog.contains a) ∧
    r.all.Perm r.hard ∧ r.all.Nodup ∧ members (run World.empty ops) (.all m) = r.all := by
  have h := winv_run_perm (winv_empty List.Perm) ops
  have hi := h.regs m r hr
  exact ⟨hi.hard, hi.all, hi.all.nodup_iff.mpr hi.hard_nodup, members_all_eq OrdRel.ofPerm h hr⟩

/-- **Grouping by exact class.**  After every history `agents_by_type` has one entry per class (no class
    twice), the set of a class holds exactly the registered agents of exactly that class (each once, all
    shown), and every class that has a live agent has an entry (`agent_types` names it). -/
theorem C02_by_type_exact_all_histories (ops : List Op) (m : Nat) (r : Reg)
    (hr : (run World.empty ops).regs[m]? = some r) :
    (r.byType.map (·.1)).Nodup ∧
    (∀ ts ∈ r.byType, ts.2.Perm (r.hard.filter (fun a => tyOf (run World.empty ops) a == ts.1)) ∧
       members (run World.empty ops) (.byType m ts.1) = ts.2) ∧
    (∀ a ∈ r.hard, tyOf (run World.empty ops) a ∈ r.byType.map (·.1)) := by
  have h := winv_run_perm (winv_empty List.Perm) ops
  have hi := h.regs m r hr
  refine ⟨hi.bt.keys, fun ts hts => ⟨hi.bt.groups ts hts, ?_⟩, hi.bt.cover⟩
  rw [members_byType_eq OrdRel.ofPerm h hr, lookup_of_mem_nodup hi.bt.keys hts]; rfl

/-- **Creation order unless explicitly reordered.**  In every history that never reorders one of the
    registry's own sets in place, `model.agents` is the list of registered agents *in creation order* and
    each by-type set is the list of registered agents of that class in creation order. -/
theorem C02_creation_order_unless_reordered (ops : List Op) (hops : ∀ op ∈ ops, op.reordersRegistry = false)
    (m : Nat) (r : Reg) (hr : (run World.empty ops).regs[m]? = some r) :
    r.all = r.hard ∧ ∀ ts ∈ r.byType, ts.2 = r.hard.filter (fun a => tyOf (run World.empty ops) a == ts.1) := by
  have hi := (winv_run_eq (winv_empty Eq) ops hops).regs m r hr
  exact ⟨hi.all, hi.bt.groups⟩

/-- **Unique ids.**  After every history the `unique_id`s handed out by model `m`, in creation order, are
    exactly 1, 2, 3, … (so they are pairwise distinct, also between live and removed agents: no reuse),
    and the model's counter stands one past the last. -/
theorem C02_unique_ids_all_histories (ops : List Op) (m : Nat) (r : Reg)
    (hr : (run World.empty ops).regs[m]? = some r) :
    (((run World.empty ops).info.filter (fun i => i.model == m)).map (·.uid) = List.range' 1 (r.nextId - 1)) ∧
    (((run World.empty ops).info.filter (fun i => i.model == m)).map (·.uid)).Nodup ∧ 1 ≤ r.nextId := by
  have hi := (winv_run_perm (winv_empty List.Perm) ops).regs m r hr
  refine ⟨hi.uid.1, ?_, hi.uid.2⟩
  rw [hi.uid.1]; exact List.nodup_range'

/-- **Ids are permanent.**  Continuing a history never changes what is recorded about an agent that
    already exists (its model, class and `unique_id`): the record only grows at the end. -/
theorem C02_ids_never_change (w : World) (ops : List Op) (a : Aid) (i : Info) (h : w.info[a]? = some i) :
    (run w ops).info[a]? = some i := by
  obtain ⟨e, he⟩ := run_info_ext w ops
  rw [he, List.getElem?_append_left (List.getElem?_eq_some_iff.mp h).1, h]

/-- **Removal is atomic and idempotent.**  After `a.remove()` at any reachable state the agent is in none
    of the three views of any model; a second `a.remove()` changes nothing observable. -/
theorem C02_remove_atomic_and_idempotent (ops : List Op) (a : Aid) :
    (∀ m r, (removeAgent (run World.empty ops) a).regs[m]? = some r →
        (∀ i, (run World.empty ops).info[a]? = some i → i.model = m → a ∉ r.hard ∧ a ∉ r.all ∧ ∀ ts ∈ r.byType, a ∉ ts.2)) ∧
    (let w1 := removeAgent (run World.empty ops) a
     let w2 := removeAgent w1 a
     w2.regs = w1.regs ∧ w2.info = w1.info ∧ w2.held = w1.held ∧ w2.sets = w1.sets ∧ w2.log = w1.log) := by
  have h0 := winv_run_perm (winv_empty List.Perm) ops
  have h1 := winv_removeAgent OrdRel.ofPerm h0 a
  generalize run World.empty ops = w at h0 h1
  have hnot : ∀ m r i, (removeAgent w a).regs[m]? = some r → w.info[a]? = some i → i.model = m → a ∉ r.hard := by
    intro m r i hr hi him hmem
    have hreg : ∃ r0, w.regs[i.model]? = some r0 :=
      ⟨_, List.getElem?_eq_getElem (h0.models i (List.mem_of_getElem? hi))⟩
    obtain ⟨r0, hr0⟩ := hreg
    rw [(h1.regs m r hr).hard, mem_expectedHard, removeAgent_some hi hr0] at hmem
    exact hmem.2 (by simp)
  refine ⟨fun m r hr i hi him => ?_, ?_⟩
  · have hh := hnot m r i hr hi him
    have hinv := h1.regs m r hr
    refine ⟨hh, fun ha => hh (hinv.all.mem_iff.mp ha), fun ts hts ha => hh ?_⟩
    exact (List.mem_filter.mp ((hinv.bt.groups ts hts).mem_iff.mp ha)).1
  · simp only
    cases hi : w.info[a]? with
    | none => rw [removeAgent_none hi, removeAgent_none hi]; simp
    | some i =>
      have hi' : (removeAgent w a).info[a]? = some i := by rw [removeAgent_info]; exact hi
      cases hr1 : (removeAgent w a).regs[i.model]? with
      | none => rw [removeAgent_noreg hi' hr1]; simp
      | some r1 =>
        rw [removeAgent_some hi' hr1]
        have : r1.deregister a i.ty = r1 := by
          simp [Reg.deregister, hnot i.model r1 i hr1 hi rfl]
        simp [this, set_getElem?_self hr1]

/-- **Removed stays removed — in every model, at any distance.**  Once `a.remove()` has been called at some point of a
    history, then at every later moment (whatever else happened in between: churn, activations, reorderings) the agent is
    in none of the three views of *any* model, and calling `a.remove()` again changes nothing observable. -/
theorem C02_removed_stays_removed_everywhere (ops : List Op) (a : Aid) (h : a ∈ (run World.empty ops).removedLog) :
    (∀ (m : Nat) (r : Reg), (run World.empty ops).regs[m]? = some r → a ∉ r.hard ∧ a ∉ r.all ∧ ∀ ts ∈ r.byType, a ∉ ts.2) ∧
    (let w := run World.empty ops
     let w2 := removeAgent w a
     w2.regs = w.regs ∧ w2.info = w.info ∧ w2.held = w.held ∧ w2.sets = w.sets ∧ w2.log = w.log) := by
  have h0 := winv_run_perm (winv_empty List.Perm) ops
  generalize run World.empty ops = w at h0 h
  have hnot : ∀ (m : Nat) (r : Reg), w.regs[m]? = some r → a ∉ r.hard := by
    intro m r hr hmem
    rw [(h0.regs m r hr).hard, mem_expectedHard] at hmem
    exact hmem.2 h
  refine ⟨fun m r hr => ?_, ?_⟩
  · have hh := hnot m r hr
    have hinv := h0.regs m r hr
    refine ⟨hh, fun ha => hh (hinv.all.mem_iff.mp ha), fun ts hts ha => hh ?_⟩
    exact (List.mem_filter.mp ((hinv.bt.groups ts hts).mem_iff.mp ha)).1
  · simp only
    cases hi : w.info[a]? with
    | none => rw [removeAgent_none hi]; simp
    | some i =>
      cases hr : w.regs[i.model]? with
      | none => rw [removeAgent_noreg hi hr]; simp
      | some r =>
        rw [removeAgent_some hi hr]
        have : r.deregister a i.ty = r := by simp [Reg.deregister, hnot i.model r hr]
        simp [this, set_getElem?_self hr]

/-- non-vacuity: agent 0 is removed, then a lot happens, then it is removed again -/
example : (0 : Aid) ∈ (run World.empty [.newModel ⟨[2, 1]⟩, .create 0 0 true [], .create 0 1 false [], .remove 0, .create 0 0 false [],
    .shuffle (.all 0), .doSet (fun _ => [.rm 0]) 1 (.all 0)]).removedLog := by decide

/-- **Coexisting models never influence each other.**  Creating agents in model `m`, removing an agent of
    model `m`, removing all agents of `m`, or reordering `m`'s sets in place leaves the registry of every
    other model — members, order, by-type sets, id counter, generator — exactly as it was. -/
theorem C02_other_models_untouched (ops : List Op) (m m' : Nat) (hne : m' ≠ m) :
    let w := run World.empty ops
    (∀ ty hold x, (createAgent w m ty hold x).regs[m']? = w.regs[m']?) ∧
    (∀ ty hold xs, (createN w m ty hold xs).regs[m']? = w.regs[m']?) ∧
    (∀ a i, w.info[a]? = some i → i.model = m → (removeAgent w a).regs[m']? = w.regs[m']?) ∧
    (removeAll w m).regs[m']? = w.regs[m']? ∧
    (∀ t, t.model w = m → (∀ k, t ≠ .set k) → (shuffleInPlace w t).regs[m']? = w.regs[m']? ∧
        ∀ asc, (sortInPlace w t asc).regs[m']? = w.regs[m']?) := by
  have h := winv_run_perm (winv_empty List.Perm) ops
  generalize run World.empty ops = w at h
  refine ⟨fun ty hold x => createAgent_regs_other w m m' hne ty hold x,
    fun ty hold xs => createN_regs_other w m m' hne ty hold xs,
    fun a i hi him => removeAgent_regs_other w a i hi m' (by rw [him]; exact hne), ?_, ?_⟩
  · unfold removeAll
    cases hr : w.regs[m]? with
    | none => rfl
    | some r =>
      apply foldl_removeAgent_regs_other w m m' hne
      intro a ha
      rw [(h.regs m r hr).hard, mem_expectedHard] at ha
      exact ha.1
  · intro t ht hnk
    have hraw : ∀ l, (setRaw w t l).regs[m']? = w.regs[m']? := by
      intro l
      cases t with
      | all j =>
        simp only [Target.model] at ht; subst ht
        simp only [setRaw]; split <;> simp [Ne.symm hne]
      | byType j ty =>
        simp only [Target.model] at ht; subst ht
        simp only [setRaw]; split <;> simp [Ne.symm hne]
      | set k => exact absurd rfl (hnk k)
    refine ⟨?_, fun asc => hraw _⟩
    unfold shuffleInPlace
    rw [ht, setRng_regs, hraw]
    cases w.regs[m']? <;> simp [hne]

/-- **Coexisting models never influence each other — over whole histories.**  Start from any reachable world and run any
    history none of whose operations concerns model `m'` (`Op.avoids`: no agent created in `m'`; no agent of `m'` removed —
    directly, by `remove_all_agents` or by a callback —; none of `m'`'s own sets reordered in place; no shuffle or `shuffle_do`
    of a set that carries `m'`'s generator).  Everything else is allowed, in any number and order: churn in the other
    models, new models, program-made sets, in-place reorderings, every kind of activation with callbacks that remove,
    create, edit sets or raise.  Then the registry of `m'` — members, order, by-type sets, id counter, generator — is
    exactly what it was, and `m'` has the same agents. -/
theorem C02_other_models_untouched_all_histories (ops0 ops : List Op) (m' : Nat)
    (hm : m' < (run World.empty ops0).regs.length)
    (hav : ∀ pre op post, ops = pre ++ op :: post →
      Op.avoids (run World.empty ops0) m' (run (run World.empty ops0) pre) op) :
    (run (run World.empty ops0) ops).regs[m']? = (run World.empty ops0).regs[m']? ∧
    ∀ b, modelOfI (run (run World.empty ops0) ops).info b = some m' ↔ modelOfI (run World.empty ops0).info b = some m' := by
  have hw0 := winv_run_perm (winv_empty List.Perm) ops0
  generalize run World.empty ops0 = w0 at hw0 hm hav
  have key : ∀ (ops pre : List Op) (w : World), w = run w0 pre → WInv List.Perm w → Quiet w0 m' w →
      (∀ p op post, ops = p ++ op :: post → Op.avoids w0 m' (run w0 (pre ++ p)) op) → Quiet w0 m' (run w ops) := by
    intro ops
    induction ops with
    | nil => intro pre w _ _ hq _; exact hq
    | cons op ops ih =>
      intro pre w hwe hwi hq hall
      have hlen : m' < w.regs.length := by
        have := hq.regs
        cases h1 : w.regs[m']? with
        | none => rw [h1, List.getElem?_eq_getElem hm] at this; simp at this
        | some r => exact (List.getElem?_eq_some_iff.mp h1).1
      have ha : Op.avoids w0 m' w op := by
        have := hall [] op ops rfl
        rw [List.append_nil, ← hwe] at this
        exact this
      have hstep := quiet_step hwi hlen hq op ha
      have := ih (pre ++ [op]) (step w op) (by rw [hwe]; simp [run, List.foldl_append]) (winv_step_perm hwi op) hstep
        (fun p o post hp => by
          have := hall (op :: p) o post (by rw [hp]; rfl)
          simpa [List.append_assoc] using this)
      exact this
  have hq := key ops [] w0 rfl hw0 (Quiet.refl w0 m') (fun p op post hp => by simpa using hav p op post hp)
  exact ⟨hq.regs, fun b => by rw [hq.agents b]; simp [agentOf]⟩

/-- non-vacuity: two models; while model 0 is left alone, model 1 sees churn, `remove_all_agents`, an in-place shuffle and an
    activation whose callbacks remove and create agents of model 1 and raise -/
example : (run (run World.empty [.newModel ⟨[1, 2]⟩, .newModel ⟨[3, 4, 5]⟩, .create 0 0 false [], .create 1 0 true [], .create 1 1 false []])
    [.create 1 0 false [], .shuffle (.all 1),
     .doSetX (fun a => if a = 1 then [.rm 2, .create 1 0 1 false] else []) (fun a => a == 3) 7 (.all 1),
     .removeAll 1, .newModel ⟨[]⟩]).regs[0]? =
    (run World.empty [.newModel ⟨[1, 2]⟩, .newModel ⟨[3, 4, 5]⟩, .create 0 0 false [], .create 1 0 true [], .create 1 1 false []]).regs[0]? := by
  decide

/-- **`register_agent` / `deregister_agent` called directly.**  At every reachable state: registering an agent that is
    registered (what `Agent.__init__` already did) changes nothing at all — no duplicate in any of the three structures, no
    change of order —; `deregister_agent` of an agent that is not registered raises `KeyError` (and nothing was changed
    before the raise), and of a registered agent it is exactly `Agent.remove()`, so every theorem about removal applies. -/
theorem C02_direct_register_and_deregister (ops : List Op) (a : Aid) :
    let w := run World.empty ops
    (registered w a = true → registerAgain w a = w ∧ deregisterDirect w a = some (removeAgent w a)) ∧
    (registered w a = false → deregisterDirect w a = none) := by
  have h := winv_run_perm (winv_empty List.Perm) ops
  generalize run World.empty ops = w at h
  refine ⟨fun hr => ⟨registerAgain_noop OrdRel.ofPerm h a hr, ?_⟩, fun hr => ?_⟩
  · obtain ⟨i, r, hi, hrr, ha⟩ := registered_iff.mp hr
    simp [deregisterDirect, hi, hrr, ha]
  · cases hi : w.info[a]? with
    | none => simp [deregisterDirect, hi]
    | some i =>
      cases hrr : w.regs[i.model]? with
      | none => simp [deregisterDirect, hi, hrr]
      | some r =>
        have : a ∉ r.hard := by
          intro ha
          have : registered w a = true := registered_iff.mpr ⟨i, r, hi, hrr, ha⟩
          rw [hr] at this; simp at this
        simp [deregisterDirect, hi, hrr, this]

/-- non-vacuity: agent 1 is registered (registering it again is a no-op), agent 0 was removed but is held -/
example : registered (run World.empty [.newModel ⟨[]⟩, .create 0 0 true [], .create 0 1 false [], .remove 0]) 1 = true ∧
    registered (run World.empty [.newModel ⟨[]⟩, .create 0 0 true [], .create 0 1 false [], .remove 0]) 0 = false ∧
    (registerAgain (run World.empty [.newModel ⟨[]⟩, .create 0 0 true [], .create 0 1 false [], .remove 0]) 0).regs.map (·.hard)
      = [[1, 0]] := by decide

/-- **`create_agents` creates exactly n agents and splits only the sequences of length n.**  At any state, for
    every class, every n and every list of arguments (positional and keyword alike): exactly n agents are
    recorded, for this model and class, with the next n ids in order; the i-th receives, for each argument,
    element i of a sequence whose length is n, and the argument itself otherwise — a single object, or a
    sequence of *any other length*, which every agent then receives whole; the id counter moves by n. -/
theorem C02_create_agents_splits_arguments (w : World) (m : Nat) (r : Reg) (hr : w.regs[m]? = some r)
    (ty : Ty) (hold : Bool) (n : Nat) (args : List Arg) :
    let w' := createAgents w m ty hold n args
    w'.info.length = w.info.length + n ∧ (∀ a, a < w.info.length → w'.info[a]? = w.info[a]?) ∧
    (∀ i, i < n → w'.info[w.info.length + i]? =
      some { model := m, ty := ty, uid := r.nextId + i, x := args.map (Arg.at n i) }) ∧
    (∃ r', w'.regs[m]? = some r' ∧ r'.nextId = r.nextId + n) ∧
    (∀ i, i < n → (∀ v, Arg.at n i (.scalar v) = .int v) ∧
      (∀ l v, l.length = n → l[i]? = some v → Arg.at n i (.seq l) = .int v) ∧
      (∀ l, l.length ≠ n → Arg.at n i (.seq l) = .seq l)) := by
  intro w'
  obtain ⟨h1, h2, h3, h4⟩ := createN_spec m ty hold (splitArgs n args) w r hr
  rw [splitArgs_length] at h1 h4
  refine ⟨h1, h2, fun i hi => h3 i _ (splitArgs_getElem? n args i hi), h4, fun i _ => ⟨fun v => rfl, fun l v hl hv => ?_, fun l hl => ?_⟩⟩
  · simp [Arg.at, hl, hv]
  · simp [Arg.at, hl]

/-- **Every set is duplicate-free after every history** (`model.agents`, each by-type set, each
    program-made set) — the hypothesis under which C04's "nobody is invoked twice" is stated. -/
theorem C02_sets_nodup_all_histories (ops : List Op) (t : Target) : (rawMembers (run World.empty ops) t).Nodup := by
  have h := winv_run_perm (winv_empty List.Perm) ops
  generalize run World.empty ops = w at h
  cases t with
  | all m =>
    simp only [rawMembers]
    cases hr : w.regs[m]? with
    | none => simp
    | some r => exact (h.regs m r hr).all.nodup_iff.mpr (h.regs m r hr).hard_nodup
  | byType m ty =>
    simp only [rawMembers]
    cases hr : w.regs[m]? with
    | none => simp
    | some r =>
      show ((r.byType.lookup ty).getD []).Nodup
      cases hl : r.byType.lookup ty with
      | none => simp
      | some s =>
        show (Option.getD (some s) []).Nodup
        exact ((h.regs m r hr).bt.groups (ty, s) (mem_of_lookup hl)).nodup_iff.mpr
          ((h.regs m r hr).hard_nodup.sublist List.filter_sublist)
  | set k =>
    simp only [rawMembers]
    cases hs : w.sets[k]? with
    | none => simp
    | some p => exact h.sets p (List.mem_of_getElem? hs)

/-! ### non-vacuity: two models, three classes, removal and creation inside an activation -/

private def demoOps : List Op :=
  [.newModel ⟨[3, 1, 4]⟩, .newModel ⟨[]⟩,
   .create 0 0 false [.int 0], .create 1 2 true [.int 0], .createAgents 0 1 false 2 [.seq [5, 6]], .create 0 0 false [],
   -- agent 0 removes agent 2 (twice) and creates an agent in the *other* model; agent 4 removes itself
   .doSet (fun a => if a = 0 then [.rm 2, .rm 2, .create 1 1 1 false] else if a = 4 then [.rmSelf] else []) 9 (.all 0),
   .remove 1, .remove 1]

example : (run World.empty demoOps).regs.map (fun r => (r.all, r.byType, r.nextId)) =
    [([0, 3], [(0, [0]), (1, [3])], 5), ([5], [(2, []), (1, [5])], 3)] := by decide
example : (run World.empty demoOps).removedLog = [2, 2, 4, 1, 1] ∧
    (run World.empty demoOps).info.map (fun i => (i.model, i.uid)) = [(0, 1), (1, 1), (0, 2), (0, 3), (0, 4), (1, 2)] := by
  decide
example : ∀ op ∈ demoOps, op.reordersRegistry = false := by decide
/-- `create_agents(model, 3, [7, 8, 9], y=[1, 2])`: the first argument is split, the second (length 2) is not -/
example : ((createAgents (newModel World.empty ⟨[]⟩) 0 1 false 3 [.seq [7, 8, 9], .seq [1, 2]]).info.map (·.x)) =
    [[.int 7, .seq [1, 2]], [.int 8, .seq [1, 2]], [.int 9, .seq [1, 2]]] := by decide

theorem alive_copySet (w : World) (t : Target) (a : Aid) : alive (copySet w t) a = alive w a := by
  rfl

/-- **A copy shows exactly the members of the original at that moment.**  After every history, `set.select()` without
    criteria / `copy.copy(set)` (`copySet`) of any set — `model.agents`, a by-type set, a program-made set — is a further
    program-made set that shows, by iteration and by position, exactly the live members of the original in the original's
    order (the constructor's de-duplication and liveness filter change nothing, because every set is duplicate-free after
    every history), and it carries the generator of the same model.
    (Review 3, M16: the former name "shares nothing" claimed more than a model without references can say — that the copy
    and the original are different *storage* is true in the model by construction, every program-made set being its own list;
    a copy that shares the member dictionary is caught by the correspondence tie and the oracle, see design.d/C02.md.) -/
theorem C02_copy_shows_the_members_at_that_moment (ops : List Op) (t : Target) :
    let w := run World.empty ops
    members (copySet w t) (.set w.sets.length) = members w t ∧ itemsOf (copySet w t) (.set w.sets.length) = members w t ∧
    rawMembers (copySet w t) (.set w.sets.length) = members w t ∧
    Target.model (copySet w t) (.set w.sets.length) = t.model w := by
  intro w
  have hnd : (members w t).Nodup := (C02_sets_nodup_all_histories ops t).filter _
  have hf : (members w t).filter (alive w) = members w t := by simp [members]
  have hraw : rawMembers (copySet w t) (.set w.sets.length) = members w t := by
    have : rawMembers (copySet w t) (.set w.sets.length) = dedup ((members w t).filter (alive w)) := by
      simp [rawMembers, copySet, mkSet]
    rw [this, hf, dedup_of_nodup hnd]
  have hm : members (copySet w t) (.set w.sets.length) = members w t := by
    have hal : alive (copySet w t) = alive w := funext (alive_copySet w t)
    rw [members, hraw, hal, hf]
  exact ⟨hm, hm, hraw, by simp [Target.model, copySet, mkSet]⟩

/-- non-vacuity: three agents, one removed; the copy of `model.agents` loses a member, `model.agents` does not -/
example : let w := run World.empty [.newModel ⟨[]⟩, .create 0 0 true [], .create 0 1 false [], .create 0 0 false [], .remove 1]
    members (copySet w (.all 0)) (.set 0) = [0, 2] ∧
    members (setDiscard (copySet w (.all 0)) 0 0) (.set 0) = [2] ∧
    members (setDiscard (copySet w (.all 0)) 0 0) (.all 0) = [0, 2] := by decide

/-- **Dropped models (r6).**  A history in which the program drops whole models (`dropModel`: the model and its agents
    become garbage) is one of the histories of the theorems above, and whatever happened before - agents created, removed,
    models dropped - the model constructed next has an empty registry and hands out `unique_id` 1 first: no model, alive or
    dead, influences its id sequence.  (That a *dead* model's storage is reused by the runtime for the new one cannot be
    said in a model without addresses; see design.d/C02.md.) -/
theorem C02_new_model_numbers_from_one_also_after_dropped_models (ops : List Op) (m : Nat) (g : Rng) :
    let w := run World.empty ops
    dropModel w m = run World.empty (ops ++ dropModelOps w m) ∧
    (step (dropModel w m) (.newModel g)).regs[(dropModel w m).regs.length]? = some (Reg.new g) := by
  intro w
  exact ⟨by simp [dropModel, run, w, List.foldl_append], by simp [step, newModel]⟩

/-- non-vacuity: model 0 with three agents (one held) is dropped: none of its agents is alive, model 1 is untouched, the
    next model starts at 1 -/
example : let w := run World.empty [.newModel ⟨[]⟩, .newModel ⟨[]⟩, .create 0 0 true [], .create 1 1 true [], .create 0 0 false []]
    let w' := step (dropModel w 0) (.newModel ⟨[]⟩)
    (List.range 3).filter (alive w') = [1] ∧ members w' (.all 1) = [1] ∧
    ((step w' (.create 2 0 false [])).info[3]?.map (·.uid)) = some 1 := by decide

end Mesa.Agents
