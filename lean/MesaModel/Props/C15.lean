import MesaModel.Proofs.DevsAbm
/-!
# C15 — ABMSimulator steps once per tick; chunking a run never changes it

`ReachableAbm s`: every state of an ABM simulation after `setup`, under any interleaving of user commands
(scheduling with any priority at top level, from events or from the step body; cancels; drops) and run
calls.  `Reachable` is the same for both simulator classes (see C14).
-/
namespace Mesa.Devs

/-- Chunking, both simulator classes: advancing a simulation through ANY list of pieces
    (`run_until t`, `run_for d`, `run_next_event`, in any mix) that stay within the horizon `T`, and then
    to `T`, ends in exactly the state — clock, pending events, step counter, complete execution trace —
    that a single `run_until T` produces. -/
theorem C15_chunking {s s₁ s₂ : Sim} {f f' : Nat} {T : Int} {ps : List Piece} (h : Reachable s)
    (hin : piecesWithin f T s ps) (h₁ : runPieces f s ps = some s₁) (h₂ : runUntil f' s₁ T = some s₂) :
    ∃ g, runUntil g s T = some s₂ :=
  chunk_pieces (reachable_inv h).1 hin h₁ h₂

/-- Fuel is only a termination device: more fuel never changes a result. -/
theorem C15_fuel_irrelevant {f g : Nat} {s s' : Sim} {T : Int} (hfg : f ≤ g)
    (h : runUntil f s T = some s') : runUntil g s T = some s' := runUntil_fuel_le hfg h

/-- Under ABMSimulator, after any `run_until` to an integer tick `k` (not before the clock),
    `model.steps` equals the clock. -/
theorem C15_abm_steps_eq_clock {s s' : Sim} {f k : Nat} (h : ReachableAbm s) (hT : s.now ≤ (k : Int) * U)
    (hr : runUntil f s ((k : Int) * U) = some s') : s'.steps = k ∧ s'.now = (k : Int) * U :=
  steps_eq_clock (reachable_inv h.reachable).1 (reachableAbm_inv h) hT hr

/-- **`model.steps` tracks the clock in every reachable state** (after `run_next_event` too, where equality can fail):
    `steps` ticks lie behind the clock and the next one not yet: `steps·U ≤ now ≤ (steps+1)·U`, and the step of tick
    `steps+1` is armed, live, on the list.  So `steps = ⌊now/U⌋`, except in the one situation `now = (steps+1)·U` — the clock
    has reached a tick whose step is still waiting *at the current time*: this is what `run_next_event` leaves when it executes
    a user event of HIGH priority that was scheduled for that tick before the step was re-armed (`abm1` below); the very next
    event executed is then that step.  After `run_until` to a tick the counter equals the clock (`C15_abm_steps_eq_clock`). -/
theorem C15_abm_steps_track_clock {s : Sim} (h : ReachableAbm s) :
    (s.steps : Int) * U ≤ s.now ∧ s.now ≤ ((s.steps : Int) + 1) * U ∧
    ∃ st ∈ s.pending, st.isStep = true ∧ st.cancelled = false ∧ st.dead = false ∧ st.time = ((s.steps : Int) + 1) * U := by
  have hinv := reachableAbm_inv h
  have hw := (reachable_inv h.reachable).1
  obtain ⟨st, ha⟩ := hinv.armed
  have hmem : st ∈ s.pending := by
    have : st ∈ stepEvs s.pending := by rw [ha.only]; simp
    exact (List.mem_filter.mp this).1
  have hfut := hw.future st hmem
  rw [ha.time] at hfut
  exact ⟨hinv.le, hfut, st, hmem, ha.isStep, ha.live, ha.alive, ha.time⟩

/-- `model.step` has run exactly once at every integer tick 1 … steps, and at no other time. -/
theorem C15_step_once_per_tick {s : Sim} (h : ReachableAbm s) :
    stepClocks s.log = (List.range s.steps).map (fun (i : Nat) => ((i : Int) + 1) * U) :=
  (reachableAbm_inv h).stepLog

/-- Exactly one step event is armed at any time, for the next tick, with HIGH priority; it cannot be
    cancelled or lose its callable through user commands. -/
theorem C15_step_always_armed {s : Sim} (h : ReachableAbm s) :
    ∃ st, s.pending.filter (·.isStep) = [st] ∧ st.cancelled = false ∧ st.dead = false ∧
      st.time = ((s.steps : Int) + 1) * U ∧ st.prio = 1 := by
  obtain ⟨st, ha⟩ := (reachableAbm_inv h).armed
  exact ⟨st, ha.only, ha.live, ha.alive, ha.time, ha.prio⟩

/-- The step of a tick runs ahead of every same-tick event of lower priority: whenever a user event of
    priority below HIGH is about to execute, the steps of all ticks up to its time have already run. -/
theorem C15_step_before_lower_priority {s : Sim} (h : ReachableAbm s) {e : Ev} {rest : List Ev}
    (hp : popLive s.pending = some (e, rest)) (hu : e.isStep = false) (hprio : 1 < e.prio) :
    e.time < ((s.steps : Int) + 1) * U := by
  obtain ⟨st, ha⟩ := (reachableAbm_inv h).armed
  obtain ⟨_, hlt, _⟩ := popLive_spec (reachable_inv h.reachable).1.sorted hp
  rcases armed_pop ha hp with ⟨rfl, _⟩ | ⟨_, hrest⟩
  · rw [ha.isStep] at hu; simp at hu
  · have hmem : st ∈ rest := by
      have : st ∈ stepEvs rest := by rw [hrest]; simp
      exact (List.mem_filter.mp this).1
    have := hlt st hmem
    rw [Ev.lt_iff, ha.time, ha.prio] at this
    omega

/-! non-vacuity: two ticks of an ABM run whose step body schedules a same-tick LOW event -/
section Example
def abm0 : Sim := setup (init .abm (fun _ => []) [.schedRel 0 10 0])
example : ReachableAbm abm0 := .setup _ _
example : ((runUntil 20 abm0 2048).map fun s => (s.steps, s.now, s.log.map (·.clock), s.log.map (·.isStep))) =
    some (2, 2048, [1024, 1024, 2048, 2048], [true, false, true, false]) := by decide
example : piecesWithin 20 2048 abm0 [.for 1024, .until 2048] :=
  ⟨by decide, fun _ _ => ⟨Int.le_refl _, fun _ _ => trivial⟩⟩
example : ((runPieces 20 abm0 [.for 1024, .next, .until 2048]).map fun s => (s.steps, s.now, s.log.map (·.clock))) =
    some (2, 2048, [1024, 1024, 2048, 2048]) := by decide
/-- the exception of `C15_abm_steps_track_clock` is real: a HIGH-priority user event scheduled for tick 2 before tick 1's
    step re-arms runs first at tick 2; `run_next_event` then leaves clock 2 with `steps = 1` -/
def abm1 : Sim := runNext ((runUntil 20 (doCmd (setup (init .abm (fun _ => []) [])) (.schedAbs 2048 1 0)) 1024).getD abm0)
example : (abm1.steps, abm1.now, abm1.log.map (·.isStep)) = (1, 2048, [true, false]) := by decide
example : ((runNext abm1).steps, (runNext abm1).now) = (2, 2048) := by decide
end Example

end Mesa.Devs
