import MesaModel.Proofs.DevsAbm
import MesaModel.Proofs.DevsRaise
/-!
# C15 — ABMSimulator steps once per tick; chunking a run never changes it

`ReachableAbm s`: every state of an ABM simulation after `setup`, under any interleaving of user commands
(scheduling with any priority at top level, from events or from the step body; cancels; drops) and run
calls.  `Reachable` is the same for both simulator classes (see C14).
-/
namespace Mesa.Devs

/-- Chunking, both simulator classes: advancing a simulation through ANY list of pieces
    (`run_until t`, `run_for d`, `run_next_event`, in any mix) that stay within the horizon `T`, and then
    to `T`, ends in exactly the state — clock, pending events, step counter, complete execution trace —
    that a single `run_until T` produces: the one-piece run terminates, and EVERY terminating one-piece run
    (whatever its fuel) ends in that state. -/
theorem C15_chunking {s s₁ s₂ : Sim} {f f' : Nat} {T : Int} {ps : List Piece} (h : Reachable s)
    (hin : piecesWithin f T s ps) (hnorm : piecesNormal f s ps) (h₁ : runPieces f s ps = some s₁)
    (h₂ : runUntil f' s₁ T = some s₂) :
    (∃ g, runUntil g s T = some s₂) ∧ ∀ g s₂', runUntil g s T = some s₂' → s₂' = s₂ := by
  obtain ⟨g, hg⟩ := chunk_pieces (reachable_inv h).1 hin hnorm h₁ h₂
  exact ⟨⟨g, hg⟩, fun g' s₂' h' => runUntil_det h' hg⟩

/-- **Interrupted and resumed = uninterrupted.**  `resume f n s T`: the program calls `run_until(T)`; whenever an exception of a
    callable comes out of it, it catches the exception and calls `run_until(T)` again (at most `n` calls).  `runUntilC`: the
    uninterrupted run — the loop of `run_until` with every exception caught on the spot, i.e. the run in which the raising programs
    simply stop at their `raise`.  If the resumed run gets through, it ends with no exception pending in exactly the state —
    clock, list, counters, complete execution trace — of the uninterrupted run: the uninterrupted run terminates, and EVERY
    terminating uninterrupted run (whatever its fuel) ends in that very state.  An exception costs nothing but the rest of the
    program that raised. -/
theorem C15_interrupted_run_resumed {s s' : Sim} {f n : Nat} {T : Int} (h : Reachable s) (h0 : s.raised = none)
    (hres : resume f n s T = some s') :
    s'.raised = none ∧ (∃ g, runUntilC g s T = some s') ∧ ∀ g s'', runUntilC g s T = some s'' → s'' = s' := by
  obtain ⟨hn, g, hg⟩ := resume_runUntilC (reachable_inv h).1 h0 hres
  exact ⟨hn, ⟨g, hg⟩, fun g' s'' h' => runUntilC_det h' hg⟩

/-- **... and conversely (progress).**  Whenever the uninterrupted run terminates, the program that calls `run_until(T)` again
    after every exception gets through after finitely many calls, in the same state; no exception is left pending. -/
theorem C15_uninterrupted_run_is_resumed_run {s s' : Sim} {g : Nat} {T : Int} (h0 : s.raised = none)
    (hc : runUntilC g s T = some s') : s'.raised = none ∧ ∃ f n, resume f n s T = some s' := by
  obtain ⟨n, hn⟩ := resume_of_runUntilC h0 hc
  exact ⟨runUntilC_calm h0 hc, g, n, hn⟩

/-- The uninterrupted run and the resumed run are functions of (state, horizon): fuel and the bound on the number of calls are
    termination devices only — more of either never changes a result, and two terminating runs agree. -/
theorem C15_uninterrupted_run_fuel_irrelevant {f g n m : Nat} {s a b : Sim} {T : Int} :
    (f ≤ g → runUntilC f s T = some a → runUntilC g s T = some a) ∧
    (runUntilC f s T = some a → runUntilC g s T = some b → a = b) ∧
    (f ≤ g → n ≤ m → resume f n s T = some a → resume g m s T = some a) ∧
    (resume f n s T = some a → resume g m s T = some b → a = b) := by
  refine ⟨runUntilC_fuel_le, runUntilC_det, fun hfg hnm h => resume_calls_le hnm (resume_fuel_le hfg h), ?_⟩
  intro ha hb
  have h1 := resume_calls_le (Nat.le_max_left n m) (resume_fuel_le (Nat.le_max_left f g) ha)
  have h2 := resume_calls_le (Nat.le_max_right n m) (resume_fuel_le (Nat.le_max_right f g) hb)
  rw [h1] at h2; exact Option.some.inj h2

/-- ... and when nothing raises, the uninterrupted run is `run_until` itself. -/
theorem C15_normal_run_is_uninterrupted_run {s s' : Sim} {f : Nat} {T : Int} (hr : runUntil f s T = some s')
    (hn : s'.raised = none) : runUntilC f s T = some s' := runUntilC_of_normal hr hn

/-- **Chunking with exceptions.**  Any list of pieces (`run_until t`, `run_for d`, `run_next_event`) within the horizon `T`, each of
    which may be cut short by an exception that the program catches before the next piece, followed by the uninterrupted run to
    `T`, ends in exactly the state of the uninterrupted run to `T` from the start — which terminates, and every terminating
    uninterrupted run from the start ends in that state: where the cuts are, and which pieces met an exception, does not matter. -/
theorem C15_chunking_with_exceptions {s s₁ s₂ : Sim} {f f' : Nat} {T : Int} {ps : List Piece} (h : Reachable s)
    (h0 : s.raised = none) (hin : piecesWithinC f T s ps) (h₁ : runPiecesC f s ps = some s₁)
    (h₂ : runUntilC f' s₁ T = some s₂) :
    (∃ g, runUntilC g s T = some s₂) ∧ ∀ g s₂', runUntilC g s T = some s₂' → s₂' = s₂ := by
  obtain ⟨g, hg⟩ := chunkC_pieces (reachable_inv h).1 h0 hin h₁ h₂
  exact ⟨⟨g, hg⟩, fun g' s₂' h' => runUntilC_det h' hg⟩

/-- **Chunking with exceptions, progress.**  Conversely: whenever the uninterrupted run to `T` terminates (fuel `g`), EVERY list of
    pieces within `T` — exceptions caught in between — terminates too (same fuel per piece), and from where the pieces end both the
    uninterrupted run and the program that calls `run_until(T)` again after every exception reach that same final state. -/
theorem C15_chunking_with_exceptions_progress {s s₂ : Sim} {g : Nat} {T : Int} {ps : List Piece} (h : Reachable s)
    (h0 : s.raised = none) (hin : piecesWithinC g T s ps) (hc : runUntilC g s T = some s₂) :
    ∃ s₁, runPiecesC g s ps = some s₁ ∧ runUntilC g s₁ T = some s₂ ∧ ∃ n, resume g n s₁ T = some s₂ := by
  have hw := (reachable_inv h).1
  obtain ⟨s₁, h1, h2⟩ := pieces_of_runUntilC hw h0 hin hc
  obtain ⟨n, hn⟩ := resume_of_runUntilC (runPiecesC_inv hw h0 h1).2 h2
  exact ⟨s₁, h1, h2, n, hn⟩

/-- **Resumed in pieces = resumed in one piece** (the statement about programs only, no model-only loop in it): pieces within the
    horizon, exceptions caught in between, then `run_until(T)` called again and again until it returns normally, against
    `run_until(T)` called again and again from the start — if both get through they end in the same state, whatever the fuels,
    the bounds on the number of calls and the positions of the cuts; and if the run in pieces gets through, so does the run
    in one piece. -/
theorem C15_resumed_in_pieces_eq_resumed_in_one_piece {s s₁ a : Sim} {f f₁ n₁ : Nat} {T : Int} {ps : List Piece}
    (h : Reachable s) (h0 : s.raised = none) (hin : piecesWithinC f T s ps) (h₁ : runPiecesC f s ps = some s₁)
    (ha : resume f₁ n₁ s₁ T = some a) :
    (∃ f₂ n₂, resume f₂ n₂ s T = some a) ∧ ∀ f₂ n₂ b, resume f₂ n₂ s T = some b → b = a := by
  have hw := (reachable_inv h).1
  obtain ⟨hw₁, hc₁⟩ := runPiecesC_inv hw h0 h₁
  obtain ⟨_, g₁, hg₁⟩ := resume_runUntilC hw₁ hc₁ ha
  obtain ⟨g, hg⟩ := chunkC_pieces hw h0 hin h₁ hg₁
  obtain ⟨n, hn⟩ := resume_of_runUntilC h0 hg
  refine ⟨⟨g, n, hn⟩, fun f₂ n₂ b hb => ?_⟩
  obtain ⟨_, g₂, hg₂⟩ := resume_runUntilC hw h0 hb
  exact runUntilC_det hg₂ hg

/-- Fuel is only a termination device: more fuel never changes a result. -/
theorem C15_fuel_irrelevant {f g : Nat} {s s' : Sim} {T : Int} (hfg : f ≤ g)
    (h : runUntil f s T = some s') : runUntil g s T = some s' := runUntil_fuel_le hfg h

/-- Under ABMSimulator, after any `run_until` to an integer tick `k` (not before the clock),
    `model.steps` equals the clock. -/
theorem C15_abm_steps_eq_clock {s s' : Sim} {f k : Nat} (h : ReachableAbm s) (hT : s.now ≤ (k : Int) * U)
    (hr : runUntil f s ((k : Int) * U) = some s') (hn : s'.raised = none) : s'.steps = k ∧ s'.now = (k : Int) * U :=
  steps_eq_clock (reachable_inv h.reachable).1 (reachableAbm_inv h) hT hr hn

/-- **`model.steps` tracks the clock in every reachable state** (after `run_next_event` too, where equality can fail):
    `steps` ticks lie behind the clock and the next one not yet: `steps·U ≤ now ≤ (steps+1)·U`, and the step of tick
    `steps+1` is armed, live, on the list.  So `steps = ⌊now/U⌋`, except in the one situation `now = (steps+1)·U` — the clock
    has reached a tick whose step is still waiting *at the current time*: this is what `run_next_event` leaves when it executes
    a user event of HIGH priority that was scheduled for that tick before the step was re-armed (`abm1` below), or when such an
    event raises (aborted states are reachable states); the step of that tick is still armed at the current time and runs after
    the user events of HIGH priority (or priority < HIGH) that were scheduled for the tick before it was re-armed.  After a
    `run_until` to a tick that returns normally the counter equals the clock (`C15_abm_steps_eq_clock`). -/
theorem C15_abm_steps_track_clock {s : Sim} (h : ReachableAbm s) :
    (s.steps : Int) * U ≤ s.now ∧ s.now ≤ ((s.steps : Int) + 1) * U ∧
    ∃ st ∈ s.pending, st.isStep = true ∧ st.cancelled = false ∧ st.dead = false ∧ st.time = ((s.steps : Int) + 1) * U := by
  have hinv := reachableAbm_inv h
  have hw := (reachable_inv h.reachable).1
  obtain ⟨st, ha⟩ := hinv.armed
  have hmem : st ∈ s.pending := by
    have : st ∈ stepEvs s.pending := by rw [ha.only]; simp
    exact (List.mem_filter.mp this).1
  have hfut := hw.future st hmem
  rw [ha.time] at hfut
  exact ⟨hinv.le, hfut, st, hmem, ha.isStep, ha.live, ha.alive, ha.time⟩

/-- **ABM: steps = clock after a run that met exceptions and was resumed** to an integer tick `k`: every aborted intermediate
    state satisfies `C15_abm_steps_track_clock` (aborted states are `ReachableAbm` states: the step was re-armed before its body
    ran, `steps` was already incremented), and when the resumed run gets through, `model.steps = k = clock`. -/
theorem C15_abm_steps_eq_clock_after_resume {s s' : Sim} {f n k : Nat} (h : ReachableAbm s) (h0 : s.raised = none)
    (hT : s.now ≤ (k : Int) * U) (hres : resume f n s ((k : Int) * U) = some s') :
    s'.steps = k ∧ s'.now = (k : Int) * U := by
  induction n generalizing s with
  | zero => simp [resume] at hres
  | succ n ih =>
    simp only [resume] at hres
    split at hres
    · simp at hres
    · rename_i s₁ h₁
      split at hres
      · rename_i hx
        obtain ⟨x, hx'⟩ := Option.isSome_iff_exists.mp hx
        obtain ⟨_, _, _, _, hle, _⟩ := runUntil_aborted h0 h₁ hx'
        exact ih (.caught (.until h hT h₁)) rfl hle hres
      · rename_i hx
        simp only [Option.some.injEq] at hres; subst hres
        exact C15_abm_steps_eq_clock h hT h₁ (raised_none_of_isSome_false (Bool.eq_false_iff.mpr hx))

/-- `model.step` has run exactly once at every integer tick 1 … steps, and at no other time. -/
theorem C15_step_once_per_tick {s : Sim} (h : ReachableAbm s) :
    stepClocks s.log = (List.range s.steps).map (fun (i : Nat) => ((i : Int) + 1) * U) :=
  (reachableAbm_inv h).stepLog

/-- Exactly one step event is armed at any time, for the next tick, with HIGH priority; it cannot be
    cancelled or lose its callable through user commands. -/
theorem C15_step_always_armed {s : Sim} (h : ReachableAbm s) :
    ∃ st, s.pending.filter (·.isStep) = [st] ∧ st.cancelled = false ∧ st.dead = false ∧
      st.time = ((s.steps : Int) + 1) * U ∧ st.prio = 1 := by
  obtain ⟨st, ha⟩ := (reachableAbm_inv h).armed
  exact ⟨st, ha.only, ha.live, ha.alive, ha.time, ha.prio⟩

/-- The step of a tick runs ahead of every same-tick event of lower priority: whenever a user event of
    priority below HIGH is about to execute, the steps of all ticks up to its time have already run. -/
theorem C15_step_before_lower_priority {s : Sim} (h : ReachableAbm s) {e : Ev} {rest : List Ev}
    (hp : popLive s.pending = some (e, rest)) (hu : e.isStep = false) (hprio : 1 < e.prio) :
    e.time < ((s.steps : Int) + 1) * U := by
  obtain ⟨st, ha⟩ := (reachableAbm_inv h).armed
  obtain ⟨_, hlt, _⟩ := popLive_spec (reachable_inv h.reachable).1.sorted hp
  rcases armed_pop ha hp with ⟨rfl, _⟩ | ⟨_, hrest⟩
  · rw [ha.isStep] at hu; simp at hu
  · have hmem : st ∈ rest := by
      have : st ∈ stepEvs rest := by rw [hrest]; simp
      exact (List.mem_filter.mp this).1
    have := hlt st hmem
    rw [Ev.lt_iff, ha.time, ha.prio] at this
    omega

/-! non-vacuity: two ticks of an ABM run whose step body schedules a same-tick LOW event -/
section Example
def abm0 : Sim := setup (init .abm (fun _ => []) [.schedRel 0 10 0])
example : ReachableAbm abm0 := .setup _ _
example : ((runUntil 20 abm0 2048).map fun s => (s.steps, s.now, s.log.map (·.clock), s.log.map (·.isStep))) =
    some (2, 2048, [1024, 1024, 2048, 2048], [true, false, true, false]) := by decide
example : piecesWithin 20 2048 abm0 [.for 1024, .until 2048] :=
  ⟨by decide, fun _ _ => ⟨Int.le_refl _, fun _ _ => trivial⟩⟩
example : ((runPieces 20 abm0 [.for 1024, .next, .until 2048]).map fun s => (s.steps, s.now, s.log.map (·.clock))) =
    some (2, 2048, [1024, 1024, 2048, 2048]) := by decide
/-- the exception of `C15_abm_steps_track_clock` is real: a HIGH-priority user event scheduled for tick 2 before tick 1's
    step re-arms runs first at tick 2; `run_next_event` then leaves clock 2 with `steps = 1` -/
def abm1 : Sim := runNext ((runUntil 20 (doCmd (setup (init .abm (fun _ => []) [])) (.schedAbs 2048 1 0)) 1024).getD abm0)
example : (abm1.steps, abm1.now, abm1.log.map (·.isStep)) = (1, 2048, [true, false]) := by decide
example : ((runNext abm1).steps, (runNext abm1).now) = (2, 2048) := by decide
/-- a step body that raises (after scheduling a same-tick LOW event): `run_until(2 ticks)` is cut short at tick 1 with
    `steps = 1 = clock`, the step of tick 2 already armed (ids 1 = LOW event, 2 = next step); resumed (cut short again at tick 2,
    resumed again) it ends with `steps = 2 = clock`, and so does the uninterrupted run -/
def abmR : Sim := setup (init .abm (fun _ => []) [.schedRel 0 10 0, .raise .key, .schedRel 0 10 0])
example : ReachableAbm abmR := .setup _ _
example : ((runUntil 20 abmR 2048).map fun s => (s.raised, s.steps, s.now)) = some (some .key, 1, 1024) := by decide
example : ((runUntil 20 abmR 2048).map fun s => s.pending.map fun e => (e.id, e.isStep, e.time)) =
    some [(2, false, 1024), (1, true, 2048)] := by decide
example : ((resume 20 5 abmR 2048).map fun s => (s.raised, s.steps, s.now, s.log.map (·.clock))) =
    some (none, 2, 2048, [1024, 1024, 2048, 2048]) := by decide
example : ((runUntilC 20 abmR 2048).map fun s => (s.steps, s.now, s.log.map (·.clock))) =
    some (2, 2048, [1024, 1024, 2048, 2048]) := by decide
example : piecesWithinC 20 2048 abmR [.for 1024, .until 2048] :=
  ⟨by decide, fun _ _ => ⟨Int.le_refl _, fun _ _ => trivial⟩⟩
example : (((runPiecesC 20 abmR [.for 1024, .next, .until 2048]).bind (runUntilC 20 · 2048)).map
    fun s => (s.steps, s.now, s.log.map (·.clock))) = some (2, 2048, [1024, 1024, 2048, 2048]) := by decide
end Example

end Mesa.Devs
