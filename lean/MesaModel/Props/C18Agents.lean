import MesaModel.Proofs.AgentSetHist
/-!
# C18 (agents group) — a rejected AgentSet call leaves the store unchanged

Material for C18 ("a mutating call that raises leaves all observable state unchanged") from the `agents`
group.  None of these calls is in C18's own list of rejecting calls (they are not space / table / scheduling
/ subscription operations); they are the raising calls of `AgentSet`: `remove` of a non-member (`KeyError`),
`sort` / `groupby` by a key some member lacks (`AttributeError`), `pop` on an empty set (`KeyError`), plus the
non-mutating raising queries.
In the model a raising call returns `Except.error` and carries no new store at all, so "unchanged" is stated
through `applyOp`, the state a history continues from; harness/c03.py `generate_rejecting` exercises the same
calls on the implementation, followed by further valid operations, and its oracle clause `reject:` compares
the full dump (all sets, all attributes) before and after.
-/
namespace Mesa.ASet

/-- `AgentSet.remove(agent)` of a non-member raises `KeyError` and changes nothing. -/
theorem C18_agents_remove_absent_reject_unchanged (st : Store) (s a : Nat) (h : a ∉ st.get s) :
    remove st s a = .error .key ∧ applyOp st (.remove s a) = st := by
  simp [remove, applyOp, h]

/-- `AgentSet.sort(key, inplace=…)` with a key that some member lacks raises `AttributeError` before
    anything is rebuilt: no set changes, no new set appears, in place or not. -/
theorem C18_agents_sort_missing_key_reject_unchanged (st : Store) (s : Nat) (key : Key) (asc inplace : Bool)
    (h : keysOf st key (st.get s) = none) :
    sort st s key asc inplace = .error .attr ∧ applyOp st (.sort s key asc inplace) = st := by
  simp [sort, applyOp, h]

/-- `AgentSet.groupby(by)` with a key that some member lacks raises `AttributeError`; no group set is created. -/
theorem C18_agents_groupby_missing_key_reject_unchanged (st : Store) (s : Nat) (key : Key) (asSets : Bool)
    (h : keysOf st key (st.get s) = none) :
    group st s key asSets = .error .attr ∧ applyOp st (.group s key asSets) = st := by
  simp [group, applyOp, h]

/-- `AgentSet.pop()` on an empty set raises `KeyError` and changes nothing. -/
theorem C18_agents_pop_empty_reject_unchanged (st : Store) (s : Nat) (h : st.get s = []) :
    (pop st s).toOption = none ∧ applyOp st (.pop s) = st := by
  simp [pop, applyOp, h, popL, Except.toOption]

/-- Every raising call of the model returns an error *instead of* a store: whatever follows in a history
    starts from the store as it was (`applyOp` of a raising operation is the identity). -/
theorem C18_agents_any_reject_unchanged (st : Store) (op : SOp) :
    (match op with
     | .sort s key asc i => (sort st s key asc i).toOption.isNone
     | .group s key b => (group st s key b).toOption.isNone
     | .remove s a => (remove st s a).toOption.isNone
     | .pop s => (pop st s).toOption.isNone
     | _ => false) = true → applyOp st op = st := by
  cases op with
  | sort s key asc i =>
    intro h; simp only [applyOp]
    cases hs : sort st s key asc i with
    | error e => rfl
    | ok r => simp [hs, Except.toOption] at h
  | group s key b =>
    intro h; simp only [applyOp]
    cases hs : group st s key b with
    | error e => rfl
    | ok r => simp [hs, Except.toOption] at h
  | remove s a =>
    intro h; simp only [applyOp]
    cases hs : remove st s a with
    | error e => rfl
    | ok r => simp [hs, Except.toOption] at h
  | pop s =>
    intro h; simp only [applyOp]
    cases hs : pop st s with
    | error e => rfl
    | ok r => simp [hs, Except.toOption] at h
  | _ => intro h; simp at h

end Mesa.ASet
