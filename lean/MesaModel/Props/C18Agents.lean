import MesaModel.Proofs.AgentSetHist
/-!
# C18 (agents group) — a rejected AgentSet call leaves the store unchanged

Material for C18 ("a mutating call that raises leaves all observable state unchanged") from the `agents`
group.  None of these calls is in C18's own list of rejecting calls (they are not space / table / scheduling
/ subscription operations); they are the raising calls of `AgentSet`: `remove` of a non-member (`KeyError`),
`sort` / `groupby` by a key some member lacks (`AttributeError`), `pop` on an empty set (`KeyError`), plus the
non-mutating raising queries.
In the model a raising call returns `Except.error` and carries no new store at all, so "unchanged" is stated
through `applyOp`, the state a history continues from; harness/c03.py `generate_rejecting` exercises the same
calls on the implementation, followed by further valid operations, and its oracle clause `reject:` compares
the full dump (all sets, all attributes) before and after.
-/
namespace Mesa.ASet

/-- `AgentSet.remove(agent)` of a non-member raises `KeyError` and changes nothing. -/
theorem C18_agents_remove_absent_reject_unchanged (st : Store) (s a : Nat) (h : a ∉ st.get s) :
    remove st s a = .error .key ∧ applyOp st (.remove s a) = st := by
  simp [remove, applyOp, h]

/-- `AgentSet.sort(key, inplace=…)` with a key that some member lacks raises `AttributeError` before
    anything is rebuilt: no set changes, no new set appears, in place or not. -/
theorem C18_agents_sort_missing_key_reject_unchanged (st : Store) (s : Nat) (key : Key) (asc inplace : Bool)
    (h : keysOf st key (st.get s) = none) :
    sort st s key asc inplace = .error .attr ∧ applyOp st (.sort s key asc inplace) = st := by
  simp [sort, applyOp, h]

/-- `AgentSet.groupby(by)` with a key that some member lacks raises `AttributeError`; no group set is created. -/
theorem C18_agents_groupby_missing_key_reject_unchanged (st : Store) (s : Nat) (key : Key) (asSets : Bool)
    (h : keysOf st key (st.get s) = none) :
    group st s key asSets = .error .attr ∧ applyOp st (.group s key asSets) = st := by
  simp [group, applyOp, h]

/-- `AgentSet.pop()` on an empty set raises `KeyError` and changes nothing. -/
theorem C18_agents_pop_empty_reject_unchanged (st : Store) (s : Nat) (h : st.get s = []) :
    (pop st s).toOption = none ∧ applyOp st (.pop s) = st := by
  simp [pop, applyOp, h, popL, Except.toOption]

/-- Every raising call of the model returns an error *instead of* a store: whatever follows in a history
    starts from the store as it was (`applyOp` of a raising operation is the identity). -/
theorem C18_agents_any_reject_unchanged (st : Store) (op : SOp) :
    (match op with
     | .sort s key asc i => (sort st s key asc i).toOption.isNone
     | .group s key b => (group st s key b).toOption.isNone
     | .remove s a => (remove st s a).toOption.isNone
     | .pop s => (pop st s).toOption.isNone
     | _ => false) = true → applyOp st op = st := by
  cases op with
  | sort s key asc i =>
    intro h; simp only [applyOp]
    cases hs : sort st s key asc i with
    | error e => rfl
    | ok r => simp [hs, Except.toOption] at h
  | group s key b =>
    intro h; simp only [applyOp]
    cases hs : group st s key b with
    | error e => rfl
    | ok r => simp [hs, Except.toOption] at h
  | remove s a =>
    intro h; simp only [applyOp]
    cases hs : remove st s a with
    | error e => rfl
    | ok r => simp [hs, Except.toOption] at h
  | pop s =>
    intro h; simp only [applyOp]
    cases hs : pop st s with
    | error e => rfl
    | ok r => simp [hs, Except.toOption] at h
  | _ => intro h; simp at h

theorem mapM_option_eq_none {α β : Type} (f : α → Option β) (l : List α) :
    l.mapM f = none ↔ ∃ x ∈ l, f x = none := by
  induction l with
  | nil => simp
  | cons a l ih =>
    rw [List.mapM_cons]
    cases ha : f a with
    | none => simp [ha]
    | some b =>
      cases hl : l.mapM f with
      | none =>
        have := ih.mp hl
        obtain ⟨x, hx, hfx⟩ := this
        simp only [Option.bind_eq_bind, Option.bind_some, Option.bind_none]
        simp only [List.mem_cons]
        exact ⟨fun _ => ⟨x, Or.inr hx, hfx⟩, fun _ => trivial⟩
      | some bs =>
        have hno : ¬ ∃ x ∈ l, f x = none := fun h => by rw [ih.mpr h] at hl; simp at hl
        simp only [Option.bind_eq_bind, Option.bind_some]
        constructor
        · intro h; simp at h
        · rintro ⟨x, hx, hfx⟩
          rcases List.mem_cons.mp hx with rfl | hx
          · rw [ha] at hfx; simp at hfx
          · exact absurd ⟨x, hx, hfx⟩ hno

/-- what a key function reads: the attribute whose absence makes it raise `AttributeError` (`none`: it reads none) -/
def Key.reads : Key → Option Nat
  | .attr k | .modAttr k _ | .negAttr k => some k
  | .ty | .uid => none

/-- **Exactly when the raising calls raise, and what** (review 3, M15: the errors are named, the key functions are the
    well-formed ones — `a.k % 0` is Python's `ZeroDivisionError`, which the model has no arm for and the driver refuses):
    `remove` raises `KeyError` iff the agent is not a member and raises nothing else; `sort` and `groupby` raise
    `AttributeError` iff some member lacks the attribute the key function reads (whatever `ascending` / `inplace` /
    `result_type`; keys on the class or on `unique_id` never raise) and raise nothing else; `pop` raises `KeyError` iff the set
    is empty and nothing else — and in each of these cases the store a history continues from is the old one. -/
theorem C18_agents_reject_exactly_when (st : Store) (s : Nat) :
    (∀ a, (remove st s a = .error .key ↔ a ∉ st.get s) ∧ (∀ e, remove st s a = .error e → e = .key) ∧
      (a ∉ st.get s → applyOp st (.remove s a) = st)) ∧
    (∀ key asc inplace, key.WellFormed →
      (sort st s key asc inplace = .error .attr ↔ ∃ i ∈ st.get s, ∃ k, key.reads = some k ∧ (st.agent i).attr k = none) ∧
      (∀ e, sort st s key asc inplace = .error e → e = .attr) ∧
      ((∃ i ∈ st.get s, key.eval (st.agent i) = none) → applyOp st (.sort s key asc inplace) = st)) ∧
    (∀ key asSets, key.WellFormed →
      (group st s key asSets = .error .attr ↔ ∃ i ∈ st.get s, ∃ k, key.reads = some k ∧ (st.agent i).attr k = none) ∧
      (∀ e, group st s key asSets = .error e → e = .attr) ∧
      ((∃ i ∈ st.get s, key.eval (st.agent i) = none) → applyOp st (.group s key asSets) = st)) ∧
    ((pop st s = .error .key ↔ st.get s = []) ∧ (∀ e, pop st s = .error e → e = .key) ∧
      (st.get s = [] → applyOp st (.pop s) = st)) := by
  have hreads : ∀ (key : Key) (i : Nat), key.eval (st.agent i) = none ↔ ∃ k, key.reads = some k ∧ (st.agent i).attr k = none := by
    intro key i
    cases key <;> simp [Key.eval, Key.reads]
  have hex : ∀ key : Key, (∃ i ∈ st.get s, key.eval (st.agent i) = none) ↔
      ∃ i ∈ st.get s, ∃ k, key.reads = some k ∧ (st.agent i).attr k = none := by
    intro key
    constructor
    · rintro ⟨i, hi, h⟩; exact ⟨i, hi, (hreads key i).mp h⟩
    · rintro ⟨i, hi, h⟩; exact ⟨i, hi, (hreads key i).mpr h⟩
  refine ⟨fun a => ⟨?_, fun e he => ?_, fun h => (C18_agents_remove_absent_reject_unchanged st s a h).2⟩,
    fun key asc inplace _ => ⟨?_, fun e he => ?_, fun h => ?_⟩,
    fun key asSets _ => ⟨?_, fun e he => ?_, fun h => ?_⟩, ?_, fun e he => ?_, fun h => (C18_agents_pop_empty_reject_unchanged st s h).2⟩
  · by_cases h : a ∈ st.get s <;> simp [remove, h]
  · by_cases h : a ∈ st.get s <;> simp [remove, h] at he; exact he.symm
  · rw [← hex, ← mapM_option_eq_none]
    show sort st s key asc inplace = .error .attr ↔ keysOf st key (st.get s) = none
    cases hk : keysOf st key (st.get s) <;> simp [sort, hk]
  · cases hk : keysOf st key (st.get s) <;> simp [sort, hk] at he; exact he.symm
  · have : keysOf st key (st.get s) = none := (mapM_option_eq_none _ _).mpr h
    exact (C18_agents_sort_missing_key_reject_unchanged st s key asc inplace this).2
  · rw [← hex, ← mapM_option_eq_none]
    show group st s key asSets = .error .attr ↔ keysOf st key (st.get s) = none
    cases hk : keysOf st key (st.get s) <;> simp [group, hk]
  · cases hk : keysOf st key (st.get s) <;> simp [group, hk] at he; exact he.symm
  · have : keysOf st key (st.get s) = none := (mapM_option_eq_none _ _).mpr h
    exact (C18_agents_groupby_missing_key_reject_unchanged st s key asSets this).2
  · cases hl : st.get s with
    | nil => simp [pop, hl, popL]
    | cons a rest => simp [pop, hl, popL]
  · cases hl : st.get s with
    | nil => simp [pop, hl, popL] at he; exact he.symm
    | cons a rest => simp [pop, hl, popL] at he

/-- non-vacuity: agent 1 lacks attribute 1 -/
example : sort { pop := [⟨0, 0, [(1, 5)]⟩, ⟨1, 0, []⟩], sets := [[0, 1]], rng := ⟨[]⟩ } 0 (.attr 1) true true = .error .attr ∧
    (sort { pop := [⟨0, 0, [(1, 5)]⟩, ⟨1, 0, []⟩], sets := [[0]], rng := ⟨[]⟩ } 0 (.attr 1) true true).toOption.isSome = true :=
  ⟨by rfl, by rfl⟩

end Mesa.ASet
