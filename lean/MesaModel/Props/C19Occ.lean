import MesaModel.Proofs.CopyOccInv
/-!
# C19, cell spaces with their agents — a deep copy / pickle round trip keeps coordinates, connections, capacities and
occupancy, the copied agents point to the copy's cells, and neither side can change the other

Model: `Model/CopyOcc.lean` (identities; cells with agent lists, connections and capacities; agents with a cell pointer;
one record per space + model; copy by identity shift).  `view w s` is what the program reads from space `s`: per cell, in
enumeration order, its identity, coordinate index, capacity, the agents it lists, its connection targets, its generator and
its class; per registered agent its identity, `unique_id` and the cell it points to.  The theorems are about every world a history of operations can
reach (`run init ops`), or assume the two facts `C19_space_reachable` gives for each of them.
-/
namespace Mesa.CopyOcc

/-- every world reached by a history of operations is well-formed and satisfies the occupancy invariant (the hypotheses
    `WF w`, `Inv w` of the theorems below) -/
theorem C19_space_reachable (ops : List Op) : WF (run init ops) ∧ Inv (run init ops) := reachable ops

/-- **Mirror, after any history — copies included.**  An agent points to a cell exactly if that cell lists it, and no cell
    lists an agent twice. -/
theorem C19_space_mirror (ops : List Op) (a c : Nat) (ar : AgentRec) (cr : CellRec)
    (ha : (run init ops).agents a = some ar) (hc : (run init ops).cells c = some cr) :
    (ar.cell = some c ↔ a ∈ cr.agents) ∧ cr.agents.Nodup := by
  have hi := (reachable ops).2
  refine ⟨⟨fun h => ?_, fun h => ?_⟩, hi.nodup c cr hc⟩
  · obtain ⟨cr', hcr', hx⟩ := hi.mirror1 a ar c ha h
    rw [hc] at hcr'
    cases hcr'
    exact hx
  · obtain ⟨ar', har', hx⟩ := hi.mirror2 c cr a hc h
    rw [ha] at har'
    cases har'
    exact hx

/-- **Capacities, after any history.**  A cell with a capacity never holds more agents than that (capacity 0 included, after
    the repair SC3: such a cell stays empty). -/
theorem C19_space_capacity (ops : List Op) (c k : Nat) (cr : CellRec)
    (hc : (run init ops).cells c = some cr) (hk : cr.cap = some k) : cr.agents.length ≤ k :=
  (reachable ops).2.capOk c cr k hc hk

/-- **Closure, after any history.**  Every pointer of a space stays inside it: each of its cells exists, is connected to
    cells of the same space only, lists agents registered in the space's model only, uses the space's own generator and (if it
    has a dynamic class at all) the space's own cell class; each registered agent exists and points to a cell of the same
    space (or to none). -/
theorem C19_space_closure (ops : List Op) (s : Nat) (sr : SpaceRec) (hs : (run init ops).spaces s = some sr) :
    (∀ c ∈ sr.cells, ∃ cr, (run init ops).cells c = some cr ∧ (∀ d ∈ cr.conn, d ∈ sr.cells) ∧ (∀ a ∈ cr.agents, a ∈ sr.reg) ∧
      cr.rnd = s ∧ ∀ k, cr.klass = some k → k = s) ∧
    (∀ a ∈ sr.reg, ∃ ar, (run init ops).agents a = some ar ∧ ∀ c, ar.cell = some c → c ∈ sr.cells) := by
  have hi := (reachable ops).2
  constructor
  · intro c hc
    obtain ⟨cr, hcr, hconn, hrnd, hkl⟩ := hi.connIn s sr c hs hc
    exact ⟨cr, hcr, hconn, fun a ha => hi.listed_reg hs hc hcr ha, hrnd, hkl⟩
  · intro a ha
    obtain ⟨ar, har, _, hcell⟩ := hi.regIn s sr a hs ha
    exact ⟨ar, har, hcell⟩

/-- **No object belongs to two spaces, after any history**: neither a cell nor an agent. -/
theorem C19_space_never_share (ops : List Op) (s s' : Nat) (sr sr' : SpaceRec)
    (hs : (run init ops).spaces s = some sr) (hs' : (run init ops).spaces s' = some sr') (x : Nat)
    (hx : (x ∈ sr.cells ∧ x ∈ sr'.cells) ∨ (x ∈ sr.reg ∧ x ∈ sr'.reg)) : s = s' := by
  have hi := (reachable ops).2
  rcases hx with ⟨h1, h2⟩ | ⟨h1, h2⟩
  · exact hi.disj s s' sr sr' x hs hs' h1 h2
  · obtain ⟨ar, har, hh, _⟩ := hi.regIn s sr x hs h1
    obtain ⟨ar', har', hh', _⟩ := hi.regIn s' sr' x hs' h2
    rw [har] at har'
    cases har'
    exact hh.symm.trans hh'

/-- **Faithful.**  The copy shows, cell by cell in the same order, the same coordinate index and capacity, and the same
    occupancy, connections, generator and class with every identity shifted to the copy's own objects; agent by agent the
    same `unique_id` and the shifted cell pointer. -/
theorem C19_space_copy_faithful (w : World) (s : Nat) (w' : World) (s' : Nat) (hc : copySpace w s = some (w', s')) :
    ∃ cv av, view w s = some (cv, av) ∧
      view w' s' = some (cv.map (shiftCellView w.next), av.map (shiftAgentView w.next)) := by
  obtain ⟨cv, av, h1, _, h2⟩ := copy_view s hc
  exact ⟨cv, av, h1, h2⟩

/-- the `unique_id`s of a list of agents, in order -/
def uidsOf (w : World) (l : List Nat) : List Nat := l.filterMap fun a => (w.agents a).map (·.uid)

/-- **Same occupancy, in values.**  In a reachable world, every cell of the copied space has a twin in the copy with the same
    coordinate index and capacity that lists agents with the same `unique_id`s in the same order (and as many of them). -/
theorem C19_space_copy_same_occupancy (w : World) (hi : Inv w) (s : Nat) (sr : SpaceRec) (hs : w.spaces s = some sr)
    (w' : World) (s' : Nat) (hc : copySpace w s = some (w', s')) (c : Nat) (hcs : c ∈ sr.cells) (cr : CellRec)
    (hcr : w.cells c = some cr) :
    ∃ cr', w'.cells (c + w.next) = some cr' ∧ cr'.idx = cr.idx ∧ cr'.cap = cr.cap ∧
      cr'.agents.length = cr.agents.length ∧ uidsOf w' cr'.agents = uidsOf w cr.agents := by
  simp only [copySpace, hs, Option.some.injEq, Prod.mk.injEq] at hc
  obtain ⟨rfl, rfl⟩ := hc
  have hin : sr.cells.contains c = true := by simpa using hcs
  refine ⟨shiftCell w.next cr, by rw [copyWorld_cells_shift, hin, if_pos rfl, hcr]; rfl, rfl, rfl, by simp [shiftCell], ?_⟩
  simp only [uidsOf, shiftCell, List.filterMap_map]
  apply filterMap_congr'
  intro a ha
  have hreg : sr.reg.contains a = true := by simpa using hi.listed_reg hs hcs hcr ha
  simp only [Function.comp, copyWorld_agents_shift, hreg, if_true]
  cases w.agents a <;> simp [shiftAgent]

/-- **No reference of the copy leads to an old object.**  Everything the copy shows — its cells, the agents they list, their
    connection targets, their generator and class, its registered agents and the cells they point to — is an object created
    by the copy. -/
theorem C19_space_copy_mentions_only_new_objects (w : World) (s : Nat) (w' : World) (s' : Nat)
    (hc : copySpace w s = some (w', s')) (cv' : List (Nat × Nat × Option Nat × List Nat × List Nat × Nat × Option Nat))
    (av' : List (Nat × Nat × Option Nat)) (hv : view w' s' = some (cv', av')) :
    (∀ e ∈ cv', w.next ≤ e.1 ∧ (∀ a ∈ e.2.2.2.1, w.next ≤ a) ∧ (∀ d ∈ e.2.2.2.2.1, w.next ≤ d) ∧
      w.next ≤ e.2.2.2.2.2.1 ∧ ∀ k, e.2.2.2.2.2.2 = some k → w.next ≤ k) ∧
    (∀ e ∈ av', w.next ≤ e.1 ∧ ∀ c, e.2.2 = some c → w.next ≤ c) := by
  obtain ⟨cv, av, _, _, h2⟩ := copy_view s hc
  rw [h2] at hv
  simp only [Option.some.injEq, Prod.mk.injEq] at hv
  obtain ⟨rfl, rfl⟩ := hv
  constructor
  · intro e he
    simp only [List.mem_map] at he
    obtain ⟨⟨c, i, cap, ags, conn, rnd, kl⟩, _, rfl⟩ := he
    simp only [shiftCellView, List.mem_map]
    refine ⟨by omega, ?_, ?_, by omega, ?_⟩
    · rintro a ⟨a0, _, rfl⟩; omega
    · rintro d ⟨d0, _, rfl⟩; omega
    · intro k hk
      cases kl with
      | none => simp at hk
      | some k0 =>
        simp only [Option.map_some, Option.some.injEq] at hk
        omega
  · intro e he
    simp only [List.mem_map] at he
    obtain ⟨⟨a, u, c⟩, _, rfl⟩ := he
    simp only [shiftAgentView]
    refine ⟨by omega, ?_⟩
    intro c' hc'
    cases c with
    | none => simp at hc'
    | some c0 =>
      simp only [Option.map_some, Option.some.injEq] at hc'
      omega

/-- **The copied agents point into the copy** (what S22 broke): every agent registered in the copy's model exists, and the
    cell it points to is a cell *of the copied space*, is a new object, and lists that agent. -/
theorem C19_space_copied_agents_point_into_copy (w : World) (hw : WF w) (hi : Inv w) (s : Nat) (w' : World) (s' : Nat)
    (hc : copySpace w s = some (w', s')) :
    ∃ sr', w'.spaces s' = some sr' ∧ ∀ a ∈ sr'.reg, ∃ ar, w'.agents a = some ar ∧
      ∀ c, ar.cell = some c → c ∈ sr'.cells ∧ w.next ≤ c ∧ ∃ cr, w'.cells c = some cr ∧ a ∈ cr.agents := by
  have hi' : Inv w' := by
    have := hi.step hw (.copy s)
    simpa [step, hc] using this
  have hfresh := copy_deps_fresh s hc
  cases hsr : w.spaces s with
  | none => simp [copySpace, hsr] at hc
  | some sr =>
    have hsp : ∃ sr', w'.spaces s' = some sr' := by
      simp only [copySpace, hsr, Option.some.injEq, Prod.mk.injEq] at hc
      obtain ⟨rfl, rfl⟩ := hc
      exact ⟨_, copyWorld_spaces_new s sr⟩
    obtain ⟨sr', hsr'⟩ := hsp
    refine ⟨sr', hsr', fun a ha => ?_⟩
    obtain ⟨ar, har, _, hcell⟩ := hi'.regIn s' sr' a hsr' ha
    refine ⟨ar, har, fun c hcc => ?_⟩
    have hin := hcell c hcc
    obtain ⟨cr, hcr, hx⟩ := hi'.mirror1 a ar c har hcc
    exact ⟨hin, hfresh c (by simp [deps, hsr', hin]), cr, hcr, hx⟩

/-- the registered agents of space `s` that point to something that is not a cell of `s` -/
def strays (w : World) (s : Nat) : List Nat :=
  match w.spaces s with
  | none => []
  | some sr => sr.reg.filter fun a =>
      match w.agents a with
      | some ar => (match ar.cell with | some c => !sr.cells.contains c | none => false)
      | none => true

/-- a small history: a grid of three cells in a row with capacity 1, one agent in the middle cell, one in the last, one unplaced -/
def demo : World :=
  run init [.newSpace 3 (some 1) true [(0, 1), (1, 0), (1, 2), (2, 1)], .newAgent 0, .newAgent 0, .newAgent 0, .set 4 2, .set 5 3]

example : view demo 0 = some ([(1, 0, some 1, [], [2], 0, some 0), (2, 1, some 1, [4], [1, 3], 0, some 0),
    (3, 2, some 1, [5], [2], 0, some 0)], [(4, 1, some 2), (5, 2, some 3), (6, 3, none)]) := by rfl

/-- the hypotheses of the copy theorems hold for it, and the copy exists -/
example : WF demo ∧ Inv demo := C19_space_reachable _

example : (copySpace demo 0).isSome = true := by rfl

/-- the world after copying the demo space -/
def demoCopy : World :=
  match copySpace demo 0 with
  | some p => p.1
  | none => demo

example : view demoCopy 7 = some ([(8, 0, some 1, [], [9], 7, some 7), (9, 1, some 1, [11], [8, 10], 7, some 7),
    (10, 2, some 1, [12], [9], 7, some 7)], [(11, 1, some 9), (12, 2, some 10), (13, 3, none)]) := by rfl

example : uidsOf demo [4, 5] = [1, 2] ∧ uidsOf demoCopy [11, 12] = [1, 2] := by decide

/-- a history with one placed agent (for it `ghostCopy` is the code before S22 exactly: `deepcopy` reaches the occupied cell
    through the space, its agent through the cell, and the cell once more through the agent before the first reconstruction
    is memoised; run on that code, mesa gives the view below, with `?` for cell 14) -/
def demoOne : World :=
  run init [.newSpace 3 (some 1) true [(0, 1), (1, 0), (1, 2), (2, 1)], .newAgent 0, .newAgent 0, .set 4 2]

/-- what the copy of space 0 of `demoOne` shows and which of its agents point outside it (`good = false`: the code before S22) -/
def copyOne (good : Bool) : Option (List (Nat × Nat × Option Nat × List Nat × List Nat × Nat × Option Nat) ×
    List (Nat × Nat × Option Nat)) × List Nat :=
  match (if good then copySpace demoOne 0 else ghostCopy demoOne 0) with
  | some p => (view p.1 p.2, strays p.1 p.2)
  | none => (none, [])

/-- **The code before S22 violates the property**: the same cells, capacities, occupancy and connections come back, but the
    copied agent points to a cell (14: the second reconstruction of its cell) that is not a cell of the copied space — while
    the repaired copy has no such agent and the pointer leads to the copy's own cell 8. -/
theorem C19_space_ghost_copy_points_outside :
    copyOne false = (some ([(7, 0, some 1, [], [8], 6, some 6), (8, 1, some 1, [10], [7, 9], 6, some 6),
      (9, 2, some 1, [], [8], 6, some 6)], [(10, 1, some 14), (11, 2, none)]), [10]) ∧
    copyOne true = (some ([(7, 0, some 1, [], [8], 6, some 6), (8, 1, some 1, [10], [7, 9], 6, some 6),
      (9, 2, some 1, [], [8], 6, some 6)], [(10, 1, some 8), (11, 2, none)]), []) :=
  ⟨by rfl, by rfl⟩

/-- **Frame.**  A history none of whose operations writes an object the space depends on (the space / model record, its
    cells, its registered agents) leaves what the space shows unchanged — whatever else it creates, moves, removes or copies. -/
theorem C19_space_frame (w : World) (hw : WF w) (s : Nat) (sr : SpaceRec) (hs : w.spaces s = some sr) (ops : List Op)
    (hav : WritesOnly (fun x => x ∉ deps w s) w ops) :
    view (run w ops) s = view w s ∧ empties (run w ops) s = empties w s :=
  ⟨(frame_run hw hs ops hav).view_eq, (frame_run hw hs ops hav).empties_eq⟩

/-- **The copy leaves every existing space as it was.** -/
theorem C19_space_original_untouched_by_copy (w : World) (hw : WF w) (s s0 : Nat) (hs0 : s0 < w.next)
    (w' : World) (s' : Nat) (hc : copySpace w s = some (w', s')) : view w' s0 = view w s0 :=
  (agree_copy hw hs0 s hc).view_eq

/-- **Detached, both ways.**  After `copy s`:
    operations that only write objects created by or after the copy never change what the original shows, and
    operations that only write objects that existed before the copy never change what the copy shows —
    for operation sequences of any length. -/
theorem C19_space_copy_detached (w : World) (hw : WF w) (s : Nat) (w' : World) (s' : Nat)
    (hc : copySpace w s = some (w', s')) :
    (∀ ops, WritesOnly (fun x => w.next ≤ x) w' ops → view (run w' ops) s = view w s) ∧
    (∀ ops, WritesOnly (fun x => x < w.next) w' ops → view (run w' ops) s' = view w' s') := by
  have hw' : WF w' := by
    have := hw.step (.copy s)
    simpa [step, hc] using this
  cases hsr : w.spaces s with
  | none => simp [copySpace, hsr] at hc
  | some sr =>
    have hs : s < w.next := (hw.spacesLt s sr hsr).1
    have hag := agree_copy hw hs s hc
    constructor
    · intro ops hwo
      have hsr' : w'.spaces s = some sr := by rw [hag.space, hsr]
      have := (frame_run hw' hsr' ops (hwo.mono (fun x hx hmem => by
        rw [hag.deps_eq] at hmem
        have := deps_lt hw hs x hmem
        omega))).view_eq
      rw [this, hag.view_eq]
    · intro ops hwo
      have hsp : ∃ sr', w'.spaces s' = some sr' := by
        simp only [copySpace, hsr, Option.some.injEq, Prod.mk.injEq] at hc
        obtain ⟨rfl, rfl⟩ := hc
        exact ⟨_, copyWorld_spaces_new s sr⟩
      obtain ⟨sr', hsr'⟩ := hsp
      exact (frame_run hw' hsr' ops (hwo.mono (fun x hx hmem => by
        have := copy_deps_fresh s hc x hmem
        omega))).view_eq

/-- the two premises of `C19_space_copy_detached` are satisfiable by real work on either side: in the copy, taking an agent
    out of its cell, moving another one there and creating one writes fresh objects only; in the original, a refused move
    into the full cell, a move and a removal write old objects only -/
example : WritesOnly (fun x => demo.next ≤ x) demoCopy [.unset 12, .set 11 10, .newAgent 7] := by
  simp only [WritesOnly]
  decide

example : WritesOnly (fun x => x < demo.next) demoCopy [.set 6 2, .set 4 1, .remove 5] := by
  simp only [WritesOnly]
  decide

example : (setCell demoCopy 6 2).2 = .full := by rfl

example : view (run demoCopy [.unset 12, .set 11 10, .newAgent 7]) 7 =
    some ([(8, 0, some 1, [], [9], 7, some 7), (9, 1, some 1, [], [8, 10], 7, some 7), (10, 2, some 1, [11], [9], 7, some 7)],
      [(11, 1, some 10), (12, 2, none), (13, 3, none), (14, 1, none)]) := by rfl

example : view (run demoCopy [.set 6 2, .set 4 1, .remove 5]) 0 =
    some ([(1, 0, some 1, [4], [2], 0, some 0), (2, 1, some 1, [], [1, 3], 0, some 0), (3, 2, some 1, [], [2], 0, some 0)],
      [(4, 1, some 1), (6, 3, none)]) := by
  rfl

end Mesa.CopyOcc
