import MesaModel.Proofs.LayersBulk
import MesaModel.Gen.NumpyTables
/-!
# C11 — property layers and cell attributes are one value; selection is exact

Property theorems only (model: `Model/Layers.lean`; helper lemmas: `Proofs/Layers*.lean`).

`Reach s`: `s` is reachable from a fresh grid of either implementation (`new` = `mesa.discrete_space`,
`single` / `multi` = legacy `SingleGrid` / `MultiGrid`), of any shape and capacity, by any history of
ops: creating / attaching / detaching layers, single-cell writes through the layer or through the
cell attribute, `set_cells` / `modify_cells` with arbitrary element-wise functions and conditions,
taking and using references to `layer.data`, placing / moving / removing agents, selections.
`s.value l c` is the entry at `c` of the array layer object `l` currently points to.
-/
namespace Mesa.Layers

/-- `Reach` is exactly "the state after some history on some fresh grid". -/
theorem C11_reach_iff_history (s : State) :
    Reach s ↔ ∃ impl dims cap ops, s = (run (init impl dims cap) ops).1 := reach_iff s

/-! ## two views, one value -/

/-- The code keeps the layers of a cell space in two registries written by separate statements of
    `add_property_layer` / `remove_property_layer`: the grid's dict `_mesa_property_layers` (what `grid.<name>`,
    `set_property`, `select_cells` use) and the `PropertyDescriptor`s on the grid's cell class (what a cell attribute
    uses; each holds the layer object it was made for).  After every history they are the same map: no name has a
    descriptor without a dict entry or the other way round, and the descriptor holds the very layer the dict names. -/
theorem C11_descriptors_are_the_layer_dict {s : State} (h : Reach s) (hi : s.impl = .new) (n : String) :
    s.descr.lookup n = s.named? n ∧ s.cellLayer? n = s.named? n :=
  ⟨h.wf.descr_eq hi n, cellLayer?_eq h.wf n⟩

/-- After every history: the attribute `name` of every cell of the grid (read through the descriptor on the cell
    class) and the entry of the layer attached under `name` (the grid's dict) are the same value — whatever
    single-cell writes, bulk operations (including re-pointing `modify_cells`), additions and removals of layers came
    before.  (Not a fact about arbitrary states: see the example next to `demo` below.) -/
theorem C11_two_views_one_value {s : State} (h : Reach s) {n : String} {l : Nat}
    (hn : s.named? n = some l) {c : Coord} (hc : inBounds s.dims c = true) :
    cellGet s n c = layerGet s l c ∧ layerGet s l c = .val (s.value l c) := by
  have hw := h.wf
  have h1 := cellGet_eq_value hw hn hc
  have h2 : layerGet s l c = .val (s.value l c) :=
    layerGet_eq_value (hw.att_lt n l hn) (by rw [hw.att_dims n l hn]; exact hc)
  exact ⟨h1.trans h2.symm, h2⟩

/-- The scope of every "no entry of any other layer" below: in every history of the op language no two layer objects
    share an array, every layer's array is allocated, and a legacy layer never owns the grid's `_empty_mask`.  This is an
    invariant of the *op language*, not of Python: on the legacy implementation `layer.data` is a plain attribute and
    `l2.data = l1.data` would make two layers alias — that rebinding is not an op (design.d/C11.md, known weaknesses);
    on the new implementation `layer.data = arr` is `set_cells(arr)`, a copy (`Op.setFrom`). -/
theorem C11_layers_never_share_an_array {s : State} (h : Reach s) :
    (∀ l1 l2, l1 < s.nLayers → l2 < s.nLayers → (s.layers l1).data = (s.layers l2).data → l1 = l2) ∧
    (∀ l, l < s.nLayers → (s.layers l).data < s.next) ∧
    (s.impl ≠ .new → ∀ l, l < s.nLayers → (s.layers l).data ≠ 0) :=
  ⟨h.wf.data_inj, h.wf.data_lt, h.wf.legacy_data⟩

/-- The frame of a single-cell write in its alias-aware form, for *every* state — also one reached through `rebind`, in which
    layers may share an array —: the write through layer `l` sets the entry at `c` of every layer that shares `l`'s array
    (all of them read `v` there) and changes nothing of a layer whose array is another, nor any other entry. -/
theorem C11_write_frame_by_array {s s' : State} {l : Nat} {c : Coord} {v : Int}
    (hset : layerSet s l c v = (s', .ok)) (l' : Nat) (c' : Coord) :
    s'.value l' c' = if (s.layers l').data = (s.layers l).data ∧ c' = c then v else s.value l' c' := by
  obtain ⟨_, _, rfl⟩ := layerSet_ok hset
  unfold State.value
  show upd s.heap (s.layers l).data ((s.heap (s.layers l).data).set c v) (s.layers l').data c' = _
  by_cases hd : (s.layers l').data = (s.layers l).data
  · rw [hd, upd_same]
    by_cases hc : c' = c <;> simp [Arr.set, hc]
  · rw [upd_other _ _ _ _ hd]
    simp [hd]

/-- Legacy `l2.data = <a reference to l1's array>` (`rebind`, a transition outside the op language): from then on the two
    layer objects are one value — equal everywhere at once, and a write through `l1` is read through `l2` (hence through
    the cell view `grid.properties[name]` of whatever name `l2` is attached under) — until one of them is re-pointed. -/
theorem C11_rebound_layers_are_one_value {s s1 : State} {l1 l2 h : Nat} {d : List Nat}
    (hh : s.handles.lookup h = some ((s.layers l1).data, d)) (hne : l1 ≠ l2) (hr : rebind s l2 h = (s1, .ok)) :
    (s1.layers l2).data = (s1.layers l1).data ∧ (∀ c, s1.value l2 c = s1.value l1 c) ∧
    ∀ c v s2, layerSet s1 l1 c v = (s2, .ok) → s2.value l2 c = v ∧ ∀ c', s2.value l2 c' = s2.value l1 c' := by
  have hs1 : s1.layers = upd s.layers l2 { s.layers l2 with data := (s.layers l1).data } ∧ s1.heap = s.heap := by
    unfold rebind at hr
    split at hr
    · simp at hr
    · split at hr
      · simp at hr
      · next L hL =>
        obtain ⟨_, rfl⟩ := layer?_some hL
        rw [hh] at hr
        simp only at hr
        split at hr
        · simp at hr
        · split at hr
          · simp at hr
          · simp only [Prod.mk.injEq, and_true] at hr
            subst hr
            exact ⟨rfl, rfl⟩
  obtain ⟨hl, hheap⟩ := hs1
  have hd : (s1.layers l2).data = (s1.layers l1).data := by
    rw [hl]; simp [upd, hne]
  refine ⟨hd, fun c => by simp [State.value, hd], fun c v s2 hset => ?_⟩
  have hf := C11_write_frame_by_array hset
  refine ⟨by rw [hf l2 c]; simp [hd], fun c' => ?_⟩
  rw [hf l2 c', hf l1 c']
  simp [hd, State.value]

/-- A write through the cell attribute is read back through the layer (and through the cell), and it
    changes no other entry of this layer and no entry of any other layer. -/
theorem C11_cell_write_read_through_layer {s s' : State} (h : Reach s) {n : String} {l : Nat}
    (hn : s.named? n = some l) {c : Coord} {v : Int} (hset : cellSet s n c v = (s', .ok)) :
    layerGet s' l c = .val v ∧ cellGet s' n c = .val v ∧
    ∀ l' c', l' < s.nLayers → (l' ≠ l ∨ c' ≠ c) → s'.value l' c' = s.value l' c' := by
  have hw := h.wf
  have hl := hw.att_lt n l hn
  obtain ⟨hc, hs'⟩ := cellSet_ok_attached hw hn hset
  have hw' : WF s' := hw.of_sameShape (by rw [hs']; exact ⟨rfl, rfl, rfl, rfl, rfl, rfl, rfl, rfl, rfl, rfl⟩)
  have e1 : s'.nLayers = s.nLayers := by rw [hs']
  have e2 : s'.layers = s.layers := by rw [hs']
  have e3 : s'.named? n = some l := by rw [hs']; exact hn
  have e4 : s'.dims = s.dims := by rw [hs']
  have hv : ∀ l' c', l' < s.nLayers → s'.value l' c'
        = if l' = l then ((s.heap (s.layers l).data).set c v) c' else s.value l' c' := by
    intro l' c' hl'; rw [hs']; exact value_upd hw hl hl' _ c'
  have hvl := hv l c hl
  simp only [if_true, Arr.set] at hvl
  refine ⟨?_, ?_, ?_⟩
  · rw [layerGet_eq_value (by rw [e1]; exact hl) (by rw [e2, hw.att_dims n l hn]; exact hc), hvl]
  · rw [cellGet_eq_value hw' e3 (by rw [e4]; exact hc), hvl]
  · intro l' c' hl' hne
    rw [hv l' c' hl']
    split
    · next e =>
      subst e
      rcases hne with hne | hne
      · exact absurd rfl hne
      · simp [Arr.set, hne, State.value]
    · rfl

/-- A write through the layer is read back through the cell attribute of every name the layer is
    attached under, and it changes nothing else. -/
theorem C11_layer_write_read_through_cell {s s' : State} (h : Reach s) {l : Nat} {c : Coord} {v : Int}
    (hset : layerSet s l c v = (s', .ok)) :
    layerGet s' l c = .val v ∧ (∀ n, s.named? n = some l → cellGet s' n c = .val v) ∧
    ∀ l' c', l' < s.nLayers → (l' ≠ l ∨ c' ≠ c) → s'.value l' c' = s.value l' c' := by
  have hw := h.wf
  obtain ⟨hl, hc, hs'⟩ := layerSet_ok hset
  have hw' : WF s' := hw.of_sameShape (by rw [hs']; exact ⟨rfl, rfl, rfl, rfl, rfl, rfl, rfl, rfl, rfl, rfl⟩)
  have e1 : s'.nLayers = s.nLayers := by rw [hs']
  have e2 : s'.layers = s.layers := by rw [hs']
  have e3 : ∀ n, s'.named? n = s.named? n := by intro n; rw [hs']; rfl
  have e4 : s'.dims = s.dims := by rw [hs']
  have hv : ∀ l' c', l' < s.nLayers → s'.value l' c'
        = if l' = l then ((s.heap (s.layers l).data).set c v) c' else s.value l' c' := by
    intro l' c' hl'; rw [hs']; exact value_upd hw hl hl' _ c'
  have hvl := hv l c hl
  simp only [if_true, Arr.set] at hvl
  refine ⟨?_, ?_, ?_⟩
  · rw [layerGet_eq_value (by rw [e1]; exact hl) (by rw [e2]; exact hc), hvl]
  · intro n hn
    rw [cellGet_eq_value hw' (by rw [e3]; exact hn) (by rw [e4, ← hw.att_dims n l hn]; exact hc), hvl]
  · intro l' c' hl' hne
    rw [hv l' c' hl']
    split
    · next e =>
      subst e
      rcases hne with hne | hne
      · exact absurd rfl hne
      · simp [Arr.set, hne, State.value]
    · rfl

/-- When a single-cell write is accepted (the write theorems above start from an accepted write): through the layer iff
    the layer exists and the index is inside its shape, through the cell attribute of an attached name iff the cell
    exists, through a reference iff it is held and the index is inside the array's shape — `IndexError` otherwise,
    whatever the value (numpy casts any value of the op language into any of the three dtypes). -/
theorem C11_single_cell_write_accepted_iff {s : State} (h : Reach s) :
    (∀ l c v, (layerSet s l c v).2 = .ok ↔ l < s.nLayers ∧ inBounds (s.layers l).dims c = true) ∧
    (∀ n l c v, s.named? n = some l → ((cellSet s n c v).2 = .ok ↔ inBounds s.dims c = true)) ∧
    (∀ hd c v, (hset s hd c v).2 = .ok ↔ ∃ a d, s.handles.lookup hd = some (a, d) ∧ inBounds d c = true) := by
  have hw := h.wf
  refine ⟨fun l c v => ?_, fun n l c v hn => ?_, fun hd c v => ?_⟩
  · unfold layerSet State.layer?
    by_cases hl : l < s.nLayers <;> by_cases hc : inBounds (s.layers l).dims c = true <;> simp [hl, hc]
  · have hdims := hw.att_dims n l hn
    unfold cellSet
    split
    · next hi =>
      have hfree := hw.att_free hi n l hn
      by_cases hc : inBounds s.dims c = true <;> simp [hc, hfree]
    · rw [hn]
      simp only [hdims]
      by_cases hc : inBounds s.dims c = true <;> simp [hc]
  · unfold hset
    cases hx : s.handles.lookup hd with
    | none => simp
    | some p =>
      obtain ⟨a, d⟩ := p
      by_cases hc : inBounds d c = true
      · simp only [hc]
        exact ⟨fun _ => ⟨a, d, rfl, hc⟩, fun _ => by simp⟩
      · simp [hc]

/-- A layer's values change only by an op that writes to *that* layer (`Op.mayWrite`: through the layer,
    through the cell attribute of a name attached to it, through a reference aliasing its current array,
    or — the built-in `empty` layer — by the grid when agents move).  Creating, attaching, detaching and
    re-pointing *other* layers, references, selections, agent moves leave them alone. -/
theorem C11_value_changes_only_by_writes {s : State} (h : Reach s) {l : Nat} (hl : l < s.nLayers) (op : Op)
    (hno : ¬ op.mayWrite s l) (c : Coord) : (step s op).1.value l c = s.value l c :=
  value_stable h.wf hl op hno c

/-- Read-after-write over histories: a value written through the cell attribute is read back through
    the layer *and* through the cell attribute of whatever name the layer is attached under, after any
    further history that does not write to this layer (`noWrite`) — including histories that detach and
    re-attach it, re-point other layers, move agents. -/
theorem C11_read_after_write_persists {s s1 : State} (h : Reach s) {n : String} {l : Nat}
    (hn : s.named? n = some l) {c : Coord} {v : Int} (hset : cellSet s n c v = (s1, .ok))
    (ops : List Op) (hq : noWrite l s1 ops) :
    layerGet (run s1 ops).1 l c = .val v ∧
    ∀ n', (run s1 ops).1.named? n' = some l → cellGet (run s1 ops).1 n' c = .val v := by
  have hw := h.wf
  have hl := hw.att_lt n l hn
  have hr1 : Reach s1 := by
    have := Reach.step (.cellSet n c v) h
    simp only [step, State.cellWVal] at this
    rwa [hset] at this
  obtain ⟨hc, hs1⟩ := cellSet_ok_attached hw hn hset
  have hl1 : l < s1.nLayers := by rw [hs1]; exact hl
  have hd1 : s1.dims = s.dims := by rw [hs1]
  have hv1 : s1.value l c = v := by
    have := (C11_cell_write_read_through_layer h hn hset).1
    rw [layerGet_eq_value hl1 (by rw [hs1]; show inBounds (s.layers l).dims c = true;
                                  rw [hw.att_dims n l hn]; exact hc)] at this
    injection this
  obtain ⟨hv2, hl2⟩ := value_stable_run hr1.wf hl1 ops hq c
  have hr2 := reach_run hr1 ops
  obtain ⟨hd2, hld2⟩ := shapes_run s1 ops
  have hcl : inBounds ((run s1 ops).1.layers l).dims c = true := by
    rw [hld2 l hl1, hs1]
    show inBounds (s.layers l).dims c = true
    rw [hw.att_dims n l hn]; exact hc
  refine ⟨by rw [layerGet_eq_value hl2 hcl, hv2, hv1], fun n' hn' => ?_⟩
  rw [cellGet_eq_value hr2.wf hn' (by rw [hd2, hd1]; exact hc), hv2, hv1]

/-! ## bulk operations are point-wise, also right after a re-pointing `modify_cells` -/

/-- `set_cells(v, cond)` on an existing layer succeeds unless it has a condition and the layer has no entries (a
    free-standing layer with a zero dimension: `np.vectorize` refuses, `ValueError`, nothing changes); when it
    succeeds every entry of that layer is `v` where the old entry satisfied the condition and the old entry
    elsewhere; every other layer is untouched; the cell attributes show exactly these values. -/
theorem C11_set_cells_pointwise {s s' : State} (h : Reach s) {l : Nat} (hl : l < s.nLayers) {v : Int}
    {cond : Option (Int → Bool)} {o : Out} (hset : step s (.setCells l (.raw v) cond) = (s', o)) :
    (o = .ok ↔ ¬ (cond.isSome = true ∧ 0 ∈ (s.layers l).dims)) ∧
    (o ≠ .ok → o = .err (.value .size0) ∧ s' = s) ∧
    (o = .ok →
      (∀ l' c, l' < s.nLayers → s'.value l' c =
        if l' = l then (if condHolds cond (s.value l c) then v else s.value l c) else s.value l' c) ∧
      (∀ n c, s.named? n = some l → inBounds s.dims c = true →
        cellGet s' n c = .val (if condHolds cond (s.value l c) then v else s.value l c))) := by
  simp only [step] at hset
  rw [vecGuard_eq hl] at hset
  split at hset
  · next hg =>
    simp only [Prod.mk.injEq] at hset
    obtain ⟨rfl, rfl⟩ := hset
    exact ⟨by simp [hg], fun _ => ⟨rfl, rfl⟩, fun e => by simp at e⟩
  · next hg =>
    obtain ⟨ho, hv, hc⟩ := setCells_pointwise h hl hset
    exact ⟨by simp only [ho, true_iff]; exact hg, fun hne => absurd ho hne, fun _ => ⟨hv, hc⟩⟩

/-- `modify_cells(f, cond)` (`vec`: a Python function, else a ufunc with its operand) on an existing layer succeeds
    unless `np.vectorize` is needed — for a condition or a Python function — and the layer has no entries
    (`ValueError`, nothing changes); when it succeeds the layer points to a *new* array, and still: every entry is
    `f old` where the old entry satisfied the condition and `old` elsewhere, other layers are untouched, and the cell
    attributes — which go through the layer object — show exactly the new values. -/
theorem C11_modify_cells_pointwise {s s' : State} (h : Reach s) {l : Nat} (hl : l < s.nLayers) {vec : Bool}
    {f : Int → Int} {cond : Option (Int → Bool)} {o : Out}
    (hmod : step s (.modifyCells l vec (some f) cond) = (s', o)) :
    (o = .ok ↔ ¬ ((cond.isSome || vec) = true ∧ 0 ∈ (s.layers l).dims)) ∧
    (o ≠ .ok → o = .err (.value .size0) ∧ s' = s) ∧
    (o = .ok →
      (s'.layers l).data ≠ (s.layers l).data ∧
      (∀ l' c, l' < s.nLayers → s'.value l' c =
        if l' = l then (if condHolds cond (s.value l c) then f (s.value l c) else s.value l c)
        else s.value l' c) ∧
      (∀ n c, s.named? n = some l → inBounds s.dims c = true →
        cellGet s' n c = .val (if condHolds cond (s.value l c) then f (s.value l c) else s.value l c))) := by
  simp only [step] at hmod
  rw [vecGuard_eq hl] at hmod
  split at hmod
  · next hg =>
    simp only [Prod.mk.injEq] at hmod
    obtain ⟨rfl, rfl⟩ := hmod
    exact ⟨by simp only [reduceCtorEq, false_iff]; exact fun hx => hx hg, fun _ => ⟨rfl, rfl⟩, fun e => by simp at e⟩
  · next hg =>
    obtain ⟨ho, hne, hv, hc⟩ := modifyCells_pointwise h hl hmod
    exact ⟨by simp only [ho, true_iff]; exact hg, fun hx => absurd ho hx, fun _ => ⟨hne, hv, hc⟩⟩

/-- On a grid that has cells, every *attached* layer has entries (it has the grid's shape), so on the layers the
    cell attributes speak about the `np.vectorize` guard never fires: `set_cells` / `modify_cells` are refused only
    for their own reasons (a cast numpy refuses, a ufunc without operand). -/
theorem C11_attached_layers_have_entries {s : State} (h : Reach s) (hd : 0 ∉ s.dims) {n : String} {l : Nat}
    (hn : s.named? n = some l) :
    s.noEntries l = false ∧ ∀ b k, vecGuard s l b k = k := by
  have hw := h.wf
  have hl := hw.att_lt n l hn
  have h0 : 0 ∉ (s.layers l).dims := by rw [hw.att_dims n l hn]; exact hd
  refine ⟨?_, fun b k => ?_⟩
  · cases hx : s.noEntries l with
    | false => rfl
    | true => exact absurd ((noEntries_iff hl).mp hx) h0
  · rw [vecGuard_eq hl, if_neg (fun hh => h0 hh.2)]

/-- In place versus re-pointing (`setCells` / `modifyCells`: the calls past the `np.vectorize` guard): a reference to `layer.data` taken before `set_cells` sees the new
    values (it is the same array); taken before `modify_cells` it keeps the old values (the layer got a
    new array) — while layer and cell attributes agree on the new values in both cases (theorems above). -/
theorem C11_set_in_place_modify_repoints {s s' : State} (h : Reach s) {l : Nat} (hl : l < s.nLayers)
    {hd : Nat} {d : List Nat} (hh : s.handles.lookup hd = some ((s.layers l).data, d))
    {c : Coord} (hc : inBounds d c = true) :
    (∀ v cond o, setCells s l v cond = (s', o) → hget s' hd c = .val (s'.value l c)) ∧
    (∀ f cond o, modifyCells s l (some f) cond = (s', o) → hget s' hd c = .val (s.value l c)) := by
  have hw := h.wf
  constructor
  · intro v cond o hset
    obtain ⟨_, rfl⟩ := setCells_ok hl hset
    simp [hget, hh, hc, State.value]
  · intro f cond o hmod
    obtain ⟨_, rfl⟩ := modifyCells_ok hl hmod
    have hne : (s.layers l).data ≠ s.next := by have := hw.data_lt l hl; omega
    simp [hget, hh, hc, State.value, upd, hne]

/-- legacy `modify_cell(pos, f)`: that one entry becomes `f old`, nothing else changes. -/
theorem C11_modify_cell_pointwise {s s' : State} (h : Reach s) {l : Nat} {c : Coord} {f : Option (Int → Int)}
    (hm : modifyCell s l c f = (s', .ok)) :
    ∃ g, f = some g ∧ s'.value l c = g (s.value l c) ∧
    ∀ l' c', l' < s.nLayers → (l' ≠ l ∨ c' ≠ c) → s'.value l' c' = s.value l' c' := by
  have hw := h.wf
  obtain ⟨g, hf, hl, _, hs'⟩ := modifyCell_ok hm
  have hv : ∀ l' c', l' < s.nLayers → s'.value l' c' =
      if l' = l then ((s.heap (s.layers l).data).set c (g (s.heap (s.layers l).data c))) c'
      else s.value l' c' := by
    intro l' c' hl'; rw [hs']; exact value_upd hw hl hl' _ c'
  refine ⟨g, hf, ?_, ?_⟩
  · rw [hv l c hl]; simp [Arr.set, State.value]
  · intro l' c' hl' hne
    rw [hv l' c' hl']
    split
    · next e =>
      subst e
      rcases hne with hne | hne
      · exact absurd rfl hne
      · simp [Arr.set, hne, State.value]
    · rfl

/-- A write through a reference that still aliases the layer's array (`d = layer.data; d[c] = v`) is a
    write to the layer: read back through the layer and the cells, nothing else changes. -/
theorem C11_write_through_live_reference {s s' : State} (h : Reach s) {l : Nat} (hl : l < s.nLayers)
    {hd : Nat} {d : List Nat} (hh : s.handles.lookup hd = some ((s.layers l).data, d))
    {c : Coord} {v : Int} (hs : hset s hd c v = (s', .ok)) :
    s'.value l c = v ∧ (∀ n, s.named? n = some l → inBounds s.dims c = true → cellGet s' n c = .val v) ∧
    ∀ l' c', l' < s.nLayers → (l' ≠ l ∨ c' ≠ c) → s'.value l' c' = s.value l' c' := by
  have hw := h.wf
  obtain ⟨a, d', hlk, _, hs'⟩ := hset_ok hs
  rw [hh] at hlk
  simp only [Option.some.injEq, Prod.mk.injEq] at hlk
  obtain ⟨rfl, rfl⟩ := hlk
  have hw' : WF s' := hw.of_sameShape (by rw [hs']; exact ⟨rfl, rfl, rfl, rfl, rfl, rfl, rfl, rfl, rfl, rfl⟩)
  have e3 : ∀ n, s'.named? n = s.named? n := by intro n; rw [hs']; rfl
  have e4 : s'.dims = s.dims := by rw [hs']
  have hv : ∀ l' c', l' < s.nLayers → s'.value l' c' =
      if l' = l then ((s.heap (s.layers l).data).set c v) c' else s.value l' c' := by
    intro l' c' hl'; rw [hs']; exact value_upd hw hl hl' _ c'
  have hvl : s'.value l c = v := by rw [hv l c hl]; simp [Arr.set]
  refine ⟨hvl, ?_, ?_⟩
  · intro n hn hc
    rw [cellGet_eq_value hw' (by rw [e3]; exact hn) (by rw [e4]; exact hc), hvl]
  · intro l' c' hl' hne
    rw [hv l' c' hl']
    split
    · next e =>
      subst e
      rcases hne with hne | hne
      · exact absurd rfl hne
      · simp [Arr.set, hne, State.value]
    · rfl

/-! ## element types: what a write of another type stores, and what `modify_cells` does to the dtype

Entries are encoded per dtype (bool 0/1, int, float in quarters); `quarters d v` is the number an entry
stands for.  `x : Val` is a Python scalar (`x.ok`: a Python bool is 0 or 1). -/

/-- numpy's assignment cast in numbers: into a float array every bool / int / float enters exactly; into an
    int array bools and ints enter exactly and a float is replaced by the integer next to it *toward zero*;
    into a bool array everything becomes its truth value. -/
theorem C11_assignment_cast_value (x : Val) (hx : x.ok) :
    quarters .float (castTo .float x) = quarters x.ty x.raw ∧
    (x.ty ≠ .float → quarters .int (castTo .int x) = quarters x.ty x.raw) ∧
    (0 ≤ x.raw → quarters .int (castTo .int x) ≤ quarters x.ty x.raw ∧
                 quarters x.ty x.raw < quarters .int (castTo .int x) + 4) ∧
    (x.raw ≤ 0 → quarters x.ty x.raw ≤ quarters .int (castTo .int x) ∧
                 quarters .int (castTo .int x) - 4 < quarters x.ty x.raw) ∧
    castTo .bool x = (if quarters x.ty x.raw = 0 then 0 else 1) := by
  obtain ⟨ty, raw⟩ := x
  have ht := tdiv4_trunc raw
  cases ty <;> simp_all [castTo, quarters, Val.ok, boolInt] <;> omega

/-- A typed write through the cell attribute (`cell.a = 2.7` on an int layer, `cell.a = 5` on a bool layer,
    …): the value is cast by the dtype the layer has *now*, and the layer and the cell attribute read back
    that same cast value — never two different ones; nothing else changes, the dtype included. -/
theorem C11_typed_cell_write_one_value {s s' : State} (h : Reach s) {n : String} {l : Nat}
    (hn : s.named? n = some l) {c : Coord} {x : Val} (hset : step s (.cellSet n c (.py x)) = (s', .ok)) :
    layerGet s' l c = .val (castTo (s.dtypeOf l) x) ∧ cellGet s' n c = .val (castTo (s.dtypeOf l) x) ∧
    s'.dtypeOf l = s.dtypeOf l ∧
    ∀ l' c', l' < s.nLayers → (l' ≠ l ∨ c' ≠ c) → s'.value l' c' = s.value l' c' := by
  simp only [step, State.cellWVal, cellLayer?_eq h.wf, hn] at hset
  obtain ⟨h1, h2, h3⟩ := C11_cell_write_read_through_layer h hn hset
  refine ⟨h1, h2, ?_, h3⟩
  have := sameShape_cellSet s n c (castTo (s.dtypeOf l) x)
  rw [hset] at this
  exact dtypeOf_sameShape this l

/-- the same for a typed write through the layer (`layer.data[c] = x`, legacy `set_cell`): every cell
    attribute the layer is attached under reads the cast value -/
theorem C11_typed_layer_write_one_value {s s' : State} (h : Reach s) {l : Nat} {c : Coord} {x : Val}
    (hset : step s (.layerSet l c (.py x)) = (s', .ok)) :
    layerGet s' l c = .val (castTo (s.dtypeOf l) x) ∧
    (∀ n, s.named? n = some l → cellGet s' n c = .val (castTo (s.dtypeOf l) x)) ∧
    s'.dtypeOf l = s.dtypeOf l ∧
    ∀ l' c', l' < s.nLayers → (l' ≠ l ∨ c' ≠ c) → s'.value l' c' = s.value l' c' := by
  simp only [step, WVal.resolve] at hset
  obtain ⟨h1, h2, h3⟩ := C11_layer_write_read_through_cell h hset
  refine ⟨h1, h2, ?_, h3⟩
  have := sameShape_layerSet s l c (castTo (s.dtypeOf l) x)
  rw [hset] at this
  exact dtypeOf_sameShape this l

/-- `set_cells(x, cond)` with a Python scalar: a condition on a layer without entries is refused first (`np.vectorize`,
    `ValueError`); otherwise numpy (`np.copyto`, `same_kind`) refuses exactly the casts
    that could lose something — a float into an int or bool layer, an int into a bool layer — and then
    nothing is written; every other value enters *exactly* (no truncation, unlike a single-cell write), at
    the cells whose old value satisfies the condition. -/
theorem C11_set_cells_typed {s : State} (h : Reach s) {l : Nat} (hl : l < s.nLayers) (x : Val) (hx : x.ok)
    (cond : Option (Int → Bool)) :
    (cond.isSome = true ∧ 0 ∈ (s.layers l).dims → step s (.setCells l (.py x) cond) = (s, .err (.value .size0))) ∧
    (¬ (cond.isSome = true ∧ 0 ∈ (s.layers l).dims) →
    (sameKind x.ty (s.dtypeOf l) = false → step s (.setCells l (.py x) cond) = (s, .err .type)) ∧
    (sameKind x.ty (s.dtypeOf l) = true → ∃ s', step s (.setCells l (.py x) cond) = (s', .ok) ∧
      quarters (s.dtypeOf l) (castTo (s.dtypeOf l) x) = quarters x.ty x.raw ∧
      (∀ l' c, l' < s.nLayers → s'.value l' c =
        if l' = l then (if condHolds cond (s.value l c) then castTo (s.dtypeOf l) x else s.value l c)
        else s.value l' c) ∧
      (∀ n c, s.named? n = some l → inBounds s.dims c = true →
        cellGet s' n c = .val (if condHolds cond (s.value l c) then castTo (s.dtypeOf l) x else s.value l c)))) := by
  simp only [step, vecGuard_eq hl]
  refine ⟨fun hg => by rw [if_pos hg], fun hg => ?_⟩
  rw [if_neg hg]
  simp only [setCellsV_eq hl]
  refine ⟨fun hk => by simp [hk], fun hk => ?_⟩
  simp only [hk, if_true]
  obtain ⟨ho, hv, hcell⟩ := setCells_pointwise h hl (v := castTo (s.dtypeOf l) x) (cond := cond) rfl
  refine ⟨(setCells s l (castTo (s.dtypeOf l) x) cond).1, ?_, quarters_castTo_sameKind hx hk, hv, hcell⟩
  exact Prod.ext rfl ho

/-- `set_cells(arr, cond)` with an *array* value of the layer's shape (`layer.data = arr`,
    `grid.set_property(name, arr, cond)`): a condition on a layer without entries is refused first (`np.vectorize`);
    otherwise refused — nothing written — iff the array's dtype is not
    `same_kind`-castable; otherwise point-wise and positional: the entry at `c` becomes the number `arr[c]`
    (not the next unused entry of `arr`) where the *old* entry at `c` satisfied the condition and stays
    elsewhere; other layers untouched; the cell attributes show exactly these values. -/
theorem C11_set_cells_array_pointwise {s : State} (h : Reach s) {l : Nat} (hl : l < s.nLayers) {hd a : Nat}
    {dims : List Nat} (hh : s.handles.lookup hd = some (a, dims)) (hdims : dims = (s.layers l).dims)
    (cond : Option (Int → Bool)) :
    (cond.isSome = true ∧ 0 ∈ (s.layers l).dims → setFrom s l hd cond = (s, .err (.value .size0))) ∧
    (¬ (cond.isSome = true ∧ 0 ∈ (s.layers l).dims) →
    (sameKind (s.adt a) (s.dtypeOf l) = false → setFrom s l hd cond = (s, .err .type)) ∧
    (sameKind (s.adt a) (s.dtypeOf l) = true → ∃ s', setFrom s l hd cond = (s', .ok) ∧
      (∀ l' c, l' < s.nLayers → s'.value l' c =
        if l' = l then (if condHolds cond (s.value l c) then recode (s.adt a) (s.dtypeOf l) (s.heap a c) else s.value l c)
        else s.value l' c) ∧
      (∀ c, quarters (s.dtypeOf l) (recode (s.adt a) (s.dtypeOf l) (s.heap a c)) = quarters (s.adt a) (s.heap a c)) ∧
      (∀ n c, s.named? n = some l → inBounds s.dims c = true → cellGet s' n c = .val (s'.value l c)))) := by
  have hw := h.wf
  have hz : ((cells (s.layers l).dims).isEmpty = true) ↔ 0 ∈ (s.layers l).dims := by
    rw [List.isEmpty_iff, cells_eq_nil_iff]
  refine ⟨fun hg => ?_, fun hg => ?_⟩
  · unfold setFrom State.layer?
    simp only [hl, if_true, hh, hdims, ne_eq, not_true_eq_false, if_false]
    rw [if_pos (by simp only [Bool.and_eq_true]; exact ⟨hg.1, hz.mpr hg.2⟩)]
  have hsf : setFrom s l hd cond = (if sameKind (s.adt a) (s.dtypeOf l) then
      ({ s with heap := upd s.heap (s.layers l).data (fun c =>
          if condHolds cond (s.heap (s.layers l).data c) then recode (s.adt a) (s.dtypeOf l) (s.heap a c)
          else s.heap (s.layers l).data c) }, .ok) else (s, .err .type)) := by
    unfold setFrom State.layer? State.dtypeOf
    simp only [hl, if_true, hh, hdims, ne_eq, not_true_eq_false, if_false]
    rw [if_neg (by simp only [Bool.and_eq_true]; exact fun hx => hg ⟨hx.1, hz.mp hx.2⟩)]
    cases sameKind (s.adt a) (s.adt (s.layers l).data) <;> simp
  refine ⟨fun hk => by rw [hsf, hk]; rfl, fun hk => ?_⟩
  rw [hsf, hk]
  simp only [if_true]
  refine ⟨_, rfl, fun l' c hl' => value_upd hw hl hl' _ c, fun c => ?_, fun n c hn hc => ?_⟩
  · have : (s.adt a).rank ≤ (s.dtypeOf l).rank := by simpa [sameKind] using hk
    exact quarters_recode this _
  · have hw' : WF ({ s with heap := upd s.heap (s.layers l).data (fun c =>
          if condHolds cond (s.heap (s.layers l).data c) then recode (s.adt a) (s.dtypeOf l) (s.heap a c)
          else s.heap (s.layers l).data c) } : State) :=
      hw.of_sameShape ⟨rfl, rfl, rfl, rfl, rfl, rfl, rfl, rfl, rfl, rfl⟩
    exact cellGet_eq_value hw' hn hc

/-- `modify_cells` whose operation yields entries of type `rd` (`modifyCellsT`: the call past the `np.vectorize`
    guard, see `C11_modify_ufunc_typed`): the layer is re-pointed to an array of the
    *promoted* dtype; every entry stands for `f old` where the old entry satisfied the condition and for the
    *same number as before* elsewhere (promotion loses nothing); other layers keep values and dtypes; the
    cell attributes read the new array. -/
theorem C11_modify_promotes_dtype {s s' : State} (h : Reach s) {l : Nat} (hl : l < s.nLayers)
    {f : Int → Int} {cond : Option (Int → Bool)} {rd : DType} {o : Out}
    (hm : modifyCellsT s l (some f) cond rd = (s', o)) :
    o = .ok ∧ s'.dtypeOf l = (s.dtypeOf l).join rd ∧
    (∀ c, quarters (s'.dtypeOf l) (s'.value l c) =
      if condHolds cond (s.value l c) then quarters rd (f (s.value l c)) else quarters (s.dtypeOf l) (s.value l c)) ∧
    (∀ l' c, l' < s.nLayers → l' ≠ l → s'.value l' c = s.value l' c ∧ s'.dtypeOf l' = s.dtypeOf l') ∧
    (∀ n c, s.named? n = some l → inBounds s.dims c = true → cellGet s' n c = .val (s'.value l c)) := by
  have hw := h.wf
  have hw' : WF s' := by
    have := WF_modifyCellsT hw l (some f) cond rd
    rwa [hm] at this
  obtain ⟨ho, hs'⟩ := modifyCellsT_ok hl hm
  have hdt : s'.dtypeOf l = (s.dtypeOf l).join rd := by rw [hs']; simp [State.dtypeOf, upd]
  refine ⟨ho, hdt, fun c => ?_, fun l' c hl' hne => ?_, fun n c hn hc => ?_⟩
  · rw [hdt]
    have hv : s'.value l c = if condHolds cond (s.value l c)
        then recode rd ((s.dtypeOf l).join rd) (f (s.value l c))
        else recode (s.dtypeOf l) ((s.dtypeOf l).join rd) (s.value l c) := by
      rw [hs']; simp only [State.value, upd_same]; rfl
    rw [hv]
    split
    · exact quarters_recode (DType.rank_join_right _ _) _
    · exact quarters_recode (DType.rank_join_left _ _) _
  · have h1 : (s.layers l').data ≠ s.next := by have := hw.data_lt l' hl'; omega
    rw [hs']
    constructor <;> simp [State.value, State.dtypeOf, upd, hne, h1]
  · have e3 : s'.named? n = some l := by rw [hs']; exact hn
    have e4 : s'.dims = s.dims := by rw [hs']
    exact cellGet_eq_value hw' e3 (by rw [e4]; exact hc)

/-- numpy's result types for `ufunc(array, Python scalar)` as the model has them: arithmetic promotes to the
    larger of the two types (so an int layer modified with a float becomes a float layer, a bool layer
    modified with an int an int layer), the logical ufuncs never change the layer's dtype, and `bool - bool`
    is the one combination numpy refuses. -/
theorem C11_ufunc_result_types (d t : DType) :
    (∀ op ∈ [UOp.add, .mul, .max, .min], op.result d t = some (d.join t)) ∧
    (UOp.sub.result d t = if d = .bool ∧ t = .bool then none else some (d.join t)) ∧
    (∀ op ∈ [UOp.land, .lor, .lxor], ∀ rd, op.result d t = some rd → d.join rd = d) ∧
    (d.join t).rank = max d.rank t.rank := by
  cases d <;> cases t <;> decide

/-- `modify_cells(ufunc, x, cond)` with a typed operand (`vec`: the same operator in a Python function): on a layer
    without entries a condition or a Python function is refused first (`np.vectorize`); otherwise it is refused
    (state unchanged) exactly when numpy has no such operation; otherwise it is the promoting `modify_cells` with numpy's result type, and for
    `+`, `-`, maximum, minimum into a non-bool result the new entry *is* the sum / difference / larger /
    smaller of the two numbers. -/
theorem C11_modify_ufunc_typed {s : State} {l : Nat} (hl : l < s.nLayers) (vec : Bool) (op : UOp) (x : Val) (hx : x.ok)
    (cond : Option (Int → Bool)) :
    ((cond.isSome || vec) = true ∧ 0 ∈ (s.layers l).dims →
      step s (.modifyU l vec op x cond) = (s, .err (.value .size0))) ∧
    (¬ ((cond.isSome || vec) = true ∧ 0 ∈ (s.layers l).dims) →
    (op.result (s.dtypeOf l) x.ty = none → step s (.modifyU l vec op x cond) = (s, .err .type)) ∧
    (∀ rd, op.result (s.dtypeOf l) x.ty = some rd →
      step s (.modifyU l vec op x cond) = modifyCellsT s l (some (op.apply (s.dtypeOf l) x)) cond rd ∧
      (rd ≠ .bool → ∀ v,
        (op = .add → quarters rd (op.apply (s.dtypeOf l) x v) = quarters (s.dtypeOf l) v + quarters x.ty x.raw) ∧
        (op = .sub → quarters rd (op.apply (s.dtypeOf l) x v) = quarters (s.dtypeOf l) v - quarters x.ty x.raw) ∧
        (op = .max → quarters rd (op.apply (s.dtypeOf l) x v) = max (quarters (s.dtypeOf l) v) (quarters x.ty x.raw)) ∧
        (op = .min → quarters rd (op.apply (s.dtypeOf l) x v) = min (quarters (s.dtypeOf l) v) (quarters x.ty x.raw))))) := by
  refine ⟨fun hg => by simp only [step]; rw [vecGuard_eq hl, if_pos hg], fun hg => ?_⟩
  have hstep : step s (.modifyU l vec op x cond) = (match op.result (s.dtypeOf l) x.ty with
      | none => (s, .err .type)
      | some rd => modifyCellsT s l (some (op.apply (s.dtypeOf l) x)) cond rd) := by
    simp only [step]
    rw [vecGuard_eq hl, if_neg hg]
    simp only [modifyU, State.layer?, hl, if_true, State.dtypeOf] <;> rfl
  refine ⟨fun hn => by rw [hstep, hn], fun rd hr => ⟨by rw [hstep, hr], fun hnb v => ?_⟩⟩
  obtain ⟨ty, raw⟩ := x
  generalize s.dtypeOf l = d at hr ⊢
  have e4 : ∀ a : Int, (4 * a).tdiv 4 = a := tdiv4_mul
  refine ⟨fun e => ?_, fun e => ?_, fun e => ?_, fun e => ?_⟩ <;> subst e <;>
    cases d <;> cases ty <;> simp [UOp.result, DType.join, DType.rank] at hr <;> subst hr <;>
    simp [UOp.apply, UOp.result, DType.join, DType.rank, quarters, fromQuarters, ← Int.mul_add, ← Int.mul_sub, e4] at hnb ⊢
  all_goals (rcases Int.le_total (4 * v) (4 * raw) with h | h <;>
    simp only [Int.max_eq_right, Int.max_eq_left, Int.min_eq_left, Int.min_eq_right, h, e4])

/-- … and for `×`: whenever the exact product of the two numbers is again a multiple of 1/4 (always for an integral
    operand — what the harness uses — but not for 0.25 × 0.25) the new entry *is* the product.  Without that the model's
    entry is the product cut to quarters, which is not numpy's value: such operands are outside the model. -/
theorem C11_ufunc_mul_exact (d : DType) (x : Val) (v : Int) (rd : DType)
    (hr : UOp.mul.result d x.ty = some rd) (hnb : rd ≠ .bool)
    (hdiv : (4 : Int) ∣ quarters d v * quarters x.ty x.raw) :
    4 * quarters rd (UOp.mul.apply d x v) = quarters d v * quarters x.ty x.raw := by
  obtain ⟨ty, raw⟩ := x
  have key : ∀ a : Int, (4 : Int) ∣ a → 4 * a.tdiv 4 = a := fun a h => Int.mul_tdiv_cancel' h
  have e4 : ∀ a : Int, (4 * a).tdiv 4 = a := tdiv4_mul
  have e16 : ∀ a b : Int, (4 * a * (4 * b)).tdiv 4 = 4 * (a * b) := by
    intro a b
    have : 4 * a * (4 * b) = 4 * (4 * (a * b)) := by grind
    rw [this, e4]
  cases d <;> cases ty <;> simp [UOp.result, DType.join, DType.rank] at hr <;> subst hr <;>
    simp [UOp.apply, UOp.result, DType.join, DType.rank, quarters, fromQuarters, e4, e16] at hnb hdiv ⊢
  all_goals first | exact key _ hdiv | grind

/-- 1.5 × 2.0 = 3.0 is inside the hypothesis, 0.25 × 0.25 is not (and there the model's 0 is not numpy's 0.0625) -/
example : (4 : Int) ∣ quarters .float 6 * quarters .float 8 ∧ UOp.mul.apply .float ⟨.float, 8⟩ 6 = 12 ∧
    ¬ (4 : Int) ∣ quarters .float 1 * quarters .float 1 := by decide

/-- Over any history the dtype of a layer changes only when a typed `modify_cells` re-points that very
    layer (`Op.mayRetype`) — single-cell writes of any type, `set_cells`, writes through references, adding and
    removing layers, agent moves never change it — and it only ever widens (bool → int → float). -/
theorem C11_dtype_changes_only_by_modify {s : State} (h : Reach s) {l : Nat} (hl : l < s.nLayers) :
    (∀ op : Op, ¬ op.mayRetype l → (step s op).1.dtypeOf l = s.dtypeOf l) ∧
    (∀ ops, noRetype l ops → (run s ops).1.dtypeOf l = s.dtypeOf l) ∧
    (∀ ops, (s.dtypeOf l).rank ≤ ((run s ops).1.dtypeOf l).rank) := by
  refine ⟨fun op hno => ?_, fun ops hn => dtype_stable_run h.wf hl ops hn, fun ops => dtype_mono_run h.wf hl ops⟩
  rcases dtype_step h.wf hl op with h1 | ⟨h1, _⟩
  · exact h1
  · exact absurd h1 hno

/-- legacy `modify_cell(pos, ufunc, x)` with a Python scalar of any type: refused (`TypeError`) only where
    numpy has no such operation; otherwise that one entry becomes numpy's result *cast back into the array*
    (`arr[pos] = …`: an int layer keeps the integer part of `3 + 0.5`), nothing else changes and — unlike the
    bulk `modify_cells` — the layer keeps its dtype. -/
theorem C11_modify_cell_typed {s s' : State} (h : Reach s) {l : Nat} {c : Coord} {op : UOp} {x : Val}
    (hm : modifyCellU s l c op x = (s', .ok)) :
    ∃ rd, op.result (s.dtypeOf l) x.ty = some rd ∧
      s'.value l c = castTo (s.dtypeOf l) ⟨rd, op.apply (s.dtypeOf l) x (s.value l c)⟩ ∧
      s'.dtypeOf l = s.dtypeOf l ∧
      ∀ l' c', l' < s.nLayers → (l' ≠ l ∨ c' ≠ c) → s'.value l' c' = s.value l' c' := by
  have hsh := sameShape_modifyCellU s l c op x
  rw [hm] at hsh
  unfold modifyCellU at hm
  split at hm
  · simp at hm
  · split at hm
    · simp at hm
    · next L hL =>
      obtain ⟨_, rfl⟩ := layer?_some hL
      split at hm
      · simp at hm
      · split at hm
        · simp at hm
        · next rd hrd =>
          obtain ⟨g, hg, hv, hframe⟩ := C11_modify_cell_pointwise h hm
          simp only [Option.some.injEq] at hg
          subst hg
          exact ⟨rd, hrd, hv, dtypeOf_sameShape hsh l, hframe⟩

/-- `PropertyLayer.from_data(name, arr)`: the new layer has the array's shape and dtype and holds its
    values, no existing layer changes — and it holds a *copy*: a later write into the source array does not
    show in the layer, a later write into the layer does not show in the source array. -/
theorem C11_from_data_copies {s s' : State} (h : Reach s) {n : String} {hd : Nat} {k : Nat}
    (hf : fromData s n hd = (s', .id k)) :
    ∃ a dims, s.handles.lookup hd = some (a, dims) ∧ k = s.nLayers ∧ (s'.layers k).dims = dims ∧
      s'.dtypeOf k = s.adt a ∧ (∀ c, s'.value k c = s.heap a c) ∧
      (∀ l c, l < s.nLayers → s'.value l c = s.value l c) ∧
      (∀ c v s'', hset s' hd c v = (s'', .ok) → ∀ c', s''.value k c' = s'.value k c') ∧
      (∀ c v s'', layerSet s' k c v = (s'', .ok) → ∀ c', hget s'' hd c' = hget s' hd c') := by
  have hw := h.wf
  unfold fromData at hf
  split at hf
  · simp at hf
  · split at hf
    · simp at hf
    · next a dims hlk =>
      split at hf
      · simp at hf
      · simp only [Prod.mk.injEq, Out.id.injEq] at hf
        obtain ⟨rfl, rfl⟩ := hf
        have halt : a < s.next := hw.handle_lt hd a dims hlk
        have hne : s.next ≠ a := by omega
        refine ⟨a, dims, hlk, rfl, by simp [upd], by simp [State.dtypeOf, upd], fun c => by simp [State.value, upd],
          fun l c hl => ?_, fun c v s'' hs c' => ?_, fun c v s'' hs c' => ?_⟩
        · have h1 : l ≠ s.nLayers := by omega
          have h2 : (s.layers l).data ≠ s.next := by have := hw.data_lt l hl; omega
          simp [State.value, upd, h1, h2]
        · obtain ⟨a', d', hlk', _, rfl⟩ := hset_ok hs
          simp only [hlk, Option.some.injEq, Prod.mk.injEq] at hlk'
          obtain ⟨rfl, rfl⟩ := hlk'
          simp [State.value, upd, hne]
        · obtain ⟨_, _, rfl⟩ := layerSet_ok hs
          simp [hget, hlk, upd, hne.symm]

/-! ## the cast and promotion rules are numpy's -/

/-- The model's cast rules are numpy's: for all element types, `sameKind` is what `np.copyto` of the running numpy accepts
    (scalar and array sources: `set_cells`), and `DType.join` is the dtype `np.where` gives the re-pointed array
    (`modify_cells`).  `Gen/NumpyTables.lean` is probed from the running interpreter on every check. -/
theorem C11_cast_rules_match_numpy (a b : DType) :
    Gen.npCopytoScalar.lookup (a.rank, b.rank) = some (sameKind a b) ∧
    Gen.npCopytoArray.lookup (a.rank, b.rank) = some (sameKind a b) ∧
    Gen.npWhereType.lookup (a.rank, b.rank) = some (a.join b).rank := by
  cases a <;> cases b <;> decide

set_option maxRecDepth 8000 in
/-- `UOp.result` is the result type of the running numpy for every ufunc of the op language, every array dtype and every
    type of Python scalar (`none` = numpy's `TypeError`: boolean subtract) — as a ufunc and, for the operators whose
    Python-function form is in the op language, as `np.vectorize(lambda x: x OP scalar)`. -/
theorem C11_ufunc_types_match_numpy (op : UOp) (d t : DType) :
    Gen.npUfuncType.lookup (op.name, d.rank, t.rank) = some ((op.result d t).map DType.rank) ∧
    (op ≠ .max → op ≠ .min →
      Gen.npFnType.lookup (op.name, d.rank, t.rank) = some ((op.result d t).map DType.rank)) := by
  cases op <;> cases d <;> cases t <;> decide

set_option maxRecDepth 8000 in
/-- On the probed sample grid (every pair of types; negative, zero, integral and non-integral values) the model's values are
    numpy's: `castTo` is the entry left by `arr[0] = scalar` and by `np.full(shape, scalar, dtype)`, `UOp.apply` the entry
    of `ufunc(array, scalar)` in the encoding of the result dtype. -/
theorem C11_cast_values_match_numpy :
    (∀ e ∈ Gen.npAssign, castCode e.1.1 e.1.2.1 e.1.2.2 = some e.2) ∧
    (∀ e ∈ Gen.npFull, castCode e.1.1 e.1.2.1 e.1.2.2 = some e.2) ∧
    (∀ e ∈ Gen.npUfuncValue, applyCode e.1.1 e.1.2.1 e.1.2.2.1 e.1.2.2.2.1 e.1.2.2.2.2 = some e.2) := by
  refine ⟨by decide, by decide, by decide⟩

set_option maxRecDepth 8000 in
/-- the probed tables are not empty and say what one expects: -2.75 assigned into an int array is -2, 2.75 into a bool
    array True; `np.add(int array, 0.5)` is a float array -/
example : 50 ≤ Gen.npAssign.length ∧ 50 ≤ Gen.npFull.length ∧ 200 ≤ Gen.npUfuncValue.length ∧
    Gen.npAssign.lookup (1, 2, -11) = some (-2) ∧ Gen.npFull.lookup (0, 2, 11) = some 1 ∧
    Gen.npUfuncType.lookup ("add", 1, 2) = some (some 2) ∧ Gen.npUfuncValue.lookup ("add", 1, -3, 2, 2) = some (-10) := by
  decide

/-! ## adding and removing layers -/

/-- `create_property_layer`: the new layer holds the default everywhere, is attached under its name,
    and no existing layer changes. -/
theorem C11_create_default {s s' : State} (h : Reach s) {n : String} {dt : DType} {d : Int} {k : Nat}
    (hc : create s n dt d = (s', .id k)) :
    k = s.nLayers ∧ s'.named? n = some k ∧ (∀ c, s'.value k c = d) ∧
    ∀ l c, l < s.nLayers → s'.value l c = s.value l c := by
  have hw := h.wf
  unfold create at hc
  split at hc
  · simp at hc
  · next hchk =>
    obtain ⟨hnone, _, _⟩ := attachCheck_none hchk
    simp only [Prod.mk.injEq, Out.id.injEq] at hc
    obtain ⟨rfl, rfl⟩ := hc
    refine ⟨rfl, ?_, ?_, ?_⟩
    · show (s.attached ++ [(n, s.nLayers)]).lookup n = some s.nLayers
      simp only at hnone
      rw [List.lookup_append, hnone]
      simp
    · intro c; simp [State.value, upd]
    · intro l c hl
      have h1 : l ≠ s.nLayers := by omega
      have h2 : (s.layers l).data ≠ s.next := by have := hw.data_lt l hl; omega
      simp [State.value, upd, h1, h2]

/-- `create_property_layer(name, default_value, dtype)` with a default of any Python type: the array is
    `np.full(dims, default, dtype)` — every entry is numpy's cast of the default into the dtype asked for (2.75 into
    an int layer: 2, any non-zero number into a bool layer: True; the constructor only warns) — the layer has that
    dtype, and at every cell of the grid both views read that one cast value. -/
theorem C11_create_typed_default {s s' : State} (h : Reach s) {n : String} {dt : DType} {w : WVal} {k : Nat}
    (hc : step s (.create n dt w) = (s', .id k)) :
    s'.named? n = some k ∧ s'.dtypeOf k = dt ∧
    (∀ x, w = .py x → ∀ c, s'.value k c = castTo dt x) ∧ (∀ v, w = .raw v → ∀ c, s'.value k c = v) ∧
    ∀ c, inBounds s'.dims c = true →
      cellGet s' n c = .val (w.resolve dt) ∧ layerGet s' k c = .val (w.resolve dt) := by
  have hr' : Reach s' := by
    have := Reach.step (.create n dt w) h
    rwa [hc] at this
  simp only [step] at hc
  obtain ⟨hk, hn, hv, _⟩ := C11_create_default h hc
  have hdt : s'.dtypeOf k = dt := by
    unfold create at hc
    split at hc
    · simp at hc
    · simp only [Prod.mk.injEq, Out.id.injEq] at hc
      obtain ⟨rfl, rfl⟩ := hc
      simp [State.dtypeOf, upd]
  refine ⟨hn, hdt, ?_, ?_, ?_⟩
  · rintro x rfl c; exact hv c
  · rintro v rfl c; exact hv c
  · intro c hcb
    obtain ⟨h1, h2⟩ := C11_two_views_one_value hr' hn hcb
    rw [h1, h2, hv c]
    exact ⟨rfl, rfl⟩

/-- the same for a free-standing `PropertyLayer(name, dims, default, dtype)` of any shape -/
theorem C11_new_layer_typed_default {s s' : State} {n : String} {dims : List Nat} {dt : DType} {w : WVal} {k : Nat}
    (hc : step s (.newLayer n dims dt w) = (s', .id k)) :
    k = s.nLayers ∧ s'.layer? k = some ⟨n, dims, s.next⟩ ∧ s'.dtypeOf k = dt ∧ ∀ c, s'.value k c = w.resolve dt := by
  simp only [step] at hc
  unfold newLayer at hc
  split at hc
  · simp at hc
  · simp only [Prod.mk.injEq, Out.id.injEq] at hc
    obtain ⟨rfl, rfl⟩ := hc
    simp [State.layer?, State.dtypeOf, State.value, upd]

/-- `remove_property_layer(name)`: the name disappears from the grid, every other name stays attached
    to its layer, and no layer object changes its values (the removed layer can be attached again). -/
theorem C11_detach_keeps_values {s s' : State} {n : String} (hd : detach s n = (s', .ok)) :
    s'.named? n = none ∧ (∀ n', n' ≠ n → s'.named? n' = s.named? n') ∧
    ∀ l c, s'.value l c = s.value l c := by
  unfold detach at hd
  split at hd
  · simp at hd
  · simp only [Prod.mk.injEq, and_true] at hd
    subst hd
    exact ⟨lookup_filter_self _ _, fun n' hn' => lookup_filter_ne _ _ _ hn', fun _ _ => rfl⟩

/-- `add_property_layer(layer)`: the layer's name now resolves to it, other names are unaffected, no
    values change, and the cells show the layer's current values under that name. -/
theorem C11_attach_exposes_layer {s s' : State} (h : Reach s) {l : Nat} (ha : attach s l = (s', .ok)) :
    s'.named? (s.layers l).name = some l ∧ (∀ n', n' ≠ (s.layers l).name → s'.named? n' = s.named? n') ∧
    (∀ l' c, s'.value l' c = s.value l' c) ∧
    ∀ c, inBounds s.dims c = true → cellGet s' (s.layers l).name c = .val (s.value l c) := by
  have hr' : Reach s' := by
    have := Reach.step (.attach l) h
    simp only [step] at this
    rwa [ha] at this
  have hnamed : s'.named? (s.layers l).name = some l ∧
      (∀ n', n' ≠ (s.layers l).name → s'.named? n' = s.named? n') ∧
      (∀ l' c, s'.value l' c = s.value l' c) ∧ s'.dims = s.dims := by
    unfold attach at ha
    split at ha
    · simp at ha
    · next L hL =>
      obtain ⟨_, rfl⟩ := layer?_some hL
      split at ha
      · simp at ha
      · next hchk =>
        obtain ⟨hnone, _, _⟩ := attachCheck_none hchk
        simp only [Prod.mk.injEq, and_true] at ha
        subst ha
        refine ⟨?_, ?_, fun _ _ => rfl, rfl⟩
        · show (s.attached ++ [((s.layers l).name, l)]).lookup (s.layers l).name = some l
          rw [List.lookup_append, hnone]
          simp
        · intro n' hn'
          show (s.attached ++ [((s.layers l).name, l)]).lookup n' = s.attached.lookup n'
          rw [List.lookup_append]
          have : (n' == (s.layers l).name) = false := by simpa using hn'
          simp [List.lookup_cons, this]
  obtain ⟨h1, h2, h3, h4⟩ := hnamed
  refine ⟨h1, h2, h3, fun c hc => ?_⟩
  rw [cellGet_eq_value hr'.wf h1 (by rw [h4]; exact hc), h3]

/-! ## the clash rule of `add_property_layer`, re-proved against the source on every check

`reservedNames` is built from `Gen/LayersTables.lean`, which the harness rewrites from `cell.py` / `grid.py`
of the checked tree before every build; the `decide`s below are therefore about the code as it is *now*. -/

/-- The names the model refuses as layer names — what the *source* of `class Cell` (slots, methods,
    properties, class attributes) and of the dynamic `GridCell` class defines, plus what Python gives every
    class — are exactly the attributes the running code reports for the grid's cell class
    (`dir(grid.cell_klass)`, layer descriptors removed): `name ∈ reservedNames` is
    `hasattr(self.cell_klass, name)`. -/
theorem C11_reserved_names_are_cell_class_attributes (n : String) :
    n ∈ reservedNames ↔ n ∈ Gen.cellKlassProbe := by
  have h1 : reservedNames.all (fun x => decide (x ∈ Gen.cellKlassProbe)) = true := by decide
  have h2 : Gen.cellKlassProbe.all (fun x => decide (x ∈ reservedNames)) = true := by decide
  rw [List.all_eq_true] at h1 h2
  exact ⟨fun h => by simpa using h1 n h, fun h => by simpa using h2 n h⟩

/-- Every name through which a cell takes part in occupancy, emptiness and neighbourhoods (what the model's
    `place` / `move` / `remove` / `isEmptyCell` stand for: `Cell.add_agent`, `remove_agent`, `agents`, `_agents`,
    `is_empty`, `is_full`, `capacity`, `coordinate`, `connections`, `neighborhood`, …) is reserved, so no layer
    can shadow it (defect PL1), while `empty` — the name `Grid.__init__` itself gives its built-in layer — is
    free. -/
theorem C11_cell_protocol_names_reserved :
    (∀ n ∈ ["_agents", "agents", "add_agent", "remove_agent", "is_empty", "is_full", "capacity", "coordinate",
            "connections", "connect", "disconnect", "neighborhood", "get_neighborhood", "random",
            "_mesa_properties", "__dict__", "__class__", "__init__"], n ∈ reservedNames) ∧
    "empty" ∉ reservedNames := by
  decide

/-- The built-in layer is an ordinary one: a fresh grid *is* the layer-less grid after
    `create_property_layer("empty", True, bool)`, a call the clash rule lets through. -/
theorem C11_builtin_empty_is_created_layer (dims : List Nat) (cap : Option Nat) :
    create { init .new dims cap with next := 0, nLayers := 0, attached := [], descr := [] } "empty" .bool 1
      = (init .new dims cap, .id 0) := by
  have hfree : "empty" ∉ reservedNames := C11_cell_protocol_names_reserved.2
  unfold create attachCheck
  simp only [init, State.named?, List.lookup_nil, Option.isSome_none, ne_eq, not_true_eq_false,
    if_false, Bool.false_eq_true, hfree, if_true, List.nil_append, Nat.zero_add, setDescr, List.filter_nil,
    Prod.mk.injEq, and_true]
  congr 1
  · funext j; simp [upd]
  · funext j; simp [upd]
  · funext j; simp [upd]

/-- After every history on a cell space: a name of the cell class is never attached as a layer — every
    `add_property_layer` of a layer so named is refused and changes nothing — and, the other way round,
    whatever is attached is not a name of the cell class, so the cell attribute of that name *is* the layer
    entry (never the method or property of `Cell`). -/
theorem C11_layer_never_shadows_cell_attribute {s : State} (h : Reach s) (hi : s.impl = .new) :
    (∀ n ∈ reservedNames, s.named? n = none ∧
      ∀ lid, lid < s.nLayers → (s.layers lid).name = n → ∃ w, attach s lid = (s, .err (.value w))) ∧
    (∀ n l, s.named? n = some l → n ∉ reservedNames ∧
      ∀ c, inBounds s.dims c = true → cellGet s n c = .val (s.value l c)) := by
  have hw := h.wf
  refine ⟨fun n hn => ⟨?_, fun lid hl hname => ?_⟩, fun n l hnl => ⟨hw.att_free hi n l hnl, fun c hc => ?_⟩⟩
  · cases hx : s.named? n with
    | none => rfl
    | some l => exact absurd hn (hw.att_free hi n l hx)
  · have hchk : ∃ w, attachCheck s (s.layers lid) = some w := by
      unfold attachCheck
      simp only [hi, hname]
      split
      · exact ⟨_, rfl⟩
      · split
        · exact ⟨_, rfl⟩
        · exact ⟨.clash, rfl⟩
    obtain ⟨w, hchk⟩ := hchk
    refine ⟨w, ?_⟩
    unfold attach State.layer?
    simp [hl, hchk]
  · exact cellGet_eq_value hw hnl hc

/-! ## the emptiness layer / mask is actual emptiness -/

/-- After every history in which the user does not himself overwrite, re-point or remove the built-in `empty` layer /
    the legacy mask (`safeHist`: every op is safe *in the state it is issued in* — taking a reference to
    `grid.empty.data` / `grid.empty_mask` and reading through it is allowed, a write through a reference is unsafe
    exactly when that reference aliases the emptiness array): the emptiness view (`grid.empty.data` /
    `grid.empty_mask`, the array `only_empty` uses) is 1 exactly at the cells no agent is in and 0 elsewhere — through
    any interleaving of placements, moves and removals with layer operations, for SingleGrid, MultiGrid (several
    agents per cell) and cell spaces with capacities.  `C11_unsafe_write_is_the_only_way` below: the hypothesis cannot
    be dropped, and what it excludes is exactly the user's own write. -/
theorem C11_empty_view_is_emptiness (impl : Impl) (dims : List Nat) (cap : Option Nat) (ops : List Op)
    (hs : safeHist (init impl dims cap) ops) :
    ∃ e, (run (init impl dims cap) ops).1.emptyArr? = some e ∧
      ∀ c, e c = boolInt ((run (init impl dims cap) ops).1.isEmptyCell c) := by
  have hinv := Inv_run (W := fun _ => False) (WF_init impl dims cap) (EmpInv_init impl dims cap) ops hs
  refine ⟨(run (init impl dims cap) ops).1.heap 0, ?_, fun c => hinv.view c (fun hf => hf)⟩
  unfold State.emptyArr?
  split
  · next hi =>
    obtain ⟨h1, h2, _⟩ := hinv.named hi
    simp [State.namedArr?, State.named?, h1, h2]
  · rfl

/-- the two read-outs of the `empties` op (view and actual emptiness) coincide after such a history -/
theorem C11_empties_readout_agrees (impl : Impl) (dims : List Nat) (cap : Option Nat) (ops : List Op)
    (hs : safeHist (init impl dims cap) ops) :
    empties (run (init impl dims cap) ops).1 =
      .emp (some (((cells (run (init impl dims cap) ops).1.dims).map
              (run (init impl dims cap) ops).1.isEmptyCell).map boolInt))
           ((cells (run (init impl dims cap) ops).1.dims).map (run (init impl dims cap) ops).1.isEmptyCell) := by
  obtain ⟨e, he, hv⟩ := C11_empty_view_is_emptiness impl dims cap ops hs
  have hfun : e = fun c => boolInt ((run (init impl dims cap) ops).1.isEmptyCell c) := funext hv
  unfold empties
  unfold State.emptyArr? at he
  split
  · next hi =>
    rw [hi] at he
    simp only at he
    rw [he, hfun]
    simp [List.map_map, Function.comp_def]
  · next hi =>
    have : some ((run (init impl dims cap) ops).1.heap 0) = some e := by
      cases hx : (run (init impl dims cap) ops).1.impl <;> simp [hx] at he hi ⊢ <;> exact he
    simp only [Option.some.injEq] at this
    rw [this, hfun]
    simp [List.map_map, Function.comp_def]

/-- The converse, for histories in which the user *does* write through a reference to the emptiness array
    (`grid.empty.data[c] = v`, legacy `grid.empty_mask[c] = v`) — every op otherwise statically safe —: the view is
    still there and is wrong *at most at the cells so written* (`aliasWrites`: judged at the time of each write; a
    later move of an agent through such a cell may well repair it); everywhere else it is actual emptiness. -/
theorem C11_empty_view_wrong_at_most_where_written (impl : Impl) (dims : List Nat) (cap : Option Nat) (ops : List Op)
    (hs : ∀ op ∈ ops, op.safe impl = true) :
    ∃ e, (run (init impl dims cap) ops).1.emptyArr? = some e ∧
      ∀ c, ¬ aliasWrites (init impl dims cap) ops c → e c = boolInt ((run (init impl dims cap) ops).1.isEmptyCell c) := by
  have hinv := Inv_run_alias (W := fun _ => False) (WF_init impl dims cap) (EmpInv_init impl dims cap) ops hs
  refine ⟨(run (init impl dims cap) ops).1.heap 0, ?_, fun c hc => hinv.view c (fun hx => hx.elim (fun hf => hf) hc)⟩
  unfold State.emptyArr?
  split
  · next hi =>
    obtain ⟨h1, h2, _⟩ := hinv.named hi
    simp [State.namedArr?, State.named?, h1, h2]
  · rfl

/-- What `safeHist` excludes is exactly the user's own overwrite: one op that is unsafe in a state where the view is right
    can only be a write to / re-pointing / removal of the built-in layer through the layer (id 0), through the cell
    attribute `empty`, or through a reference that aliases the emptiness array — and such a write does break the view
    (`grid.empty_mask[0, 0] = False` on an empty SingleGrid makes `only_empty` miss the cell: the example below). -/
theorem C11_unsafe_write_is_the_only_way {s : State} {op : Op} (h : op.safeAt s = false) :
    (∃ h' c v a d, op = .hset h' c v ∧ s.handles.lookup h' = some (a, d) ∧ a = 0) ∨
    (s.impl = .new ∧ ((∃ c v, op = .cellSet "empty" c v) ∨ op = .detach "empty" ∨
      (∃ c v, op = .layerSet 0 c v) ∨ (∃ c v, op = .cellSet2 0 c v) ∨ (∃ v cond, op = .setCells 0 v cond) ∨
      (∃ hd cond, op = .setFrom 0 hd cond) ∨ (∃ vec f cond, op = .modifyCells 0 vec f cond) ∨
      (∃ f cond rd, op = .modifyT 0 f cond rd) ∨ (∃ vec o x cond, op = .modifyU 0 vec o x cond) ∨
      (∃ c f, op = .modifyCell 0 c f) ∨ (∃ c o x, op = .modifyCellU 0 c o x))) := by
  cases op
  case hset hd c v =>
    left
    simp only [Op.safeAt] at h
    split at h
    · next a d hlk => exact ⟨hd, c, v, a, d, rfl, hlk, by simpa using h⟩
    · simp at h
  all_goals right
  all_goals simp only [Op.safeAt, Op.safe, Bool.or_eq_false_iff, bne_eq_false_iff_eq, reduceCtorEq] at h
  all_goals obtain ⟨hi, rfl⟩ := h
  all_goals refine ⟨hi, ?_⟩
  all_goals simp

/-! ## `select_cells` is exact -/

/-- the coordinate list of a grid is exactly the in-bounds coordinates, each once -/
theorem C11_cells_exact (dims : List Nat) :
    (∀ c, c ∈ cells dims ↔ inBounds dims c = true) ∧ (cells dims).Nodup :=
  ⟨fun _ => mem_cells, cells_nodup dims⟩

/-- The filters that come before the extreme values: every mask, the `only_empty` flag, every condition. -/
def Query.filters (s : State) (q : Query) (c : Coord) : Prop :=
  (∀ k ∈ q.masks, k c = true) ∧
  (q.onlyEmpty = true → ∃ e, s.emptyArr? = some e ∧ e c ≠ 0) ∧
  (∀ np ∈ q.conds, ∃ a, s.namedArr? np.1 = some a ∧ np.2 (a c) = true)

/-- `select_cells` (any state, any combination of arguments): a cell of the grid is selected iff it
    passes every mask, the `only_empty` flag and every condition, and — for each `extreme_values` entry
    in turn — its property value is the highest / lowest among the cells of the grid that pass these
    filters and the entries before it (`ExtSpec`, defined without reference to the code's computation). -/
theorem C11_select_exact {s : State} {q : Query} {m : Coord → Bool} (h : selectMask s q = .ok m)
    {c : Coord} (hc : c ∈ cells s.dims) :
    m c = true ↔ ExtSpec s q.extremes (q.filters s) c := by
  unfold selectMask at h
  split at h
  · simp at h
  · next m1 h1 =>
    split at h
    · simp at h
    · next m2 h2 =>
      rw [applyExtremes_spec s _ _ _ h c hc]
      apply ExtSpec_congr _ hc
      intro c' _
      rw [applyConds_spec s _ _ _ h2 c']
      unfold emptyStage at h1
      unfold Query.filters
      split at h1
      · next hoe =>
        split at h1
        · simp at h1
        · next e he =>
          simp only [Except.ok.injEq] at h1
          subst h1
          simp only [Bool.and_eq_true, applyMasks_spec, true_and, bne_iff_ne, ne_eq, hoe, he,
            Option.some.injEq, exists_eq_left', forall_const]
          constructor
          · rintro ⟨⟨a, b⟩, d⟩; exact ⟨a, b, d⟩
          · rintro ⟨a, b, d⟩; exact ⟨⟨a, b⟩, d⟩
      · next hoe =>
        simp only [Except.ok.injEq] at h1
        subst h1
        simp only [applyMasks_spec, true_and, hoe, Bool.false_eq_true, false_implies, true_and]

/-- without extreme values: exactly the cells passing all filters -/
theorem C11_select_filters_only {s : State} {q : Query} {m : Coord → Bool} (h : selectMask s q = .ok m)
    (hx : q.extremes = []) {c : Coord} (hc : c ∈ cells s.dims) : m c = true ↔ q.filters s c := by
  rw [C11_select_exact h hc, hx]; rfl

/-- one extreme value, in the words of the property: the selected cells are those that pass the other
    filters and whose value is the highest (lowest) *among the cells that pass the other filters* —
    all of them, so ties are all returned. -/
theorem C11_select_one_extreme {s : State} {q : Query} {m : Coord → Bool} (h : selectMask s q = .ok m)
    {n : String} {hi : Bool} (hx : q.extremes = [(n, some hi)]) {c : Coord} (hc : c ∈ cells s.dims) :
    m c = true ↔ ∃ a, s.namedArr? n = some a ∧ q.filters s c ∧
      ∀ c' ∈ cells s.dims, q.filters s c' → notBeyond hi (a c') (a c) := by
  rw [C11_select_exact h hc, hx]
  simp only [ExtSpec, Option.some.injEq, exists_and_left, exists_eq_left']

/-- list form and mask form describe the same cells: the list is exactly the coordinates, in row-major
    order and without repetition, at which the mask form is true. -/
theorem C11_select_list_is_mask {s : State} {q : Query} {list : List Coord} {mask : List Bool}
    (h : selectCells s q = .sel list mask) :
    list = (((cells s.dims).zip mask).filter (·.2)).map (·.1) ∧ mask.length = (cells s.dims).length ∧
    list.Nodup ∧ ∀ c ∈ list, inBounds s.dims c = true := by
  unfold selectCells at h
  split at h
  · simp at h
  · next m _ =>
    simp only [Out.sel.injEq] at h
    obtain ⟨rfl, rfl⟩ := h
    refine ⟨filter_eq_of_zip_map _ _, by simp, (cells_nodup s.dims).sublist List.filter_sublist, ?_⟩
    intro c hc
    exact mem_cells.mp (List.mem_filter.mp hc).1

/-- `only_empty=True` selects only cells that are actually empty, and misses none: after a history
    that leaves the built-in layer alone, the `only_empty` filter of `select_cells` is *exactly* "no agent
    is in the cell" (this is what defect S16 — and S1 for MultiGrid — broke). -/
theorem C11_only_empty_is_actual_emptiness (impl : Impl) (dims : List Nat) (cap : Option Nat) (ops : List Op)
    (hs : safeHist (init impl dims cap) ops) (q : Query) (hq : q.onlyEmpty = true) (c : Coord) :
    q.filters (run (init impl dims cap) ops).1 c ↔
      (∀ k ∈ q.masks, k c = true) ∧ (run (init impl dims cap) ops).1.isEmptyCell c = true ∧
      (∀ np ∈ q.conds, ∃ a, (run (init impl dims cap) ops).1.namedArr? np.1 = some a ∧ np.2 (a c) = true) := by
  obtain ⟨e, he, hv⟩ := C11_empty_view_is_emptiness impl dims cap ops hs
  unfold Query.filters
  simp only [hq, he, Option.some.injEq, exists_eq_left', forall_const, hv c, boolInt]
  constructor
  · rintro ⟨a, b, d⟩
    refine ⟨a, ?_, d⟩
    cases hx : (run (init impl dims cap) ops).1.isEmptyCell c <;> simp [hx] at b ⊢
  · rintro ⟨a, b, d⟩
    exact ⟨a, by simp [b], d⟩

/-! ## the layer's own `select_cells` and `aggregate` -/

/-- `layer.select_cells(condition, return_list)` on the layer itself (attached or not): the list form is
    exactly the coordinates of the layer's shape whose *current* value passes the condition — each once, in
    row-major order — and the mask form is the condition evaluated at every coordinate; the list is the
    coordinates at which the mask is true. -/
theorem C11_layer_select_exact {s : State} {l : Nat} {p : Int → Bool} {list : List Coord} {mask : List Bool}
    (h : layerSelect s l p = .sel list mask) :
    l < s.nLayers ∧
    (∀ c, c ∈ list ↔ inBounds (s.layers l).dims c = true ∧ p (s.value l c) = true) ∧
    mask = (cells (s.layers l).dims).map (fun c => p (s.value l c)) ∧
    list = (((cells (s.layers l).dims).zip mask).filter (·.2)).map (·.1) ∧ list.Nodup := by
  unfold layerSelect State.layer? at h
  split at h
  · simp at h
  · next L hL =>
    split at hL
    · next hlt =>
      simp only [Option.some.injEq] at hL
      subst hL
      simp only [Out.sel.injEq] at h
      obtain ⟨rfl, rfl⟩ := h
      refine ⟨hlt, ?_, rfl, filter_eq_of_zip_map _ _, (cells_nodup _).sublist List.filter_sublist⟩
      intro c
      simp only [List.mem_filter, mem_cells, State.value]
    · simp at hL

/-- For an attached layer of a reachable state the layer's own selection speaks about the cell attributes:
    a cell of the grid is in the list iff the value read through *its attribute* passes the condition. -/
theorem C11_layer_select_reads_cell_values {s : State} (hr : Reach s) {n : String} {l : Nat}
    (hn : s.named? n = some l) {p : Int → Bool} {list : List Coord} {mask : List Bool}
    (h : layerSelect s l p = .sel list mask) {c : Coord} (hc : inBounds s.dims c = true) :
    c ∈ list ↔ ∃ v, cellGet s n c = .val v ∧ p v = true := by
  obtain ⟨_, hmem, _⟩ := C11_layer_select_exact h
  obtain ⟨h1, h2⟩ := C11_two_views_one_value hr hn hc
  rw [hmem c, hr.wf.att_dims n l hn, h1, h2]
  simp [hc]

/-- `layer.aggregate(np.sum | np.max | np.min)`: the sum is the sum of the values at the coordinates of the
    layer's shape; the maximum (minimum) is the value of some cell and no cell's value is beyond it; it is
    refused exactly for a layer without cells (numpy: zero-size array has no identity for max / min). -/
theorem C11_aggregate_exact {s : State} {l : Nat} (hl : l < s.nLayers) :
    aggregate s l .sum = .val (((cells (s.layers l).dims).map (s.value l)).sum) ∧
    (∀ hi : Bool, ∀ v, aggregate s l (if hi then .max else .min) = .val v ↔
      (∃ c ∈ cells (s.layers l).dims, s.value l c = v) ∧
      ∀ c ∈ cells (s.layers l).dims, notBeyond hi (s.value l c) v) ∧
    (∀ hi : Bool, aggregate s l (if hi then .max else .min) = .err (.value .empty) ↔
      cells (s.layers l).dims = []) := by
  have hL : s.layer? l = some (s.layers l) := by simp [State.layer?, hl]
  have hv : (fun c => s.heap (s.layers l).data c) = s.value l := rfl
  refine ⟨?_, ?_, ?_⟩
  · simp only [aggregate, hL, foldl_add_eq_sum, Int.zero_add]; rfl
  · intro hi v
    have key : aggregate s l (if hi then .max else .min) =
        match extremum hi ((cells (s.layers l).dims).map (s.value l)) with
        | some v => .val v | none => .err (.value .empty) := by
      cases hi <;> simp only [aggregate, hL] <;> rfl
    rw [key]
    constructor
    · intro h
      split at h
      · next t ht =>
        simp only [Out.val.injEq] at h
        subst h
        refine ⟨?_, ?_⟩
        · have := extremum_mem ht
          simp only [List.mem_map] at this
          exact this
        · intro c hc
          exact extremum_bound ht _ (List.mem_map_of_mem hc)
      · simp at h
    · rintro ⟨⟨c, hc, rfl⟩, hb⟩
      split
      · next t ht =>
        have hm := extremum_mem ht
        simp only [List.mem_map] at hm
        obtain ⟨c', hc', rfl⟩ := hm
        have b1 := extremum_bound ht _ (List.mem_map_of_mem hc)
        have b2 := hb c' hc'
        congr 1
        unfold notBeyond at b1 b2
        cases hi <;> simp at b1 b2 <;> omega
      · next hnone =>
        have := extremum_eq_none.mp hnone
        simp only [List.map_eq_nil_iff] at this
        rw [this] at hc
        simp at hc
  · intro hi
    have key : aggregate s l (if hi then .max else .min) =
        match extremum hi ((cells (s.layers l).dims).map (s.value l)) with
        | some v => .val v | none => .err (.value .empty) := by
      cases hi <;> simp only [aggregate, hL] <;> rfl
    rw [key]
    split
    · next t ht =>
      simp only [reduceCtorEq, false_iff]
      intro hnil
      rw [hnil] at ht
      simp [extremum] at ht
    · next hnone =>
      simp only [true_iff]
      have := extremum_eq_none.mp hnone
      simpa using this

/-! ## the grid attribute `grid.<name>` -/

/-- `grid.<name>` of a new-style grid (`HasPropertyLayers.__getattr__`) is the attached layer: for a name the user never
    assigned on the grid object itself, `grid.<name>.data` is the layer's current array — the very values the cells
    read through their attribute; a name the user did assign reads that object instead. -/
theorem C11_grid_attribute_is_layer {s : State} (h : Reach s) (hi : s.impl = .new) {n : String} {l : Nat}
    (hn : s.named? n = some l) :
    (n ∉ s.gattrs → dumpName s n = dump s l ∧ dumpName s n = .arr ((cells s.dims).map (s.value l)) ∧
      ∀ c, inBounds s.dims c = true → cellGet s n c = .val (s.value l c)) ∧
    (n ∈ s.gattrs → dumpName s n = .err .shadowed) := by
  have hw := h.wf
  have hl := hw.att_lt n l hn
  have hd := hw.att_dims n l hn
  constructor
  · intro hg
    have h1 : dumpName s n = .arr ((cells s.dims).map (s.value l)) := by
      unfold dumpName
      rw [if_neg (fun hh => hg hh.2), hn]
      simp only [hd]
      rfl
    refine ⟨?_, h1, fun c hc => ?_⟩
    · rw [h1]
      unfold dump State.layer?
      rw [if_pos hl]
      simp only [hd]
      rfl
    · obtain ⟨a, b⟩ := C11_two_views_one_value h hn hc
      rw [a, b]
  · intro hg
    unfold dumpName
    rw [if_pos ⟨hi, hg⟩]

/-- `grid.<name> = x` (`HasPropertyLayers.__setattr__`) is refused with `AttributeError` while a layer is attached
    under that name, and nothing changes. -/
theorem C11_grid_attribute_assignment_refused {s : State} (hi : s.impl = .new) {n : String}
    (hn : (s.named? n).isSome = true) : gridSet s n = (s, .err .attr) := by
  unfold gridSet
  rw [if_neg (by simp [hi]), if_pos hn]

/-- Over every history: a layer's name that is not an attribute of the grid object cannot become one while the layer
    stays attached — whatever is done in between, `grid.<name>` keeps meaning the layer. -/
theorem C11_grid_attribute_never_replaces_layer (s : State) {n : String} (hg : n ∉ s.gattrs) (ops : List Op)
    (hatt : ∀ k, k < ops.length → ((run s (ops.take k)).1.named? n).isSome = true) :
    n ∉ (run s ops).1.gattrs := by
  induction ops generalizing s with
  | nil => exact hg
  | cons op ops ih =>
    rw [run_cons_fst]
    have h0 : (s.named? n).isSome = true := hatt 0 (by simp)
    apply ih
    · rcases step_gattrs s op with e | ⟨m, _, hm, e⟩
      · rw [e]; exact hg
      · rw [e]
        intro hmem
        rcases List.mem_cons.mp hmem with rfl | hmem
        · rw [hm] at h0; simp at h0
        · exact hg hmem
    · intro k hk
      have := hatt (k + 1) (by simp; omega)
      rwa [List.take_succ_cons, run_cons_fst] at this

/-! ## one layer object on two grids -/

/-- A layer added to a second grid as well (`g2.add_property_layer(layer)`; refused exactly like on the first:
    its own `empty`, names of the cell class): the cell attribute on the second grid, the cell attribute on the
    first grid and the layer entry are one value — a read through any of them gives it, and a write through the
    second grid's cell (cast by the layer's dtype) is read back through the first grid's cells and the layer,
    changing nothing else. -/
theorem C11_shared_layer_second_grid {s : State} (h : Reach s) {l : Nat} {c : Coord} {L : Layer}
    (hok : otherGridCheck s l c = .ok L) :
    cellGet2 s l c = layerGet s l c ∧ (∀ n, s.named? n = some l → cellGet s n c = cellGet2 s l c) ∧
    ∀ w s', cellSet2 s l c w = (s', .ok) →
      layerGet s' l c = .val (w.resolve (s.dtypeOf l)) ∧ cellGet2 s' l c = .val (w.resolve (s.dtypeOf l)) ∧
      (∀ n, s.named? n = some l → cellGet s' n c = .val (w.resolve (s.dtypeOf l))) ∧
      ∀ l' c', l' < s.nLayers → (l' ≠ l ∨ c' ≠ c) → s'.value l' c' = s.value l' c' := by
  have hw := h.wf
  -- what an accepted check says
  have hchk : l < s.nLayers ∧ L = s.layers l ∧ inBounds (s.layers l).dims c = true := by
    unfold otherGridCheck at hok
    split at hok
    · simp at hok
    · split at hok
      · simp at hok
      · next L' hL =>
        obtain ⟨hlt, rfl⟩ := layer?_some hL
        split at hok
        · simp at hok
        · split at hok
          · simp at hok
          · split at hok
            · simp at hok
            · split at hok
              · simp at hok
              · next hb =>
                simp only [Except.ok.injEq] at hok
                exact ⟨hlt, hok.symm, by simpa using hb⟩
  obtain ⟨hl, rfl, hc⟩ := hchk
  have hget : cellGet2 s l c = layerGet s l c := by
    rw [layerGet_eq_value hl hc]
    unfold cellGet2
    rw [hok]
    rfl
  refine ⟨hget, fun n hn => ?_, fun w s' hset => ?_⟩
  · rw [hget, layerGet_eq_value hl hc]
    exact cellGet_eq_value hw hn (by rw [← hw.att_dims n l hn]; exact hc)
  · have hls : layerSet s l c (w.resolve (s.dtypeOf l)) = (s', .ok) := by
      unfold cellSet2 at hset
      rw [hok] at hset
      exact hset
    obtain ⟨h1, h2, h3⟩ := C11_layer_write_read_through_cell h hls
    refine ⟨h1, ?_, h2, h3⟩
    have hsh := sameShape_layerSet s l c (w.resolve (s.dtypeOf l))
    rw [hls] at hsh
    have hok' : otherGridCheck s' l c = .ok (s.layers l) := by
      unfold otherGridCheck State.layer? at hok ⊢
      rw [hsh.impl, hsh.nLayers, hsh.layers]
      exact hok
    rw [← h1]
    unfold cellGet2
    rw [hok', layerGet_eq_value (by rw [hsh.nLayers]; exact hl) (by rw [hsh.layers]; exact hc)]
    have hsl : s'.layers = s.layers := hsh.layers
    simp only [State.value, hsl]

/-! ## neighbourhood masks and their use in `select_cells(masks=…)` -/

/-- being within `r` steps is symmetric (Moore and von Neumann, torus or not, any number of dimensions) -/
theorem C11_within_radius_symmetric (moore torus : Bool) (dims : List Nat) (c c' : Coord) (r : Nat) :
    withinRadius moore torus dims c r c' = withinRadius moore torus dims c' r c := by
  have hax : ∀ n x y, axisDist torus n x y = axisDist torus n y x := by
    intro n x y
    unfold axisDist
    have : (if x ≤ y then y - x else x - y) = (if y ≤ x then x - y else y - x) := by
      split <;> split <;> omega
    simp only [this]
  have hds : ∀ (ds : List Nat) (a b : Coord), axisDists torus ds a b = axisDists torus ds b a := by
    intro ds
    induction ds with
    | nil => intro a b; cases a <;> cases b <;> rfl
    | cons n ns ih =>
      intro a b
      cases a with
      | nil => cases b <;> rfl
      | cons x xs =>
        cases b with
        | nil => rfl
        | cons y ys => simp only [axisDists, hax n x y, ih xs ys]
  unfold withinRadius
  rw [hds dims c c']

/-- `get_neighborhood_mask(c, include_center, radius)` kept as a mask: what the op leaves behind — the saved mask is
    the predicate both output forms describe, no layer value and no shape changes — and the model's *definition* of
    that predicate, spelled out: the cells of the grid within `radius` steps of `c` in the grid's metric (king moves for
    Moore, rook steps for von Neumann; the shorter way round on a torus), `c` itself iff `include_center`.  That this
    metric ball is what `get_neighborhood` enumerates is not said here: `C11_neighborhood_mask_is_hop_closure_partial`
    (Props/C11Ball.lean, against C07's model, on a sample of grids) and the oracle (against the running code). -/
theorem C11_neighborhood_mask_exact {s s' : State} {k : Nat} {moore torus : Bool} {c : Coord} {ic : Bool}
    {r : Nat} {list : List Coord} {mask : List Bool}
    (h : nbhdMask s k (some moore) torus c ic r = (s', .sel list mask)) :
    ∃ m, s'.masks.lookup k = some m ∧
      (∀ c', m c' = true ↔ inBounds s.dims c' = true ∧
        (if c' = c then ic = true else withinRadius moore torus s.dims c r c' = true)) ∧
      list = (cells s.dims).filter m ∧ mask = (cells s.dims).map m ∧
      (∀ l c', s'.value l c' = s.value l c') ∧ s'.dims = s.dims := by
  unfold nbhdMask at h
  simp only at h
  split at h
  · simp at h
  · split at h
    · simp at h
    · simp only [Prod.mk.injEq, Out.sel.injEq] at h
      obtain ⟨rfl, rfl, rfl⟩ := h
      refine ⟨_, by simp, fun c' => ?_, rfl, rfl, fun _ _ => rfl, rfl⟩
      simp only [Bool.and_eq_true]
      constructor
      · rintro ⟨h1, h2⟩
        refine ⟨h1, ?_⟩
        split <;> simp_all
      · rintro ⟨h1, h2⟩
        refine ⟨h1, ?_⟩
        split <;> simp_all

/-- A saved mask among the `masks=` of a grid selection restricts it: every selected cell satisfies that
    mask, whatever other masks, `only_empty`, conditions and extreme values are given — so selecting with a
    neighbourhood mask returns only cells of that neighbourhood (`C11_neighborhood_mask_exact`), and the extreme
    values are taken among the neighbourhood's cells that pass the other filters (`C11_select_exact`). -/
theorem C11_select_within_saved_mask {s s' : State} {k : Nat} {m : Coord → Bool} (hk : s.masks.lookup k = some m)
    {others : List MaskRef} {oe : Bool} {conds : List (String × (Int → Bool))}
    {exts : List (String × Option Bool)} {save : Option Nat} {list : List Coord} {mask : List Bool}
    (h : step s (.select (.saved k :: others) oe conds exts save) = (s', .sel list mask)) :
    ∀ c ∈ list, inBounds s.dims c = true ∧ m c = true := by
  simp only [step, resolveMasks, hk] at h
  cases hr : resolveMasks s others with
  | none => rw [hr] at h; simp at h
  | some ms =>
    rw [hr] at h
    simp only [Option.map_some] at h
    cases hsel : selectMask s ⟨m :: ms, oe, conds, exts⟩ with
    | error e => rw [hsel] at h; simp at h
    | ok m2 =>
      rw [hsel] at h
      have hl : list = (cells s.dims).filter m2 := by
        cases save <;> simp only [Prod.mk.injEq, Out.sel.injEq] at h <;> exact h.2.1.symm
      intro c hc
      rw [hl] at hc
      obtain ⟨hcc, hm2⟩ := List.mem_filter.mp hc
      have hf := ExtSpec_base ((C11_select_exact hsel hcc).mp hm2)
      exact ⟨mem_cells.mp hcc, hf.1 m (List.mem_cons_self ..)⟩

/-! ## non-vacuity: the hypotheses are satisfiable by non-trivial reachable states -/

/-- a cell space with capacity 1: a layer written through the layer, re-pointed by a conditional
    `modify_cells`, an agent placed, a reference taken before a second re-pointing -/
private def demo : State :=
  (run (init .new [2, 3] (some 1))
    [.create "a" .int 0, .layerSet 1 [1, 2] 5, .layerSet 1 [0, 0] 5, .place 7 [0, 1],
     .modifyCells 1 true (some (· + 1)) (some (fun x => decide (x > 3))), .grab 0 1,
     .modifyCells 1 true (some (· * 2)) none]).1

example : Reach demo := reach_run (Reach.init ..) _
/-- `C11_two_views_one_value` needs reachability: in a state whose descriptor registry lost the entry the dict still has,
    the cell attribute is gone while the layer is there — and after a history that adds, removes and re-adds layers
    (one of them under the name of a removed one) the two registries do agree -/
example : cellGet { init .new [1, 1] none with descr := [] } "empty" [0, 0] = .err .attr ∧
    layerGet { init .new [1, 1] none with descr := [] } 0 [0, 0] = .val 1 := by decide
example : (run (init .new [1, 2] none) [.create "a" .int 3, .newLayer "a" [1, 2] .int 5, .detach "a", .attach 2,
    .detach "empty", .cellGet "a" [0, 1]]).2.getLast? = some (.val 5) ∧
    (run (init .new [1, 2] none) [.create "a" .int 3, .newLayer "a" [1, 2] .int 5, .detach "a", .attach 2,
    .detach "empty"]).1.descr = [("a", 2)] := by decide
example : demo.named? "a" = some 1 ∧ inBounds demo.dims [1, 2] = true := by decide
example : cellGet demo "a" [1, 2] = .val 12 ∧ layerGet demo 1 [1, 2] = .val 12 ∧ hget demo 0 [1, 2] = .val 6 := by decide
example : empties demo = .emp (some [1, 0, 1, 1, 1, 1]) [true, false, true, true, true, true] := by decide
/-- ties in the extreme value are all returned; the occupied cell is excluded by `only_empty` -/
example : selectCells demo ⟨[fun _ => true], true, [("a", fun x => decide (x ≥ 0))], [("a", some true)]⟩
    = .sel [[0, 0], [1, 2]] [true, false, false, false, false, true] := by decide
example : selectCells demo ⟨[], true, [], [("a", some false)]⟩
    = .sel [[0, 2], [1, 0], [1, 1]] [false, false, true, true, true, false] := by decide
/-- a history that never writes layer 1 (`noWrite`) although it creates and re-points another layer,
    detaches and re-attaches layer 1 and moves an agent: the value written before it is still read -/
example : noWrite 1 (run (init .new [2, 2] none) [.create "a" .int 0, .cellSet "a" [0, 1] 7]).1
    [.create "b" .int 1, .modifyCells 2 true (some (· + 1)) none, .detach "a", .place 0 [0, 1], .attach 1] := by
  refine ⟨?_, ?_, ?_, ?_, ?_, trivial⟩
  · simp [Op.mayWrite]
  · simp [Op.mayWrite]
  · simp [Op.mayWrite]
  · simp only [Op.mayWrite, not_and]; intro _; decide
  · simp [Op.mayWrite]
example : cellGet (run (init .new [2, 2] none) [.create "a" .int 0, .cellSet "a" [0, 1] 7,
    .create "b" .int 1, .modifyCells 2 true (some (· + 1)) none, .detach "a", .place 0 [0, 1], .attach 1]).1 "a" [0, 1]
    = .val 7 := by decide
/-- safe histories that hold a reference to the emptiness array: a cell space whose `grid.empty.data` is grabbed, read
    after a placement (the reference is live: it shows the 0), next to a write through a reference to *another* layer;
    a SingleGrid whose `empty_mask` is grabbed and read -/
example : safeHist (init .new [2, 2] (some 1)) [.grab 5 0, .place 0 [0, 1], .hget 5 [0, 1], .create "a" .int 0, .grab 1 1,
    .hset 1 [0, 0] 7, .move 0 [1, 1], .hdump 5, .empties] := by decide
example : (run (init .new [2, 2] (some 1)) [.grab 5 0, .place 0 [0, 1], .hget 5 [0, 1], .create "a" .int 0, .grab 1 1,
    .hset 1 [0, 0] 7, .move 0 [1, 1], .hdump 5]).2.getLast? = some (.arr [1, 1, 1, 0]) := by decide
example : safeHist (init .single [2, 2] none) [.grabMask 0, .place 3 [1, 0], .hget 0 [1, 0], .remove 3, .hdump 0] := by decide
/-- … and the one thing that is excluded: `grid.empty_mask[0, 0] = False` on an empty SingleGrid is unsafe in that state,
    the view is then wrong at that cell and `only_empty` misses it -/
example : Op.safeAt (run (init .single [2, 2] none) [.grabMask 0]).1 (.hset 0 [0, 0] 0) = false ∧
    (run (init .single [2, 2] none) [.grabMask 0, .hset 0 [0, 0] 0, .empties, .select [] true [] [] none]).2 =
    [.ok, .ok, .emp (some [0, 1, 1, 1]) [true, true, true, true],
     .sel [[0, 1], [1, 0], [1, 1]] [false, true, true, true]] := by decide
/-- a capacity of 0 is a capacity (repair SC3): nobody enters, every cell stays empty; no capacity: everybody does -/
example : (run (init .new [1, 2] (some 0)) [.place 0 [0, 0], .empties]).2 =
    [.err .full, .emp (some [1, 1]) [true, true]] ∧
    (run (init .new [1, 2] none) [.place 0 [0, 0], .place 1 [0, 0], .empties]).2 =
    [.ok, .ok, .emp (some [0, 1]) [false, true]] := by decide
/-- the converse at work: the history that writes `False` into `empty_mask[0, 0]` is statically safe, the written cell is
    the only one in `aliasWrites`, and the view is indeed wrong there and right elsewhere -/
example : (∀ op ∈ [Op.grabMask 0, .hset 0 [0, 0] 0, .place 1 [1, 1]], op.safe .single = true) ∧
    aliasWrites (init .single [2, 2] none) [.grabMask 0, .hset 0 [0, 0] 0, .place 1 [1, 1]] [0, 0] ∧
    ¬ aliasWrites (init .single [2, 2] none) [.grabMask 0, .hset 0 [0, 0] 0, .place 1 [1, 1]] [1, 1] ∧
    empties (run (init .single [2, 2] none) [.grabMask 0, .hset 0 [0, 0] 0, .place 1 [1, 1]]).1 =
      .emp (some [0, 1, 1, 0]) [true, true, true, false] := by
  refine ⟨by decide, ?_, ?_, by decide⟩
  · simp [aliasWrites, step, grabMask, init]
  · simp [aliasWrites, step, grabMask, init]
/-- aliasing at work on a legacy grid: `b.data = a.data`; a write through `a` shows in `b` and in `grid.properties["b"]`;
    after `a` is re-pointed by `modify_cells` the two part again (`b` keeps the old array) -/
example : (rebind (run (init .multi [1, 2] none) [.create "a" .int 1, .create "b" .int 5, .grab 0 0]).1 1 0).2 = .ok ∧
    (run (rebind (run (init .multi [1, 2] none) [.create "a" .int 1, .create "b" .int 5, .grab 0 0]).1 1 0).1
      [.layerSet 0 [0, 1] 9, .cellGet "b" [0, 1], .modifyCells 0 false (some (· + 1)) none, .layerSet 0 [0, 0] 3,
       .dump 1, .dump 0]).2 = [.ok, .val 9, .ok, .ok, .arr [1, 9], .arr [3, 10]] := by decide
/-- legacy MultiGrid with two agents in one cell: the mask turns true only when the last one leaves -/
example : ((run (init .multi [2, 2] none) [.place 0 [0, 1], .place 1 [0, 1], .remove 0, .empties, .remove 1, .empties]).2.drop 3)
    = [.emp (some [1, 0, 1, 1]) [true, false, true, true], .ok, .emp (some [1, 1, 1, 1]) [true, true, true, true]] := by
  decide

/-- the clash rule at work on a reachable state: `is_empty` is refused, `a` is attached and read through the cell -/
example : (run (init .new [2, 2] none) [.newLayer "is_empty" [2, 2] .int 0, .attach 1, .create "a" .int 3, .cellGet "a" [1, 1],
    .cellGet "is_empty" [1, 1]]).2 = [.id 1, .err (.value .clash), .id 2, .val 3, .err .attr] := by decide
example : "is_empty" ∈ reservedNames ∧ "a" ∉ reservedNames := by decide

/-- dtypes at work on a reachable state: a float written through the cell attribute of an int layer is
    truncated toward zero (2.75 ↦ 2, -2.75 ↦ -2) and read back so through the layer; `set_cells` refuses the
    float; `modify_cells(np.add, 0.5, cond)` re-points the layer to a float array holding the same numbers
    (3 ↦ 3.5 where the condition held, 2 ↦ 2.0, -2 ↦ -2.0 elsewhere); now the same cell write is exact -/
example : (run (init .new [2, 2] none)
    [.create "a" .int 3, .cellSet "a" [0, 0] (.py ⟨.float, 11⟩), .layerGet 1 [0, 0],
     .cellSet "a" [0, 1] (.py ⟨.float, -11⟩), .cellGet "a" [0, 1],
     .setCells 1 (.py ⟨.float, 8⟩) none, .dtype 1,
     .modifyU 1 false .add ⟨.float, 2⟩ (some fun x => x == 3), .dtype 1, .dump 1,
     .cellSet "a" [0, 0] (.py ⟨.float, 11⟩), .layerGet 1 [0, 0]]).2 =
    [.id 1, .ok, .val 2, .ok, .val (-2), .err .type, .dt .int, .ok, .dt .float, .arr [8, -8, 14, 14],
     .ok, .val 11] := by decide
/-- a bool layer: any non-zero number written through a cell is `True`; `set_cells(1)` is refused, `set_cells(True)`
    is not; numpy has no `bool - bool`; `bool + int` makes it an int layer -/
example : (run (init .single [1, 2] none)
    [.create "b" .bool 0, .cellSet "b" [0, 1] (.py ⟨.float, -2⟩), .dump 0, .setCells 0 (.py ⟨.int, 1⟩) none,
     .setCells 0 (.py ⟨.bool, 1⟩) (some fun x => x == 0), .modifyU 0 false .sub ⟨.bool, 1⟩ none,
     .modifyU 0 false .add ⟨.int, 2⟩ none, .dtype 0, .dump 0]).2 =
    [.id 0, .ok, .arr [0, 1], .err .type, .ok, .err .type, .ok, .dt .int, .arr [3, 3]] := by decide
example : (⟨.float, -11⟩ : Val).ok ∧ (⟨.bool, 1⟩ : Val).ok ∧ sameKind .bool .int = true ∧ sameKind .float .int = false := by
  simp [Val.ok, sameKind, DType.rank]
/-- a history that never re-types layer 1 although it writes floats into it, re-points another layer to a
    wider dtype and re-points layer 1 itself without changing its type -/
example : noRetype 1 [.cellSet "a" [0, 0] (.py ⟨.float, 11⟩), .modifyU 2 false .add ⟨.float, 2⟩ none,
    .modifyCells 1 true (some (· + 1)) none, .setCells 1 (.py ⟨.bool, 1⟩) none] := by
  intro op hop
  simp only [List.mem_cons, List.mem_nil_iff, or_false] at hop
  rcases hop with rfl | rfl | rfl | rfl <;> simp [Op.mayRetype]

/-- `from_data` copies: the layer made from a reference to layer 1's array keeps 3 when the source cell is
    overwritten with 9, and has the source's dtype -/
example : (run (init .new [1, 2] none)
    [.create "a" .float 3, .grab 0 1, .fromData "b" 0, .hset 0 [0, 1] 9, .dump 2, .dump 1, .dtype 2, .attach 2,
     .cellGet "b" [0, 1]]).2 = [.id 1, .ok, .id 2, .ok, .arr [3, 3], .arr [3, 9], .dt .float, .ok, .val 3] := by decide
/-- legacy `modify_cell(pos, np.add, 0.5)` on an int layer keeps the integer part; `modify_cells` promotes -/
example : (run (init .multi [1, 2] none)
    [.create "a" .int 3, .modifyCellU 0 [0, 0] .add ⟨.float, 2⟩, .dump 0, .dtype 0,
     .modifyU 0 false .add ⟨.float, 2⟩ none, .dump 0, .dtype 0]).2 =
    [.id 0, .ok, .arr [3, 3], .dt .int, .ok, .arr [14, 14], .dt .float] := by decide

/-- a von Neumann torus 3×3: the radius-1 neighbourhood of the corner wraps round; selecting the highest `a`
    with that mask looks only at the neighbourhood (the 9 at the far cell [1, 1] is not seen) -/
example : (run (init .new [3, 3] none)
    [.create "a" .int 0, .layerSet 1 [1, 1] 9, .layerSet 1 [0, 1] 5, .layerSet 1 [2, 0] 5,
     .nbhdMask 0 (some false) true [0, 0] false 1,
     .select [.saved 0] false [] [("a", some true)] none]).2.drop 4 =
    [.sel [[0, 1], [0, 2], [1, 0], [2, 0]] [false, true, true, true, false, false, true, false, false],
     .sel [[0, 1], [2, 0]] [false, true, false, false, false, false, true, false, false]] := by decide

/-- a layer on two grids: written through the second grid's cell (2.75 into an int layer: 2), read through the
    first grid's cell; the second grid refuses `empty` and names of the cell class like the first -/
example : (run (init .new [2, 2] none)
    [.create "a" .int 0, .cellSet2 1 [1, 0] (.py ⟨.float, 11⟩), .cellGet "a" [1, 0], .cellGet2 1 [1, 0], .cellGet2 0 [0, 0],
     .newLayer "agents" [2, 2] .int 0, .cellSet2 2 [0, 0] 1]).2 =
    [.id 1, .ok, .val 2, .val 2, .err (.value .exists), .id 2, .err (.value .clash)] := by decide

/-- conditional `set_cells` with an array value is positional: only the cell whose *old* value is 0 takes the
    source's entry *at that cell* (7), not the first entry of the source (5) -/
example : (run (init .new [1, 3] none)
    [.create "a" .int 1, .create "b" .float 0, .layerSet 1 [0, 0] 5, .layerSet 1 [0, 2] 7, .layerSet 2 [0, 1] 4, .grab 0 1,
     .setFrom 2 0 (some fun x => x == 0), .dump 2, .grab 1 2, .setFrom 1 1 none]).2.drop 6 =
    [.ok, .arr [20, 4, 28], .ok, .err .type] := by decide

/-- 2.75 as the default of an int layer is 2 through both views; -0.5 as the default of a bool layer is True;
    True as the default of a float layer is 1.0 -/
example : (run (init .new [1, 2] none)
    [.create "a" .int (.py ⟨.float, 11⟩), .cellGet "a" [0, 1], .layerGet 1 [0, 1], .dtype 1,
     .create "b" .bool (.py ⟨.float, -2⟩), .cellGet "b" [0, 0], .create "c" .float (.py ⟨.bool, 1⟩), .dump 3]).2 =
    [.id 1, .val 2, .val 2, .dt .int, .id 2, .val 1, .id 3, .arr [4, 4]] := by decide

/-- the layer's own selection and aggregates on a reachable state: list and mask of the cells above 2, sum, max, min;
    a layer without cells has a sum (0) but no maximum -/
example : (run (init .new [1, 3] none)
    [.create "a" .int 2, .layerSet 1 [0, 1] 5, .layerSelect 1 (fun x => decide (x > 2)), .aggregate 1 .sum,
     .aggregate 1 .max, .aggregate 1 .min, .newLayer "z" [0, 2] .int 0, .aggregate 2 .sum, .aggregate 2 .max]).2.drop 2 =
    [.sel [[0, 1]] [false, true, false], .val 9, .val 5, .val 2, .id 2, .val 0, .err (.value .empty)] := by decide

/-- a free-standing layer without entries (new implementation): `np.vectorize` refuses a Python function and a condition
    (`ValueError`, nothing changes), a ufunc with its operand and an unconditional `set_cells` go through — the ufunc
    still re-types the layer — and no grid can take the layer (a second grid of its shape cannot even be built) -/
example : (run (init .new [1, 1] none)
    [.newLayer "z" [0, 2] .int 0, .modifyCells 1 true (some (· + 1)) none,
     .setCells 1 (.raw 1) (some fun x => decide (x > 0)), .modifyCells 1 false (some (· + 1)) none, .setCells 1 (.raw 1) none,
     .modifyCells 1 false none (some fun x => decide (x > 0)), .modifyCells 1 false none none,
     .modifyU 1 true .add ⟨.float, 2⟩ none, .modifyU 1 false .add ⟨.float, 2⟩ none, .dtype 1,
     .grab 0 1, .setFrom 1 0 (some fun x => x == 0), .setFrom 1 0 none,
     .cellGet2 1 [0, 0], .attach 1, .layerSelect 1 (fun x => x == 0), .dump 1]).2 =
    [.id 1, .err (.value .size0), .err (.value .size0), .ok, .ok, .err (.value .size0), .err (.value .ufunc),
     .err (.value .size0), .ok, .dt .float, .ok, .err (.value .size0), .ok,
     .err (.value .dims), .err (.value .dims), .sel [] [], .arr []] := by decide
/-- the guard theorems are not vacuous either way: the layer above has a zero dimension, an attached one has not -/
example : (0 : Nat) ∈ [0, 2] ∧ (0 : Nat) ∉ (init .new [2, 3] (some 1)).dims := by decide

/-- the code's own caveat, on a reachable state: an attribute given to the grid *before* the layer exists is not
    protected — `grid.a` then reads the user's object, while cell attribute and layer still are one value;
    after the layer exists the assignment is refused -/
example : (run (init .new [1, 2] none)
    [.gridSet "a", .create "a" .int 3, .dumpName "a", .cellGet "a" [0, 1], .create "b" .int 4, .gridSet "b",
     .dumpName "b", .detach "b", .gridSet "b"]).2 =
    [.ok, .id 1, .err .shadowed, .val 3, .id 2, .err .attr, .arr [4, 4], .ok, .ok] := by decide

end Mesa.Layers
