import MesaModel.Proofs.LayersFrame
/-!
# C11 — property layers and cell attributes are one value; selection is exact

Property theorems only (model: `Model/Layers.lean`; helper lemmas: `Proofs/Layers*.lean`).

`Reach s`: `s` is reachable from a fresh grid of either implementation (`new` = `mesa.discrete_space`,
`single` / `multi` = legacy `SingleGrid` / `MultiGrid`), of any shape and capacity, by any history of
ops: creating / attaching / detaching layers, single-cell writes through the layer or through the
cell attribute, `set_cells` / `modify_cells` with arbitrary element-wise functions and conditions,
taking and using references to `layer.data`, placing / moving / removing agents, selections.
`s.value l c` is the entry at `c` of the array layer object `l` currently points to.
-/
namespace Mesa.Layers

/-- `Reach` is exactly "the state after some history on some fresh grid". -/
theorem C11_reach_iff_history (s : State) :
    Reach s ↔ ∃ impl dims cap ops, s = (run (init impl dims cap) ops).1 := reach_iff s

/-! ## two views, one value -/

/-- After every history: the attribute `name` of every cell of the grid and the entry of the layer
    attached under `name` are the same value — whatever single-cell writes, bulk operations
    (including re-pointing `modify_cells`), additions and removals of layers came before. -/
theorem C11_two_views_one_value {s : State} (h : Reach s) {n : String} {l : Nat}
    (hn : s.named? n = some l) {c : Coord} (hc : inBounds s.dims c = true) :
    cellGet s n c = layerGet s l c ∧ layerGet s l c = .val (s.value l c) := by
  have hw := h.wf
  have h1 := cellGet_eq_value hw hn hc
  have h2 : layerGet s l c = .val (s.value l c) :=
    layerGet_eq_value (hw.att_lt n l hn) (by rw [hw.att_dims n l hn]; exact hc)
  exact ⟨h1.trans h2.symm, h2⟩

/-- A write through the cell attribute is read back through the layer (and through the cell), and it
    changes no other entry of this layer and no entry of any other layer. -/
theorem C11_cell_write_read_through_layer {s s' : State} (h : Reach s) {n : String} {l : Nat}
    (hn : s.named? n = some l) {c : Coord} {v : Int} (hset : cellSet s n c v = (s', .ok)) :
    layerGet s' l c = .val v ∧ cellGet s' n c = .val v ∧
    ∀ l' c', l' < s.nLayers → (l' ≠ l ∨ c' ≠ c) → s'.value l' c' = s.value l' c' := by
  have hw := h.wf
  have hl := hw.att_lt n l hn
  obtain ⟨hc, hs'⟩ := cellSet_ok_attached hw hn hset
  have hw' : WF s' := hw.of_sameShape (by rw [hs']; exact ⟨rfl, rfl, rfl, rfl, rfl, rfl, rfl, rfl⟩)
  have e1 : s'.nLayers = s.nLayers := by rw [hs']
  have e2 : s'.layers = s.layers := by rw [hs']
  have e3 : s'.named? n = some l := by rw [hs']; exact hn
  have e4 : s'.dims = s.dims := by rw [hs']
  have hv : ∀ l' c', l' < s.nLayers → s'.value l' c'
        = if l' = l then ((s.heap (s.layers l).data).set c v) c' else s.value l' c' := by
    intro l' c' hl'; rw [hs']; exact value_upd hw hl hl' _ c'
  have hvl := hv l c hl
  simp only [if_true, Arr.set] at hvl
  refine ⟨?_, ?_, ?_⟩
  · rw [layerGet_eq_value (by rw [e1]; exact hl) (by rw [e2, hw.att_dims n l hn]; exact hc), hvl]
  · rw [cellGet_eq_value hw' e3 (by rw [e4]; exact hc), hvl]
  · intro l' c' hl' hne
    rw [hv l' c' hl']
    split
    · next e =>
      subst e
      rcases hne with hne | hne
      · exact absurd rfl hne
      · simp [Arr.set, hne, State.value]
    · rfl

/-- A write through the layer is read back through the cell attribute of every name the layer is
    attached under, and it changes nothing else. -/
theorem C11_layer_write_read_through_cell {s s' : State} (h : Reach s) {l : Nat} {c : Coord} {v : Int}
    (hset : layerSet s l c v = (s', .ok)) :
    layerGet s' l c = .val v ∧ (∀ n, s.named? n = some l → cellGet s' n c = .val v) ∧
    ∀ l' c', l' < s.nLayers → (l' ≠ l ∨ c' ≠ c) → s'.value l' c' = s.value l' c' := by
  have hw := h.wf
  obtain ⟨hl, hc, hs'⟩ := layerSet_ok hset
  have hw' : WF s' := hw.of_sameShape (by rw [hs']; exact ⟨rfl, rfl, rfl, rfl, rfl, rfl, rfl, rfl⟩)
  have e1 : s'.nLayers = s.nLayers := by rw [hs']
  have e2 : s'.layers = s.layers := by rw [hs']
  have e3 : ∀ n, s'.named? n = s.named? n := by intro n; rw [hs']; rfl
  have e4 : s'.dims = s.dims := by rw [hs']
  have hv : ∀ l' c', l' < s.nLayers → s'.value l' c'
        = if l' = l then ((s.heap (s.layers l).data).set c v) c' else s.value l' c' := by
    intro l' c' hl'; rw [hs']; exact value_upd hw hl hl' _ c'
  have hvl := hv l c hl
  simp only [if_true, Arr.set] at hvl
  refine ⟨?_, ?_, ?_⟩
  · rw [layerGet_eq_value (by rw [e1]; exact hl) (by rw [e2]; exact hc), hvl]
  · intro n hn
    rw [cellGet_eq_value hw' (by rw [e3]; exact hn) (by rw [e4, ← hw.att_dims n l hn]; exact hc), hvl]
  · intro l' c' hl' hne
    rw [hv l' c' hl']
    split
    · next e =>
      subst e
      rcases hne with hne | hne
      · exact absurd rfl hne
      · simp [Arr.set, hne, State.value]
    · rfl

/-- A layer's values change only by an op that writes to *that* layer (`Op.mayWrite`: through the layer,
    through the cell attribute of a name attached to it, through a reference aliasing its current array,
    or — the built-in `empty` layer — by the grid when agents move).  Creating, attaching, detaching and
    re-pointing *other* layers, references, selections, agent moves leave them alone. -/
theorem C11_value_changes_only_by_writes {s : State} (h : Reach s) {l : Nat} (hl : l < s.nLayers) (op : Op)
    (hno : ¬ op.mayWrite s l) (c : Coord) : (step s op).1.value l c = s.value l c :=
  value_stable h.wf hl op hno c

/-- Read-after-write over histories: a value written through the cell attribute is read back through
    the layer *and* through the cell attribute of whatever name the layer is attached under, after any
    further history that does not write to this layer (`noWrite`) — including histories that detach and
    re-attach it, re-point other layers, move agents. -/
theorem C11_read_after_write_persists {s s1 : State} (h : Reach s) {n : String} {l : Nat}
    (hn : s.named? n = some l) {c : Coord} {v : Int} (hset : cellSet s n c v = (s1, .ok))
    (ops : List Op) (hq : noWrite l s1 ops) :
    layerGet (run s1 ops).1 l c = .val v ∧
    ∀ n', (run s1 ops).1.named? n' = some l → cellGet (run s1 ops).1 n' c = .val v := by
  have hw := h.wf
  have hl := hw.att_lt n l hn
  have hr1 : Reach s1 := by
    have := Reach.step (.cellSet n c v) h
    simp only [step] at this
    rwa [hset] at this
  obtain ⟨hc, hs1⟩ := cellSet_ok_attached hw hn hset
  have hl1 : l < s1.nLayers := by rw [hs1]; exact hl
  have hd1 : s1.dims = s.dims := by rw [hs1]
  have hv1 : s1.value l c = v := by
    have := (C11_cell_write_read_through_layer h hn hset).1
    rw [layerGet_eq_value hl1 (by rw [hs1]; show inBounds (s.layers l).dims c = true;
                                  rw [hw.att_dims n l hn]; exact hc)] at this
    injection this
  obtain ⟨hv2, hl2⟩ := value_stable_run hr1.wf hl1 ops hq c
  have hr2 := reach_run hr1 ops
  obtain ⟨hd2, hld2⟩ := shapes_run s1 ops
  have hcl : inBounds ((run s1 ops).1.layers l).dims c = true := by
    rw [hld2 l hl1, hs1]
    show inBounds (s.layers l).dims c = true
    rw [hw.att_dims n l hn]; exact hc
  refine ⟨by rw [layerGet_eq_value hl2 hcl, hv2, hv1], fun n' hn' => ?_⟩
  rw [cellGet_eq_value hr2.wf hn' (by rw [hd2, hd1]; exact hc), hv2, hv1]

/-! ## bulk operations are point-wise, also right after a re-pointing `modify_cells` -/

/-- `set_cells(v, cond)` on an existing layer always succeeds; afterwards every entry of that layer is
    `v` where the old entry satisfied the condition and the old entry elsewhere; every other layer is
    untouched; the cell attributes show exactly these values. -/
theorem C11_set_cells_pointwise {s s' : State} (h : Reach s) {l : Nat} (hl : l < s.nLayers) {v : Int}
    {cond : Option (Int → Bool)} {o : Out} (hset : setCells s l v cond = (s', o)) :
    o = .ok ∧
    (∀ l' c, l' < s.nLayers → s'.value l' c =
      if l' = l then (if condHolds cond (s.value l c) then v else s.value l c) else s.value l' c) ∧
    (∀ n c, s.named? n = some l → inBounds s.dims c = true →
      cellGet s' n c = .val (if condHolds cond (s.value l c) then v else s.value l c)) := by
  have hw := h.wf
  obtain ⟨ho, hs'⟩ := setCells_ok hl hset
  have hw' : WF s' := hw.of_sameShape (by rw [hs']; exact ⟨rfl, rfl, rfl, rfl, rfl, rfl, rfl, rfl⟩)
  have e3 : ∀ n, s'.named? n = s.named? n := by intro n; rw [hs']; rfl
  have e4 : s'.dims = s.dims := by rw [hs']
  have hv : ∀ l' c, l' < s.nLayers → s'.value l' c =
      if l' = l then (if condHolds cond (s.value l c) then v else s.value l c) else s.value l' c := by
    intro l' c hl'; rw [hs']; exact value_upd hw hl hl' _ c
  refine ⟨ho, hv, fun n c hn hc => ?_⟩
  rw [cellGet_eq_value hw' (by rw [e3]; exact hn) (by rw [e4]; exact hc), hv l c hl]
  simp

/-- `modify_cells(f, cond)` (a Python function or a ufunc with its operand) on an existing layer
    succeeds; the layer now points to a *new* array, and still: every entry is `f old` where the old
    entry satisfied the condition and `old` elsewhere, other layers are untouched, and the cell
    attributes — which go through the layer object — show exactly the new values. -/
theorem C11_modify_cells_pointwise {s s' : State} (h : Reach s) {l : Nat} (hl : l < s.nLayers)
    {f : Int → Int} {cond : Option (Int → Bool)} {o : Out}
    (hmod : modifyCells s l (some f) cond = (s', o)) :
    o = .ok ∧ (s'.layers l).data ≠ (s.layers l).data ∧
    (∀ l' c, l' < s.nLayers → s'.value l' c =
      if l' = l then (if condHolds cond (s.value l c) then f (s.value l c) else s.value l c)
      else s.value l' c) ∧
    (∀ n c, s.named? n = some l → inBounds s.dims c = true →
      cellGet s' n c = .val (if condHolds cond (s.value l c) then f (s.value l c) else s.value l c)) := by
  have hw := h.wf
  have hw' : WF s' := by
    have := WF_modifyCells hw l (some f) cond
    rwa [hmod] at this
  obtain ⟨ho, hs'⟩ := modifyCells_ok hl hmod
  have hlt := hw.data_lt l hl
  have e3 : ∀ n, s'.named? n = s.named? n := by intro n; rw [hs']; rfl
  have e4 : s'.dims = s.dims := by rw [hs']
  have hv : ∀ l' c, l' < s.nLayers → s'.value l' c =
      if l' = l then (if condHolds cond (s.value l c) then f (s.value l c) else s.value l c)
      else s.value l' c := by
    intro l' c hl'
    rw [hs']
    unfold State.value
    simp only [upd]
    by_cases e : l' = l
    · subst e; simp
    · have := hw.data_lt l' hl'
      simp only [e, if_false]
      rw [if_neg (by omega)]
  refine ⟨ho, ?_, hv, fun n c hn hc => ?_⟩
  · rw [hs']; simp only [upd_same]; omega
  · rw [cellGet_eq_value hw' (by rw [e3]; exact hn) (by rw [e4]; exact hc), hv l c hl]
    simp

/-- In place versus re-pointing: a reference to `layer.data` taken before `set_cells` sees the new
    values (it is the same array); taken before `modify_cells` it keeps the old values (the layer got a
    new array) — while layer and cell attributes agree on the new values in both cases (theorems above). -/
theorem C11_set_in_place_modify_repoints {s s' : State} (h : Reach s) {l : Nat} (hl : l < s.nLayers)
    {hd : Nat} {d : List Nat} (hh : s.handles.lookup hd = some ((s.layers l).data, d))
    {c : Coord} (hc : inBounds d c = true) :
    (∀ v cond o, setCells s l v cond = (s', o) → hget s' hd c = .val (s'.value l c)) ∧
    (∀ f cond o, modifyCells s l (some f) cond = (s', o) → hget s' hd c = .val (s.value l c)) := by
  have hw := h.wf
  constructor
  · intro v cond o hset
    obtain ⟨_, rfl⟩ := setCells_ok hl hset
    simp [hget, hh, hc, State.value]
  · intro f cond o hmod
    obtain ⟨_, rfl⟩ := modifyCells_ok hl hmod
    have hne : (s.layers l).data ≠ s.next := by have := hw.data_lt l hl; omega
    simp [hget, hh, hc, State.value, upd, hne]

/-- legacy `modify_cell(pos, f)`: that one entry becomes `f old`, nothing else changes. -/
theorem C11_modify_cell_pointwise {s s' : State} (h : Reach s) {l : Nat} {c : Coord} {f : Option (Int → Int)}
    (hm : modifyCell s l c f = (s', .ok)) :
    ∃ g, f = some g ∧ s'.value l c = g (s.value l c) ∧
    ∀ l' c', l' < s.nLayers → (l' ≠ l ∨ c' ≠ c) → s'.value l' c' = s.value l' c' := by
  have hw := h.wf
  obtain ⟨g, hf, hl, _, hs'⟩ := modifyCell_ok hm
  have hv : ∀ l' c', l' < s.nLayers → s'.value l' c' =
      if l' = l then ((s.heap (s.layers l).data).set c (g (s.heap (s.layers l).data c))) c'
      else s.value l' c' := by
    intro l' c' hl'; rw [hs']; exact value_upd hw hl hl' _ c'
  refine ⟨g, hf, ?_, ?_⟩
  · rw [hv l c hl]; simp [Arr.set, State.value]
  · intro l' c' hl' hne
    rw [hv l' c' hl']
    split
    · next e =>
      subst e
      rcases hne with hne | hne
      · exact absurd rfl hne
      · simp [Arr.set, hne, State.value]
    · rfl

/-- A write through a reference that still aliases the layer's array (`d = layer.data; d[c] = v`) is a
    write to the layer: read back through the layer and the cells, nothing else changes. -/
theorem C11_write_through_live_reference {s s' : State} (h : Reach s) {l : Nat} (hl : l < s.nLayers)
    {hd : Nat} {d : List Nat} (hh : s.handles.lookup hd = some ((s.layers l).data, d))
    {c : Coord} {v : Int} (hs : hset s hd c v = (s', .ok)) :
    s'.value l c = v ∧ (∀ n, s.named? n = some l → inBounds s.dims c = true → cellGet s' n c = .val v) ∧
    ∀ l' c', l' < s.nLayers → (l' ≠ l ∨ c' ≠ c) → s'.value l' c' = s.value l' c' := by
  have hw := h.wf
  obtain ⟨a, d', hlk, _, hs'⟩ := hset_ok hs
  rw [hh] at hlk
  simp only [Option.some.injEq, Prod.mk.injEq] at hlk
  obtain ⟨rfl, rfl⟩ := hlk
  have hw' : WF s' := hw.of_sameShape (by rw [hs']; exact ⟨rfl, rfl, rfl, rfl, rfl, rfl, rfl, rfl⟩)
  have e3 : ∀ n, s'.named? n = s.named? n := by intro n; rw [hs']; rfl
  have e4 : s'.dims = s.dims := by rw [hs']
  have hv : ∀ l' c', l' < s.nLayers → s'.value l' c' =
      if l' = l then ((s.heap (s.layers l).data).set c v) c' else s.value l' c' := by
    intro l' c' hl'; rw [hs']; exact value_upd hw hl hl' _ c'
  have hvl : s'.value l c = v := by rw [hv l c hl]; simp [Arr.set]
  refine ⟨hvl, ?_, ?_⟩
  · intro n hn hc
    rw [cellGet_eq_value hw' (by rw [e3]; exact hn) (by rw [e4]; exact hc), hvl]
  · intro l' c' hl' hne
    rw [hv l' c' hl']
    split
    · next e =>
      subst e
      rcases hne with hne | hne
      · exact absurd rfl hne
      · simp [Arr.set, hne, State.value]
    · rfl

/-! ## adding and removing layers -/

/-- `create_property_layer`: the new layer holds the default everywhere, is attached under its name,
    and no existing layer changes. -/
theorem C11_create_default {s s' : State} (h : Reach s) {n : String} {d : Int} {k : Nat}
    (hc : create s n d = (s', .id k)) :
    k = s.nLayers ∧ s'.named? n = some k ∧ (∀ c, s'.value k c = d) ∧
    ∀ l c, l < s.nLayers → s'.value l c = s.value l c := by
  have hw := h.wf
  unfold create at hc
  split at hc
  · simp at hc
  · next hchk =>
    obtain ⟨hnone, _, _⟩ := attachCheck_none hchk
    simp only [Prod.mk.injEq, Out.id.injEq] at hc
    obtain ⟨rfl, rfl⟩ := hc
    refine ⟨rfl, ?_, ?_, ?_⟩
    · show (s.attached ++ [(n, s.nLayers)]).lookup n = some s.nLayers
      simp only at hnone
      rw [List.lookup_append, hnone]
      simp
    · intro c; simp [State.value, upd]
    · intro l c hl
      have h1 : l ≠ s.nLayers := by omega
      have h2 : (s.layers l).data ≠ s.next := by have := hw.data_lt l hl; omega
      simp [State.value, upd, h1, h2]

/-- `remove_property_layer(name)`: the name disappears from the grid, every other name stays attached
    to its layer, and no layer object changes its values (the removed layer can be attached again). -/
theorem C11_detach_keeps_values {s s' : State} {n : String} (hd : detach s n = (s', .ok)) :
    s'.named? n = none ∧ (∀ n', n' ≠ n → s'.named? n' = s.named? n') ∧
    ∀ l c, s'.value l c = s.value l c := by
  unfold detach at hd
  split at hd
  · simp at hd
  · simp only [Prod.mk.injEq, and_true] at hd
    subst hd
    exact ⟨lookup_filter_self _ _, fun n' hn' => lookup_filter_ne _ _ _ hn', fun _ _ => rfl⟩

/-- `add_property_layer(layer)`: the layer's name now resolves to it, other names are unaffected, no
    values change, and the cells show the layer's current values under that name. -/
theorem C11_attach_exposes_layer {s s' : State} (h : Reach s) {l : Nat} (ha : attach s l = (s', .ok)) :
    s'.named? (s.layers l).name = some l ∧ (∀ n', n' ≠ (s.layers l).name → s'.named? n' = s.named? n') ∧
    (∀ l' c, s'.value l' c = s.value l' c) ∧
    ∀ c, inBounds s.dims c = true → cellGet s' (s.layers l).name c = .val (s.value l c) := by
  have hr' : Reach s' := by
    have := Reach.step (.attach l) h
    simp only [step] at this
    rwa [ha] at this
  have hnamed : s'.named? (s.layers l).name = some l ∧
      (∀ n', n' ≠ (s.layers l).name → s'.named? n' = s.named? n') ∧
      (∀ l' c, s'.value l' c = s.value l' c) ∧ s'.dims = s.dims := by
    unfold attach at ha
    split at ha
    · simp at ha
    · next L hL =>
      obtain ⟨_, rfl⟩ := layer?_some hL
      split at ha
      · simp at ha
      · next hchk =>
        obtain ⟨hnone, _, _⟩ := attachCheck_none hchk
        simp only [Prod.mk.injEq, and_true] at ha
        subst ha
        refine ⟨?_, ?_, fun _ _ => rfl, rfl⟩
        · show (s.attached ++ [((s.layers l).name, l)]).lookup (s.layers l).name = some l
          rw [List.lookup_append, hnone]
          simp
        · intro n' hn'
          show (s.attached ++ [((s.layers l).name, l)]).lookup n' = s.attached.lookup n'
          rw [List.lookup_append]
          have : (n' == (s.layers l).name) = false := by simpa using hn'
          simp [List.lookup_cons, this]
  obtain ⟨h1, h2, h3, h4⟩ := hnamed
  refine ⟨h1, h2, h3, fun c hc => ?_⟩
  rw [cellGet_eq_value hr'.wf h1 (by rw [h4]; exact hc), h3]

/-! ## the clash rule of `add_property_layer`, re-proved against the source on every check

`reservedNames` is built from `Gen/LayersTables.lean`, which the harness rewrites from `cell.py` / `grid.py`
of the checked tree before every build; the `decide`s below are therefore about the code as it is *now*. -/

/-- The names the model refuses as layer names — what the *source* of `class Cell` (slots, methods,
    properties, class attributes) and of the dynamic `GridCell` class defines, plus what Python gives every
    class — are exactly the attributes the running code reports for the grid's cell class
    (`dir(grid.cell_klass)`, layer descriptors removed): `name ∈ reservedNames` is
    `hasattr(self.cell_klass, name)`. -/
theorem C11_reserved_names_are_cell_class_attributes (n : String) :
    n ∈ reservedNames ↔ n ∈ Gen.cellKlassProbe := by
  have h1 : reservedNames.all (fun x => decide (x ∈ Gen.cellKlassProbe)) = true := by decide
  have h2 : Gen.cellKlassProbe.all (fun x => decide (x ∈ reservedNames)) = true := by decide
  rw [List.all_eq_true] at h1 h2
  exact ⟨fun h => by simpa using h1 n h, fun h => by simpa using h2 n h⟩

/-- Every name through which a cell takes part in occupancy, emptiness and neighbourhoods (what the model's
    `place` / `move` / `remove` / `isEmptyCell` stand for: `Cell.add_agent`, `remove_agent`, `agents`, `_agents`,
    `is_empty`, `is_full`, `capacity`, `coordinate`, `connections`, `neighborhood`, …) is reserved, so no layer
    can shadow it (defect PL1), while `empty` — the name `Grid.__init__` itself gives its built-in layer — is
    free. -/
theorem C11_cell_protocol_names_reserved :
    (∀ n ∈ ["_agents", "agents", "add_agent", "remove_agent", "is_empty", "is_full", "capacity", "coordinate",
            "connections", "connect", "disconnect", "neighborhood", "get_neighborhood", "random",
            "_mesa_properties", "__dict__", "__class__", "__init__"], n ∈ reservedNames) ∧
    "empty" ∉ reservedNames := by
  decide

/-- The built-in layer is an ordinary one: a fresh grid *is* the layer-less grid after
    `create_property_layer("empty", True, bool)`, a call the clash rule lets through. -/
theorem C11_builtin_empty_is_created_layer (dims : List Nat) (cap : Nat) :
    create { init .new dims cap with next := 0, nLayers := 0, attached := [] } "empty" 1
      = (init .new dims cap, .id 0) := by
  have hfree : "empty" ∉ reservedNames := C11_cell_protocol_names_reserved.2
  unfold create attachCheck
  simp only [init, State.named?, List.lookup_nil, Option.isSome_none, ne_eq, not_true_eq_false,
    if_false, Bool.false_eq_true, hfree, if_true, List.nil_append, Nat.zero_add, Prod.mk.injEq, and_true]
  congr 1
  · funext j; simp [upd]
  · funext j; simp [upd]

/-- After every history on a cell space: a name of the cell class is never attached as a layer — every
    `add_property_layer` of a layer so named is refused and changes nothing — and, the other way round,
    whatever is attached is not a name of the cell class, so the cell attribute of that name *is* the layer
    entry (never the method or property of `Cell`). -/
theorem C11_layer_never_shadows_cell_attribute {s : State} (h : Reach s) (hi : s.impl = .new) :
    (∀ n ∈ reservedNames, s.named? n = none ∧
      ∀ lid, lid < s.nLayers → (s.layers lid).name = n → ∃ w, attach s lid = (s, .err (.value w))) ∧
    (∀ n l, s.named? n = some l → n ∉ reservedNames ∧
      ∀ c, inBounds s.dims c = true → cellGet s n c = .val (s.value l c)) := by
  have hw := h.wf
  refine ⟨fun n hn => ⟨?_, fun lid hl hname => ?_⟩, fun n l hnl => ⟨hw.att_free hi n l hnl, fun c hc => ?_⟩⟩
  · cases hx : s.named? n with
    | none => rfl
    | some l => exact absurd hn (hw.att_free hi n l hx)
  · have hchk : ∃ w, attachCheck s (s.layers lid) = some w := by
      unfold attachCheck
      simp only [hi, hname]
      split
      · exact ⟨_, rfl⟩
      · split
        · exact ⟨_, rfl⟩
        · exact ⟨.clash, rfl⟩
    obtain ⟨w, hchk⟩ := hchk
    refine ⟨w, ?_⟩
    unfold attach State.layer?
    simp [hl, hchk]
  · exact cellGet_eq_value hw hnl hc

/-! ## the emptiness layer / mask is actual emptiness -/

/-- After every history in which the user does not himself overwrite, re-point, alias or remove the
    built-in `empty` layer (`Op.safe`; the legacy mask cannot be touched at all): the emptiness view
    (`grid.empty.data` / `grid.empty_mask`, the array `only_empty` uses) is 1 exactly at the cells no
    agent is in and 0 elsewhere — through any interleaving of placements, moves and removals with layer
    operations, for SingleGrid, MultiGrid (several agents per cell) and cell spaces with capacities. -/
theorem C11_empty_view_is_emptiness (impl : Impl) (dims : List Nat) (cap : Nat) (ops : List Op)
    (hs : ∀ op ∈ ops, op.safe impl = true) :
    ∃ e, (run (init impl dims cap) ops).1.emptyArr? = some e ∧
      ∀ c, e c = boolInt ((run (init impl dims cap) ops).1.isEmptyCell c) := by
  have hinv := Inv_run (WF_init impl dims cap) (EmpInv_init impl dims cap) ops hs
  refine ⟨(run (init impl dims cap) ops).1.heap 0, ?_, hinv.view⟩
  unfold State.emptyArr?
  split
  · next hi =>
    obtain ⟨h1, h2, _⟩ := hinv.named hi
    simp [State.namedArr?, State.named?, h1, h2]
  · rfl

/-- the two read-outs of the `empties` op (view and actual emptiness) coincide after such a history -/
theorem C11_empties_readout_agrees (impl : Impl) (dims : List Nat) (cap : Nat) (ops : List Op)
    (hs : ∀ op ∈ ops, op.safe impl = true) :
    empties (run (init impl dims cap) ops).1 =
      .emp (some (((cells (run (init impl dims cap) ops).1.dims).map
              (run (init impl dims cap) ops).1.isEmptyCell).map boolInt))
           ((cells (run (init impl dims cap) ops).1.dims).map (run (init impl dims cap) ops).1.isEmptyCell) := by
  obtain ⟨e, he, hv⟩ := C11_empty_view_is_emptiness impl dims cap ops hs
  have hfun : e = fun c => boolInt ((run (init impl dims cap) ops).1.isEmptyCell c) := funext hv
  unfold empties
  unfold State.emptyArr? at he
  split
  · next hi =>
    rw [hi] at he
    simp only at he
    rw [he, hfun]
    simp [List.map_map, Function.comp_def]
  · next hi =>
    have : some ((run (init impl dims cap) ops).1.heap 0) = some e := by
      cases hx : (run (init impl dims cap) ops).1.impl <;> simp [hx] at he hi ⊢ <;> exact he
    simp only [Option.some.injEq] at this
    rw [this, hfun]
    simp [List.map_map, Function.comp_def]

/-! ## `select_cells` is exact -/

/-- the coordinate list of a grid is exactly the in-bounds coordinates, each once -/
theorem C11_cells_exact (dims : List Nat) :
    (∀ c, c ∈ cells dims ↔ inBounds dims c = true) ∧ (cells dims).Nodup :=
  ⟨fun _ => mem_cells, cells_nodup dims⟩

/-- The filters that come before the extreme values: every mask, the `only_empty` flag, every condition. -/
def Query.filters (s : State) (q : Query) (c : Coord) : Prop :=
  (∀ k ∈ q.masks, k c = true) ∧
  (q.onlyEmpty = true → ∃ e, s.emptyArr? = some e ∧ e c ≠ 0) ∧
  (∀ np ∈ q.conds, ∃ a, s.namedArr? np.1 = some a ∧ np.2 (a c) = true)

/-- `select_cells` (any state, any combination of arguments): a cell of the grid is selected iff it
    passes every mask, the `only_empty` flag and every condition, and — for each `extreme_values` entry
    in turn — its property value is the highest / lowest among the cells of the grid that pass these
    filters and the entries before it (`ExtSpec`, defined without reference to the code's computation). -/
theorem C11_select_exact {s : State} {q : Query} {m : Coord → Bool} (h : selectMask s q = .ok m)
    {c : Coord} (hc : c ∈ cells s.dims) :
    m c = true ↔ ExtSpec s q.extremes (q.filters s) c := by
  unfold selectMask at h
  split at h
  · simp at h
  · next m1 h1 =>
    split at h
    · simp at h
    · next m2 h2 =>
      rw [applyExtremes_spec s _ _ _ h c hc]
      apply ExtSpec_congr _ hc
      intro c' _
      rw [applyConds_spec s _ _ _ h2 c']
      unfold emptyStage at h1
      unfold Query.filters
      split at h1
      · next hoe =>
        split at h1
        · simp at h1
        · next e he =>
          simp only [Except.ok.injEq] at h1
          subst h1
          simp only [Bool.and_eq_true, applyMasks_spec, true_and, bne_iff_ne, ne_eq, hoe, he,
            Option.some.injEq, exists_eq_left', forall_const]
          constructor
          · rintro ⟨⟨a, b⟩, d⟩; exact ⟨a, b, d⟩
          · rintro ⟨a, b, d⟩; exact ⟨⟨a, b⟩, d⟩
      · next hoe =>
        simp only [Except.ok.injEq] at h1
        subst h1
        simp only [applyMasks_spec, true_and, hoe, Bool.false_eq_true, false_implies, true_and]

/-- without extreme values: exactly the cells passing all filters -/
theorem C11_select_filters_only {s : State} {q : Query} {m : Coord → Bool} (h : selectMask s q = .ok m)
    (hx : q.extremes = []) {c : Coord} (hc : c ∈ cells s.dims) : m c = true ↔ q.filters s c := by
  rw [C11_select_exact h hc, hx]; rfl

/-- one extreme value, in the words of the property: the selected cells are those that pass the other
    filters and whose value is the highest (lowest) *among the cells that pass the other filters* —
    all of them, so ties are all returned. -/
theorem C11_select_one_extreme {s : State} {q : Query} {m : Coord → Bool} (h : selectMask s q = .ok m)
    {n : String} {hi : Bool} (hx : q.extremes = [(n, some hi)]) {c : Coord} (hc : c ∈ cells s.dims) :
    m c = true ↔ ∃ a, s.namedArr? n = some a ∧ q.filters s c ∧
      ∀ c' ∈ cells s.dims, q.filters s c' → notBeyond hi (a c') (a c) := by
  rw [C11_select_exact h hc, hx]
  simp only [ExtSpec, Option.some.injEq, exists_and_left, exists_eq_left']

/-- list form and mask form describe the same cells: the list is exactly the coordinates, in row-major
    order and without repetition, at which the mask form is true. -/
theorem C11_select_list_is_mask {s : State} {q : Query} {list : List Coord} {mask : List Bool}
    (h : selectCells s q = .sel list mask) :
    list = (((cells s.dims).zip mask).filter (·.2)).map (·.1) ∧ mask.length = (cells s.dims).length ∧
    list.Nodup ∧ ∀ c ∈ list, inBounds s.dims c = true := by
  unfold selectCells at h
  split at h
  · simp at h
  · next m _ =>
    simp only [Out.sel.injEq] at h
    obtain ⟨rfl, rfl⟩ := h
    refine ⟨filter_eq_of_zip_map _ _, by simp, (cells_nodup s.dims).sublist List.filter_sublist, ?_⟩
    intro c hc
    exact mem_cells.mp (List.mem_filter.mp hc).1

/-- `only_empty=True` selects only cells that are actually empty, and misses none: after a history
    that leaves the built-in layer alone, the `only_empty` filter of `select_cells` is *exactly* "no agent
    is in the cell" (this is what defect S16 — and S1 for MultiGrid — broke). -/
theorem C11_only_empty_is_actual_emptiness (impl : Impl) (dims : List Nat) (cap : Nat) (ops : List Op)
    (hs : ∀ op ∈ ops, op.safe impl = true) (q : Query) (hq : q.onlyEmpty = true) (c : Coord) :
    q.filters (run (init impl dims cap) ops).1 c ↔
      (∀ k ∈ q.masks, k c = true) ∧ (run (init impl dims cap) ops).1.isEmptyCell c = true ∧
      (∀ np ∈ q.conds, ∃ a, (run (init impl dims cap) ops).1.namedArr? np.1 = some a ∧ np.2 (a c) = true) := by
  obtain ⟨e, he, hv⟩ := C11_empty_view_is_emptiness impl dims cap ops hs
  unfold Query.filters
  simp only [hq, he, Option.some.injEq, exists_eq_left', forall_const, hv c, boolInt]
  constructor
  · rintro ⟨a, b, d⟩
    refine ⟨a, ?_, d⟩
    cases hx : (run (init impl dims cap) ops).1.isEmptyCell c <;> simp [hx] at b ⊢
  · rintro ⟨a, b, d⟩
    exact ⟨a, by simp [b], d⟩

/-! ## non-vacuity: the hypotheses are satisfiable by non-trivial reachable states -/

/-- a cell space with capacity 1: a layer written through the layer, re-pointed by a conditional
    `modify_cells`, an agent placed, a reference taken before a second re-pointing -/
private def demo : State :=
  (run (init .new [2, 3] 1)
    [.create "a" 0, .layerSet 1 [1, 2] 5, .layerSet 1 [0, 0] 5, .place 7 [0, 1],
     .modifyCells 1 (some (· + 1)) (some (fun x => decide (x > 3))), .grab 0 1,
     .modifyCells 1 (some (· * 2)) none]).1

example : Reach demo := reach_run (Reach.init ..) _
example : demo.named? "a" = some 1 ∧ inBounds demo.dims [1, 2] = true := by decide
example : cellGet demo "a" [1, 2] = .val 12 ∧ layerGet demo 1 [1, 2] = .val 12 ∧ hget demo 0 [1, 2] = .val 6 := by decide
example : empties demo = .emp (some [1, 0, 1, 1, 1, 1]) [true, false, true, true, true, true] := by decide
/-- ties in the extreme value are all returned; the occupied cell is excluded by `only_empty` -/
example : selectCells demo ⟨[fun _ => true], true, [("a", fun x => decide (x ≥ 0))], [("a", some true)]⟩
    = .sel [[0, 0], [1, 2]] [true, false, false, false, false, true] := by decide
example : selectCells demo ⟨[], true, [], [("a", some false)]⟩
    = .sel [[0, 2], [1, 0], [1, 1]] [false, false, true, true, true, false] := by decide
/-- a history that never writes layer 1 (`noWrite`) although it creates and re-points another layer,
    detaches and re-attaches layer 1 and moves an agent: the value written before it is still read -/
example : noWrite 1 (run (init .new [2, 2] 0) [.create "a" 0, .cellSet "a" [0, 1] 7]).1
    [.create "b" 1, .modifyCells 2 (some (· + 1)) none, .detach "a", .place 0 [0, 1], .attach 1] := by
  refine ⟨?_, ?_, ?_, ?_, ?_, trivial⟩
  · simp [Op.mayWrite]
  · simp [Op.mayWrite]
  · simp [Op.mayWrite]
  · simp only [Op.mayWrite, not_and]; intro _; decide
  · simp [Op.mayWrite]
example : cellGet (run (init .new [2, 2] 0) [.create "a" 0, .cellSet "a" [0, 1] 7,
    .create "b" 1, .modifyCells 2 (some (· + 1)) none, .detach "a", .place 0 [0, 1], .attach 1]).1 "a" [0, 1]
    = .val 7 := by decide
/-- legacy MultiGrid with two agents in one cell: the mask turns true only when the last one leaves -/
example : ((run (init .multi [2, 2] 0) [.place 0 [0, 1], .place 1 [0, 1], .remove 0, .empties, .remove 1, .empties]).2.drop 3)
    = [.emp (some [1, 0, 1, 1]) [true, false, true, true], .ok, .emp (some [1, 1, 1, 1]) [true, true, true, true]] := by
  decide

/-- the clash rule at work on a reachable state: `is_empty` is refused, `a` is attached and read through the cell -/
example : (run (init .new [2, 2] 0) [.newLayer "is_empty" [2, 2] 0, .attach 1, .create "a" 3, .cellGet "a" [1, 1],
    .cellGet "is_empty" [1, 1]]).2 = [.id 1, .err (.value .clash), .id 2, .val 3, .err .attr] := by decide
example : "is_empty" ∈ reservedNames ∧ "a" ∉ reservedNames := by decide

end Mesa.Layers
