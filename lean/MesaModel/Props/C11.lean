import MesaModel.Model.Layers
