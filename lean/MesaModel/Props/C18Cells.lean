import MesaModel.Props.C06
/-!
# C18 (cell spaces) — a placing / moving call that raises leaves the state unchanged

Lemmas for the C18 assembly.  "Placing calls" (`Op.placing`): `a.cell = c` / `a.cell = None` for
CellAgents, Grid2DMovingAgents and FixedAgents, `move_to`, `move_relative`, `Grid2DMovingAgent.move`.
They are rejected with: `Full` (target cell full — S11, S12), `NoCell` (no cell in that direction, also
after j steps of a k-step move — S13), `Fixed` (second cell for a FixedAgent), `Value` (unknown direction
name), `Attr` (the agent has no cell / its class lacks the method), `Key` (coordinate is no cell),
`NoAgent`.  The state compared is the *whole* model state: every cell's agent list (with order), every
`empty` flag, every agent's cell, the registry, the search strategy.
`Inv sp s` holds at every reachable state (`C06_invariant_all_histories`).
-/
namespace Mesa.Cells

/-- `a.cell = …` (CellAgent, Grid2DMovingAgent: S11; FixedAgent: S12) that raises changes nothing. -/
theorem C18_cells_setCell_reject_unchanged {sp : Space} {s : State} (h : Inv sp s) (a : Aid) (tgt : Option Cid)
    {e : Err} (he : (step sp s (.setCell a tgt)).2 = .err e) : (step sp s (.setCell a tgt)).1 = s :=
  step_reject_unchanged h _ rfl he

/-- `a.move_to(c)` that raises changes nothing. -/
theorem C18_cells_moveTo_reject_unchanged {sp : Space} {s : State} (h : Inv sp s) (a : Aid) (c : Cid)
    {e : Err} (he : (step sp s (.moveTo a c)).2 = .err e) : (step sp s (.moveTo a c)).1 = s :=
  step_reject_unchanged h _ rfl he

/-- `a.move_relative(d)` that raises (no cell in that direction, or the cell there is full) changes nothing. -/
theorem C18_cells_moveRelative_reject_unchanged {sp : Space} {s : State} (h : Inv sp s) (a : Aid) (d : Key)
    {e : Err} (he : (step sp s (.moveRel a d)).2 = .err e) : (step sp s (.moveRel a d)).1 = s :=
  step_reject_unchanged h _ rfl he

/-- `Grid2DMovingAgent.move(dir, k)` that raises — unknown direction, running off the space after any number
    of the k steps (S13), destination full — changes nothing. -/
theorem C18_cells_gridMove_reject_unchanged {sp : Space} {s : State} (h : Inv sp s) (a : Aid) (dir : String)
    (k : Int) {e : Err} (he : (step sp s (.gridMove a dir k)).2 = .err e) :
    (step sp s (.gridMove a dir k)).1 = s :=
  step_reject_unchanged h _ rfl he

/-- outputs of a history -/
def trace (sp : Space) (s : State) : List Op → List Res
  | [] => []
  | op :: ops => (step sp s op).2 :: trace sp (step sp s op).1 ops

/-- At every state reachable by any history, a placing call that raises can be deleted from the history:
    the final state and all later outputs are those of the history without it. -/
theorem C18_cells_rejected_call_is_noop {sp : Space} (hsp : SpaceOK sp) {s : State} (hr : Reachable sp s)
    (op : Op) (hp : op.placing = true) {e : Err} (he : (step sp s op).2 = .err e) (later : List Op) :
    run sp s (op :: later) = run sp s later ∧ trace sp s (op :: later) = .err e :: trace sp s later := by
  have hs := step_reject_unchanged (reachable_inv hsp hr) op hp he
  simp only [run, trace, hs, he]
  exact ⟨trivial, trivial⟩

/-- outputs of a history with connection edits -/
def dtrace (sp : Space) (s : State) : List DOp → List Res
  | [] => []
  | o :: os => (dstep sp s o).2 :: dtrace (dstep sp s o).1.1 (dstep sp s o).1.2 os

/-- The same with connection edits among the later operations (`Cell.connect` / `Cell.disconnect`): deleting the rejected
    call changes neither the final space and state nor any later output. -/
theorem C18_cells_rejected_call_is_noop_with_edits {sp : Space} (hsp : SpaceOK sp) {s : State} (hr : Reachable sp s)
    (op : Op) (hp : op.placing = true) {e : Err} (he : (step sp s op).2 = .err e) (later : List DOp) :
    drun sp s (.op op :: later) = drun sp s later ∧ dtrace sp s (.op op :: later) = .err e :: dtrace sp s later := by
  have hs := step_reject_unchanged (reachable_inv hsp hr) op hp he
  simp only [drun, dtrace, dstep, hs, he]
  exact ⟨trivial, trivial⟩

/-! ### non-vacuity: each rejection occurs (the S11 / S12 / S13 witnesses on the repaired semantics) -/

private def g : Space := gridSpace .moore [3, 3] false (some 1)
private def pre : List Op :=
  [.new .cell, .new .fixed, .new .grid2d, .new .fixed, .setCell 0 (some [0, 0]), .setCell 1 (some [1, 1]),
   .setCell 2 (some [2, 0])]
private def st : State := run g (init g) pre
example : Inv g st := C06_invariant_all_histories (gridSpace_ok _ _ _ _ (by simp)) pre
example : (step g st (.setCell 0 (some [1, 1]))).2 = .err .full := by decide          -- S11
example : (step g st (.setCell 3 (some [1, 1]))).2 = .err .full := by decide          -- S12
example : (step g st (.setCell 1 (some [2, 2]))).2 = .err .fixed := by decide
example : (step g st (.gridMove 2 "up" 5)).2 = .err .noCell := by decide               -- S13 (3rd step)
example : (step g st (.gridMove 2 "NE" 1)).2 = .err .full := by decide
example : (step g st (.moveRel 0 [-1, 0])).2 = .err .noCell := by decide
example : (step g st (.gridMove 2 "up" 2)).2 = .err .full := by decide               -- destination occupied
example : (step g st (.gridMove 2 "e" 2)).2 = .ok ∧ (step g st (.gridMove 2 "e" 2)).1.cellOf 2 = some [2, 2] := by
  decide

-- … and with a connection edit after the rejected call: the edit and the later move behave as if the call had never been made
example : (drun g st [.op (.setCell 0 (some [1, 1])), .connect [0, 0] [2, 2] (some [5, 5]), .op (.moveRel 0 [5, 5])]).2.cellOf 0 = some [2, 2] ∧
    (drun g st [.connect [0, 0] [2, 2] (some [5, 5]), .op (.moveRel 0 [5, 5])]).2.cellOf 0 = some [2, 2] ∧
    dtrace g st [.op (.setCell 0 (some [1, 1])), .connect [0, 0] [2, 2] (some [5, 5]), .op (.moveRel 0 [5, 5])] = [.err .full, .ok, .ok] := by
  decide

end Mesa.Cells
