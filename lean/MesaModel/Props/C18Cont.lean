import MesaModel.Proofs.ContExp
/-!
# C18 (continuous spaces) — a rejected placement / move / removal / position assignment changes nothing

Lemmas for the continuous-space part of C18 (assembled with the other subsystems elsewhere).
Model: `Model/Cont.lean` (legacy `ContinuousSpace` after repair S3, experimental position setter and `+=`
after repair CS2).
A call that raises either returns no new state at all (`Except`: the caller keeps the state it had), or —
for `move_agent`, which can raise *after* writing — returns the state explicitly; in both cases the lemmas
show that the state after the call (`lstep` / `estep`: the caller catches the exception and carries on)
is the state before it, so every later call and observation is as if the call had never been made.
-/
namespace Mesa.Cont

/-- Legacy `place_agent` outside a bounded space: `Exception`, and nothing changed — the agent is not
    registered, the cache is not invalidated, no position is written.  It is rejected exactly for a
    point outside the bounds of a non-toroidal space. -/
theorem C18_cont_place_reject_unchanged (s : LSpace) (a : Aid) (p : P2) (e : Err)
    (h : place s a p = .error e) :
    lstep s (.place a p) = s ∧ e = .oob ∧ oob s.cfg p = true ∧ s.cfg.torus = false := by
  refine ⟨by simp [lstep, h], ?_⟩
  unfold place torusAdj at h
  cases ho : oob s.cfg p <;> cases ht : s.cfg.torus <;> simp [ho, ht] at h
  exact ⟨h.symm, rfl, rfl⟩

/-- Legacy `move_agent` outside a bounded space: rejected before anything is written. -/
theorem C18_cont_move_reject_unchanged (s : LSpace) (a : Aid) (p : P2)
    (h : (move s a p).2 = .error .oob) :
    (move s a p).1 = s ∧ lstep s (.move a p) = s ∧ oob s.cfg p = true ∧ s.cfg.torus = false := by
  have hm : (move s a p).1 = s ∧ oob s.cfg p = true ∧ s.cfg.torus = false := by
    cases hp : torusAdj s.cfg p with
    | error e =>
      have he : move s a p = (s, .error e) := by simp [move, hp]
      rw [he] at h ⊢
      unfold torusAdj at hp
      cases ho : oob s.cfg p <;> cases ht : s.cfg.torus <;> simp [ho, ht] at hp
      exact ⟨rfl, rfl, rfl⟩
    | ok p' =>
      exfalso
      unfold move at h
      simp only [hp] at h
      split at h
      · simp at h
      · split at h
        · simp at h
        · simp at h
        · split at h <;> simp at h
  exact ⟨hm.1, hm.1, hm.2⟩

/-- Legacy `remove_agent` of an agent that is not in the space: `Exception`, nothing changed. -/
theorem C18_cont_remove_reject_unchanged (s : LSpace) (a : Aid) (e : Err) (h : remove s a = .error e) :
    lstep s (.remove a) = s ∧ e = .notIn ∧ a ∉ s.agents := by
  refine ⟨by simp [lstep, h], ?_⟩
  unfold remove at h
  split at h
  · rename_i hc; simp at h; exact ⟨h.symm, by simpa [LSpace.agents] using hc⟩
  · simp at h

/-- Experimental `agent.position = value` outside a bounded space: `ValueError` before the array is
    written; it is rejected exactly when the value is out of bounds and the space is not a torus. -/
theorem C18_cont_setpos_reject_unchanged (s : ESpace) (a : Aid) (p : Pos)
    (h : agentSet s a p = .error .oob) :
    estep s (.set a p) = s ∧ inBounds s.cfg.dims p = false ∧ s.cfg.torus = false := by
  refine ⟨by simp [estep, h], ?_⟩
  unfold agentSet at h
  split at h
  · cases h
  unfold setPos at h
  cases hb : inBounds s.cfg.dims p <;> cases ht : s.cfg.torus
  · exact ⟨rfl, rfl⟩
  all_goals
    exfalso
    simp only [hb, ht, Bool.false_eq_true, if_true, if_false] at h
    split at h
    · simp at h
    · split at h <;> simp at h

/-- The setter with the state returned also on an exception (`agentSetW false`, what the driver runs) is `agentSet`: its
    state is the state `estep` carries on with, its result the result of `agentSet`; likewise for a value of any length. -/
theorem C18_cont_setpos_stepwise (s : ESpace) (a : Aid) (p : Pos) :
    agentSetW false s a p = (estep s (.set a p), (agentSet s a p).map (fun _ => ())) ∧
    agentSetVW false s a p = (estepV s (.set a p), (agentSetV s a p).map (fun _ => ())) := by
  have h1 : ∀ q, agentSetW false s a q = (estep s (.set a q), (agentSet s a q).map (fun _ => ())) := by
    intro q
    unfold agentSetW estep agentSet
    cases hg : s.gone a
    · simp only [Bool.false_eq_true, if_false]
      cases hb : inBounds s.cfg.dims q <;> cases ht : s.cfg.torus
      · simp [setPos, hb, ht, hg, Except.map]
      all_goals
        simp only [Bool.or_true, Bool.or_false, if_true]
        cases hs : setPos s a q <;> simp [hg, Except.map]
    · simp [hg, Except.map]
  refine ⟨h1 p, ?_⟩
  unfold agentSetVW estepV agentSetV
  cases hg : s.gone a
  · simp only [Bool.false_eq_true, if_false]
    cases hb : bcast s.nd p with
    | error e => simp [hg, Except.map]
    | ok q =>
      simp only [h1 q, estep, agentSet, hg, Bool.false_eq_true, if_false]
  · simp [hg, Except.map]

/-- Experimental `agent.position = value` that raises — whatever the exception: the state the call leaves behind
    (`agentSetW` returns it also on an exception) is the state before the call.  With a setter that stores the value before
    validating it (`writeFirst = true`) this is false: `C18_cont_setpos_write_first_refuted`. -/
theorem C18_cont_setpos_reject_state (s : ESpace) (a : Aid) (p : Pos) (e : Err)
    (h : (agentSetW false s a p).2 = .error e) :
    (agentSetW false s a p).1 = s ∧ estep s (.set a p) = s ∧ agentSet s a p = .error e := by
  have hst := (C18_cont_setpos_stepwise s a p).1
  have he : agentSet s a p = .error e := by
    rw [hst] at h
    cases hr : agentSet s a p with
    | error e' => rw [hr] at h; simpa [Except.map] using h
    | ok s' => rw [hr] at h; simp [Except.map] at h
  have hs : estep s (.set a p) = s := by simp [estep, he]
  exact ⟨by rw [hst]; exact hs, hs, he⟩

/-- A setter that writes the row first and validates afterwards violates it: in the box `[0,1]²` the agent at (1/64, 1/64) is
    assigned (65/64, 0); the call raises `ValueError` and the agent reports (65/64, 0), outside the space. -/
theorem C18_cont_setpos_write_first_refuted :
    ∃ (s : ESpace) (a : Aid) (p : Pos), (agentSetW true s a p).2 = .error .oob ∧
      agentGet s a = .ok [1, 1] ∧ agentGet (agentSetW true s a p).1 a = .ok [65, 0] ∧
      inBounds s.cfg.dims [65, 0] = false ∧ (agentSetW false s a p).2 = .error .oob ∧ (agentSetW false s a p).1 = s :=
  ⟨erun { dims := [(0, 64), (0, 64)], torus := false } 0 [.new 1, .set 1 [1, 1]], 1, [65, 0],
    by rfl, by rfl, by rfl, by rfl, by rfl, (C18_cont_setpos_reject_state _ _ _ _ (by rfl)).1⟩

/-- `agent.position += v` statement by statement (`agentIaddW false`: getter = a copy, `+=` on the copy, setter) is the
    assignment of position + v: its state is the state `estep` carries on with and its result the result of `agentIadd`;
    likewise for a `v` of any length.  (So every theorem about `.iadd` steps is about the three statements the code runs.) -/
theorem C18_cont_iadd_stepwise (s : ESpace) (a : Aid) (v : Pos) :
    agentIaddW false s a v = (estep s (.iadd a v), (agentIadd s a v).map (fun _ => ())) ∧
    agentIaddVW false s a v = (estepV s (.iadd a v), (agentIaddV s a v).map (fun _ => ())) := by
  have h1 : agentIaddW false s a v = (estep s (.iadd a v), (agentIadd s a v).map (fun _ => ())) := by
    unfold agentIaddW agentIadd estep
    cases hq : agentGet s a with
    | error e => simp [agentIadd, hq, Except.map]
    | ok q =>
      simp only [agentIadd, hq, Bool.false_eq_true, if_false]
      cases hs : agentSet s a (vadd q v) <;> simp [Except.map]
  refine ⟨h1, ?_⟩
  unfold agentIaddVW agentIaddV estepV
  cases hq : agentGet s a with
  | error e => simp [agentIaddV, hq, Except.map]
  | ok q =>
    cases hb : bcast s.nd v with
    | error e => simp [agentIaddV, hq, hb, Except.map]
    | ok w =>
      simp only [agentIaddV, hq, hb]
      unfold agentIaddW
      simp only [hq, Bool.false_eq_true, if_false]
      cases hs : agentSet s a (vadd q w) <;> simp [Except.map]

/-- Experimental `agent.position += v` that raises — whatever the exception (`AttributeError` on a removed agent object,
    `KeyError`, `ValueError` for a sum outside a bounded space): the state the call leaves behind (`agentIaddW` returns it
    also on an exception, as legacy `move` does) is the state before the call; in particular the array has not been written
    and the agent stays where it was.  The `ValueError` comes from the setter, which is handed the sum computed on a *copy*
    of the row (repair CS2), exactly when position + v is out of bounds on a non-torus.  With the getter of the code before
    the repair (`view = true`) the statement is false: `C18_cont_iadd_view_getter_refuted`. -/
theorem C18_cont_iadd_reject_unchanged (s : ESpace) (a : Aid) (v : Pos) (e : Err)
    (h : (agentIaddW false s a v).2 = .error e) :
    (agentIaddW false s a v).1 = s ∧ estep s (.iadd a v) = s ∧ agentIadd s a v = .error e ∧
    (e = .oob → ∃ q, agentGet s a = .ok q ∧ inBounds s.cfg.dims (vadd q v) = false ∧ s.cfg.torus = false) := by
  have hst := (C18_cont_iadd_stepwise s a v).1
  have he : agentIadd s a v = .error e := by
    rw [hst] at h
    cases hr : agentIadd s a v with
    | error e' => rw [hr] at h; simpa [Except.map] using h
    | ok s' => rw [hr] at h; simp [Except.map] at h
  have hs : estep s (.iadd a v) = s := by simp [estep, he]
  refine ⟨by rw [hst]; exact hs, hs, he, ?_⟩
  rintro rfl
  unfold agentIadd at he
  cases hq : agentGet s a with
  | error e =>
    rw [hq] at he
    simp only [Except.error.injEq] at he; subst he
    unfold agentGet getPos at hq
    split at hq
    · cases hq
    · split at hq
      · cases hq
      · split at hq <;> cases hq
  | ok q =>
    rw [hq] at he
    exact ⟨q, rfl, (C18_cont_setpos_reject_unchanged s a (vadd q v) he).2⟩

/-- The code before repair CS2 (the getter handed out a view of the agent's row, `agentIaddW true`) violates it: in the box
    `[0,1]²` the agent at (1/64, 1/64) is asked to move by (1, 0); the call raises `ValueError` and the agent is at
    (65/64, 1/64), outside the space.  (The same history on the code as it is: the examples at the end.) -/
theorem C18_cont_iadd_view_getter_refuted :
    ∃ (s : ESpace) (a : Aid) (v : Pos), (agentIaddW true s a v).2 = .error .oob ∧
      agentGet s a = .ok [1, 1] ∧ agentGet (agentIaddW true s a v).1 a = .ok [65, 1] ∧
      inBounds s.cfg.dims [65, 1] = false ∧ (agentIaddW false s a v).2 = .error .oob ∧ (agentIaddW false s a v).1 = s :=
  ⟨erun { dims := [(0, 64), (0, 64)], torus := false } 0 [.new 1, .set 1 [1, 1]], 1, [64, 0],
    by rfl, by rfl, by rfl, by rfl, by rfl, (C18_cont_iadd_reject_unchanged _ _ _ _ (by rfl)).1⟩

/-- a legacy call that raises at state `s` (for `move_agent`: the out-of-bounds rejection) -/
def lRejected (s : LSpace) : LOp → Prop
  | .place a p => ∃ e, place s a p = .error e
  | .move a p => (move s a p).2 = .error .oob
  | .remove a => ∃ e, remove s a = .error e
  | .nbrs _ _ _ => False

/-- Corollary over histories (legacy): deleting a rejected call from any history changes neither the final
    state nor, therefore, any later observation. -/
theorem C18_cont_legacy_rejected_call_erasable (c : LCfg) (pre post : List LOp) (op : LOp)
    (h : lRejected (lrun c pre) op) : lrun c (pre ++ op :: post) = lrun c (pre ++ post) := by
  have hs : lstep (lrun c pre) op = lrun c pre := by
    cases op with
    | place a p => obtain ⟨e, he⟩ := h; exact (C18_cont_place_reject_unchanged _ a p e he).1
    | move a p => exact (C18_cont_move_reject_unchanged _ a p h).2.1
    | remove a => obtain ⟨e, he⟩ := h; exact (C18_cont_remove_reject_unchanged _ a e he).1
    | nbrs p r incl => exact absurd h (by simp [lRejected])
  simp only [lrun, List.foldl_append, List.foldl_cons] at hs ⊢
  rw [hs]

/-- an experimental agent-level call that raises at state `s` (whatever the exception) -/
def eRejected (s : ESpace) : EOp → Prop
  | .new _ => False
  | .set a p => ∃ e, agentSet s a p = .error e
  | .remove a => ∃ e, agentRemove s a = .error e
  | .iadd a v => ∃ e, agentIadd s a v = .error e
  | .raw i p => ∃ e, rawWrite s i p = .error e

/-- Corollary over histories (experimental): a rejected position assignment, a rejected `position += v` and a
    rejected `remove()` can be deleted from any history without changing the final state. -/
theorem C18_cont_exp_rejected_call_erasable (c : ECfg) (cap : Nat) (pre post : List EOp) (op : EOp)
    (h : eRejected (erun c cap pre) op) :
    erun c cap (pre ++ op :: post) = erun c cap (pre ++ post) := by
  have hs : estep (erun c cap pre) op = erun c cap pre := by
    cases op with
    | new a => exact absurd h (by simp [eRejected])
    | set a p => obtain ⟨e, he⟩ := h; simp [estep, he]
    | remove a => obtain ⟨e, he⟩ := h; simp [estep, he]
    | iadd a v => obtain ⟨e, he⟩ := h; simp [estep, he]
    | raw i p => obtain ⟨e, he⟩ := h; simp [estep, he]
  simp only [erun, List.foldl_append, List.foldl_cons] at hs ⊢
  rw [hs]

/-! non-vacuity: the S3 witness — after the repair the rejected placement leaves no ghost -/
section Example
def exC : LCfg := { xmin := 0, xmax := 640, ymin := 0, ymax := 640, torus := false }
def exS : LSpace := lrun exC [.place 1 (64, 64), .nbrs (64, 64) 128 true]
example : place exS 2 (704, 64) = .error .oob := by rfl
example : lRejected exS (.place 2 (704, 64)) := ⟨.oob, by rfl⟩
example : (lstep exS (.place 2 (704, 64))).agents = [1] := by decide
example : (lstep exS (.place 2 (704, 64))).pts = some [(64, 64)] := by decide
example : (move exS 1 (64, 640)).2 = .error .oob := by rfl
example : agentSet (erun { dims := [(0, 64), (0, 64)], torus := false } 0 [.new 1, .set 1 [1, 1]]) 1 [65, 0] = .error .oob := by
  rfl
/-- the CS2 witness: `position += (64, 0)` from (1, 1) in a 1 x 1 box is rejected and the agent stays at (1, 1) -/
example : agentIadd (erun { dims := [(0, 64), (0, 64)], torus := false } 0 [.new 1, .set 1 [1, 1]]) 1 [64, 0] = .error .oob := by
  rfl
example : agentGet (erun { dims := [(0, 64), (0, 64)], torus := false } 0 [.new 1, .set 1 [1, 1], .iadd 1 [64, 0]]) 1 = .ok [1, 1] := by
  rfl
example : agentGet (erun { dims := [(0, 64), (0, 64)], torus := false } 0 [.new 1, .set 1 [1, 1], .iadd 1 [62, 0]]) 1 = .ok [63, 1] := by
  rfl
end Example

end Mesa.Cont
