import MesaModel.Proofs.ContExp
/-!
# C18 (continuous spaces) — a rejected placement / move / removal / position assignment changes nothing

Lemmas for the continuous-space part of C18 (assembled with the other subsystems elsewhere).
Model: `Model/Cont.lean` (legacy `ContinuousSpace` after repair S3, experimental position setter).
A call that raises either returns no new state at all (`Except`: the caller keeps the state it had), or —
for `move_agent`, which can raise *after* writing — returns the state explicitly; in both cases the lemmas
show that the state after the call (`lstep` / `estep`: the caller catches the exception and carries on)
is the state before it, so every later call and observation is as if the call had never been made.
-/
namespace Mesa.Cont

/-- Legacy `place_agent` outside a bounded space: `Exception`, and nothing changed — the agent is not
    registered, the cache is not invalidated, no position is written.  It is rejected exactly for a
    point outside the bounds of a non-toroidal space. -/
theorem C18_cont_place_reject_unchanged (s : LSpace) (a : Aid) (p : P2) (e : Err)
    (h : place s a p = .error e) :
    lstep s (.place a p) = s ∧ e = .oob ∧ oob s.cfg p = true ∧ s.cfg.torus = false := by
  refine ⟨by simp [lstep, h], ?_⟩
  unfold place torusAdj at h
  cases ho : oob s.cfg p <;> cases ht : s.cfg.torus <;> simp [ho, ht] at h
  exact ⟨h.symm, rfl, rfl⟩

/-- Legacy `move_agent` outside a bounded space: rejected before anything is written. -/
theorem C18_cont_move_reject_unchanged (s : LSpace) (a : Aid) (p : P2)
    (h : (move s a p).2 = .error .oob) :
    (move s a p).1 = s ∧ lstep s (.move a p) = s ∧ oob s.cfg p = true ∧ s.cfg.torus = false := by
  have hm : (move s a p).1 = s ∧ oob s.cfg p = true ∧ s.cfg.torus = false := by
    cases hp : torusAdj s.cfg p with
    | error e =>
      have he : move s a p = (s, .error e) := by simp [move, hp]
      rw [he] at h ⊢
      unfold torusAdj at hp
      cases ho : oob s.cfg p <;> cases ht : s.cfg.torus <;> simp [ho, ht] at hp
      exact ⟨rfl, rfl, rfl⟩
    | ok p' =>
      exfalso
      unfold move at h
      simp only [hp] at h
      split at h
      · simp at h
      · split at h
        · simp at h
        · simp at h
        · split at h <;> simp at h
  exact ⟨hm.1, hm.1, hm.2⟩

/-- Legacy `remove_agent` of an agent that is not in the space: `Exception`, nothing changed. -/
theorem C18_cont_remove_reject_unchanged (s : LSpace) (a : Aid) (e : Err) (h : remove s a = .error e) :
    lstep s (.remove a) = s ∧ e = .notIn ∧ a ∉ s.agents := by
  refine ⟨by simp [lstep, h], ?_⟩
  unfold remove at h
  split at h
  · rename_i hc; simp at h; exact ⟨h.symm, by simpa [LSpace.agents] using hc⟩
  · simp at h

/-- Experimental `agent.position = value` outside a bounded space: `ValueError` before the array is
    written; it is rejected exactly when the value is out of bounds and the space is not a torus. -/
theorem C18_cont_setpos_reject_unchanged (s : ESpace) (a : Aid) (p : Pos)
    (h : setPos s a p = .error .oob) :
    estep s (.set a p) = s ∧ inBounds s.cfg.dims p = false ∧ s.cfg.torus = false := by
  refine ⟨by simp [estep, h], ?_⟩
  unfold setPos at h
  cases hb : inBounds s.cfg.dims p <;> cases ht : s.cfg.torus
  · exact ⟨rfl, rfl⟩
  all_goals
    exfalso
    simp only [hb, ht, Bool.false_eq_true, if_true, if_false] at h
    split at h
    · simp at h
    · split at h <;> simp at h

/-- a legacy call that raises at state `s` (for `move_agent`: the out-of-bounds rejection) -/
def lRejected (s : LSpace) : LOp → Prop
  | .place a p => ∃ e, place s a p = .error e
  | .move a p => (move s a p).2 = .error .oob
  | .remove a => ∃ e, remove s a = .error e
  | .nbrs _ _ _ => False

/-- Corollary over histories (legacy): deleting a rejected call from any history changes neither the final
    state nor, therefore, any later observation. -/
theorem C18_cont_legacy_rejected_call_erasable (c : LCfg) (pre post : List LOp) (op : LOp)
    (h : lRejected (lrun c pre) op) : lrun c (pre ++ op :: post) = lrun c (pre ++ post) := by
  have hs : lstep (lrun c pre) op = lrun c pre := by
    cases op with
    | place a p => obtain ⟨e, he⟩ := h; exact (C18_cont_place_reject_unchanged _ a p e he).1
    | move a p => exact (C18_cont_move_reject_unchanged _ a p h).2.1
    | remove a => obtain ⟨e, he⟩ := h; exact (C18_cont_remove_reject_unchanged _ a e he).1
    | nbrs p r incl => exact absurd h (by simp [lRejected])
  simp only [lrun, List.foldl_append, List.foldl_cons] at hs ⊢
  rw [hs]

/-- Corollary over histories (experimental): a rejected position assignment can be deleted from any
    history without changing the final state. -/
theorem C18_cont_exp_rejected_call_erasable (c : ECfg) (cap : Nat) (pre post : List EOp) (a : Aid) (p : Pos)
    (h : ∃ e, setPos (erun c cap pre) a p = .error e) :
    erun c cap (pre ++ .set a p :: post) = erun c cap (pre ++ post) := by
  obtain ⟨e, he⟩ := h
  have hs : estep (erun c cap pre) (.set a p) = erun c cap pre := by simp [estep, he]
  simp only [erun, List.foldl_append, List.foldl_cons] at hs ⊢
  rw [hs]

/-! non-vacuity: the S3 witness — after the repair the rejected placement leaves no ghost -/
section Example
def exC : LCfg := { xmin := 0, xmax := 640, ymin := 0, ymax := 640, torus := false }
def exS : LSpace := lrun exC [.place 1 (64, 64), .nbrs (64, 64) 128 true]
example : place exS 2 (704, 64) = .error .oob := by rfl
example : lRejected exS (.place 2 (704, 64)) := ⟨.oob, by rfl⟩
example : (lstep exS (.place 2 (704, 64))).agents = [1] := by decide
example : (lstep exS (.place 2 (704, 64))).pts = some [(64, 64)] := by decide
example : (move exS 1 (64, 640)).2 = .error .oob := by rfl
example : setPos (erun { dims := [(0, 64), (0, 64)], torus := false } 0 [.new 1, .set 1 [1, 1]]) 1 [65, 0] = .error .oob := by
  rfl
end Example

end Mesa.Cont
