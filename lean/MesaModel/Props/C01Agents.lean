import MesaModel.Proofs.RngDraws
import MesaModel.Proofs.AgentSetHist
import MesaModel.Props.C04
/-!
# C01 on the AgentSet / activation models of the agents group

Clauses of C01 ("seeded runs are reproducible") proved on the models that are tied to mesa/agent.py by the
correspondence checks of C03 (`Model/AgentSet.lean`, store of sets sharing `model.random`) and C02/C04
(`Model/Registry.lean` + `Model/Activation.lean`, worlds of several models each with its own generator):

* shuffle / shuffle_do consume exactly `len - 1` draws (none for `len ≤ 1`), look at no other draw, and their result is
  a function of (ordered members, draws) only;
* over **every history** of store operations the generator has advanced by exactly the sum of `size - 1` over the
  shuffles made — no other AgentSet operation draws;
* over **every history** of world operations every program-made set keeps the generator it was constructed with.
-/
namespace Mesa.ASet

/-- One shuffle of `n` members consumes exactly `n - 1` draws (so none for `n ≤ 1`, where it also returns the members as
    they are), and its result depends on those `n - 1` draws only: any two generators that agree on them give the same order. -/
theorem C01_agents_shuffle_draws {α : Type} (l : List α) (g : Rng) :
    (Rng.shuffle l g).2.script = g.script.drop (l.length - 1) ∧
    (l.length ≤ 1 → Rng.shuffle l g = (l, g)) ∧
    (∀ g' : Rng, g.script.take (l.length - 1) = g'.script.take (l.length - 1) → (Rng.shuffle l g).1 = (Rng.shuffle l g').1) := by
  refine ⟨Rng.shuffle_script l g, fun h => ?_, fun g' h => Rng.shuffle_of_take l g g' h⟩
  have h0 : l.length - 1 = 0 := by omega
  simp [Rng.shuffle, h0, Rng.shuffleAux]

/-- `AgentSet.shuffle` on the store: the resulting order and the remaining draws are a function of the ordered members
    of the set and the draws alone — two stores that differ in everything else (attributes, other sets, dead agents, the
    in-place flag) produce the same order and leave the same draws; the set the call returns (the set itself for
    `inplace=True`, the new one otherwise) holds exactly `Rng.shuffle` of the members, whichever flag. -/
theorem C01_agents_shuffle_function_of_members_and_script (st st' : Store) (s s' : Nat) (i i' : Bool)
    (hm : st.get s = st'.get s') (hg : st.rng = st'.rng) :
    (shuffle st s i).1.rng = (shuffle st' s' i').1.rng ∧
    ((shuffle st s false).1.sets.getLast? = (shuffle st' s' false).1.sets.getLast?) ∧
    (shuffle st s i).1.rng.script = st.rng.script.drop ((st.get s).length - 1) ∧
    (s < st.sets.length → s' < st'.sets.length →
      (shuffle st s i).1.get (shuffle st s i).2 = (Rng.shuffle (st.get s) st.rng).1 ∧
      (shuffle st s i).1.get (shuffle st s i).2 = (shuffle st' s' i').1.get (shuffle st' s' i').2) := by
  have hres : ∀ (st : Store) (s : Nat) (i : Bool), s < st.sets.length →
      (shuffle st s i).1.get (shuffle st s i).2 = (Rng.shuffle (st.get s) st.rng).1 := by
    intro st s i hs
    cases i <;> simp [shuffle, Store.put, Store.get, hs]
  refine ⟨?_, ?_, ?_, fun hs hs' => ⟨hres st s i hs, by rw [hres st s i hs, hres st' s' i' hs', hm, hg]⟩⟩
  · simp only [shuffle, put_rng, hm, hg]
  · simp only [shuffle, Store.put, hm, hg]
    simp
  · simp only [shuffle, put_rng]
    exact Rng.shuffle_script _ _

/-- the draws a history of store operations consumes: `size - 1` at each shuffle, nothing anywhere else -/
def opDraws (st : Store) : SOp → Nat
  | .shuffle s _ => (st.get s).length - 1
  | _ => 0

def drawsOf : Store → List SOp → Nat
  | _, [] => 0
  | st, op :: ops => opDraws st op + drawsOf (applyOp st op) ops

/-- **Draw counts are determined, over every history**: after any sequence of AgentSet operations (constructor, select,
    shuffle, sort, groupby, set / add / discard / remove, the set operators and their in-place forms, pop, clear, deaths;
    raising calls included) the shared generator has advanced by exactly the sum, over the shuffles made, of the size of the
    shuffled set minus one.  No other operation draws, and the count does not depend on attributes, filters or keys. -/
theorem C01_agents_history_draws (ops : List SOp) (st : Store) :
    (ops.foldl applyOp st).rng.script = st.rng.script.drop (drawsOf st ops) := by
  induction ops generalizing st with
  | nil => simp [drawsOf]
  | cons op ops ih =>
    have hstep : (applyOp st op).rng.script = st.rng.script.drop (opDraws st op) := by
      cases op with
      | shuffle s i => simp only [applyOp, shuffle, put_rng, opDraws]; exact Rng.shuffle_script _ _
      | mk ids => simp [applyOp, mk, put_rng, opDraws]
      | select s p t a i => simp [applyOp, select, put_rng, opDraws]
      | sort s key asc i =>
        cases hk : keysOf st key (st.get s) with
        | none => simp [applyOp, sort, hk, opDraws]
        | some ks => simp [applyOp, sort, hk, put_rng, opDraws]
      | group s key b =>
        cases hk : keysOf st key (st.get s) with
        | none => simp [applyOp, group, hk, opDraws]
        | some ks => cases b <;> simp [applyOp, group, hk, opDraws]
      | setAttr s k v => simp [applyOp, setAttr, opDraws]
      | add s a => simp [applyOp, add, opDraws]
      | discard s a => simp [applyOp, discard, opDraws]
      | remove s a =>
        by_cases hm : a ∈ st.get s
        · simp [applyOp, remove, hm, discard, opDraws]
        · simp [applyOp, remove, hm, opDraws]
      | setop o s x => simp [applyOp, setop, put_rng, opDraws]
      | isetop o s x => simp [applyOp, isetop, opDraws]
      | pop s =>
        cases hl : st.get s with
        | nil => simp [applyOp, pop, hl, popL, opDraws]
        | cons a rest => simp [applyOp, pop, hl, popL, opDraws]
      | clear s => simp [applyOp, clear, opDraws]
      | kill a => simp [applyOp, kill, opDraws]
    rw [List.foldl_cons, ih, hstep, List.drop_drop, drawsOf]

end Mesa.ASet

namespace Mesa.Agents

/-- the generators of the world, one per model, in the order the models were made -/
def gens (w : World) : List Rng := w.regs.map (·.rng)

theorem gens_congr {w w' : World} (h : w'.regs = w.regs) : gens w' = gens w := by simp [gens, h]

theorem map_rng_set {l : List Reg} {m : Nat} {r r' : Reg} (h : l[m]? = some r) (hr : r'.rng = r.rng) :
    (l.set m r').map (·.rng) = l.map (·.rng) := by
  apply List.ext_getElem?
  intro j
  simp only [List.getElem?_map, List.getElem?_set]
  split
  · rename_i hmj
    subst hmj
    split
    · simp [h, hr]
    · rename_i hlt
      exact absurd (List.getElem?_eq_some_iff.mp h).1 hlt
  · rfl

theorem deregister_rng (r : Reg) (a : Aid) (ty : Ty) : (r.deregister a ty).rng = r.rng := by
  unfold Reg.deregister
  repeat' split
  all_goals first | rfl | (simp only []; split <;> rfl)

theorem removeAgent_gens (w : World) (a : Aid) : gens (removeAgent w a) = gens w := by
  unfold removeAgent
  cases hi : w.info[a]? with
  | none => rfl
  | some i =>
    simp only []
    cases hr : w.regs[i.model]? with
    | none => rfl
    | some r => exact map_rng_set hr (deregister_rng r a i.ty)

theorem createAgent_gens (w : World) (m : Nat) (ty : Ty) (hold : Bool) (x : Payload) :
    gens (createAgent w m ty hold x) = gens w := by
  unfold createAgent
  cases hr : w.regs[m]? with
  | none => rfl
  | some r => exact map_rng_set hr rfl

theorem createN_gens (w : World) (m : Nat) (ty : Ty) (hold : Bool) (xs : List Payload) :
    gens (createN w m ty hold xs) = gens w := by
  unfold createN
  induction xs generalizing w with
  | nil => rfl
  | cons x xs ih => rw [List.foldl_cons, ih, createAgent_gens]

theorem setAdd_gens (w : World) (k : Nat) (b : Aid) : gens (setAdd w k b) = gens w := by
  unfold setAdd
  repeat' split
  all_goals rfl

theorem setDiscard_gens (w : World) (k : Nat) (b : Aid) : gens (setDiscard w k b) = gens w := by
  unfold setDiscard
  split <;> rfl

theorem runAction_gens (self : Aid) (w : World) (act : Action) : gens (runAction self w act) = gens w := by
  cases act with
  | rmSelf => exact removeAgent_gens w self
  | rm b => exact removeAgent_gens w b
  | create m ty n hold => exact createN_gens w m ty hold _
  | unhold b => rfl
  | addTo k b => exact setAdd_gens w k b
  | discardFrom k b => exact setDiscard_gens w k b

theorem walk_gens (script : Aid → List Action) (arg : Nat) (w : World) (refs : List Aid) :
    gens (walk script arg w refs) = gens w := by
  induction refs generalizing w with
  | nil => rfl
  | cons a refs ih =>
    rw [walk_cons, ih]
    unfold turn
    split
    · unfold invoke
      generalize script a = acts
      have : gens ({ w with log := w.log ++ [(a, arg)] } : World) = gens w := rfl
      rw [← this]
      generalize ({ w with log := w.log ++ [(a, arg)] } : World) = w'
      induction acts generalizing w' with
      | nil => rfl
      | cons act acts ih2 => rw [List.foldl_cons, ih2, runAction_gens]
    · rfl

theorem groups_gens (script : Aid → List Action) (arg : Nat) (gs : List (Nat × List Aid)) (w : World) :
    gens (gs.foldl (fun w g => walk script arg w (g.2.filter (alive w))) w) = gens w := by
  induction gs generalizing w with
  | nil => rfl
  | cons g gs ih => rw [List.foldl_cons, ih, walk_gens]

theorem foldl_removeAgent_gens (l : List Aid) (w : World) : gens (l.foldl removeAgent w) = gens w := by
  induction l generalizing w with
  | nil => rfl
  | cons a l ih => rw [List.foldl_cons, ih, removeAgent_gens]

theorem byTypeSet_rng_frame (w : World) (t : Target) (l : List Aid) : gens (setRaw w t l) = gens w := by
  cases t with
  | all m =>
    simp only [setRaw]
    cases hr : w.regs[m]? with
    | none => rfl
    | some r => exact map_rng_set hr rfl
  | byType m ty =>
    simp only [setRaw]
    cases hr : w.regs[m]? with
    | none => rfl
    | some r => exact map_rng_set hr rfl
  | set k =>
    simp only [setRaw]
    cases hs : w.sets[k]? with
    | none => rfl
    | some p => rfl

theorem setRng_gens (w : World) (m : Nat) (g : Rng) : gens (setRng w m g) = (gens w).set m g := by
  apply List.ext_getElem?
  intro j
  simp only [gens, List.getElem?_map, setRng_regs, List.getElem?_set, List.length_map]
  cases hj : w.regs[j]? with
  | none =>
    have : ¬ j < w.regs.length := fun h => by simp [List.getElem?_eq_getElem h] at hj
    by_cases hmj : m = j <;> simp [hmj, this]
  | some r =>
    have hlt : j < w.regs.length := (List.getElem?_eq_some_iff.mp hj).1
    by_cases hmj : m = j
    · subst hmj; simp [hlt]
    · have : ¬ j = m := fun h => hmj h.symm
      simp [hmj, this]

/-- the generators after one operation of the world: a new model brings its own; an in-place `shuffle`, a `shuffle_do`
    (raising callbacks or not) replaces the generator of the set's model by the state `Rng.shuffle` leaves; nothing else
    touches any generator -/
def gensAfter (w : World) : Op → List Rng
  | .newModel g => gens w ++ [g]
  | .shuffle t | .shuffleDo _ _ t | .shuffleDoX _ _ _ t =>
    (gens w).set (t.model w) (Rng.shuffle (members w t) (rngOf w t)).2
  | _ => gens w

/-- **Only shuffles draw, whatever the callbacks do** (review 3, M14): after any single operation of the world — creations,
    removals, `remove_all_agents`, in-place sorts, set constructions, and every activation (`do`, `map`, `GroupBy.do`,
    `GroupBy.map`, with callbacks that remove, create, edit sets or raise) — every model's generator is exactly what it was,
    except that a `shuffle` / `shuffle_do` leaves the generator of the set's model in the state after the one Fisher–Yates
    pass over the live members: the walk and the callbacks of `shuffle_do` draw nothing on top of it. -/
theorem C01_agents_only_shuffles_draw (w : World) (op : Op) : gens (step w op) = gensAfter w op := by
  have hX : ∀ script raises arg w0 refs, gens (walkX script raises arg w0 refs).1 = gens w0 := by
    intro script raises arg w0 refs
    obtain ⟨pre, _, hp⟩ := walkX_fst_walk script raises arg w0 refs
    rw [hp, walk_gens]
  cases op with
  | newModel g => simp [step, newModel, gens, gensAfter, Reg.new]
  | create m ty hold x => exact createAgent_gens w m ty hold x
  | createN m ty hold xs => exact createN_gens w m ty hold xs
  | createAgents m ty hold n args => exact createN_gens w m ty hold _
  | remove a => exact removeAgent_gens w a
  | removeAll m =>
    simp only [step, removeAll, gensAfter]
    split
    · rfl
    · exact foldl_removeAgent_gens _ w
  | unhold a => rfl
  | shuffle t =>
    simp only [step, shuffleInPlace, gensAfter]
    rw [setRng_gens, byTypeSet_rng_frame]
  | sort t asc => exact byTypeSet_rng_frame w t _
  | mkSet m l => rfl
  | doSet script arg t => exact walk_gens script arg w _
  | shuffleDo script arg t =>
    simp only [step, shuffleDo, gensAfter]
    rw [walk_gens, setRng_gens]
  | mapSet script arg t =>
    simp only [step, mapSet, (walkMap_spec script arg _ w _).1, gensAfter]
    exact walk_gens script arg w _
  | groupDo script arg key t => exact groups_gens script arg _ w
  | groupMap script arg key t =>
    simp only [step, groupMap_fst, gensAfter]
    exact groups_gens script arg _ w
  | doSetX script raises arg t => exact hX script raises arg w _
  | shuffleDoX script raises arg t =>
    simp only [step, shuffleDoX, gensAfter]
    rw [hX, setRng_gens]
  | mapSetX script raises arg t =>
    simp only [step, mapSetX, (walkMapX_spec script raises arg _ w _).1, gensAfter]
    exact hX script raises arg w _
  | groupDoX script raises arg key t =>
    simp only [step, groupDoX_eq, gensAfter]
    exact hX script raises arg w _
  | groupMapX script raises arg key t =>
    simp only [step, groupMapX, (groupsMapX_spec script raises arg _ w _).1, gensAfter]
    have := groupDoX_eq script raises arg (key.eval w) w t
    unfold groupDoX at this
    rw [this]
    exact hX script raises arg w _

/-- `shuffle_do` (and the in-place `shuffle` it is equivalent to) on a set of `n` live members draws exactly `n - 1`
    numbers from the generator of the set's model, before the first callback runs, **and nothing more while the callbacks
    run**: after the whole `shuffle_do` — whatever the callbacks removed, created or edited, and whether or not one of them
    raised — the generators of all models are exactly those an in-place shuffle of the same set leaves (the set's model
    advanced by `n - 1` draws, every other model untouched); and the visiting order is a function of (ordered live members,
    those `n - 1` draws) only. -/
theorem C01_agents_shuffle_do_draws (w : World) (t : Target) (h : t.exists? w = true)
    (script : Aid → List Action) (raises : Aid → Bool) (arg : Nat) :
    (Rng.shuffle (members w t) (rngOf w t)).2.script = (rngOf w t).script.drop ((members w t).length - 1) ∧
    rngOf (shuffleInPlace w t) t = (Rng.shuffle (members w t) (rngOf w t)).2 ∧
    gens (shuffleDo script arg w t) = gens (shuffleInPlace w t) ∧
    gens (shuffleDoX script raises arg w t).1 = gens (shuffleInPlace w t) ∧
    gens (shuffleDo script arg w t) = (gens w).set (t.model w) (Rng.shuffle (members w t) (rngOf w t)).2 ∧
    (gens w)[t.model w]? = some (rngOf w t) ∧
    (∀ (w' : World) (t' : Target), members w' t' = members w t →
      (rngOf w' t').script.take ((members w t).length - 1) = (rngOf w t).script.take ((members w t).length - 1) →
      (Rng.shuffle (members w' t') (rngOf w' t')).1 = (Rng.shuffle (members w t) (rngOf w t)).1) := by
  have h1 := C01_agents_only_shuffles_draw w (.shuffle t)
  have h2 := C01_agents_only_shuffles_draw w (.shuffleDo script arg t)
  have h3 := C01_agents_only_shuffles_draw w (.shuffleDoX script raises arg t)
  simp only [step, gensAfter] at h1 h2 h3
  refine ⟨Rng.shuffle_script _ _, (shuffleInPlace_spec w t h).2, by rw [h1, h2], by rw [h1, h3], h2, ?_, fun w' t' hm hs => ?_⟩
  · have hm : t.model w < w.regs.length := by
      cases t with
      | all m => simpa [Target.exists?, Target.model] using h
      | byType m ty =>
        simp only [Target.exists?] at h
        cases hr : w.regs[m]? with
        | none => simp [hr] at h
        | some r => simpa [Target.model] using (List.getElem?_eq_some_iff.mp hr).1
      | set k =>
        simp only [Target.exists?] at h
        cases hs : w.sets[k]? with
        | none => simp [hs] at h
        | some p => obtain ⟨m, l⟩ := p; simpa [hs, Target.model] using h
    simp [gens, rngOf, List.getElem?_eq_getElem hm]
  · rw [hm]
    exact Rng.shuffle_of_take _ _ _ hs

/-- the generator handle (model index) each program-made set carries -/
def handles (w : World) : List Nat := w.sets.map (·.1)

theorem handles_congr {w w' : World} (h : w'.sets = w.sets) : handles w' = handles w := by simp [handles, h]

theorem map_fst_set {l : List (Nat × List Aid)} {k m : Nat} {x y : List Aid} (h : l[k]? = some (m, x)) :
    (l.set k (m, y)).map (·.1) = l.map (·.1) := by
  apply List.ext_getElem?
  intro j
  simp only [List.getElem?_map, List.getElem?_set]
  split
  · rename_i hkj
    subst hkj
    split
    · simp [h]
    · rename_i hlt
      have := (List.getElem?_eq_some_iff.mp h).1
      exact absurd this hlt
  · rfl

theorem setAdd_handles (w : World) (k : Nat) (b : Aid) : handles (setAdd w k b) = handles w := by
  unfold setAdd handles
  cases hs : w.sets[k]? with
  | none => rfl
  | some p =>
    obtain ⟨m, l⟩ := p
    simp only
    split
    · exact map_fst_set hs
    · rfl

theorem setDiscard_handles (w : World) (k : Nat) (b : Aid) : handles (setDiscard w k b) = handles w := by
  unfold setDiscard handles
  cases hs : w.sets[k]? with
  | none => rfl
  | some p =>
    obtain ⟨m, l⟩ := p
    exact map_fst_set hs

theorem runAction_handles (self : Aid) (w : World) (act : Action) : handles (runAction self w act) = handles w := by
  cases act with
  | rmSelf => exact handles_congr (removeAgent_sets w self)
  | rm b => exact handles_congr (removeAgent_sets w b)
  | create m ty n hold => exact handles_congr (createN_sets w m ty hold _)
  | unhold b => rfl
  | addTo k b => exact setAdd_handles w k b
  | discardFrom k b => exact setDiscard_handles w k b

theorem walk_handles (script : Aid → List Action) (arg : Nat) (w : World) (refs : List Aid) :
    handles (walk script arg w refs) = handles w := by
  induction refs generalizing w with
  | nil => rfl
  | cons a refs ih =>
    rw [walk_cons, ih]
    unfold turn
    split
    · unfold invoke
      generalize script a = acts
      have : handles ({ w with log := w.log ++ [(a, arg)] } : World) = handles w := rfl
      rw [← this]
      generalize ({ w with log := w.log ++ [(a, arg)] } : World) = w'
      induction acts generalizing w' with
      | nil => rfl
      | cons act acts ih2 => rw [List.foldl_cons, ih2, runAction_handles]
    · rfl

theorem setRaw_handles (w : World) (t : Target) (l : List Aid) : handles (setRaw w t l) = handles w := by
  cases t with
  | all m => simp only [setRaw]; split <;> rfl
  | byType m ty => simp only [setRaw]; split <;> rfl
  | set k =>
    simp only [setRaw, handles]
    cases hs : w.sets[k]? with
    | none => rfl
    | some p => obtain ⟨m, l0⟩ := p; exact map_fst_set hs

theorem groups_handles (script : Aid → List Action) (arg : Nat) (gs : List (Nat × List Aid)) (w : World) :
    handles (gs.foldl (fun w g => walk script arg w (g.2.filter (alive w))) w) = handles w := by
  induction gs generalizing w with
  | nil => rfl
  | cons g gs ih => rw [List.foldl_cons, ih, walk_handles]

theorem foldl_removeAgent_handles (l : List Aid) (w : World) : handles (l.foldl removeAgent w) = handles w := by
  induction l generalizing w with
  | nil => rfl
  | cons a l ih => rw [List.foldl_cons, ih, handles_congr (removeAgent_sets w a)]

theorem step_handles (w : World) (op : Op) : handles w <+: handles (step w op) := by
  have eq : ∀ {w' : World}, handles w' = handles w → handles w <+: handles w' := fun h => by rw [h]; exact List.prefix_refl _
  have hX : ∀ script raises arg w0 refs, handles (walkX script raises arg w0 refs).1 = handles w0 := by
    intro script raises arg w0 refs
    obtain ⟨pre, _, hp⟩ := walkX_fst_walk script raises arg w0 refs
    rw [hp, walk_handles]
  cases op with
  | newModel g => exact eq rfl
  | create m ty hold x => exact eq (handles_congr (createAgent_sets w m ty hold x))
  | createN m ty hold xs => exact eq (handles_congr (createN_sets w m ty hold xs))
  | createAgents m ty hold n args => exact eq (handles_congr (createN_sets w m ty hold _))
  | remove a => exact eq (handles_congr (removeAgent_sets w a))
  | removeAll m =>
    apply eq
    simp only [step, removeAll]
    split
    · rfl
    · exact foldl_removeAgent_handles _ w
  | unhold a => exact eq rfl
  | shuffle t =>
    apply eq
    simp only [step, shuffleInPlace]
    rw [handles_congr (setRng_sets _ _ _), setRaw_handles]
  | sort t asc => exact eq (setRaw_handles w t _)
  | mkSet m l => exact ⟨[m], by simp [step, mkSet, handles]⟩
  | doSet script arg t => exact eq (walk_handles script arg w _)
  | shuffleDo script arg t =>
    apply eq
    simp only [step, shuffleDo]
    rw [walk_handles, handles_congr (setRng_sets _ _ _)]
  | mapSet script arg t =>
    apply eq
    simp only [step, mapSet, (walkMap_spec script arg _ w _).1]
    exact walk_handles script arg w _
  | groupDo script arg key t => exact eq (groups_handles script arg _ w)
  | groupMap script arg key t =>
    apply eq
    simp only [step, groupMap_fst]
    exact groups_handles script arg _ w
  | doSetX script raises arg t => exact eq (hX script raises arg w _)
  | shuffleDoX script raises arg t =>
    apply eq
    simp only [step, shuffleDoX]
    rw [hX, handles_congr (setRng_sets _ _ _)]
  | mapSetX script raises arg t =>
    apply eq
    simp only [step, mapSetX, (walkMapX_spec script raises arg _ w _).1]
    exact hX script raises arg w _
  | groupDoX script raises arg key t =>
    apply eq
    simp only [step, groupDoX_eq]
    exact hX script raises arg w _
  | groupMapX script raises arg key t =>
    apply eq
    simp only [step, groupMapX, (groupsMapX_spec script raises arg _ w _).1]
    have := groupDoX_eq script raises arg (key.eval w) w t
    unfold groupDoX at this
    rw [this]
    exact hX script raises arg w _

/-- **Every program-made set keeps the generator it was constructed with — over every history.**  Whatever happens
    afterwards (creations, removals, `remove_all_agents`, in-place shuffles and sorts of any set, every kind of activation
    with callbacks that remove, create, edit sets or raise, further sets being made), the `k`-th set still carries the
    generator of the same model; so a `shuffle` / `shuffle_do` of it keeps drawing from that model's seeded stream. -/
theorem C01_agents_sets_keep_their_generator (ops : List Op) (w : World) :
    handles w <+: handles (run w ops) ∧
    ∀ k m l, w.sets[k]? = some (m, l) → ∃ l', (run w ops).sets[k]? = some (m, l') ∧
      Target.model (run w ops) (.set k) = Target.model w (.set k) := by
  have hp : handles w <+: handles (run w ops) := by
    unfold run
    induction ops generalizing w with
    | nil => exact List.prefix_refl _
    | cons op ops ih => exact (step_handles w op).trans (ih (step w op))
  refine ⟨hp, fun k m l hk => ?_⟩
  obtain ⟨ext, he⟩ := hp
  have h1 : (handles (run w ops))[k]? = some m := by
    rw [← he, List.getElem?_append_left (by simpa [handles] using (List.getElem?_eq_some_iff.mp hk).1)]
    simp [handles, hk]
  simp only [handles, List.getElem?_map] at h1
  cases hr : (run w ops).sets[k]? with
  | none => simp [hr] at h1
  | some p =>
    obtain ⟨m', l'⟩ := p
    simp [hr] at h1
    subst h1
    exact ⟨l', rfl, by simp [Target.model, hr, hk]⟩

end Mesa.Agents

/-! ### non-vacuity -/

example : (Mesa.Rng.shuffle [1, 2, 3, 4, 5] ⟨[3, 1, 4, 1, 5, 9]⟩).2.script = [5, 9] ∧
    (Mesa.Rng.shuffle [1, 2, 3, 4, 5] ⟨[3, 1, 4, 1, 5, 9]⟩).1 = (Mesa.Rng.shuffle [1, 2, 3, 4, 5] ⟨[3, 1, 4, 1, 7]⟩).1 ∧
    (Mesa.Rng.shuffle [7] ⟨[3, 1]⟩) = ([7], ⟨[3, 1]⟩) := by decide

private def c01Store : Mesa.ASet.Store :=
  { pop := [⟨0, 0, [(0, 2)]⟩, ⟨1, 1, [(0, 1)]⟩, ⟨2, 2, [(0, 2)]⟩, ⟨3, 3, [(0, 1)]⟩], sets := [[0, 1, 2, 3]],
    rng := ⟨[3, 1, 4, 1, 5, 9, 2, 6]⟩ }

/-- shuffle of 4 (3 draws), a select and a sort (no draws), a shuffle of the selected 2 (1 draw): 4 draws in all -/
example : Mesa.ASet.drawsOf c01Store
    [.shuffle 0 false, .select 0 (some (.ge 0 2)) none .inf false, .sort 0 (.attr 0) true true, .shuffle 2 true] = 4 ∧
    ([Mesa.ASet.SOp.shuffle 0 false, .select 0 (some (.ge 0 2)) none .inf false, .sort 0 (.attr 0) true true,
      .shuffle 2 true].foldl Mesa.ASet.applyOp c01Store).rng.script = [5, 9, 2, 6] := by decide

/-- two models; a set made with model 1's generator keeps it through churn, an in-place shuffle and an activation -/
example : Mesa.Agents.handles (Mesa.Agents.run Mesa.Agents.World.empty
    [.newModel ⟨[1, 2]⟩, .newModel ⟨[3, 4]⟩, .create 0 0 true [], .create 1 0 true [], .mkSet 1 [0, 1], .mkSet 0 [1],
     .shuffle (.set 0), .doSet (fun a => if a = 0 then [.discardFrom 0 1, .rm 1] else []) 3 (.set 0), .remove 0]) = [1, 0] := by
  decide

/-- `shuffle_do` over 3 agents of model 0 whose callbacks create agents in model 1 and remove themselves: model 0's generator
    has advanced by 2 draws, model 1's by none; a `do` and a `GroupBy.do` afterwards leave both where they are -/
example : Mesa.Agents.gens (Mesa.Agents.run Mesa.Agents.World.empty
    [.newModel ⟨[1, 2, 3]⟩, .newModel ⟨[3, 4]⟩, .create 0 0 true [], .create 0 0 true [], .create 0 0 true [],
     .shuffleDo (fun _ => [.create 1 0 1 true, .rmSelf]) 3 (.all 0), .doSet (fun _ => [.create 0 1 1 false]) 1 (.all 1),
     .groupDo (fun _ => []) 1 .ty (.all 0)]) = [⟨[3]⟩, ⟨[3, 4]⟩] := by decide
