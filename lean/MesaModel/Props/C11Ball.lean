import MesaModel.Model.CellGeometry
import MesaModel.Model.Layers
/-!
# C11 — the neighbourhood mask against the neighbourhood model of C07 (review 2, M12)

`C11_neighborhood_mask_exact` (Props/C11.lean) characterises the mask of `get_neighborhood_mask` by the Layers model's own
definition, the metric ball `withinRadius`.  The code computes it from `cell.get_neighborhood(radius, include_center)`, whose
model is `Mesa.Cells.nbhd` over `Cell.connections` = `Mesa.Cells.gridConn` (C07: `C07_nbhd_spec` proves it to be r-hop
reachability, `C07_grid_connections` what the connections are).  The theorem here ties the two models together on a sample of
grids by kernel evaluation; the general statement (all shapes, all radii) is not proved — hence `_partial`.
-/
namespace Mesa.Layers

def toCellCoord (c : Coord) : List Int := c.map Int.ofNat

/-- on the grid of shape `dims`: for every centre, both values of `include_center`, the list form of the `nbhdMask` op is
    exactly the set of cells C07's `get_neighborhood` model returns, and the mask form is that list's indicator -/
def maskIsHopClosure (k : Mesa.Cells.GridKind) (moore : Bool) (dims : List Nat) (torus : Bool) (r : Nat) : Bool :=
  (cells dims).all fun c => [true, false].all fun ic =>
    let N := Mesa.Cells.nbhd (fun x => (Mesa.Cells.gridConn k dims torus x).map (·.2)) r ic (toCellCoord c)
    match (nbhdMask (init .new dims none) 0 (some moore) torus c ic r).2 with
    | .sel list mask =>
      ((cells dims).all fun c' => decide (c' ∈ list) == decide (toCellCoord c' ∈ N)) &&
        mask == (cells dims).map fun c' => decide (c' ∈ list)
    | _ => false

/-- 1-D and 2-D shapes (the 2-D code path `_connect_single_cell_2d`), sizes 1 and 2 (where a torus wraps onto itself) included -/
def ballSample2d : Bool :=
  [[1], [2], [5], [1, 3], [2, 2], [3, 3], [4, 2]].all fun d => [true, false].all fun t => [1, 2].all fun r =>
    maskIsHopClosure .moore true d t r && maskIsHopClosure .vn false d t r

/-- 3-D shapes (the n-D code path `_connect_single_cell_nd`) -/
def ballSample3d : Bool :=
  [[2, 2, 2], [3, 1, 2]].all fun d => [true, false].all fun t => [1, 2].all fun r =>
    maskIsHopClosure .moore true d t r && maskIsHopClosure .vn false d t r

/-- On the sampled grids (Moore and von Neumann, torus or not, every centre, radius 1 and 2, centre included or not) the
    mask of the Layers model — the metric ball — *is* the cell set of C07's model of `get_neighborhood` — the r-hop closure
    of the connections.  Missing for the full statement: all shapes and radii (a proof that the ball of a product metric
    is the hop closure of its unit steps, with wrapping); beyond the sample the tie is the oracle, which compares every
    generated mask with the running `get_neighborhood`. -/
theorem C11_neighborhood_mask_is_hop_closure_partial : ballSample2d = true ∧ ballSample3d = true := by
  constructor <;> decide +kernel

/-- the sample is not trivial: a 3×3 von Neumann torus, radius 1 round the corner: 4 wrapped neighbours -/
example : (nbhdMask (init .new [3, 3] none) 0 (some false) true [0, 0] false 1).2 =
    .sel [[0, 1], [0, 2], [1, 0], [2, 0]] [false, true, true, true, false, false, true, false, false] := by decide

end Mesa.Layers
