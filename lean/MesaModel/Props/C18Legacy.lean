import MesaModel.Proofs.Legacy
import MesaModel.Proofs.LegacyHist
import MesaModel.Proofs.LegacyNetState
import MesaModel.Proofs.LegacyReads
/-!
# C18 (legacy-grid part) — a mutating call that raises leaves all observable state unchanged

Per-call lemmas for the legacy grids of mesa/space.py, to be assembled into C18.  In the model a call
returns the state it leaves behind *and* its result (`Grid × Res`), so "raised half-way" is expressible:
before the S2 repair `SingleGrid.move_agent` onto an occupied cell returned a state without the agent.
`Inv` is the representation invariant every reachable state satisfies (`C08_views_agree_all_histories`).
-/
namespace Mesa.Legacy

/-- S2: a rejected `move_agent` (target outside a bounded grid, occupied SingleGrid cell — also through a
    wrapped target —, unplaced agent on a MultiGrid) leaves the grid exactly as it was -/
theorem C18_legacy_move_reject_unchanged (g : Grid) (hw : 0 < g.w) (hh : 0 < g.h) (hi : Inv g) (a : Aid) (p : Coord)
    (e : Err) (h : (g.move a p).2 = .err e) : (g.move a p).1 = g :=
  move_err g a p hw hh hi e h

/-- `place_agent` on an occupied SingleGrid cell (for any state whatsoever) -/
theorem C18_legacy_place_reject_unchanged (g : Grid) (a : Aid) (p : Coord) (e : Err) (h : (g.place a p).2 = .err e) :
    (g.place a p).1 = g :=
  place_err g a p e h

/-- `remove_agent` of an unplaced agent on a MultiGrid (for any state whatsoever) -/
theorem C18_legacy_remove_reject_unchanged (g : Grid) (a : Aid) (e : Err) (h : (g.remove a).2 = .err e) :
    (g.remove a).1 = g :=
  remove_err g a e h

/-- `swap_pos` with an unplaced agent; and it never fails later than that -/
theorem C18_legacy_swap_reject_unchanged (g : Grid) (hi : Inv g) (a b : Aid) (e : Err) (h : (g.swap a b).2 = .err e) :
    (g.swap a b).1 = g :=
  swap_err g a b hi e h

/-- `move_agent_to_one_of`: invalid selection, empty list with `handle_empty="error"`, exhausted generator,
    unplaced agent with `closest`, or a rejected `move_agent` of the chosen position -/
theorem C18_legacy_moveToOneOf_reject_unchanged (g : Grid) (hw : 0 < g.w) (hh : 0 < g.h) (hi : Inv g) (a : Aid)
    (ps : List Coord) (sel : Grid.Selection) (he : Grid.HandleEmpty) (s : Grid.Script) (e : Err)
    (h : (g.moveToOneOf a ps sel he s).2 = .err e) : (g.moveToOneOf a ps sel he s).1 = g :=
  moveToOneOf_err g a ps sel he s hw hh hi e h

/-- `move_to_empty` (full grid, exhausted generator, unplaced agent on a MultiGrid): nothing observable changes;
    the only trace is that the private `_empties` set may now be built — and it is exact -/
theorem C18_legacy_moveToEmpty_reject_unchanged (g : Grid) (hw : 0 < g.w) (hh : 0 < g.h) (hi : Inv g) (a : Aid)
    (s : Grid.Script) (e : Err) (h : (g.moveToEmpty a s).2 = .err e) :
    ObsEq g (g.moveToEmpty a s).1 ∧ Inv (g.moveToEmpty a s).1 ∧ (g.moveToEmpty a s).1 = g.readEmpties.1 := by
  have := moveToEmpty_err g a s hw hh hi e h
  rw [this]
  exact ⟨readEmpties_obs g, readEmpties_inv g hi, rfl⟩

/-- every call of a history: a rejected call changes nothing a caller can observe -/
theorem C18_legacy_step_reject_unchanged (g : Grid) (hw : 0 < g.w) (hh : 0 < g.h) (hi : Inv g) (op : Op) (e : Err)
    (h : (step g op).2 = .err e) : ObsEq g (step g op).1 := by
  have refl : ∀ g : Grid, ObsEq g g := fun g => ⟨rfl, rfl, rfl, rfl, rfl, rfl, rfl, rfl⟩
  cases op with
  | place a p => simp only [step] at h ⊢; rw [place_err g a p e h]; exact refl g
  | remove a => simp only [step] at h ⊢; rw [remove_err g a e h]; exact refl g
  | move a p => simp only [step] at h ⊢; rw [move_err g a p hw hh hi e h]; exact refl g
  | swap a b => simp only [step] at h ⊢; rw [swap_err g a b hi e h]; exact refl g
  | moveToEmpty a s => simp only [step] at h ⊢; rw [moveToEmpty_err g a s hw hh hi e h]; exact readEmpties_obs g
  | moveToOneOf a ps sel he s =>
    simp only [step] at h ⊢; rw [moveToOneOf_err g a ps sel he s hw hh hi e h]; exact refl g
  | readEmpties => simp [step] at h

/-- **a history with rejected calls behaves like the history with them deleted** (`accepted g ops` = the
    calls of `ops` that did not raise, in order): from any state whose views agree, both histories end in
    the same observable state, the shortened history is itself within the quantifier, and every later call
    returns the same result after either — as if the rejected calls had never been made -/
theorem C18_legacy_rejected_calls_deletable (g : Grid) (hw : 0 < g.w) (hh : 0 < g.h) (hi : Inv g) (ops : List Op)
    (hok : HistOk g ops) :
    ObsEq (run g ops) (run g (accepted g ops)) ∧ HistOk g (accepted g ops) ∧
    ∀ op, (step (run g (accepted g ops)) op).2 = (step (run g ops) op).2 := by
  obtain ⟨h1, h2⟩ := run_accepted ops g g hw hh hi hi rfl hok
  refine ⟨(obsEq_iff_forget _ _).mpr h1, h2, fun op => ?_⟩
  have i1 := (run_inv_cfg g ops hw hh hi hok).1
  have i2 := (run_inv_cfg g (accepted g ops) hw hh hi h2).1
  exact (step_cong op (run g ops) (run g (accepted g ops)) i1 i2 h1).1

/-- **…and every later read shows the same**: after a history and after the same history without its rejected
    calls, every read — `empties` (whether or not a rejected `move_to_empty` has meanwhile built the private set),
    `exists_empty_cells`, `is_cell_empty` (any integers), `empty_mask`, `agents`, indexing in all its forms, cell
    lists, contents and `pos` (hence neighbours) — gives the same answer -/
theorem C18_legacy_reads_same_after_deletion (g : Grid) (hw : 0 < g.w) (hh : 0 < g.h) (hi : Inv g) (ops : List Op)
    (hok : HistOk g ops) :
    let g1 := run g ops
    let g2 := run g (accepted g ops)
    g2.readEmpties.2 = g1.readEmpties.2 ∧ g2.existsEmpty.2 = g1.existsEmpty.2 ∧
    (∀ p, g2.isCellEmptyRaw p = g1.isCellEmptyRaw p) ∧ g2.mask = g1.mask ∧ g2.agentsList = g1.agentsList ∧
    (∀ p, g2.getItem p = g1.getItem p) ∧
    (∀ ix iy, g2.getItem2 ix iy = g1.getItem2 ix iy) ∧ (∀ i, g2.getColumn i = g1.getColumn i) ∧
    (∀ ps, g2.getMany ps = g1.getMany ps) ∧ g2.content = g1.content ∧ g2.pos = g1.pos ∧
    (∀ cells, g2.rawCells cells = g1.rawCells cells) ∧ (∀ cells, cellsContents g2 cells = cellsContents g1 cells) ∧
    g2.dim = g1.dim := by
  intro g1 g2
  obtain ⟨h1, h2⟩ := run_accepted ops g g hw hh hi hi rfl hok
  have i1 := (run_inv_cfg g ops hw hh hi hok).1
  have i2 := (run_inv_cfg g (accepted g ops) hw hh hi h2).1
  exact reads_cong g1 g2 i1 i2 ((obsEq_iff_forget _ _).mpr h1)

/-- **NetworkGrid: a rejected call changes nothing at all** — `place_agent` / `move_agent` to a node that does
    not exist (NG1: `move_agent` used to remove the agent first), `remove_agent` / `move_agent` of an agent that
    is not in the space: the state after the KeyError is the state before it (for any state whatsoever) -/
theorem C18_legacy_net_step_reject_unchanged (t : Net) (op : NOp) (e : Err) (h : (nstep t op).2 = .err e) :
    (nstep t op).1 = t :=
  nstep_err t op e h

/-- when exactly a NetworkGrid call is rejected: a target node that does not exist, or (remove / move) an agent
    with `pos = None` — in every state whose views agree -/
theorem C18_legacy_net_rejects_exactly (t : Net) (hi : NetInv t) (a : Aid) (v : Nat) :
    ((∃ e, (t.place a v).2 = .err e) ↔ ¬ v < t.n) ∧
    ((∃ e, (t.remove a).2 = .err e) ↔ t.pos a = none) ∧
    ((∃ e, (t.move a v).2 = .err e) ↔ ¬ v < t.n ∨ t.pos a = none) := by
  refine ⟨?_, ?_, ?_⟩
  · constructor
    · rintro ⟨e, he⟩ hv; rw [(net_place_res t a v).1 hv] at he; cases he
    · intro hv; exact ⟨.key, by rw [(net_place_res t a v).2 hv]⟩
  · constructor
    · rintro ⟨e, he⟩
      cases hp : t.pos a with
      | none => rfl
      | some u => rw [(net_remove_placed t hi a u hp).1] at he; cases he
    · intro hp; exact ⟨.key, by rw [net_remove_unplaced t a hp]⟩
  · constructor
    · rintro ⟨e, he⟩
      by_cases hv : v < t.n
      · cases hp : t.pos a with
        | none => exact Or.inr rfl
        | some u => rw [(net_move_placed t hi a u v hp hv).1] at he; cases he
      · exact Or.inl hv
    · rintro (hv | hp)
      · exact ⟨.key, by rw [net_move_missing t a v hv]⟩
      · exact ⟨.key, by rw [net_move_unplaced t a v hp]⟩

/-- **a NetworkGrid history with rejected calls is the history with them deleted**: both end in the very same
    state (so every later call and read behaves the same), the shortened history is within the quantifier and
    none of its calls is rejected -/
theorem C18_legacy_net_rejected_calls_deletable (t : Net) (ops : List NOp) (hok : NHistOk t ops) :
    nrun t (naccepted t ops) = nrun t ops ∧ NHistOk t (naccepted t ops) ∧
    ∀ pre op post, naccepted t ops = pre ++ op :: post → (nstep (nrun t pre) op).2 = .ok :=
  ⟨(nrun_naccepted t ops hok).1, (nrun_naccepted t ops hok).2, naccepted_all_ok t ops⟩

example : naccepted (Net.init 3 []) [.place 0 1, .move 0 7, .place 1 9, .remove 1, .move 0 2]
    = [.place 0 1, .move 0 2] := by rfl

/-- non-vacuity: a history with two rejected calls; deleting them leaves four calls -/
example : accepted (init 3 3 false false 18)
    [.place 0 (0, 0), .place 1 (1, 1), .move 0 (1, 1), .move 0 (3, 0), .move 0 (2, 2), .remove 1]
    = [.place 0 (0, 0), .place 1 (1, 1), .move 0 (2, 2), .remove 1] := by rfl

/-- the hypotheses are satisfiable: a reachable SingleGrid state in which a move is rejected -/
example : (step (run (init 3 3 false false 18) [.place 0 (0, 0), .place 1 (1, 1)]) (.move 0 (1, 1))).2 = .err .full := by decide
example : (step (run (init 3 3 false false 18) [.place 0 (0, 0), .place 1 (1, 1)]) (.move 0 (3, 0))).2 = .err .oob := by decide

end Mesa.Legacy
