import MesaModel.Proofs.CellGen
import MesaModel.Proofs.CellCollection
/-!
# C01 on the cells model — collections carry the space's generator; random selections are determined by (population, script)

(a) `C01_cells_collections_carry_the_space_generator`: by induction over the expressions that derive collections.
(b) `C01_cells_selection_determined`, `C01_cells_random_empty_determined`: result, draws used and the script left behind are
functions of the ordered population (and, for rejection sampling, of which drawn cells are empty) and the script only.
-/
namespace Mesa.Cells

/-- (a) In a space built by any constructor with generator `g`, every collection the API can derive — `all_cells`, `empties`,
    every neighbourhood of every cell at every radius, the `neighborhood` property, and every `select` of these to any depth —
    carries `g` itself; more generally (hand-built cells) a collection carries the space's generator whenever the cells do. -/
theorem C01_cells_collections_carry_the_space_generator :
    (∀ (g : GenId) (e : CollExpr), e.gen (Gens.built g) = g) ∧
    (∀ (G : Gens), (∀ c, G.cell c = G.space) → ∀ e : CollExpr, e.gen G = G.space) := by
  have h2 : ∀ (G : Gens), (∀ c, G.cell c = G.space) → ∀ e : CollExpr, e.gen G = G.space := by
    intro G hG e
    induction e with
    | all => rfl
    | empties => rfl
    | nb c r ic => exact hG c
    | nbp c => exact hG c
    | sel e f am ih => exact ih
  exact ⟨fun g e => h2 (Gens.built g) (fun _ => rfl) e, h2⟩

/-- (b) `select_random_cell` / `select_random_agent` on any derived collection, at any states of any spaces: the outcome — the
    element, its position, the number of draws consumed, and the script left in the generator — is determined by the ordered
    population and the script alone (two collections with the same cells in the same order, or the same chained agent lists,
    answer alike whatever else differs); the number of draws is 0 for an empty population (IndexError) and 1 otherwise, whatever
    the script holds beyond its first entry; and what is left is the script without the draws consumed. -/
theorem C01_cells_selection_determined (sp sp' : Space) (s s' : State) (e e' : CollExpr) (draws : List Nat) :
    (e.cells sp s = e'.cells sp' s' →
      selectRandomCell (e.cells sp s) draws = selectRandomCell (e'.cells sp' s') draws ∧
      pickRest (e.cells sp s) draws = pickRest (e'.cells sp' s') draws) ∧
    (collAgents s (e.cells sp s) = collAgents s' (e'.cells sp' s') →
      selectRandomAgent s (e.cells sp s) draws = selectRandomAgent s' (e'.cells sp' s') draws ∧
      pickRest (collAgents s (e.cells sp s)) draws = pickRest (collAgents s' (e'.cells sp' s')) draws) ∧
    (∀ {α : Type} (seq : List α) (x : α) (pos used : Nat), pick seq draws = .ok x pos used →
      used = 1 ∧ pickRest seq draws = draws.drop used ∧ ∀ more, pick seq (draws.take 1 ++ more) = .ok x pos used) ∧
    (∀ {α : Type} (seq : List α), pick seq draws = .err .index → pickRest seq draws = draws) := by
  refine ⟨fun h => by rw [h]; exact ⟨rfl, rfl⟩, fun h => ?_, ?_, ?_⟩
  · unfold selectRandomAgent; rw [h]; exact ⟨rfl, rfl⟩
  · intro α seq x pos used hp
    obtain ⟨h1, _, _, d, ds, hd, hpos⟩ := pick_ok hp
    subst h1
    have hne : seq ≠ [] := by
      intro he; subst he; simp [pick] at hp
    have hie : seq.isEmpty = false := by
      cases seq with
      | nil => exact absurd rfl hne
      | cons a t => rfl
    refine ⟨rfl, by simp [pickRest, hie, hd], fun more => ?_⟩
    subst hd
    have := hp
    simp only [pick, hie] at this ⊢
    simpa using this
  · intro α seq hp
    have := pick_err_index.mp hp
    subst this
    simp [pickRest]

/-- (b) `select_random_empty_cell`, both strategies: the result depends on the state only through *which cells are empty*
    (two states — of the same space — with the same empty cells answer alike and consume the same number of draws); under the
    list strategy it is one `random.choice` over `empties` (0 draws and IndexError if there is none, else 1 draw); under
    rejection sampling it consumes as many draws as cells were tried: never more than the script holds, all of it exactly when
    no drawn cell was empty, and at least one whenever it returns a cell. -/
theorem C01_cells_random_empty_determined (sp : Space) (s s' : State) (draws : List Nat)
    (h : ∀ c ∈ sp.cells, isEmpty s c = isEmpty s' c) (ht : s.tryRandom = s'.tryRandom) :
    (step sp s (.randEmpty draws)).2 = (step sp s' (.randEmpty draws)).2 ∧
    tryRandomUsed s sp.cells draws = tryRandomUsed s' sp.cells draws ∧
    ((sp.isGrid && s.tryRandom) = false →
      (step sp s (.randEmpty draws)).2 = (match pick (empties sp s) draws with
        | .ok c _ _ => .okCell c
        | .err e => .err e)) ∧
    tryRandomUsed s sp.cells draws ≤ draws.length ∧
    (∀ c, tryRandomLoop s sp.cells draws = .okCell c → 1 ≤ tryRandomUsed s sp.cells draws) ∧
    (tryRandomLoop s sp.cells draws = .err .script → tryRandomUsed s sp.cells draws = draws.length) := by
  have hemp : empties sp s = empties sp s' := by
    unfold empties
    exact List.filter_congr h
  have hcong := tryRandom_congr s s' sp.cells h draws
  refine ⟨?_, hcong.2, ?_, ?_, ?_, ?_⟩
  · simp only [step, ← ht, hemp]
    split
    · exact hcong.1
    · rfl
  · intro hg
    simp only [step, hg, Bool.false_eq_true, if_false]
    unfold choice pick
    by_cases he : (empties sp s).isEmpty = true
    · simp [he]
    · simp only [he, Bool.false_eq_true, if_false]
      cases draws with
      | nil => rfl
      | cons d ds =>
        simp only [draw]
        cases hx : (empties sp s)[d % (empties sp s).length]? with
        | none => rfl
        | some c => rfl
  · exact tryRandomUsed_le s sp.cells draws
  · exact fun c hc => tryRandomUsed_pos s sp.cells draws c hc
  · exact tryRandomUsed_script s sp.cells draws

/-! ### non-vacuity -/

-- a hand-built cell with its own generator: the neighbourhood collection carries the cell's, `all_cells` the space's
example : (CollExpr.sel (.nb [0] 2 true) none (.int 1)).gen { space := 1, cell := fun _ => 2 } = 2 ∧
    (CollExpr.sel .empties (some .full) .inf).gen { space := 1, cell := fun _ => 2 } = 1 := by decide
example : (CollExpr.sel (.sel (.nb [0, 0] 1 false) none .inf) (some .empty) (.frac 1 2)).gen (Gens.built 7) = 7 := by decide
private def sp : Space := gridSpace .moore [2, 2] true (some 1)
private def st : State := run sp (init sp) [.new .cell, .new .cell, .setCell 0 (some [0, 0]), .setCell 1 (some [1, 1])]
-- one draw, the rest of the script stays; an empty population raises without drawing
example : selectRandomCell ((CollExpr.empties).cells sp st) [7, 3] = .ok [1, 0] 1 1 ∧ pickRest ((CollExpr.empties).cells sp st) [7, 3] = [3] ∧
    selectRandomAgent st ((CollExpr.empties).cells sp st) [7, 3] = .err .index ∧
    pickRest (collAgents st ((CollExpr.empties).cells sp st)) [7, 3] = [7, 3] := by decide
-- rejection sampling: two occupied cells are tried before the empty one: three draws
example : tryRandomLoop st sp.cells [0, 3, 1, 9] = .okCell [0, 1] ∧ tryRandomUsed st sp.cells [0, 3, 1, 9] = 3 ∧
    tryRandomUsed st sp.cells [0, 3] = 2 ∧ tryRandomLoop st sp.cells [0, 3] = .err .script := by decide

end Mesa.Cells
