import MesaModel.Model.Computed
