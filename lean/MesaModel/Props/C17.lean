import MesaModel.Proofs.Computed
import MesaModel.Proofs.ComputedCycle
/-!
# C17 — a Computable is never stale and recomputes only when an input changed

Property theorems only (model: `Model/Computed.lean`, helper lemmas: `Proofs/Computed.lean`, `Proofs/ComputedCycle.lean`).

`init decls progs`: owners with their declared Observables / Computables, every Observable holding 0 (values are ints
or `None`: `V = Option Int`), and the
Computables that user handler `h` reads while it is being notified (`progs h`).  Operations: `define` (assign
a `Computed` whose function is a read tree), `assign`, `read`, user `observe` / `unobserve` / `drop`.
`Den s t v`: the function `t` returns `v` when it is evaluated in state `s` from scratch (Observables from
the store, Computables by evaluating *their* functions) — "what its function would return if evaluated right now";
`DenFail s t`: evaluated from scratch it raises (it arrives at a `fail` node, or at the read of a Computable whose
function raises, or of one that is not defined).
-/
namespace Mesa.Computed
open Mesa.Signals

/-- states reachable from a fresh model — user handler `h` reads the Computables `progs h` whenever it is notified —
    by any sequence of operations, **whether they returned or raised**: definitions of pure functions (which may raise
    on their own: `fail`) that read only earlier Computables, assignments (also restoring old values), reads, handler
    (un)subscriptions and deaths; `OpOK`: a handler that reads Computables subscribes to Observables, a handler that
    subscribes to a Computable is passive.
    **Not covered** (do not over-read the theorems about `Reachable` states): a function with an assignment (`write`
    node) is no admissible definition (`DefineOK.pure`) — after such a definition, cyclic or not, none of the theorems
    below about reachable states applies any more (only the cycle theorems, which hold in any state); a Computable is
    never defined twice (`DefineOK.fresh`); a handler subscribed to a Computable reads no Computables (`OpOK.observe`).
    All read theorems are partial-correctness statements: their hypothesis is that the read returned (`step fuel … =
    some …`); that some fuel makes a read of a reachable state return is not proved (see design.d/C17.md) -/
inductive Reachable (decls : Nat → List Decl) (progs : Nat → List Nat) : St → Prop
  | init : Reachable decls progs (init decls progs)
  | step {s s' : St} {op : Op} {fuel : Nat} {r : R} (h : Reachable decls progs s) (ok : OpOK s op)
      (hs : step fuel s op = some (s', r)) : Reachable decls progs s'

theorem reachable_good {decls : Nat → List Decl} (hd : DeclsOK decls) {progs : Nat → List Nat} {s : St}
    (h : Reachable decls progs s) : Good s := by
  induction h with
  | init => exact init_good hd progs
  | step _ ok hs ih => exact step_good _ ih ok hs

/-- **No stale read** (G7 repaired: user handlers may read Computables while an Observable notifies them; partial:
    a handler subscribed to a *Computable* is passive — one that read Computables there would run in the middle of the
    dirty cascade or of an evaluation).
    In every reachable state, whatever dependency structure (several owners, branches that switch what is
    read, chains of Computables) and whatever history of assignments and reads — including reads and
    definitions whose function raised (G11 repaired: nothing cached before a failure is ever served again) —:
    a read of a Computable that returns `v` returns what its function evaluates to now; the read changes no
    Observable. -/
theorem C17_no_stale_partial {decls : Nat → List Decl} (hd : DeclsOK decls) {s s' : St} {progs : Nat → List Nat} (h : Reachable decls progs s)
    {fuel c : Nat} {v : V} (hr : step fuel s (.read c) = some (s', .ok v)) :
    s'.store = s.store ∧ ∃ x, s'.comps c = some x ∧ Den s' x.tree v := by
  obtain ⟨_, hst, _, x, hx, _, _, hden⟩ := read_spec fuel (reachable_good hd h) hr
  exact ⟨hst, x, hx, hden⟩

/-- … and the same for the value a definition returns (`owner.name = Computed(f)` evaluates once). -/
theorem C17_define_fresh {decls : Nat → List Decl} (hd : DeclsOK decls) {s s' : St} {progs : Nat → List Nat} (h : Reachable decls progs s)
    {fuel c o n : Nat} {t : Tree} {v : V} (ok : DefineOK s c o n t)
    (hr : step fuel s (.define c o n t) = some (s', .ok v)) : ∃ x, s'.comps c = some x ∧ x.tree = t ∧ Den s' t v := by
  have g := reachable_good hd h
  obtain ⟨w0, i0⟩ := define_pre g.stat g.inv ok
  obtain ⟨_, _, se, x, hx, _, _, hden⟩ := read_spec fuel ⟨w0, i0, g.cur⟩ hr
  obtain ⟨_, _, ht⟩ := (se.comps c).2 _ x (setComp_same _ _ _) hx
  have ht' : x.tree = t := ht
  exact ⟨x, hx, ht', by rw [← ht']; exact hden⟩

/-- **A read raises only if the function raises now** (G11, G12 repaired): in every reachable state, if reading a
    defined Computable raises, then its function evaluated right now raises (so the dirty pre-check never lets the
    failure of a Computable through that the function would not read any more), no Observable changed, and the
    Computed is marked to run its function again at the next read instead of re-validating an older value. -/
theorem C17_raise_is_fresh {decls : Nat → List Decl} (hd : DeclsOK decls) {s s' : St} {progs : Nat → List Nat} (h : Reachable decls progs s)
    {fuel c : Nat} {x : Comp} (hx : s.comps c = some x) {e : Err}
    (hr : step fuel s (.read c) = some (s', .err e)) :
    s'.store = s.store ∧ ∃ y, s'.comps c = some y ∧ y.tree = x.tree ∧ DenFail s' y.tree ∧
      y.first = true ∧ y.dirty = true := by
  obtain ⟨_, hst, se, _, herr⟩ := read_spec_all fuel (reachable_good hd h) hr
  rcases herr e rfl with hnone | ⟨y, hy, hyf, hyd, hdf⟩
  · rw [hx] at hnone; cases hnone
  · obtain ⟨_, _, ht⟩ := (se.comps c).2 x y hx hy
    exact ⟨hst, y, hy, ht, hdf, hyf, hyd⟩

/-- "returns `v`" and "raises" exclude each other (and the value is unique): the two theorems above never both apply -/
theorem C17_den_deterministic {s : St} {t : Tree} {v : V} (h : Den s t v) :
    (∀ v', Den s t v' → v' = v) ∧ ¬ DenFail s t := by
  induction h with
  | ret v => exact ⟨fun v' h' => by cases h'; rfl, fun h' => by cases h'⟩
  | read k cont v _ ih =>
    refine ⟨fun v' h' => ?_, fun h' => ?_⟩
    · cases h' with | read _ _ _ h' => exact ih.1 v' h'
    · cases h' with | read _ _ h' => exact ih.2 h'
  | readC c cont x a v hx _ _ iha ih =>
    refine ⟨fun v' h' => ?_, fun h' => ?_⟩
    · cases h' with
      | readC _ _ x' a' _ hx' ha' h' =>
        rw [hx] at hx'; cases hx'
        have := iha.1 a' ha'; subst this
        exact ih.1 v' h'
    · cases h' with
      | readCFail _ _ x' hx' hf => rw [hx] at hx'; cases hx'; exact iha.2 hf
      | readC _ _ x' a' hx' ha' hf =>
        rw [hx] at hx'; cases hx'
        have := iha.1 a' ha'; subst this
        exact ih.2 hf
      | readCUndef _ _ hx' => rw [hx] at hx'; cases hx'

/-- In every reachable state a Computed that never ran, or whose last evaluation raised, is dirty (so it is not served
    from the cache), and it remembers — and is subscribed to — exactly what that evaluation read before it raised
    (an initial part of a way through its function; nothing for a Computed that never ran). -/
theorem C17_failed_is_dirty {decls : Nat → List Decl} (hd : DeclsOK decls) {s : St} {progs : Nat → List Nat} (h : Reachable decls progs s)
    {c : Nat} {x : Comp} (hx : s.comps c = some x) (hf : x.first = true) :
    x.dirty = true ∧ ∃ ps, Prefix x.tree ps ∧ ∀ e, e ∈ ps ↔ e ∈ x.parents :=
  ((reachable_good hd h).inv.evald c x hx (by simp [NoS])).1 hf

/-- **The cache is never stale**: in every reachable state every Computed that is not marked dirty holds
    exactly the value its function evaluates to now (so a read served from the cache is right). -/
theorem C17_clean_is_fresh {decls : Nat → List Decl} (hd : DeclsOK decls) {s : St} {progs : Nat → List Nat} (h : Reachable decls progs s)
    {c : Nat} {x : Comp} (hx : s.comps c = some x) (hc : x.dirty = false) : ∃ v, x.value = some v ∧ Den s x.tree v :=
  clean_den (reachable_good hd h).inv c x hx hc

/-- **What a Computed remembers is exactly what its last evaluation read** (needs G4, G8, G9 repaired): the
    cached value is the result of following the function along the remembered (reference, value) pairs, and
    nothing else is remembered. -/
theorem C17_remembers_exactly_last_reads {decls : Nat → List Decl} (hd : DeclsOK decls) {s : St}
    {progs : Nat → List Nat} (h : Reachable decls progs s) {c : Nat} {x : Comp} (hx : s.comps c = some x) (hf : x.first = false) :
    ∃ v ps, x.value = some v ∧ PathR x.tree ps v ∧ ∀ e, e ∈ ps ↔ e ∈ x.parents :=
  ((reachable_good hd h).inv.evald c x hx (by simp [NoS])).2 hf

/-- **Minimal recomputation, at most once** (partial: "at most once" is stated for the Computable that is read; for
    every other Computable `C17_minimal` gives the reasons but no count — a Computable read in turn whose function
    raises can run twice in one read, once in the dirty pre-check and once more when the function reads it: the code
    does that).  A read — returning or raising — runs the function body at most once, and
    only if it never ran before, or raised the last time it ran (`first`), or some value it read last time (by the
    previous theorem: some remembered pair) differs from the present value of that Observable / the up-to-date
    value of that Computable (or that Computable raises now). -/
theorem C17_minimal_partial {decls : Nat → List Decl} (hd : DeclsOK decls) {s s' : St} {progs : Nat → List Nat} (h : Reachable decls progs s)
    {fuel c : Nat} {r : R} {x : Comp} (hx : s.comps c = some x) (hr : step fuel s (.read c) = some (s', r)) :
    ∃ y, s'.comps c = some y ∧
      (y.evals = x.evals ∨ (y.evals = x.evals + 1 ∧ (x.first = true ∨ ∃ e ∈ x.parents, Stale s' e))) := by
  have g := reachable_good hd h
  obtain ⟨hok, herr⟩ := (exec_IH fuel).get c s s' r NoS g.stat g.inv (by simp [NoS])
    (fun q hq => by simp [NoS] at hq) hr
  have fin : ∀ y, Justified x s' y →
      (y.evals = x.evals ∨ (y.evals = x.evals + 1 ∧ (x.first = true ∨ ∃ e ∈ x.parents, Stale s' e))) := by
    intro y hj
    rcases hj with hj | ⟨h1, _, h3⟩
    · exact Or.inl hj
    · exact Or.inr ⟨h1, h3⟩
  cases r with
  | ok v =>
    obtain ⟨y, hy, _, _, hj⟩ := (hok v rfl).clean
    exact ⟨y, hy, fin y (hj x hx)⟩
  | err e =>
    rcases (herr e rfl).failed with hnone | ⟨y, hy, _, _, _, hj⟩
    · rw [hx] at hnone; cases hnone
    · exact ⟨y, hy, fin y (hj x hx)⟩

/-- **Minimal recomputation, for every Computable** (the statement assembled over all nested reads, pre-checks and
    evaluations of one read, returning or raising): for each Computable `q` — the one read, the ones it reads in turn,
    all others — either its function did not run, and then nothing at all happened to `q` unless it was re-validated
    (it is no longer dirty); or its function ran, and then `q` was dirty and it had never run / had raised the last
    time it ran, or some value it read last time differs from the present value of that Observable / the up-to-date
    value of that Computable (or that Computable raises now). -/
theorem C17_minimal {decls : Nat → List Decl} (hd : DeclsOK decls) {s s' : St} {progs : Nat → List Nat} (h : Reachable decls progs s)
    {fuel c : Nat} {r : R} (hr : step fuel s (.read c) = some (s', r)) :
    ∀ q x, s.comps q = some x → ∃ y, s'.comps q = some y ∧
      ((y.evals = x.evals ∧ (y.dirty = true → y = x)) ∨
       (x.evals < y.evals ∧ x.dirty = true ∧ (x.first = true ∨ ∃ e ∈ x.parents, Stale s' e))) := by
  have g := reachable_good hd h
  obtain ⟨hok, herr⟩ := (exec_IH fuel).get c s s' r NoS g.stat g.inv (by simp [NoS])
    (fun q hq => by simp [NoS] at hq) hr
  have key : Below (· ≤ c) s s' ∧ ∀ q, c < q → s'.comps q = s.comps q := by
    cases r with
    | ok v => exact ⟨(hok v rfl).below, fun q hq => (hok v rfl).above q hq (by rw [g.cur]; simp)⟩
    | err e => exact ⟨(herr e rfl).below, (herr e rfl).above⟩
  intro q x hx
  by_cases hq : q ≤ c
  · obtain ⟨y, hy, hj⟩ := key.1 q x hq hx
    exact ⟨y, hy, hj⟩
  · exact ⟨x, by rw [key.2 q (by omega)]; exact hx, Or.inl ⟨rfl, fun _ => rfl⟩⟩

/-- **A read runs nothing it need not run, also among the Computables it reads in turn** (the assembled part of
    minimality): whatever a read of `c` — returning or raising — does in nested reads, pre-checks and evaluations,
    every Computable whose cache is valid (not dirty) stays exactly as it is — its function does not run, its
    remembered values and its counter are untouched — and so does every Computable defined after `c`. -/
theorem C17_read_leaves_clean_and_later_untouched {decls : Nat → List Decl} (hd : DeclsOK decls) {s s' : St}
    {progs : Nat → List Nat} (h : Reachable decls progs s) {fuel c : Nat} {r : R} (hr : step fuel s (.read c) = some (s', r)) :
    (∀ q x, s.comps q = some x → x.dirty = false → s'.comps q = some x) ∧
    (∀ q, c < q → s'.comps q = s.comps q) := by
  have g := reachable_good hd h
  obtain ⟨hok, herr⟩ := (exec_IH fuel).get c s s' r NoS g.stat g.inv (by simp [NoS])
    (fun q hq => by simp [NoS] at hq) hr
  cases r with
  | ok v => exact ⟨(hok v rfl).keepClean, fun q hq => (hok v rfl).above q hq (by rw [g.cur]; simp)⟩
  | err e => exact ⟨(herr e rfl).keepClean, (herr e rfl).above⟩

/-- A read of a Computable that is not dirty runs no function at all and changes nothing. -/
theorem C17_cached_read_is_free {decls : Nat → List Decl} (hd : DeclsOK decls) {s : St} {progs : Nat → List Nat} (h : Reachable decls progs s)
    {c : Nat} {x : Comp} (hx : s.comps c = some x) (hc : x.dirty = false) (fuel : Nat) :
    ∃ v, x.value = some v ∧ step (fuel + 1) s (.read c) = some (s, .ok v) := by
  have g := reachable_good hd h
  obtain ⟨v, hv, _⟩ := clean_den g.inv c x hx hc
  refine ⟨v, hv, ?_⟩
  simp [step, exec, stepF, getC, hx, callC, hc, hv, g.cur]

/-! ### cycles

`TSteps rec t s t' s'` (`Proofs/ComputedCycle.lean`): evaluating the function `t` from state `s` executes some of its
nodes — reads of Observables, reads of Computables, assignments, each with everything it triggers (pre-checks, nested
evaluations, notification cascades, user handlers), each returning normally — and arrives at the rest `t'` in state
`s'`.  `Computed.__call__` runs a function with `CURRENT_COMPUTED = p` and `EVALUATION_DEPTH > 0` (`evalBody`). -/

/-- **Cycle rejection** (G10 repaired).  Inside an evaluation on behalf of a Computed `p`, in *any* state: if the
    function reads the Observable `k` and its execution later — after any further reads, reads of Computables
    (cached, re-validated or re-evaluated, whatever their functions and the notified handlers do) and completed
    assignments — arrives at an assignment to `k`, then the evaluation raises `ValueError` at that very assignment:
    the assignment is not performed, no value is returned, nothing loops. -/
theorem C17_cycle_rejected (f p : Nat) (k : Key) (cont : V → Tree) (s : St) (hcur : s.cur = some p)
    (hdepth : 0 < s.depth) {v : V} {next : Tree} {s' : St}
    (path : TSteps (exec (f + 1)) (.read k cont) s (.write k v next) s') :
    evalTree (exec (f + 1)) (.read k cont) s = some (s', .err .value) := by
  rw [evalTree_tsteps path]
  cases path with
  | head h hs =>
    cases h with
    | readTop _ _ hc => rw [hcur] at hc; cases hc
    | read _ _ hc ha =>
      rename_i s1 _ _
      obtain ⟨c1, d1, _⟩ := addParent_ctx ha
      have i2 : Inside p k { s1 with proc := k :: s1.proc } :=
        ⟨c1.trans hcur, by show 0 < s1.depth; rw [d1]; exact hdepth, List.mem_cons_self⟩
      exact write_inside (i2.of_frame (hs.frame (exec_frame (f + 1)))) f v next

/-- whatever values it reads, the function arrives at an assignment to `k` -/
inductive AlwaysWrites (k : Key) : Tree → Prop
  | write (v : V) (next : Tree) : AlwaysWrites k (.write k v next)
  | other (k' : Key) (v : V) (next : Tree) (h : AlwaysWrites k next) : AlwaysWrites k (.write k' v next)
  | read (k' : Key) (cont : V → Tree) (h : ∀ x, AlwaysWrites k (cont x)) : AlwaysWrites k (.read k' cont)
  | readC (c : Nat) (cont : V → Tree) (h : ∀ x, AlwaysWrites k (cont x)) : AlwaysWrites k (.readC c cont)

/-- … and with no hypothesis about the execution: a function that reads `k` and then, along every branch, gets to
    an assignment to `k` never returns a value — for every state, every fuel, whatever the Computables it reads and
    the handlers it triggers do (they may raise or not terminate; they cannot make the cycle pass). -/
theorem C17_cycle_never_returns (fuel p : Nat) (k : Key) (cont : V → Tree) (s : St) (hcur : s.cur = some p)
    (hdepth : 0 < s.depth) (hw : ∀ x, AlwaysWrites k (cont x)) {s' : St} {r : R}
    (h : evalTree (exec fuel) (.read k cont) s = some (s', r)) : ∃ e, r = .err e := by
  have key : ∀ t, AlwaysWrites k t → ∀ s s' r, Inside p k s → evalTree (exec fuel) t s = some (s', r) → ∃ e, r = .err e := by
    intro t ht
    induction ht with
    | write v next =>
      intro s s' r i h
      cases fuel with
      | zero => simp [evalTree, exec] at h
      | succ f =>
        rw [write_inside i f v next] at h
        injection h with h; injection h with _ h2
        exact ⟨_, h2.symm⟩
    | other k' v next _ ih =>
      intro s s' r i h
      simp only [evalTree] at h
      cases hg : exec fuel (.assign k' v) s with
      | none => simp [hg] at h
      | some res =>
        obtain ⟨s1, r1⟩ := res
        rw [hg] at h
        cases r1 with
        | err e =>
          simp only at h
          injection h with h; injection h with _ h2
          exact ⟨_, h2.symm⟩
        | ok u =>
          simp only at h
          exact ih s1 s' r (i.of_frame (exec_frame fuel _ _ _ _ hg)) h
    | read k' cont _ ih =>
      intro s s' r i h
      simp only [evalTree, i.cur] at h
      cases ha : addParent s p (.obs k') (s.store k') with | mk s1 r1 =>
      rw [ha] at h
      obtain ⟨c1, d1, p1⟩ := addParent_ctx ha
      cases r1 with
      | err e =>
        simp only at h
        injection h with h; injection h with _ h2
        exact ⟨_, h2.symm⟩
      | ok u =>
        simp only at h
        refine ih _ { s1 with proc := k' :: s1.proc } s' r
          ⟨c1.trans i.cur, by show 0 < s1.depth; rw [d1]; exact i.depth, ?_⟩ h
        show k ∈ k' :: s1.proc
        rw [p1]; exact List.mem_cons_of_mem _ i.mem
    | readC c cont _ ih =>
      intro s s' r i h
      simp only [evalTree] at h
      cases hg : exec fuel (.readC c) s with
      | none => simp [hg] at h
      | some res =>
        obtain ⟨s1, r1⟩ := res
        rw [hg] at h
        cases r1 with
        | err e =>
          simp only at h
          injection h with h; injection h with _ h2
          exact ⟨_, h2.symm⟩
        | ok u =>
          simp only at h
          exact ih _ s1 s' r (i.of_frame (exec_frame fuel _ _ _ _ hg)) h
  simp only [evalTree, hcur] at h
  cases ha : addParent s p (.obs k) (s.store k) with | mk s1 r1 =>
  rw [ha] at h
  obtain ⟨c1, d1, _⟩ := addParent_ctx ha
  cases r1 with
  | err e =>
    simp only at h
    injection h with h; injection h with _ h2
    exact ⟨_, h2.symm⟩
  | ok u =>
    simp only at h
    exact key _ (hw _) { s1 with proc := k :: s1.proc } s' r
      ⟨c1.trans hcur, by show 0 < s1.depth; rw [d1]; exact hdepth, List.mem_cons_self⟩ h

/-- along the path the function takes in the store `σ`: reads of Observables, then an assignment to `k` -/
inductive ReadsThenWrites (σ : Key → V) (k : Key) : Tree → Prop
  | write (v : V) (t : Tree) : ReadsThenWrites σ k (.write k v t)
  | read (k' : Key) (cont : V → Tree) (h : ReadsThenWrites σ k (cont (σ k'))) : ReadsThenWrites σ k (.read k' cont)

theorem evalTree_cycle (f p : Nat) (k : Key) : ∀ (t : Tree) (s : St), ReadsThenWrites s.store k t → s.cur = some p →
    s.proc.contains k = true → ∃ s' e, evalTree (exec (f + 1)) t s = some (s', .err e) := by
  intro t s h
  generalize hσ : s.store = σ at h
  induction h generalizing s with
  | write v t =>
    intro hcur hproc
    refine ⟨s, .value, ?_⟩
    have hmem : k ∈ s.proc := by simpa using hproc
    simp [evalTree, exec, stepF, assignT, hcur, hmem]
  | read k' cont _ ih =>
    intro hcur hproc
    simp only [evalTree, hcur]
    cases ha : addParent s p (.obs k') (s.store k') with | mk s1 r1 =>
    cases r1 with
    | err e => exact ⟨s1, e, rfl⟩
    | ok u =>
      simp only
      have hfields : s1.store = s.store ∧ s1.cur = s.cur ∧ s1.proc = s.proc := by
        unfold addParent at ha
        split at ha
        · split at ha
          · cases ha
          · injection ha with ha _; subst ha; exact ⟨rfl, rfl, rfl⟩
        · cases ha
      obtain ⟨h1, h2, h3⟩ := hfields
      rw [hσ]
      exact ih { s1 with proc := k' :: s1.proc } (by simpa [h1] using hσ) (by simpa [h2] using hcur)
        (by simp only [List.contains_cons, h3, hproc, Bool.or_true])

/-- The direct cycle (the function reads `k`, reads other Observables, assigns `k`) needs no hypothesis about the
    execution at all: evaluating it — whatever the state — always ends, with an exception. -/
theorem C17_cycle_rejected_direct (f p : Nat) (k : Key) (cont : V → Tree) (s : St) (hcur : s.cur = some p)
    (h : ReadsThenWrites s.store k (cont (s.store k))) :
    ∃ s' e, evalTree (exec (f + 1)) (.read k cont) s = some (s', .err e) := by
  simp only [evalTree, hcur]
  cases ha : addParent s p (.obs k) (s.store k) with | mk s1 r1 =>
  cases r1 with
  | err e => exact ⟨s1, e, rfl⟩
  | ok u =>
    simp only
    have hfields : s1.store = s.store ∧ s1.cur = s.cur := by
      unfold addParent at ha
      split at ha
      · split at ha
        · cases ha
        · injection ha with ha _; subst ha; exact ⟨rfl, rfl⟩
      · cases ha
    exact evalTree_cycle f p k _ { s1 with proc := k :: s1.proc } (by simpa [hfields.1] using h)
      (by simpa [hfields.2] using hcur) (by simp)

/-- **A cycle through a Computable is rejected** (G15 repaired).  Inside an evaluation on behalf of a Computed `p`,
    in *any* state: the function reads the Computable `c` and is handed the value `c` held before (`c` is served from
    its cache, or re-validated by its pre-check, or recomputed to the same value — so possibly no function reads any
    Observable now); if the walk over what `c` remembers (`sourcesOf` = `Computed._sources`) finds the Observable `k`,
    and the execution later — after any reads, reads of Computables, completed assignments — arrives at an assignment
    to `k`, the evaluation raises `ValueError` at that assignment.  (When `c` hands out a *new* value, its function ran
    inside this evaluation and its reads are on record by themselves: `C17_cycle_rejected` for that function.) -/
theorem C17_cycle_through_computable_rejected (f p c : Nat) (cont : V → Tree) (s : St) (hcur : s.cur = some p)
    (hdepth : 0 < s.depth) {x : Comp} (hx : s.comps c = some x) {s1 s' : St}
    (hread : exec (f + 1) (.readC c) s = some (s1, .ok x.value.join))
    {k : Key} (hdep : k ∈ sourcesOf s1 (c + 1) c) {v : V} {next : Tree}
    (path : TSteps (exec (f + 1)) (cont x.value.join) s1 (.write k v next) s') :
    evalTree (exec (f + 1)) (.readC c cont) s = some (s', .err .value) := by
  rw [evalTree_tsteps (TSteps.head (TStep.readC c cont hread) path)]
  have fr := exec_frame (f + 1) _ _ _ _ hread
  have hrec : getC (exec f) c s = some (s1, .ok x.value.join) := hread
  have i1 : Inside p k s1 :=
    ⟨fr.cur.trans hcur, by rw [fr.depth]; exact hdepth, getC_records (exec_frame f) hcur hx hrec rfl k hdep⟩
  exact write_inside (i1.of_frame (path.frame (exec_frame (f + 1)))) f v next

/-- **The walk finds exactly the dependencies**: in every reachable state `sourcesOf` (what `Computed._sources`
    returns for `c`) is the set of Observables `c` depends on — the ones it remembers, and the ones the Computables it
    remembers depend on, to any depth (`c + 1` levels suffice: a function reads only Computables defined before it) -/
theorem C17_sources_are_the_dependencies {decls : Nat → List Decl} (hd : DeclsOK decls) {s : St}
    {progs : Nat → List Nat} (h : Reachable decls progs s) (c : Nat) (k : Key) :
    k ∈ sourcesOf s (c + 1) c ↔ DependsOn s c k := by
  refine ⟨dependsOn_of_sourcesOf (c + 1) c k, fun hdep => sourcesOf_of_dependsOn ?_ hdep (c + 1) (by omega)⟩
  intro q y hy c' v hm
  exact ((reachable_good hd h).inv.parents q y hy (.comp c') v hm).1 c' rfl

/-- nothing is evaluating and nothing is on record as read -/
def Idle (s : St) : Prop := s.cur = none ∧ s.depth = 0 ∧ s.proc = []

/-- **The record of what was read lives exactly as long as the outermost evaluation**: between top-level
    operations — whether they returned or raised — nothing is evaluating and `PROCESSING_SIGNALS` is empty, so an
    evaluation is only ever rejected for what was read during that same outermost evaluation. -/
theorem C17_cycle_record_per_evaluation (decls : Nat → List Decl) (progs : Nat → List Nat) :
    Idle (init decls progs) ∧
    ∀ (fuel : Nat) (s s' : St) (op : Op) (r : R), Idle s → step fuel s op = some (s', r) → Idle s' := by
  refine ⟨⟨rfl, rfl, rfl⟩, fun fuel s s' op r ⟨h1, h2, h3⟩ h => ?_⟩
  have f := step_frame fuel h
  exact ⟨f.cur.trans h1, f.depth.trans h2, f.idle h2 h1 h3⟩

/-! ### examples: values, handlers that read Computables while notified (finding G7, repaired) -/

/-- for the examples: an int as a value, int arithmetic on values (`None` is contagious) -/
@[reducible] def i (n : Int) : V := some n
def vmul (a : Int) (x : V) : V := x.map (a * ·)
def vdiv (a : Int) (x : V) : V := x.map (a / ·)
def vadd (x y : V) : V := x.bind fun a => y.map (a + ·)

def runOps (fuel : Nat) : St → List Op → Option (St × List R)
  | s, [] => some (s, [])
  | s, op :: ops =>
    match step fuel s op with
    | none => none
    | some (s1, r) => (runOps fuel s1 ops).map fun res => (res.1, r :: res.2)

/-- one owner with an Observable `x` (name 0) and a Computable `c` (name 1) -/
def exDecls : Nat → List Decl := fun o => if o = 0 then [⟨0, .obs, [.change]⟩, ⟨1, .comp, [.change]⟩] else []
/-- `c = 10 * x` -/
def exTree : Tree := .read (0, 0) fun x => .ret (vmul 10 x)

theorem den_exTree {s : St} {v : V} (h : Den s exTree v) : v = vmul 10 (s.store (0, 0)) := by
  cases h with
  | read _ _ _ h => cases h; rfl

def g7progs : Nat → List Nat := fun h => if h = 0 then [0] else []
def g7ops : List Op := [.define 0 0 1 exTree, .observe (0, 0) 0, .assign (0, 0) (i 7), .read 0]

/-- **G7 (repaired)**: `c = Computed(10*x)` (x = 0); `observe(x, h)` where `h` reads `c` whenever it is notified;
    `x = 7; read c` returns 70.  Before the repair `Observable.__set__` notified before it stored: the handler's read
    re-validated `c` against the old `x`, `c` was clean when the store happened, and the read returned 0 (the full
    `no_stale` was refuted by this history). -/
example : (runOps 30 (init exDecls g7progs) g7ops).map (·.2) = some [.ok (i 0), .ok none, .ok none, .ok (i 70)] := by
  decide +kernel

/-- non-vacuity of `OpOK` for a handler that reads Computables: it may subscribe to the Observable `x` -/
example : OpOK (init exDecls g7progs) (.observe (0, 0) 0) := .observe _ _ (Or.inr (by decide))

/-- the same history without the reading handler: 70 as well -/
example : (runOps 30 (init exDecls fun _ => []) g7ops).map (·.2) = some [.ok (i 0), .ok none, .ok none, .ok (i 70)] := by
  decide +kernel

/-- values may be `None` (all theorems above quantify over such functions too): `c0 = None if x == 0 else 5`,
    `c1 = 1 if c0 is None else 2`.  The dirty signal of a Computable carries `None` as its new value: a `_set_dirty`
    that ignored signals with equal old and new value would never invalidate `c1` (seeded change
    `C17-r2-set-dirty-ignores-equal`) -/
example : (runOps 40 (init (fun o => if o = 0 then [⟨0, .obs, [.change]⟩, ⟨1, .comp, [.change]⟩, ⟨2, .comp, [.change]⟩] else [])
      fun _ => [])
    [.define 0 0 1 (.read (0, 0) fun x => if x = i 0 then .ret none else .ret (i 5)),
     .define 1 0 2 (.readC 0 fun a => if a = none then .ret (i 1) else .ret (i 2)),
     .assign (0, 0) (i 1), .read 1, .assign (0, 0) none, .read 1, .assign (0, 0) (i 0), .read 1, .read 0]).map (·.2) =
    some [.ok none, .ok (i 1), .ok none, .ok (i 2), .ok none, .ok (i 2), .ok none, .ok (i 1), .ok none] := by
  decide +kernel

/-! ### functions that raise: non-vacuity -/

/-- one owner: Observables `x` (0), `d` (1), Computables `c4` (2), `c` (3); a second owner with the Observable `flag` -/
def flDecls : Nat → List Decl := fun o =>
  if o = 0 then [⟨0, .obs, [.change]⟩, ⟨1, .obs, [.change]⟩, ⟨2, .comp, [.change]⟩, ⟨3, .comp, [.change]⟩]
  else if o = 1 then [⟨0, .obs, [.change]⟩] else []
/-- `c4 = 10 // d` -/
def divTree : Tree := .read (0, 1) fun d => if d = i 0 then .fail else .ret (vdiv 10 d)

/-- G11 (repaired): `c4 = 10 // d` with `d = 1` is 10; `d = 0`: the read raises; the next read raises again (before
    the repair it re-validated the half-built dependency set and served the 10 cached before the failure); `d = 2`: 5 -/
example : (runOps 40 (init flDecls fun _ => [])
    [.assign (0, 1) (i 1), .define 0 0 2 divTree, .assign (0, 1) (i 0), .read 0, .read 0, .assign (0, 1) (i 2), .read 0]).map (·.2) =
    some [.ok none, .ok (i 10), .ok none, .err .user, .err .user, .ok none, .ok (i 5)] := by decide +kernel

/-- G12 (repaired): `c = x + (c4 if flag else 0)` reads `x`, then `flag` (another owner), then `c4`: the remembered
    values are kept per owner, so the dirty pre-check looks at `x`, `c4`, `flag` in that order.  With `flag = 0` and
    `d = 0` the function does not read `c4` any more and returns 0; before the repair the pre-check let the
    `ZeroDivisionError` of `c4` through and every later read of `c` raised -/
example : (runOps 60 (init flDecls fun _ => [])
    [.assign (0, 1) (i 1), .assign (1, 0) (i 1), .define 0 0 2 divTree,
     .define 1 0 3 (.read (0, 0) fun x => .read (1, 0) fun fl => if fl = i 0 then .ret x else .readC 0 fun a => .ret (vadd x a)),
     .assign (1, 0) (i 0), .assign (0, 1) (i 0), .read 1, .read 1]).map (·.2) =
    some [.ok none, .ok none, .ok (i 10), .ok (i 10), .ok none, .ok none, .ok (i 0), .ok (i 0)] := by decide +kernel

/-- non-vacuity of `C17_raise_is_fresh` / `DenFail`: with `d = 0` the function of `c4` raises -/
example (s : St) (h : s.store (0, 1) = i 0) : DenFail s divTree := by
  refine .read _ _ ?_
  rw [h]; exact .fail

/-- … and of the hypotheses about definitions: `divTree` is an admissible function -/
example : Pure divTree ∧ Ranked 0 divTree :=
  ⟨.read _ _ fun d => by by_cases h : d = i 0 <;> simp only [h, if_true, if_false] <;> first | exact .fail | exact .ret _,
   .read _ _ fun d => by by_cases h : d = i 0 <;> simp only [h, if_true, if_false] <;> first | exact .fail | exact .ret _⟩

/-- non-vacuity of `C17_read_leaves_clean_and_later_untouched`: `c4 = 10 // d`, `c = x + c4`; after `x = 3` the read
    of `c` runs the function of `c` a second time and not that of `c4` (clean: counter still 1) -/
example : (runOps 60 (init flDecls fun _ => [])
    [.assign (0, 1) (i 1), .define 0 0 2 divTree,
     .define 1 0 3 (.read (0, 0) fun x => .readC 0 fun a => .ret (vadd x a)),
     .assign (0, 0) (i 3), .read 1]).map
      (fun res => (res.2.getLast?, (res.1.comps 0).map (·.evals), (res.1.comps 1).map (·.evals))) =
    some (some (.ok (i 13)), some 1, some 2) := by decide +kernel

/-- non-vacuity of `C17_minimal` for a Computable read in turn: `c4 = 10 // d`, `c = x + c4`.  `d = 2`, then `d = 1`
    again: reading `c` re-validates both and runs nothing (counters 1, 1); `d = 2`: reading `c` runs both (2, 2), `c4`
    because the `d` it remembers is stale, `c` because the `c4` it remembers is -/
example : (runOps 60 (init flDecls fun _ => [])
    [.assign (0, 1) (i 1), .define 0 0 2 divTree,
     .define 1 0 3 (.read (0, 0) fun x => .readC 0 fun a => .ret (vadd x a)),
     .assign (0, 1) (i 2), .assign (0, 1) (i 1), .read 1]).map
      (fun res => (res.2.getLast?, (res.1.comps 0).map (·.evals), (res.1.comps 1).map (·.evals))) =
    some (some (.ok (i 10)), some 1, some 1) := by decide +kernel

example : (runOps 60 (init flDecls fun _ => [])
    [.assign (0, 1) (i 1), .define 0 0 2 divTree,
     .define 1 0 3 (.read (0, 0) fun x => .readC 0 fun a => .ret (vadd x a)),
     .assign (0, 1) (i 2), .read 1]).map
      (fun res => (res.2.getLast?, (res.1.comps 0).map (·.evals), (res.1.comps 1).map (·.evals))) =
    some (some (.ok (i 5)), some 2, some 2) := by decide +kernel

/-! ### cycles: non-vacuity -/

def cyDecls : Nat → List Decl :=
  fun o => if o = 0 then [⟨0, .obs, [.change]⟩, ⟨1, .obs, [.change]⟩, ⟨2, .comp, [.change]⟩, ⟨3, .comp, [.change]⟩] else []
/-- `f = (read x; p := 1; x := 1; return 0)`: the witness of G10 -/
def cyTree : Tree := .read (0, 0) fun _ => .write (0, 1) (i 1) (.write (0, 0) (i 1) (.ret (i 0)))

/-- the G10 witness is rejected now (it was evaluated without error: the assignment to `p` cleared the record) … -/
example : (step 30 (init cyDecls fun _ => []) (.define 0 0 2 cyTree)).map (·.2) = some (.err .value) := by
  decide +kernel

/-- … so is the direct cycle, and a cycle with a nested evaluation between the read and the assignment
    (`c0 = p`, `c1 = (read x; read c0; x := 1)`, `c0` dirty and changed when `c1` reads it) -/
example :
    (step 30 (init cyDecls fun _ => []) (.define 0 0 2 (.read (0, 0) fun _ => .write (0, 0) (i 1) (.ret (i 0))))).map (·.2) =
      some (.err .value) := by
  decide +kernel

example : (runOps 40 (init cyDecls fun _ => [])
    [.define 0 0 2 (.read (0, 1) fun x => .ret x), .assign (0, 1) (i 5),
     .define 1 0 3 (.read (0, 0) fun _ => .readC 0 fun _ => .write (0, 0) (i 1) (.ret (i 0)))]).map (·.2) =
    some [.ok (i 0), .ok none, .err .value] := by decide +kernel

/-- no false rejection: `c0 = x` is evaluated, afterwards the function of `c1` assigns `x` without reading it
    (before the repair the read of the *earlier* evaluation was still on record and `c1` was rejected) -/
example : (runOps 40 (init cyDecls fun _ => [])
    [.define 0 0 2 (.read (0, 0) fun x => .ret x), .define 1 0 3 (.write (0, 0) (i 5) (.ret (i 1))), .read 0]).map (·.2) =
    some [.ok (i 0), .ok (i 1), .ok (i 5)] := by decide +kernel

/-- G15 (repaired): `c0 = x`, `c1 = (a = c0; x = 5; return a)`: `c0` is served from its cache when `c1` reads it, no
    function reads `x` during the evaluation of `c1`, and `c1` depends on `x`.  The definition of `c1` and every read of
    it are rejected; before the repair the history returned `[0, 0, 0, 5, 5]`: the third operation served 0 from a clean
    `c1` while `c0` evaluated to 5 -/
def g15c0 : Tree := .read (0, 0) fun x => .ret x
def g15c1 : Tree := .readC 0 fun a => .write (0, 0) (i 5) (.ret a)

example : (runOps 60 (init cyDecls fun _ => [])
    [.define 0 0 2 g15c0, .define 1 0 3 g15c1, .read 1, .read 0, .read 1]).map (·.2) =
    some [.ok (i 0), .err .value, .err .value, .ok (i 0), .err .value] := by decide +kernel

/-- … and no false rejection: `c1 = (a = c0; p = 5; return a)` assigns an Observable `c0` does not depend on -/
example : (runOps 60 (init cyDecls fun _ => [])
    [.define 0 0 2 g15c0, .define 1 0 3 (.readC 0 fun a => .write (0, 1) (i 5) (.ret a)), .read 1, .read 0]).map (·.2) =
    some [.ok (i 0), .ok (i 0), .ok (i 0), .ok (i 0)] := by decide +kernel

/-- a state inside the evaluation of Computed 1 = `g15c1`, with `c0 = x` defined and clean -/
def g15St : St :=
  match step 30 (init cyDecls fun _ => []) (.define 0 0 2 g15c0) with
  | some r => { r.1.setComp 1 { owner := 0, name := 3, tree := g15c1 } with cur := some 1, depth := 1 }
  | none => init cyDecls fun _ => []

/-- non-vacuity of `C17_cycle_through_computable_rejected`: in `g15St` the read of `c0` is served from the cache (the
    value it held, its function does not run: counter still 1), the walk finds `x`, and the function is at the
    assignment to `x` at once (`TSteps.refl`) -/
example : g15St.cur = some 1 ∧ 0 < g15St.depth ∧ (g15St.comps 0).map (·.value.join) = some (i 0) ∧
    (exec 30 (.readC 0) g15St).map (fun r => (r.2, decide ((0, 0) ∈ sourcesOf r.1 1 0), (r.1.comps 0).map (·.evals))) =
      some (.ok (i 0), true, some 1) := by decide +kernel

/-- non-vacuity of `DependsOn` through a chain: after `c0 = x`, `c1 = c0` the Computed `c1` depends on `x` -/
example : (runOps 40 (init cyDecls fun _ => [])
    [.define 0 0 2 g15c0, .define 1 0 3 (.readC 0 fun a => .ret a)]).map
      (fun r => (sourcesOf r.1 2 1, sourcesOf r.1 1 0, sourcesOf r.1 1 1)) = some ([(0, 0)], [(0, 0)], []) := by
  decide +kernel

/-- a state inside the evaluation of Computed 0 -/
def cySt : St :=
  { (init cyDecls fun _ => []).setComp 0 { owner := 0, name := 2, tree := cyTree } with cur := some 0, depth := 1 }

/-- non-vacuity of `C17_cycle_rejected`: the path of the G10 witness — read `x`, assign `p` (completed), arrive at the
    assignment to `x` — exists -/
example : ∃ s', TSteps (exec 30) cyTree cySt (.write (0, 0) (i 1) (.ret (i 0))) s' := by
  have h1 : (addParent cySt 0 (.obs (0, 0)) (cySt.store (0, 0))).2 = .ok none := by decide +kernel
  have hr : TStep (exec 30) cyTree cySt (.write (0, 1) (i 1) (.write (0, 0) (i 1) (.ret (i 0))))
      { (addParent cySt 0 (.obs (0, 0)) (cySt.store (0, 0))).1 with
        proc := (0, 0) :: (addParent cySt 0 (.obs (0, 0)) (cySt.store (0, 0))).1.proc } :=
    TStep.read (u := none) (0, 0) _ rfl (Prod.ext rfl h1)
  have h2 : ((exec 30 (.assign (0, 1) (i 1)) { (addParent cySt 0 (.obs (0, 0)) (cySt.store (0, 0))).1 with
        proc := (0, 0) :: (addParent cySt 0 (.obs (0, 0)) (cySt.store (0, 0))).1.proc }).map (·.2)) = some (.ok none) := by
    decide +kernel
  cases hs : exec 30 (.assign (0, 1) (i 1)) { (addParent cySt 0 (.obs (0, 0)) (cySt.store (0, 0))).1 with
        proc := (0, 0) :: (addParent cySt 0 (.obs (0, 0)) (cySt.store (0, 0))).1.proc } with
  | none => rw [hs] at h2; cases h2
  | some res =>
    obtain ⟨s3, r3⟩ := res
    rw [hs] at h2; simp only [Option.map_some, Option.some.injEq] at h2; subst h2
    exact ⟨s3, .head hr (.head (.write (0, 1) (i 1) _ hs) (.refl _ _))⟩

/-- non-vacuity of `C17_cycle_never_returns` -/
example : ∀ x : V, AlwaysWrites (0, 0) ((fun _ => Tree.write (0, 1) (i 1) (.write (0, 0) (i 1) (.ret (i 0)))) x) :=
  fun _ => .other _ _ _ (.write _ _)

/-- non-vacuity: the G8 chain (`c0 = x`, `c1 = if flag then 10*c0 else 0`) — every read is fresh and the second
    read of an unchanged chain is served from the cache -/
example : (runOps 40 (init (fun o => if o = 0 then [⟨0, .obs, [.change]⟩, ⟨1, .obs, [.change]⟩, ⟨2, .comp, [.change]⟩,
      ⟨3, .comp, [.change]⟩] else []) fun _ => [])
    [.define 0 0 2 (.read (0, 0) fun x => .ret x),
     .define 1 0 3 (.read (0, 1) fun fl => if fl = i 0 then .ret (i 0) else .readC 0 fun a => .ret (vmul 10 a)),
     .assign (0, 0) (i 1), .assign (0, 1) (i 1), .read 1, .assign (0, 0) (i 0), .read 1, .read 1]).map (·.2) =
    some [.ok (i 0), .ok (i 0), .ok none, .ok none, .ok (i 10), .ok none, .ok (i 0), .ok (i 0)] := by decide +kernel

/-- non-vacuity of `Reachable` / `DefineOK` / `DeclsOK`: the class of the examples above, `c = Computed(10*x)`
    defined, `x = 7` assigned, `c` read: a reachable state in which the read returned 70 -/
example : DeclsOK exDecls := by
  intro o; unfold exDecls; split <;> simp

example : ∃ s, Reachable exDecls (fun _ => []) s ∧ ∃ s' , step 30 s (.read 0) = some (s', .ok (i 70)) := by
  have ok0 : DefineOK (init exDecls fun _ => []) 0 0 1 exTree :=
    ⟨rfl, .read _ _ fun _ => .ret _, .read _ _ fun _ => .ret _, .read _ _ (by decide) fun _ => .ret _, by decide,
      by rintro ⟨c, x, hx, _⟩; simp [init] at hx⟩
  have h1 : (step 30 (init exDecls fun _ => []) (.define 0 0 1 exTree)).map (·.2) = some (.ok (i 0)) := by decide +kernel
  cases hs1 : step 30 (init exDecls fun _ => []) (.define 0 0 1 exTree) with
  | none => rw [hs1] at h1; cases h1
  | some r1 =>
    obtain ⟨s1, v1⟩ := r1
    rw [hs1] at h1; simp only [Option.map_some, Option.some.injEq] at h1; subst h1
    have r1 : Reachable exDecls (fun _ => []) s1 := .step .init (.define 0 0 1 exTree ok0) hs1
    have h2 : ((step 30 (init exDecls fun _ => []) (.define 0 0 1 exTree)).bind fun r =>
        (step 30 r.1 (.assign (0, 0) (i 7))).map (·.2)) = some (.ok none) := by decide +kernel
    rw [hs1] at h2; simp only [Option.bind_some] at h2
    cases hs2 : step 30 s1 (.assign (0, 0) (i 7)) with
    | none => rw [hs2] at h2; cases h2
    | some r2 =>
      obtain ⟨s2, v2⟩ := r2
      rw [hs2] at h2; simp only [Option.map_some, Option.some.injEq] at h2; subst h2
      have r2 : Reachable exDecls (fun _ => []) s2 := .step r1 (.assign (0, 0) (i 7)) hs2
      have h3 : ((step 30 (init exDecls fun _ => []) (.define 0 0 1 exTree)).bind fun r =>
          (step 30 r.1 (.assign (0, 0) (i 7))).bind fun r' => (step 30 r'.1 (.read 0)).map (·.2)) = some (.ok (i 70)) := by
        decide +kernel
      rw [hs1] at h3; simp only [Option.bind_some] at h3
      rw [hs2] at h3; simp only [Option.bind_some] at h3
      cases hs3 : step 30 s2 (.read 0) with
      | none => rw [hs3] at h3; cases h3
      | some r3 =>
        obtain ⟨s3, v3⟩ := r3
        rw [hs3] at h3; simp only [Option.map_some, Option.some.injEq] at h3; subst h3
        exact ⟨s2, r2, s3, hs3⟩

end Mesa.Computed
