import MesaModel.Proofs.Computed
/-!
# C17 — a Computable is never stale and recomputes only when an input changed

Property theorems only (model: `Model/Computed.lean`, helper lemmas: `Proofs/Computed.lean`).

`init decls progs`: owners with their declared Observables / Computables, every Observable holding 0, and the
Computables that user handler `h` reads while it is being notified (`progs h`).  Operations: `define` (assign
a `Computed` whose function is a read tree), `assign`, `read`, user `observe` / `unobserve` / `drop`.
`Den s t v`: the function `t` returns `v` when it is evaluated in state `s` from scratch (Observables from
the store, Computables by evaluating *their* functions) — "what its function would return if evaluated right now".
-/
namespace Mesa.Computed
open Mesa.Signals

/-- states reachable from a fresh model whose user handlers do **not** read Computables while notified
    (`progs = []`, see G7 below) by any sequence of successful operations: definitions of pure functions that
    read only earlier Computables, assignments (also restoring old values), reads, handler (un)subscriptions
    and deaths -/
inductive Reachable (decls : Nat → List Decl) : St → Prop
  | init : Reachable decls (init decls fun _ => [])
  | step {s s' : St} {op : Op} {fuel : Nat} {v : Int} (h : Reachable decls s) (ok : OpOK s op)
      (hs : step fuel s op = some (s', .ok v)) : Reachable decls s'

theorem reachable_good {decls : Nat → List Decl} (hd : DeclsOK decls) {s : St} (h : Reachable decls s) : Good s := by
  induction h with
  | init => exact init_good hd
  | step _ ok hs ih => exact step_good _ ih ok hs

/-- **No stale read** (partial: user handlers that read Computables while notified are excluded — G7).
    In every reachable state, whatever dependency structure (several owners, branches that switch what is
    read, chains of Computables) and whatever history of assignments and reads: a read of a Computable
    that returns `v` returns what its function evaluates to now; the read changes no Observable. -/
theorem C17_no_stale_partial {decls : Nat → List Decl} (hd : DeclsOK decls) {s s' : St} (h : Reachable decls s)
    {fuel c : Nat} {v : Int} (hr : step fuel s (.read c) = some (s', .ok v)) :
    s'.store = s.store ∧ ∃ x, s'.comps c = some x ∧ Den s' x.tree v := by
  obtain ⟨_, hst, _, x, hx, _, _, hden⟩ := read_spec fuel (reachable_good hd h) hr
  exact ⟨hst, x, hx, hden⟩

/-- … and the same for the value a definition returns (`owner.name = Computed(f)` evaluates once). -/
theorem C17_define_fresh {decls : Nat → List Decl} (hd : DeclsOK decls) {s s' : St} (h : Reachable decls s)
    {fuel c o n : Nat} {t : Tree} {v : Int} (ok : DefineOK s c o n t)
    (hr : step fuel s (.define c o n t) = some (s', .ok v)) : ∃ x, s'.comps c = some x ∧ x.tree = t ∧ Den s' t v := by
  have g := reachable_good hd h
  obtain ⟨w0, i0⟩ := define_pre g.stat g.inv ok
  obtain ⟨_, _, se, x, hx, _, _, hden⟩ := read_spec fuel ⟨w0, i0, g.cur⟩ hr
  obtain ⟨_, _, ht⟩ := (se.comps c).2 _ x (setComp_same _ _ _) hx
  have ht' : x.tree = t := ht
  exact ⟨x, hx, ht', by rw [← ht']; exact hden⟩

/-- **The cache is never stale**: in every reachable state every Computed that is not marked dirty holds
    exactly the value its function evaluates to now (so a read served from the cache is right). -/
theorem C17_clean_is_fresh {decls : Nat → List Decl} (hd : DeclsOK decls) {s : St} (h : Reachable decls s)
    {c : Nat} {x : Comp} (hx : s.comps c = some x) (hc : x.dirty = false) : ∃ v, x.value = some v ∧ Den s x.tree v :=
  clean_den (reachable_good hd h).inv c x hx hc

/-- **What a Computed remembers is exactly what its last evaluation read** (needs G4, G8, G9 repaired): the
    cached value is the result of following the function along the remembered (reference, value) pairs, and
    nothing else is remembered. -/
theorem C17_remembers_exactly_last_reads {decls : Nat → List Decl} (hd : DeclsOK decls) {s : St}
    (h : Reachable decls s) {c : Nat} {x : Comp} (hx : s.comps c = some x) (hf : x.first = false) :
    ∃ v ps, x.value = some v ∧ PathR x.tree ps v ∧ ∀ e, e ∈ ps ↔ e ∈ x.parents :=
  ((reachable_good hd h).inv.evald c x hx (by simp [NoS])).2 hf

/-- **Minimal recomputation** (partial: stated for the Computable that is read; the Computables it reads in
    turn satisfy the same statement at their own reads — lemma `callC_spec` — but this is not assembled into
    one statement about all of them).  A read runs the function body at most once, and only if it never ran
    before or some value it read last time (by the previous theorem: some remembered pair) differs from the
    present value of that Observable / the up-to-date value of that Computable. -/
theorem C17_minimal_partial {decls : Nat → List Decl} (hd : DeclsOK decls) {s s' : St} (h : Reachable decls s)
    {fuel c : Nat} {v : Int} {x : Comp} (hx : s.comps c = some x) (hr : step fuel s (.read c) = some (s', .ok v)) :
    ∃ y, s'.comps c = some y ∧
      (y.evals = x.evals ∨ (y.evals = x.evals + 1 ∧ (x.first = true ∨ ∃ e ∈ x.parents, Stale s' e))) := by
  have g := reachable_good hd h
  obtain ⟨hok, _⟩ := (exec_IH fuel).get c s s' (.ok v) NoS g.stat g.inv (by simp [NoS])
    (fun q hq => by simp [NoS] at hq) hr
  obtain ⟨y, hy, _, _, hj⟩ := (hok v rfl).clean
  refine ⟨y, hy, ?_⟩
  rcases hj x hx with hj | ⟨h1, _, h3⟩
  · exact Or.inl hj
  · exact Or.inr ⟨h1, h3⟩

/-- A read of a Computable that is not dirty runs no function at all and changes nothing. -/
theorem C17_cached_read_is_free {decls : Nat → List Decl} (hd : DeclsOK decls) {s : St} (h : Reachable decls s)
    {c : Nat} {x : Comp} (hx : s.comps c = some x) (hc : x.dirty = false) (fuel : Nat) :
    ∃ v, x.value = some v ∧ step (fuel + 1) s (.read c) = some (s, .ok v) := by
  have g := reachable_good hd h
  obtain ⟨v, hv, _⟩ := clean_den g.inv c x hx hc
  refine ⟨v, hv, ?_⟩
  simp [step, exec, stepF, getC, hx, callC, hc, hv, g.cur]

/-! ### cycles -/

/-- along the path the function takes in the store `σ`: reads of Observables, then an assignment to `k` -/
inductive ReadsThenWrites (σ : Key → Int) (k : Key) : Tree → Prop
  | write (v : Int) (t : Tree) : ReadsThenWrites σ k (.write k v t)
  | read (k' : Key) (cont : Int → Tree) (h : ReadsThenWrites σ k (cont (σ k'))) : ReadsThenWrites σ k (.read k' cont)

theorem evalTree_cycle (f p : Nat) (k : Key) : ∀ (t : Tree) (s : St), ReadsThenWrites s.store k t → s.cur = some p →
    s.proc.contains k = true → ∃ s' e, evalTree (exec (f + 1)) t s = some (s', .err e) := by
  intro t s h
  generalize hσ : s.store = σ at h
  induction h generalizing s with
  | write v t =>
    intro hcur hproc
    refine ⟨s, .value, ?_⟩
    have hmem : k ∈ s.proc := by simpa using hproc
    simp [evalTree, exec, stepF, assignT, hcur, hmem]
  | read k' cont _ ih =>
    intro hcur hproc
    simp only [evalTree, hcur]
    cases ha : addParent s p (.obs k') (s.store k') with | mk s1 r1 =>
    cases r1 with
    | err e => exact ⟨s1, e, rfl⟩
    | ok u =>
      simp only
      have hfields : s1.store = s.store ∧ s1.cur = s.cur ∧ s1.proc = s.proc := by
        unfold addParent at ha
        split at ha
        · split at ha
          · cases ha
          · injection ha with ha _; subst ha; exact ⟨rfl, rfl, rfl⟩
        · cases ha
      obtain ⟨h1, h2, h3⟩ := hfields
      rw [hσ]
      exact ih { s1 with proc := k' :: s1.proc } (by simpa [h1] using hσ) (by simpa [h2] using hcur)
        (by simp only [List.contains_cons, h3, hproc, Bool.or_true])

/-- **Cycle rejection** (partial: the function reads `k` and then, after reading other Observables only,
    assigns `k`; see `G10` for what the full statement would need).  Evaluating such a function — whatever
    the state — raises instead of looping or returning: it never runs out of fuel and never succeeds. -/
theorem C17_cycle_rejected_partial (f p : Nat) (k : Key) (cont : Int → Tree) (s : St) (hcur : s.cur = some p)
    (h : ReadsThenWrites s.store k (cont (s.store k))) :
    ∃ s' e, evalTree (exec (f + 1)) (.read k cont) s = some (s', .err e) := by
  simp only [evalTree, hcur]
  cases ha : addParent s p (.obs k) (s.store k) with | mk s1 r1 =>
  cases r1 with
  | err e => exact ⟨s1, e, rfl⟩
  | ok u =>
    simp only
    have hfields : s1.store = s.store ∧ s1.cur = s.cur := by
      unfold addParent at ha
      split at ha
      · split at ha
        · cases ha
        · injection ha with ha _; subst ha; exact ⟨rfl, rfl⟩
      · cases ha
    exact evalTree_cycle f p k _ { s1 with proc := k :: s1.proc } (by simpa [hfields.1] using h)
      (by simpa [hfields.2] using hcur) (by simp)

/-! ### the full statements and their refutations (open findings G7, G10) -/

def runOps (fuel : Nat) : St → List Op → Option (St × List R)
  | s, [] => some (s, [])
  | s, op :: ops =>
    match step fuel s op with
    | none => none
    | some (s1, r) => (runOps fuel s1 ops).map fun res => (res.1, r :: res.2)

/-- one owner with an Observable `x` (name 0) and a Computable `c` (name 1) -/
def exDecls : Nat → List Decl := fun o => if o = 0 then [⟨0, .obs, [.change]⟩, ⟨1, .comp, [.change]⟩] else []
/-- `c = 10 * x` -/
def exTree : Tree := .read (0, 0) fun x => .ret (10 * x)

theorem den_exTree {s : St} {v : Int} (h : Den s exTree v) : v = 10 * s.store (0, 0) := by
  cases h with
  | read _ _ _ h => cases h; rfl

def g7progs : Nat → List Nat := fun h => if h = 0 then [0] else []
def g7ops : List Op := [.define 0 0 1 exTree, .observe (0, 0) 0, .assign (0, 0) 7, .read 0]

/-- **G7 (open): the full `no_stale` — user handlers may read Computables while being notified — is false.**
    `c = Computed(10*x)` (x = 0); `observe(x, h)` where `h` reads `c`; `x = 7; read c` returns 0 instead of 70:
    the handler's read re-validated `c` against the old `x` (`Observable.__set__` stores after notifying),
    so `c` is clean when the store happens. -/
theorem C17_no_stale_refuted_with_reading_handler :
    ∃ (s : St) (rs : List R), runOps 30 (init exDecls g7progs) g7ops = some (s, rs) ∧
      rs.getLast? = some (.ok 0) ∧ ¬ Den s exTree 0 := by
  have h : ((runOps 30 (init exDecls g7progs) g7ops).map fun r => (r.2, r.1.store (0, 0))) =
      some ([.ok 0, .ok 0, .ok 0, .ok 0], 7) := by decide +kernel
  cases hr : runOps 30 (init exDecls g7progs) g7ops with
  | none => rw [hr] at h; cases h
  | some res =>
    obtain ⟨s, rs⟩ := res
    rw [hr] at h
    simp only [Option.map_some, Option.some.injEq, Prod.mk.injEq] at h
    refine ⟨s, rs, rfl, by rw [h.1]; rfl, fun hd => ?_⟩
    have := den_exTree hd
    rw [h.2] at this
    exact absurd this (by decide)

/-- the same history without the reading handler is fine (non-vacuity of `C17_no_stale_partial`): 70 -/
example : (runOps 30 (init exDecls fun _ => []) g7ops).map (·.2) = some [.ok 0, .ok 0, .ok 0, .ok 70] := by
  decide +kernel

/-- **G10 (open): the full `cycle_rejected` — any function that assigns an Observable it read — is false**:
    `f = (read x; p := 1; x := 1; return 0)` is evaluated without error, because the assignment to `p`
    cleared `PROCESSING_SIGNALS`. -/
theorem C17_cycle_rejected_refuted_after_intermediate_write :
    (step 30 (init (fun o => if o = 0 then [⟨0, .obs, [.change]⟩, ⟨1, .obs, [.change]⟩, ⟨2, .comp, [.change]⟩] else [])
        fun _ => [])
      (.define 0 0 2 (.read (0, 0) fun _ => .write (0, 1) 1 (.write (0, 0) 1 (.ret 0))))).map (·.2) = some (.ok 0) := by
  decide +kernel

/-- … while the direct cycle is rejected (non-vacuity of `C17_cycle_rejected_partial`) -/
example :
    (step 30 (init (fun o => if o = 0 then [⟨0, .obs, [.change]⟩, ⟨2, .comp, [.change]⟩] else []) fun _ => [])
      (.define 0 0 2 (.read (0, 0) fun _ => .write (0, 0) 1 (.ret 0)))).map (·.2) = some (.err .value) := by
  decide +kernel

/-- non-vacuity: the G8 chain (`c0 = x`, `c1 = if flag then 10*c0 else 0`) — every read is fresh and the second
    read of an unchanged chain is served from the cache -/
example : (runOps 40 (init (fun o => if o = 0 then [⟨0, .obs, [.change]⟩, ⟨1, .obs, [.change]⟩, ⟨2, .comp, [.change]⟩,
      ⟨3, .comp, [.change]⟩] else []) fun _ => [])
    [.define 0 0 2 (.read (0, 0) fun x => .ret x),
     .define 1 0 3 (.read (0, 1) fun fl => if fl = 0 then .ret 0 else .readC 0 fun a => .ret (10 * a)),
     .assign (0, 0) 1, .assign (0, 1) 1, .read 1, .assign (0, 0) 0, .read 1, .read 1]).map (·.2) =
    some [.ok 0, .ok 0, .ok 0, .ok 0, .ok 10, .ok 0, .ok 0, .ok 0] := by decide +kernel

/-- non-vacuity of `Reachable` / `DefineOK` / `DeclsOK`: the class of the examples above, `c = Computed(10*x)`
    defined, `x = 7` assigned, `c` read: a reachable state in which the read returned 70 -/
example : DeclsOK exDecls := by
  intro o; unfold exDecls; split <;> simp

example : ∃ s, Reachable exDecls s ∧ ∃ s' , step 30 s (.read 0) = some (s', .ok 70) := by
  have ok0 : DefineOK (init exDecls fun _ => []) 0 0 1 exTree :=
    ⟨rfl, .read _ _ fun _ => .ret _, .read _ _ fun _ => .ret _, .read _ _ (by decide) fun _ => .ret _, by decide,
      by rintro ⟨c, x, hx, _⟩; simp [init] at hx⟩
  have h1 : (step 30 (init exDecls fun _ => []) (.define 0 0 1 exTree)).map (·.2) = some (.ok 0) := by decide +kernel
  cases hs1 : step 30 (init exDecls fun _ => []) (.define 0 0 1 exTree) with
  | none => rw [hs1] at h1; cases h1
  | some r1 =>
    obtain ⟨s1, v1⟩ := r1
    rw [hs1] at h1; simp only [Option.map_some, Option.some.injEq] at h1; subst h1
    have r1 : Reachable exDecls s1 := .step .init (.define 0 0 1 exTree ok0) hs1
    have h2 : ((step 30 (init exDecls fun _ => []) (.define 0 0 1 exTree)).bind fun r =>
        (step 30 r.1 (.assign (0, 0) 7)).map (·.2)) = some (.ok 0) := by decide +kernel
    rw [hs1] at h2; simp only [Option.bind_some] at h2
    cases hs2 : step 30 s1 (.assign (0, 0) 7) with
    | none => rw [hs2] at h2; cases h2
    | some r2 =>
      obtain ⟨s2, v2⟩ := r2
      rw [hs2] at h2; simp only [Option.map_some, Option.some.injEq] at h2; subst h2
      have r2 : Reachable exDecls s2 := .step r1 (.assign (0, 0) 7) hs2
      have h3 : ((step 30 (init exDecls fun _ => []) (.define 0 0 1 exTree)).bind fun r =>
          (step 30 r.1 (.assign (0, 0) 7)).bind fun r' => (step 30 r'.1 (.read 0)).map (·.2)) = some (.ok 70) := by
        decide +kernel
      rw [hs1] at h3; simp only [Option.bind_some] at h3
      rw [hs2] at h3; simp only [Option.bind_some] at h3
      cases hs3 : step 30 s2 (.read 0) with
      | none => rw [hs3] at h3; cases h3
      | some r3 =>
        obtain ⟨s3, v3⟩ := r3
        rw [hs3] at h3; simp only [Option.map_some, Option.some.injEq] at h3; subst h3
        exact ⟨s2, r2, s3, hs3⟩

end Mesa.Computed
