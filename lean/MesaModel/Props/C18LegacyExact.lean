import MesaModel.Proofs.LegacyRejects
import MesaModel.Proofs.LegacyPlaceRaw
import MesaModel.Proofs.LegacyDraws
import MesaModel.Proofs.LegacySelectCong
/-!
# C18 (legacy-grid part), round 3 — *when exactly* a call is rejected, placements outside the grid, any later history

`Props/C18Legacy.lean` shows that a rejected call changes nothing.  This file adds the other half: the result of every mutating
call as a function of the state (so a model in which a call always — or never — raises would fail these), `place_agent` with
arbitrary integer coordinates (`Grid.placeRaw`, Model/LegacyPlaceRaw.lean: "placing outside a bounded space" is one of C18's
listed kinds and raises IndexError), histories that contain such placements, and the deletion of rejected calls followed by
any later history.  `removePlace` is `remove_agent` followed by `place_agent` (the tail of `move_agent` / `move_to_empty`).
-/
namespace Mesa.Legacy

theorem torusAdj_error_iff (g : Grid) (p : Coord) : g.torusAdj p = .error .oob ↔ ¬ g.inGrid p ∧ g.torus = false := by
  unfold Grid.torusAdj
  by_cases ho : g.oob p = false
  · have := (oob_iff g p).mp ho; simp [ho, this]
  · have hn : ¬ g.inGrid p := fun h => ho ((oob_iff g p).mpr h)
    simp only [Bool.not_eq_false] at ho
    cases ht : g.torus <;> simp [ho, hn]

theorem placeRaw_res_eq (g : Grid) (a : Aid) (p : Coord) :
    (g.placeRaw a p).2 =
      match g.rawCell p with
      | .error e => .err e
      | .ok c => if g.multi = false ∧ g.content c ≠ [] then .err .full else .ok := by
  unfold Grid.placeRaw
  cases g.rawCell p with
  | error e => rfl
  | ok c =>
    simp only [Grid.placeAt]
    by_cases hm : g.multi = true
    · simp [hm]; split <;> rfl
    · simp only [Bool.not_eq_true] at hm
      simp only [hm, Bool.false_eq_true, if_false, Grid.isCellEmpty, true_and]
      by_cases hc : g.content c = [] <;> simp [hc]

/-- **when exactly a call is rejected, and with what** — in every state whose views agree (every reachable one):
    `place_agent` with arbitrary integer coordinates (`placeRaw`; review 3 M19: the clause used to be stated over the in-grid
    `place`, which answers `.ok` for coordinates the code rejects): IndexError exactly beyond `-size .. size-1`, else only on an
    occupied SingleGrid cell (the cell the coordinates index); for in-grid coordinates that cell is `p` and the call is `place`; `remove_agent`: only an unplaced agent on a MultiGrid;
    `move_agent`: a target outside a bounded grid (and only then `out of bounds`), else an unplaced agent on a MultiGrid, else a
    SingleGrid target cell that holds somebody else — otherwise it succeeds; `swap_pos`: only an unplaced agent;
    `remove_agent` + `place_agent` as used by `move_to_empty`: like `move_agent` without the bounds check -/
theorem C18_legacy_rejects_exactly (g : Grid) (hw : 0 < g.w) (hh : 0 < g.h) (hi : Inv g) (a b : Aid) (p : Coord) :
    ((g.placeRaw a p).2 =
      match g.rawCell p with
      | .error e => .err e
      | .ok c => if g.multi = false ∧ g.content c ≠ [] then .err .full else .ok) ∧
    (g.rawCell p = .error .index ↔ g.beyond p) ∧ (g.inGrid p → g.rawCell p = .ok p ∧ g.placeRaw a p = g.place a p) ∧
    ((g.remove a).2 = if g.pos a = none ∧ g.multi = true then .err .type else .ok) ∧
    ((g.move a p).2 =
      match g.torusAdj p with
      | .error e => .err e
      | .ok q =>
        if g.pos a = none ∧ g.multi = true then .err .type
        else if g.multi = false ∧ g.content q ≠ [] ∧ g.content q ≠ [a] then .err .full else .ok) ∧
    (g.torusAdj p = .error .oob ↔ ¬ g.inGrid p ∧ g.torus = false) ∧
    ((g.swap a b).2 = if g.pos a = none ∨ g.pos b = none then .err .noPos else .ok) ∧
    ((removePlace g a p).2 =
      if g.pos a = none ∧ g.multi = true then .err .type
      else if g.multi = false ∧ g.content p ≠ [] ∧ g.content p ≠ [a] then .err .full else .ok) :=
  ⟨placeRaw_res_eq g a p, rawCell_beyond g hw hh p, fun hp => ⟨rawCell_inGrid g p hp, placeRaw_inGrid g a p hp⟩, remove_res g hi a, move_res g hw hh hi a p, torusAdj_error_iff g p, swap_res g hi a b,
   removePlace_res g hi a p⟩

/-- `move_agent_to_one_of`, the rejections that do not come from `move_agent`: an empty list (only `handle_empty="error"`
    raises), an invalid selection, `closest` for an unplaced agent (TypeError once the shuffle had its `len - 1` draws).  For a
    valid selection and a placed agent `C08_moveToOneOf_random_draws` / `C08_closest_draws_and_tie_list` give the whole outcome:
    exhausted generator or `move_agent` of the chosen offer, whose result is the one above. -/
theorem C18_legacy_moveToOneOf_rejects_exactly (g : Grid) (a : Aid) (ps : List Coord) (sel : Grid.Selection)
    (he : Grid.HandleEmpty) (s : Grid.Script) :
    (ps = [] → g.moveToOneOf a ps sel he s = (g, if he = .error then .err .value else .ok)) ∧
    (ps ≠ [] → sel = .other → g.moveToOneOf a ps sel he s = (g, .err .value)) ∧
    (ps ≠ [] → sel = .closest → g.pos a = none →
      g.moveToOneOf a ps sel he s = (g, if s.length < ps.length - 1 then .err .script else .err .type)) := by
  refine ⟨fun h => ?_, fun h hs => ?_, fun h hs hp => ?_⟩
  · subst h; cases he <;> simp [Grid.moveToOneOf]
  · have hemp : ps.isEmpty = false := by cases ps <;> simp_all
    subst hs; simp [Grid.moveToOneOf, hemp, Grid.chooseOneOf]
  · have hemp : ps.isEmpty = false := by cases ps <;> simp_all
    subst hs
    obtain ⟨h1, h2⟩ := shuffle_draws ps s
    by_cases hlt : s.length < ps.length - 1
    · simp [Grid.moveToOneOf, hemp, Grid.chooseOneOf, h1 hlt, hlt]
    · obtain ⟨ps', hsp, _⟩ := h2 (by omega)
      simp [Grid.moveToOneOf, hemp, Grid.chooseOneOf, hsp, hp, hlt]

/-! ## placing outside the grid -/

/-- **`place_agent` for arbitrary integer coordinates**: inside the grid it is the modelled call; it raises IndexError exactly
    beyond the grid's index range `-size .. size-1` (on a torus too — it never wraps), `Cell not empty` exactly on an occupied
    SingleGrid cell, and succeeds otherwise; whenever it raises, nothing at all has changed -/
theorem C18_legacy_place_any_integers (g : Grid) (hw : 0 < g.w) (hh : 0 < g.h) (a : Aid) (p : Coord) :
    (g.inGrid p → g.placeRaw a p = g.place a p) ∧
    ((g.placeRaw a p).2 = .err .index ↔ g.beyond p) ∧
    ((g.placeRaw a p).2 = .err .full ↔ ∃ c, g.rawCell p = .ok c ∧ g.multi = false ∧ g.content c ≠ []) ∧
    ((g.placeRaw a p).2 = .ok ↔ ∃ c, g.rawCell p = .ok c ∧ (g.multi = true ∨ g.content c = [])) ∧
    (∀ e, (g.placeRaw a p).2 = .err e → (g.placeRaw a p).1 = g) :=
  ⟨placeRaw_inGrid g a p, (placeRaw_res g hw hh a p).1, (placeRaw_res g hw hh a p).2.1, (placeRaw_res g hw hh a p).2.2,
   fun e h => placeRaw_err g a p e h⟩

/-- **a history with placements beyond the grid behaves like the history without them** (`HistOkR`: `place_agent` of an
    unplaced agent at in-grid coordinates *or* beyond the index range; everything else unrestricted): it ends in exactly the
    state of the history with those calls deleted, which is a history of the original quantifier — so the views agree after it
    and every theorem about `run` applies -/
theorem C18_legacy_place_outside_deletable (g : Grid) (hw : 0 < g.w) (hh : 0 < g.h) (hi : Inv g) (ops : List Op)
    (hok : HistOkR g ops) :
    runR g ops = run g (ops.filter (keepOp g.w g.h)) ∧ HistOk g (ops.filter (keepOp g.w g.h)) ∧ Inv (runR g ops) := by
  obtain ⟨h1, h2⟩ := runR_eq_run ops g hw hh hi hok
  exact ⟨h1, h2, by rw [h1]; exact (run_inv_cfg g _ hw hh hi h2).1⟩

/-- **the aliasing band `-size .. -1`** (outside the quantifier; recorded as a hazard, like `C08_remove_foreign_agent`):
    `place_agent` accepts such coordinates, stores the agent in the cell counted from the end, but sets `pos` to the pair as
    given, which is no cell of the grid: the views disagree from then on -/
theorem C08_place_negative_coordinates_break_agreement (g : Grid) (hi : Inv g) (a : Aid) (p c : Coord) (hpos : g.pos a = none)
    (hc : g.rawCell p = .ok c) (hne : c ≠ p) (hok : (g.placeRaw a p).2 = .ok) :
    a ∈ (g.placeRaw a p).1.content c ∧ (g.placeRaw a p).1.pos a = some p ∧ ¬ Inv (g.placeRaw a p).1 :=
  placeRaw_alias_breaks g hi a p c hpos hc hne hok

/-! ## deleting the rejected calls, then any later history -/

/-- **as if the rejected calls had never been made, for ever after**: after a history and after the same history without its
    rejected calls, *every* later history (within the quantifier) returns, call by call, the same results and ends in the same
    observable state -/
theorem C18_legacy_rejected_calls_deletable_any_future (g : Grid) (hw : 0 < g.w) (hh : 0 < g.h) (hi : Inv g) (ops : List Op)
    (hok : HistOk g ops) (later : List Op) (hl : HistOk (run g ops) later) :
    results (run g (accepted g ops)) later = results (run g ops) later ∧
    ObsEq (run (run g ops) later) (run (run g (accepted g ops)) later) ∧ HistOk (run g (accepted g ops)) later := by
  obtain ⟨h1, h2⟩ := run_accepted ops g g hw hh hi hi rfl hok
  obtain ⟨i1, c1⟩ := run_inv_cfg g ops hw hh hi hok
  have i2 := (run_inv_cfg g (accepted g ops) hw hh hi h2).1
  have hw1 : 0 < (run g ops).w := by rw [c1.1]; exact hw
  have hh1 : 0 < (run g ops).h := by rw [c1.2.1]; exact hh
  obtain ⟨e1, e2, e3⟩ := run_cong later (run g ops) (run g (accepted g ops)) hw1 hh1 i1 i2 h1 hl
  exact ⟨e2, (obsEq_iff_forget _ _).mpr e1, e3⟩

/-- **…and the round-3 reads show the same too**: `coord_iter()` and `select_cells(…)` (any masks, `only_empty`, conditions,
    extreme values, either return form) answer the same after a history and after that history without its rejected calls
    (extends `C18_legacy_reads_same_after_deletion`) -/
theorem C18_legacy_new_reads_same_after_deletion (g : Grid) (hw : 0 < g.w) (hh : 0 < g.h) (hi : Inv g) (ops : List Op)
    (hok : HistOk g ops) :
    (run g (accepted g ops)).coordIter = (run g ops).coordIter ∧
    ∀ ls masks oe conds exts,
      (run g (accepted g ops)).selectCells ls masks oe conds exts = (run g ops).selectCells ls masks oe conds exts ∧
      (run g (accepted g ops)).selectMask ls masks oe conds exts = (run g ops).selectMask ls masks oe conds exts := by
  obtain ⟨h1, _⟩ := run_accepted ops g g hw hh hi hi rfl hok
  exact new_reads_obs ((obsEq_iff_forget _ _).mpr h1)

/-! ## non-vacuity -/

/-- the results formula on concrete states: a SingleGrid move onto an occupied cell, onto the own cell, off a bounded grid;
    an unplaced agent on a MultiGrid -/
example : (step (run (init 3 3 false false 18) [.place 0 (0, 0), .place 1 (1, 1)]) (.move 0 (1, 1))).2 = .err .full := by decide
example : (step (run (init 3 3 false false 18) [.place 0 (0, 0), .place 1 (1, 1)]) (.move 0 (0, 0))).2 = .ok := by decide
example : (step (run (init 3 3 false false 18) [.place 0 (0, 0)]) (.move 0 (3, 0))).2 = .err .oob := by decide
example : (step (init 3 3 true true 18) (.move 0 (1, 1))).2 = .err .type := by decide

/-- placing beyond the grid: IndexError, also on a torus; the aliasing band: accepted, `pos` outside the grid -/
example : (init 3 3 true false 18).placeRaw 0 (3, 0) = (init 3 3 true false 18, .err .index) := by
  simp [Grid.placeRaw, Grid.rawCell, Grid.pyIndex, init]
example : ((init 3 3 false false 18).placeRaw 0 (-1, 0)).2 = .ok := by decide
example : ((init 3 3 false false 18).placeRaw 0 (-1, 0)).1.pos 0 = some (-1, 0) := by decide
example : ((init 3 3 false false 18).placeRaw 0 (-1, 0)).1.content (2, 0) = [0] := by decide

/-- a history of the widened quantifier: two placements beyond the grid (one on each side), a rejected move, reads -/
def demoOpsR : List Op :=
  [.place 0 (3, 0), .place 0 (0, 0), .place 1 (0, -4), .readEmpties, .move 0 (5, 5), .place 1 (2, 2), .swap 0 1]

example : HistOkR (init 3 3 false false 18) demoOpsR := by
  simp [demoOpsR, HistOkR, OpOkR, stepR, step, Grid.placeRaw, Grid.placeAt, Grid.rawCell, Grid.pyIndex, Grid.inGrid, Grid.beyond,
    init, Grid.isCellEmpty, updA, Grid.readEmpties, Grid.move, Grid.torusAdj, Grid.oob]

example : demoOpsR.filter (keepOp 3 3) = [.place 0 (0, 0), .readEmpties, .move 0 (5, 5), .place 1 (2, 2), .swap 0 1] := by
  simp [demoOpsR, keepOp]

end Mesa.Legacy
