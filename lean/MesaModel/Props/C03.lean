import MesaModel.Proofs.AgentSetHist
/-!
# C03 — AgentSet behaves as an ordered set and its queries match list semantics

Property theorems only (model: `Model/AgentSet.lean`; helper lemmas: `Proofs/AgentSet.lean`,
`Proofs/ListOps.lean`).  The first group is about the list functions that mirror the code of each method
(for every element type, every list, every predicate / key / script); the second group is about the
store of named sets (`Store`), i.e. about in-place versus copying forms and about histories.

`select(at_most = <float f ≤ 1.0>)`: the code turns `f` into the count `int(len(self) * f)` with IEEE
double arithmetic.  The theorems take that count `k` as a parameter (`AtMost.count k`); that `k` is the
floor of the real product is **not** claimed (it fails at IEEE ties such as `int(49 * (1/49)) = 0`);
the driver recomputes `k` with Lean's `Float` and the correspondence check compares it with CPython's.
-/
namespace Mesa.ASet

/-! ## list semantics of each method -/

/-- `select`: the generator loop of the code returns exactly the first `k` members that pass the filter,
    in order (`k` = the int `at_most`, or the count derived from a fraction); without a limit, exactly
    the members that pass the filter, in order. -/
theorem C03_select_is_filter_take {α : Type} (p : α → Bool) (l : List α) :
    (∀ k, selectGo p (some k) l 0 = (l.filter p).take k) ∧ selectGo p none l 0 = l.filter p :=
  ⟨fun k => by simpa using selectGo_some p k l 0, selectGo_none p l 0⟩

/-- `at_most` is an upper limit only: a limit at least the size of the set (e.g. the fraction 1.0, whose
    count is the size) selects every member that passes the filter; a limit 0 selects nobody. -/
theorem C03_select_limit_bounds {α : Type} (p : α → Bool) (l : List α) (k : Nat) :
    (l.length ≤ k → selectGo p (some k) l 0 = l.filter p) ∧ selectGo p (some 0) l 0 = [] := by
  refine ⟨fun h => ?_, ?_⟩
  · rw [(C03_select_is_filter_take p l).1 k]
    exact List.take_of_length_le (Nat.le_trans (List.length_filter_le _ _) h)
  · rw [(C03_select_is_filter_take p l).1 0]; rfl

/-- `sort`: a permutation of the members (nobody lost or duplicated), ordered by the key — ascending or
    descending as asked — and stable: members with equal keys keep their original relative order, in both
    directions (what `sorted(..., reverse=True)` does). -/
theorem C03_sort_perm_ordered_stable {α : Type} (key : α → Int) (asc : Bool) (l : List α) :
    (sortL key asc l).Perm l ∧
    (sortL key asc l).Pairwise (fun a b => if asc then key a ≤ key b else key b ≤ key a) ∧
    ∀ v, (sortL key asc l).filter (fun a => key a = v) = l.filter (fun a => key a = v) := by
  refine ⟨sortL_perm key asc l, ?_, sortL_stable key asc l⟩
  refine (sortL_sorted key asc l).imp ?_
  intro a b h
  unfold sortLe at h
  cases asc <;> simpa using h

/-- `shuffle`: for every list and every state of the generator the result is a permutation of the
    members — it loses nobody and duplicates nobody — and consumes draws depending on the size only. -/
theorem C03_shuffle_is_permutation {α : Type} (l : List α) (g : Rng) :
    (Rng.shuffle l g).1.Perm l ∧ ((Rng.shuffle l g).1.Nodup ↔ l.Nodup) ∧
    ∀ {β : Type} (m : List β), m.length = l.length → (Rng.shuffle m g).2 = (Rng.shuffle l g).2 :=
  ⟨Rng.shuffle_perm l g, Rng.shuffle_nodup l g, fun m h => Rng.shuffle_rng_length m l g h⟩

/-- `groupby`: the group keys are the distinct key values in order of first occurrence; the group of a
    key is exactly the members with that key, in set order; the groups partition the members. -/
theorem C03_groupby_partitions_in_order {κ α : Type} [DecidableEq κ] (key : α → κ) (l : List α) :
    (groupBy key l).map (·.1) = dedup (l.map key) ∧
    (∀ kg ∈ groupBy key l, kg.2 = l.filter (fun x => key x = kg.1) ∧ kg.2 ≠ []) ∧
    ((groupBy key l).map (·.1)).Nodup ∧
    ((groupBy key l).map (·.2)).flatten.Perm l := by
  refine ⟨?_, ?_, ?_, groupBy_flatten_perm key l⟩
  · rw [groupBy_eq]; simp [Function.comp_def]
  · intro kg hkg
    rw [groupBy_eq] at hkg
    obtain ⟨k, hk, rfl⟩ := List.mem_map.mp hkg
    refine ⟨rfl, ?_⟩
    rw [mem_dedup] at hk
    obtain ⟨x, hx, hxk⟩ := List.mem_map.mp hk
    intro hnil
    have : x ∈ l.filter (fun x => key x = k) := by simp [hx, hxk]
    simp only at hnil
    rw [hnil] at this; simp at this
  · rw [groupBy_eq]; simp [Function.comp_def]; exact nodup_dedup _

/-- `AgentSet(agents)`: an ordered set — first occurrences, in order, no duplicates, same members. -/
theorem C03_constructor_is_ordered_set {α : Type} [DecidableEq α] (l : List α) :
    (dedup l).Nodup ∧ (∀ x, x ∈ dedup l ↔ x ∈ l) ∧ (l.Nodup → dedup l = l) :=
  ⟨nodup_dedup l, fun _ => mem_dedup, dedup_of_nodup⟩

/-! ## the operators and methods inherited from `collections.abc` (`Set`, `MutableSet`, `Sequence`) -/

/-- `a | b`, `a & b`, `a - b`, `a ^ b` (`b` an AgentSet or any iterable of agents, duplicates allowed) are the
    set operations — exactly the right members, nobody twice — and their order is fixed: the union lists `a`
    first and then the new members of `b` in `b`'s order; the difference keeps `a`'s order; the symmetric
    difference lists what only `a` has, then what only `b` has; the intersection takes **`b`'s** order (the
    mixin iterates the right operand). -/
theorem C03_set_algebra_members_and_order {α : Type} [DecidableEq α] (l m : List α) (hl : l.Nodup) :
    (∀ x, (x ∈ unionL l m ↔ x ∈ l ∨ x ∈ m) ∧ (x ∈ interL l m ↔ x ∈ l ∧ x ∈ m) ∧
          (x ∈ diffL l m ↔ x ∈ l ∧ x ∉ m) ∧ (x ∈ xorL l m ↔ (x ∈ l ∧ x ∉ m) ∨ (x ∈ m ∧ x ∉ l))) ∧
    ((unionL l m).Nodup ∧ (interL l m).Nodup ∧ (diffL l m).Nodup ∧ (xorL l m).Nodup) ∧
    unionL l m = l ++ (dedup m).filter (fun x => x ∉ l) ∧
    interL l m = (dedup m).filter (fun x => x ∈ l) ∧
    diffL l m = l.filter (fun x => x ∉ m) ∧
    xorL l m = l.filter (fun x => x ∉ m) ++ (dedup m).filter (fun x => x ∉ l) := by
  refine ⟨fun x => ⟨mem_unionL, mem_interL, mem_diffL, mem_xorL⟩,
    ⟨nodup_unionL l m, nodup_interL l m, nodup_diffL l m, nodup_xorL l m⟩, ?_, interL_eq l m, ?_, ?_⟩
  · rw [unionL_eq, dedup_of_nodup hl]
  · rw [diffL_eq, dedup_of_nodup hl]
  · rw [xorL_eq, dedup_of_nodup hl]

/-- The comparison operators between two AgentSets are the subset order on members and ignore the order of
    the members: `<=` is inclusion, `<` strict inclusion, `>=` / `>` their mirror images, `==` holds exactly
    when one set is a reordering of the other (so a shuffled or sorted copy equals its source), `isdisjoint`
    exactly when no member is shared. -/
theorem C03_comparisons_are_subset_order {α : Type} [DecidableEq α] (l m : List α) (hl : l.Nodup) (hm : m.Nodup) :
    (leL l m = true ↔ l ⊆ m) ∧ (ltL l m = true ↔ l ⊆ m ∧ ¬ m ⊆ l) ∧
    geL l m = leL m l ∧ gtL l m = ltL m l ∧
    (eqL l m = true ↔ l.Perm m) ∧ (eqL l m = true ↔ leL l m = true ∧ leL m l = true) ∧
    (disjointL l m = true ↔ ∀ x, x ∈ l → x ∉ m) := by
  refine ⟨leL_iff hl, ltL_iff hl hm, rfl, rfl, eqL_iff hl hm, ?_, disjointL_iff l m⟩
  rw [eqL_iff hl hm, leL_iff hl, leL_iff hm, List.perm_ext_iff_of_nodup hl hm]
  exact ⟨fun h => ⟨fun x hx => (h x).mp hx, fun x hx => (h x).mpr hx⟩, fun h a => ⟨fun ha => h.1 ha, fun ha => h.2 ha⟩⟩

/-- The in-place operators leave the set equal to what the copying operator returns — `a |= b` as `a | b`,
    `a -= b` as `a - b`, `a ^= b` as `a ^ b`, member for member and in the same order — with one exception in
    the order only: `a &= b` keeps `a`'s order where `a & b` takes `b`'s (same members).  `a -= a` and
    `a ^= a` take the `it is self` branch (`clear()`), which is also what `a - a` and `a ^ a` give. -/
theorem C03_inplace_operators_match_copying {α : Type} [DecidableEq α] (l m : List α) (hl : l.Nodup) :
    iorL l m = unionL l m ∧ isubL l m false = diffL l m ∧ ixorL l m false = xorL l m ∧
    iandL l m = l.filter (fun x => x ∈ m) ∧ (iandL l m).Perm (interL l m) ∧
    (isubL l m true = [] ∧ ixorL l m true = [] ∧ diffL l l = [] ∧ xorL l l = []) := by
  refine ⟨iorL_eq_unionL hl, isubL_eq_diffL hl m, ixorL_eq_xorL hl m, iandL_eq_filter hl m, ?_, ?_⟩
  · rw [iandL_eq_filter hl m]
    refine (List.perm_ext_iff_of_nodup (hl.sublist List.filter_sublist) (nodup_interL l m)).mpr (fun a => ?_)
    simp [mem_interL]
  · have hd : diffL l l = [] := by
      rw [diffL_eq, List.filter_eq_nil_iff]
      intro a ha; simpa [mem_dedup] using ha
    refine ⟨by simp [isubL, clearL_eq_nil], by simp [ixorL, clearL_eq_nil], hd, ?_⟩
    rw [xorL_eq]
    have h1 : (dedup l).filter (fun x => x ∉ l) = [] := by
      rw [List.filter_eq_nil_iff]; intro a ha; simpa [mem_dedup] using ha
    rw [h1]; rfl

/-- `index`, `count` and `reversed` read the same member list as iteration and `[]`: `index(a)` is the
    position at which `[]` finds `a` (the first one; the only one in a set) and raises `ValueError` exactly for
    a non-member; with `start` / `stop` it is the first such position inside the range (negative bounds count
    from the end, as in slices) ; `count` is 1 for a member and 0 otherwise; `reversed` is the members last to
    first. -/
theorem C03_index_count_reversed_agree {α : Type} [DecidableEq α] (l : List α) (v : α) :
    (indexL l v 0 none = none ↔ v ∉ l) ∧
    (∀ i, indexL l v 0 none = some i ↔ l[i]? = some v ∧ ∀ j, j < i → l[j]? ≠ some v) ∧
    (l.Nodup → ∀ i, indexL l v 0 none = some i ↔ l[i]? = some v) ∧
    (∀ (start : Int) (stop : Option Int) (i : Nat),
      let n : Int := l.length
      let lo : Nat := (if start < 0 then max (n + start) 0 else start).toNat
      indexL l v start stop = some i ↔
        lo ≤ i ∧ l[i]? = some v ∧ (∀ j, lo ≤ j → j < i → l[j]? ≠ some v) ∧
        ∀ s, stop = some s → (i : Int) < (if s < 0 then s + n else s)) ∧
    (l.Nodup → countL l v = if v ∈ l then 1 else 0) ∧
    reversedL l = l.reverse := by
  have hrange : ∀ (start : Int) (stop : Option Int) (i : Nat),
      let n : Int := l.length
      let lo : Nat := (if start < 0 then max (n + start) 0 else start).toNat
      indexL l v start stop = some i ↔
        lo ≤ i ∧ l[i]? = some v ∧ (∀ j, lo ≤ j → j < i → l[j]? ≠ some v) ∧
        ∀ s, stop = some s → (i : Int) < (if s < 0 then s + n else s) := by
    intro start stop i n lo
    show indexGo v (stop.map fun s => if s < 0 then s + n else s) (l.drop lo) lo = some i ↔ _
    rw [indexGo_spec]
    constructor
    · rintro ⟨k, rfl, hk, hmin, hs⟩
      refine ⟨by omega, by simpa [List.getElem?_drop] using hk, ?_, ?_⟩
      · intro j hj1 hj2
        have := hmin (j - lo) (by omega)
        rw [List.getElem?_drop] at this
        have e : lo + (j - lo) = j := by omega
        rwa [e] at this
      · intro s hs'; subst hs'; exact hs _ rfl
    · rintro ⟨hlo, hk, hmin, hs⟩
      refine ⟨i - lo, by omega, ?_, ?_, ?_⟩
      · rw [List.getElem?_drop]
        have e : lo + (i - lo) = i := by omega
        rwa [e]
      · intro k' hk'
        rw [List.getElem?_drop]
        exact hmin (lo + k') (by omega) (by omega)
      · intro s hs'
        cases stop with
        | none => simp at hs'
        | some s0 => simp at hs'; subst hs'; exact hs s0 rfl
  have h0 : ∀ i, indexL l v 0 none = some i ↔ l[i]? = some v ∧ ∀ j, j < i → l[j]? ≠ some v := by
    intro i
    have := hrange 0 none i
    simp only [Int.lt_irrefl, if_false, Int.toNat_zero, Nat.zero_le, true_and, reduceCtorEq, false_implies,
      implies_true, and_true, true_implies] at this
    exact this
  refine ⟨?_, h0, ?_, hrange, ?_, rfl⟩
  · constructor
    · intro hnone hv
      obtain ⟨i, hi⟩ := List.getElem?_of_mem hv
      -- the first position holding v
      have : ∃ i : Nat, l[i]? = some v ∧ ∀ j : Nat, j < i → l[j]? ≠ some v := by
        induction i using Nat.strongRecOn with
        | _ i ih =>
          by_cases hmin : ∀ j, j < i → l[j]? ≠ some v
          · exact ⟨i, hi, hmin⟩
          · have ⟨j, hj⟩ : ∃ j : Nat, j < i ∧ l[j]? = some v := by
              apply Classical.byContradiction
              intro hne
              exact hmin (fun j hj hv' => hne ⟨j, hj, hv'⟩)
            exact ih j hj.1 hj.2
      obtain ⟨i0, h1, h2⟩ := this
      have := (h0 i0).mpr ⟨h1, h2⟩
      rw [hnone] at this
      cases this
    · intro hv
      cases h : indexL l v 0 none with
      | none => rfl
      | some i => exact absurd (List.mem_of_getElem? ((h0 i).mp h).1) hv
  · intro hn i
    rw [h0]
    refine ⟨fun h => h.1, fun h => ⟨h, fun j hj hj' => ?_⟩⟩
    have hi := (List.getElem?_eq_some_iff.mp h)
    have hj2 := (List.getElem?_eq_some_iff.mp hj')
    obtain ⟨hi1, hi2⟩ := hi
    obtain ⟨hj1, hj2⟩ := hj2
    have := (List.getElem_inj (h₀ := hj1) (h₁ := hi1) hn).mp (hj2.trans hi2.symm)
    omega
  · intro hn
    unfold countL
    exact hn.count

/-! ## the store: ordered-set operations, in-place versus copy, histories -/

/-- `add` of a member and `discard` of a non-member change nothing; `add` of a non-member appends it;
    `remove` of a non-member raises `KeyError` (and, being an error, leaves the store as it was). -/
theorem C03_add_discard_remove (st : Store) (s : Nat) (a : Nat) (hs : s < st.sets.length) :
    (a ∈ st.get s → add st s a = st) ∧
    (a ∉ st.get s → discard st s a = st ∧ remove st s a = .error .key) ∧
    (a ∉ st.get s → (add st s a).get s = st.get s ++ [a]) ∧
    (a ∈ st.get s → remove st s a = .ok (discard st s a)) := by
  have hset := set_get_self st s hs
  refine ⟨fun h => ?_, fun h => ⟨?_, ?_⟩, fun h => ?_, fun h => ?_⟩
  · simp only [add, addKey_of_mem h, hset]
  · have : (st.get s).erase a = st.get s := List.erase_eq_self_iff.mpr h
    simp only [discard, this, hset]
  · simp [remove, h]
  · simp only [add]; rw [get_set_self st s _ hs, addKey_of_not_mem h]
  · simp [remove, h]

/-- On the store: an operator expression always builds a *new* AgentSet (by `_from_iterable`, i.e. with the
    set's generator) and alters neither operand nor any other set, no attribute and not the generator's state;
    an in-place operator touches the left operand only; `pop()` removes and returns the member `[0]` returns
    (it is `discard` of that member), raises `KeyError` on an empty set; `clear()` empties the set and nothing else. -/
theorem C03_operators_pop_clear_on_the_store (st : Store) (h : st.WF) (s : Nat) (hs : s < st.sets.length) :
    (∀ op o, let r := setop st op s o
      r.2 = st.sets.length ∧ r.1.get r.2 = op.eval (st.get s) (st.other o) ∧
      (∀ j, j < st.sets.length → r.1.get j = st.get j) ∧ r.1.pop = st.pop ∧ r.1.rng = st.rng) ∧
    (∀ op o, let st' := isetop st op s o
      st'.get s = isetopL (st.get s) (st.other o) (decide (o = .set s)) op ∧
      (∀ j, j ≠ s → st'.get j = st.get j) ∧ st'.pop = st.pop ∧ st'.rng = st.rng) ∧
    (st.get s = [] → pop st s = .error .key) ∧
    (∀ st' a, pop st s = .ok (st', a) →
      item st s 0 = .ok a ∧ st' = discard st s a ∧ len st' s + 1 = len st s ∧ contains st' s a = false) ∧
    (clear st s).get s = [] ∧ (∀ j, j ≠ s → (clear st s).get j = st.get j) := by
  refine ⟨fun op o => ?_, fun op o => ⟨get_set_self st s _ hs, fun j hj => get_set_other st s j _ hj, rfl, rfl⟩,
    fun he => by simp [pop, he, popL], ?_, ?_, fun j hj => get_set_other st s j _ hj⟩
  · refine ⟨by simp [setop, Store.put], by simp [setop, Store.put, Store.get], fun j hj => ?_, rfl, rfl⟩
    simp [setop, Store.put, Store.get, List.getElem?_append_left hj]
  · intro st' a hp
    unfold pop at hp
    cases hl : st.get s with
    | nil => simp [hl, popL] at hp
    | cons b rest =>
      simp only [hl, popL, Except.ok.injEq, Prod.mk.injEq] at hp
      obtain ⟨rfl, rfl⟩ := hp
      have hn := Store.get_nodup h s
      rw [hl] at hn
      refine ⟨by simp [item, pyIndex, hl], by simp [discard, hl], ?_, ?_⟩
      · simp [len, get_set_self st s _ hs, hl]
      · simp only [contains, get_set_self st s _ hs]
        simpa using (List.nodup_cons.mp hn).1
  · rw [clear, get_set_self st s _ hs, clearL_eq_nil]

/-- A member that dies (removed from its model, no reference left in the program) is gone from **every** set
    at once — the set it was first put in and every set derived from it — and nothing else changes: each set
    keeps its other members in their order, no set gains a member, attributes and generator are untouched,
    sets stay duplicate-free. -/
theorem C03_dead_member_leaves_every_set (st : Store) (h : st.WF) (a : Nat) :
    (kill st a).sets.length = st.sets.length ∧
    (∀ s, (kill st a).get s = (st.get s).filter (· ≠ a)) ∧ (∀ s, a ∉ (kill st a).get s) ∧
    (kill st a).WF ∧ (kill st a).pop = st.pop ∧ (kill st a).rng = st.rng := by
  have hget : ∀ s, (kill st a).get s = (st.get s).filter (· ≠ a) := by
    intro s
    simp only [kill, Store.get, List.getElem?_map]
    cases hs : st.sets[s]? with
    | none => simp
    | some l =>
      have hn := h l (List.mem_of_getElem? hs)
      simp only [Option.map_some, Option.getD_some]
      rw [hn.erase_eq_filter]
      apply List.filter_congr
      intro x _
      by_cases hx : x = a <;> simp [hx]
  refine ⟨by simp [kill], hget, fun s => by rw [hget]; simp, applyOp_wf h (.kill a), rfl, rfl⟩

/-- length, iteration, membership and indexing agree: all four read the one member list. -/
theorem C03_len_iter_contains_getitem_agree (st : Store) (s : Nat) :
    len st s = (st.get s).length ∧ (∀ a, contains st s a = true ↔ a ∈ st.get s) ∧
    (∀ (i : Nat) a, item st s i = .ok a ↔ (st.get s)[i]? = some a) ∧
    (∀ (i : Nat), (st.get s).length ≤ i → item st s i = .error .index) := by
  refine ⟨rfl, fun a => by simp [contains], fun i a => ?_, fun i h => ?_⟩
  · simp only [item, pyIndex, Int.natCast_nonneg, if_true, Int.toNat_natCast]
    cases h : (st.get s)[i]? <;> simp
  · simp only [item, pyIndex, Int.natCast_nonneg, if_true, Int.toNat_natCast]
    rw [List.getElem?_eq_none h]

/-- No history of set operations ever makes a set list a member twice: starting from sets without
    duplicates, after any sequence of `AgentSet(...)`, `select`, `shuffle`, `sort`, `groupby`, `set`, `add`,
    `discard`, `remove`, `|` `&` `-` `^` and their in-place forms (with sets or with plain iterables that repeat
    agents), `pop`, `clear`, and deaths of members (in place or copying, on original or derived sets, raising or
    not) every set is duplicate-free. -/
theorem C03_no_duplicates_all_histories (st : Store) (h : st.WF) (ops : List SOp) :
    (ops.foldl applyOp st).WF := by
  induction ops generalizing st with
  | nil => exact h
  | cons op ops ih => exact ih _ (applyOp_wf h op)

/-- The in-place form leaves the set equal to what the copying form returns, and the copying form never
    alters the original — nor any other existing set: for `select`, `sort` (when the key exists) and
    `shuffle`, the set named by the in-place result equals the set named by the copying result; after the
    copying form every existing set reads as before; after the in-place form every *other* set does. -/
theorem C03_inplace_equals_copy_and_copy_preserves (st : Store) (s : Nat) (hs : s < st.sets.length) :
    (∀ p t a, let ri := select st s p t a true; let rc := select st s p t a false
      ri.2 = s ∧ rc.2 = st.sets.length ∧ ri.1.get ri.2 = rc.1.get rc.2 ∧
      (∀ j, j < st.sets.length → rc.1.get j = st.get j) ∧ (∀ j, j ≠ s → ri.1.get j = st.get j)) ∧
    (∀ key asc ri rc, sort st s key asc true = .ok ri → sort st s key asc false = .ok rc →
      ri.2 = s ∧ rc.2 = st.sets.length ∧ ri.1.get ri.2 = rc.1.get rc.2 ∧
      (∀ j, j < st.sets.length → rc.1.get j = st.get j) ∧ (∀ j, j ≠ s → ri.1.get j = st.get j)) ∧
    (let ri := shuffle st s true; let rc := shuffle st s false
      ri.2 = s ∧ rc.2 = st.sets.length ∧ ri.1.get ri.2 = rc.1.get rc.2 ∧
      (∀ j, j < st.sets.length → rc.1.get j = st.get j) ∧ (∀ j, j ≠ s → ri.1.get j = st.get j)) := by
  have key : ∀ (st' : Store) (l : List Nat), st'.sets = st.sets →
      (st'.put s true l).2 = s ∧ (st'.put s false l).2 = st.sets.length ∧
      (st'.put s true l).1.get (st'.put s true l).2 = (st'.put s false l).1.get (st'.put s false l).2 ∧
      (∀ j, j < st.sets.length → (st'.put s false l).1.get j = st.get j) ∧
      (∀ j, j ≠ s → (st'.put s true l).1.get j = st.get j) := by
    intro st' l he
    refine ⟨rfl, by simp [Store.put, he], ?_, ?_, ?_⟩
    · simp [Store.put, Store.get, he, hs]
    · intro j hj
      simp [Store.put, Store.get, he, List.getElem?_append_left hj]
    · intro j hj
      simp [Store.put, Store.get, he, Ne.symm hj]
  refine ⟨fun p t a => key st _ rfl, ?_, key { st with rng := _ } _ rfl⟩
  intro k asc ri rc h1 h2
  unfold sort at h1 h2
  cases hk : keysOf st k (st.get s) with
  | none => simp [hk] at h1
  | some ks =>
    simp only [hk, Except.ok.injEq] at h1 h2
    subst h1; subst h2
    exact key st _ rfl

/-- `get`, `set`, `agg`, `map` return what the same operation on the ordered member list would:
    `get` is the list of attribute rows in member order (`handle_missing="error"` raises iff some member
    lacks an attribute, `"default"` fills in the default, anything else is a `ValueError`); `agg` applies the
    function to the value list; `map` maps over the members in order; `set` touches attributes only —
    no set changes, nobody is added or lost. -/
theorem C03_get_set_agg_map_list_semantics (st : Store) (s : Nat) (k : Nat) :
    (∀ ks, (allPresent st s ks = true →
        get st s ks .error = .ok ((st.get s).map fun i => ks.map fun k => (st.agent i).attr k)) ∧
      (allPresent st s ks = false → get st s ks .error = .error .attr) ∧
      (∀ d, get st s ks (.default d) =
        .ok ((st.get s).map fun i => ks.map fun k => ((st.agent i).attr k).or d)) ∧
      get st s ks .bogus = .error .value) ∧
    (∀ vs, (st.get s).mapM (fun i => (st.agent i).attr k) = some vs →
        agg st s k .sum = .ok vs.sum ∧ agg st s k .len = .ok vs.length ∧
        map st s (.dbl k) = .ok (vs.map (· * 2 + 1)) ∧ ∀ d, map st s (.plus k d) = .ok (vs.map (· + d))) ∧
    (∀ v, (setAttr st s k v).pop.map (·.id) = st.pop.map (·.id) ∧ (setAttr st s k v).sets = st.sets ∧
        ∀ a ∈ (setAttr st s k v).pop, a.id ∈ st.get s → a.attr k = some v) := by
  refine ⟨fun ks => ⟨fun h => ?_, fun h => ?_, fun d => ?_, rfl⟩, fun vs h => ⟨?_, ?_, ?_, fun d => ?_⟩,
    fun v => ⟨?_, rfl, ?_⟩⟩
  · simp only [get, h, if_true, rowsOf]
    congr 1
    apply List.map_congr_left; intro i _
    apply List.map_congr_left; intro k _
    cases (st.agent i).attr k <;> rfl
  · simp [get, h]
  · simp only [get, rowsOf]
    congr 1
    apply List.map_congr_left; intro i _
    apply List.map_congr_left; intro k _
    cases (st.agent i).attr k <;> rfl
  · simp [agg, h]
  · simp [agg, h]
  · simp [map, h]
  · simp [map_plus_eq, h]
  · simp only [setAttr, List.map_map]
    apply List.map_congr_left
    intro a _
    simp only [Function.comp]
    split <;> rfl
  · intro a ha hmem
    simp only [setAttr, List.mem_map] at ha
    obtain ⟨b, _, rfl⟩ := ha
    by_cases hb : b.id ∈ st.get s
    · simp [hb, Agent.setAttr, Agent.attr]
    · simp only [hb, if_false] at hmem

/-! ## review round: every parameter combination of `select`, first occurrences, what `set` leaves alone -/

/-- **`select` with every combination of its parameters is one specification**: whatever `filter_func` (given or not),
    `agent_type` (given or not: `isinstance`, so subclasses qualify) and `at_most` (infinite, an int, or the count derived
    from a fraction), the selected members are the members that pass both tests, in order — all of them without a limit,
    the first `k` with one — including the early-return combination (no filter, no type, no limit: every member).
    `isinstance` on the harness hierarchy is reflexive and transitive. -/
theorem C03_select_every_parameter_combination (st : Store) (l : List Nat) (pred : Option Pred) (ty : Option Nat)
    (am : AtMost) :
    let keep := fun i => (match pred with | some p => p.eval (st.agent i) | none => true) &&
                         (match ty with | some c => isInst (st.agent i).ty c | none => true)
    selectIds st l pred ty am = (match am with | .inf => l.filter keep | .count k => (l.filter keep).take k) ∧
    (∀ t, isInst t t = true) ∧ (∀ a b c, isInst a b = true → isInst b c = true → isInst a c = true) := by
  refine ⟨?_, fun t => by simp [isInst], fun a b c h1 h2 => ?_⟩
  · cases am with
    | count k => cases pred <;> cases ty <;> simp [selectIds, selectGo_some]
    | inf =>
      cases pred <;> cases ty <;> simp [selectIds, selectGo_none] <;>
        exact (List.filter_eq_self.mpr (fun _ _ => rfl)).symm
  · simp only [isInst, Bool.or_eq_true, Bool.and_eq_true, beq_iff_eq] at h1 h2 ⊢
    omega

/-- `AgentSet(agents)` keeps the **first** occurrence of every agent, in order (`dict` insertion order): the head of the
    iterable stays in front, its later copies are dropped, and so on down the iterable — that is `List.eraseDups`. -/
theorem C03_constructor_keeps_first_occurrences {α : Type} [DecidableEq α] (l : List α) :
    dedup l = l.eraseDups ∧ ∀ (a : α) (rest : List α), dedup (a :: rest) = a :: dedup (rest.filter (fun b => !b == a)) :=
  ⟨dedup_eq_eraseDups l, fun a rest => dedup_cons a rest⟩

/-- `set(attr, value)` writes the one attribute of the members and nothing else: an agent outside the set is left exactly
    as it was; a member gets the value, keeps every other attribute, its identity and its class. -/
theorem C03_set_writes_members_only (st : Store) (s : Nat) (k : Nat) (v : Int) (j : Nat) (a : Agent)
    (ha : st.pop[j]? = some a) :
    ∃ a', (setAttr st s k v).pop[j]? = some a' ∧
      (a.id ∉ st.get s → a' = a) ∧
      (a.id ∈ st.get s → a'.attr k = some v ∧ (∀ k', k' ≠ k → a'.attr k' = a.attr k') ∧ a'.id = a.id ∧ a'.ty = a.ty) := by
  refine ⟨if a.id ∈ st.get s then a.setAttr k v else a, by simp [setAttr, ha], fun h => by simp [h], fun h => ?_⟩
  simp only [h, if_true]
  exact ⟨by simp [Agent.setAttr, Agent.attr], fun k' hk => setAttr_attr_other a k k' v hk, rfl, rfl⟩

/-- **Re-building a result is the identity.**  In the code the copying form of `select` / `sort` / `shuffle` ends in
    `AgentSet(result, random)`, the in-place form in `self._update(result)` (`shuffle`: `self._agents.data = {…}`), the early
    return of `select` in `self` versus `copy.copy(self)`, `groupby(result_type="agentset")` in one constructor call per group:
    each pushes its result through a dict comprehension, i.e. through a de-duplication.  On every result these methods build
    from a duplicate-free set that de-duplication changes nothing, order included — which is why the model may store the
    result list as it is (`Store.put`) for either flag.
    (Review 3, M16: the former name "both code paths build the same set" claimed more — the two paths themselves are not in
    the model; that they agree on the real code is what the correspondence tie checks, `inplace` being part of every op.) -/
theorem C03_rebuilding_a_result_is_the_identity (st : Store) (h : st.WF) (s : Nat) :
    dedup (st.get s) = st.get s ∧
    (∀ pred ty am, dedup (selectIds st (st.get s) pred ty am) = selectIds st (st.get s) pred ty am) ∧
    (∀ (key : Nat → Int) asc, dedup (sortL key asc (st.get s)) = sortL key asc (st.get s)) ∧
    dedup (Rng.shuffle (st.get s) st.rng).1 = (Rng.shuffle (st.get s) st.rng).1 ∧
    (∀ (key : Nat → Int), ∀ g ∈ groupBy key (st.get s), dedup g.2 = g.2) := by
  have hn := Store.get_nodup h s
  refine ⟨dedup_of_nodup hn, fun pred ty am => dedup_of_nodup (hn.sublist (selectIds_sublist st _ pred ty am)),
    fun key asc => dedup_of_nodup ((sortL_perm key asc _).nodup_iff.mpr hn),
    dedup_of_nodup ((Rng.shuffle_nodup _ _).mpr hn), fun key g hg => ?_⟩
  rw [((C03_groupby_partitions_in_order key (st.get s)).2.1 g hg).1]
  exact dedup_of_nodup (hn.sublist List.filter_sublist)

/-- agents are named by their position in the population (what the harness and the driver do) -/
def Store.IdsArePositions (st : Store) : Prop := ∀ (i : Nat) (a : Agent), st.pop[i]? = some a → a.id = i

private theorem applyOp_pop_ids (st : Store) (op : SOp) : (applyOp st op).pop.map (·.id) = st.pop.map (·.id) := by
  cases op with
  | setAttr s' k' v' => exact ((C03_get_set_agg_map_list_semantics st s' k').2.2 v').1
  | mk ids => simp [applyOp, mk, put_pop]
  | select s' p t a i => simp [applyOp, select, put_pop]
  | shuffle s' i => simp [applyOp, shuffle, put_pop]
  | sort s' key asc i =>
    cases hk : keysOf st key (st.get s') with
    | none => simp [applyOp, sort, hk]
    | some ks => simp [applyOp, sort, hk, put_pop]
  | group s' key b =>
    cases hk : keysOf st key (st.get s') with
    | none => simp [applyOp, group, hk]
    | some ks => cases b <;> simp [applyOp, group, hk]
  | add s' a => simp [applyOp, add]
  | discard s' a => simp [applyOp, discard]
  | remove s' a =>
    by_cases hm : a ∈ st.get s'
    · simp [applyOp, remove, hm, discard]
    · simp [applyOp, remove, hm]
  | setop o s' x => simp [applyOp, setop, put_pop]
  | isetop o s' x => simp [applyOp, isetop]
  | pop s' =>
    cases hl : st.get s' with
    | nil => simp [applyOp, pop, hl, popL]
    | cons a rest => simp [applyOp, pop, hl, popL]
  | clear s' => simp [applyOp, clear]
  | kill a => simp [applyOp, kill]

/-- **`set` then `get` reads the value back** (review M21: reads go by position, writes by id — they meet because ids *are*
    positions, an invariant of every history): after `set(k, v)` on a set whose members belong to the population, `get(k)` on
    that set returns `v` for every member (and never raises); and no history of operations ever breaks "ids are positions". -/
theorem C03_set_then_get_reads_the_value (st : Store) (s k : Nat) (v : Int) (hid : st.IdsArePositions) :
    ((∀ i ∈ st.get s, i < st.pop.length) →
      get (setAttr st s k v) s [k] .error = .ok ((st.get s).map fun _ => [some v])) ∧
    (∀ ops : List SOp, (ops.foldl applyOp st).IdsArePositions) := by
  constructor
  · intro hmem
    have hget : (setAttr st s k v).get s = st.get s := rfl
    have key : ∀ i ∈ st.get s, ((setAttr st s k v).agent i).attr k = some v := by
      intro i hi
      have hlt := hmem i hi
      have hp : st.pop[i]? = some st.pop[i] := List.getElem?_eq_getElem hlt
      have hidi := hid i _ hp
      simp only [Store.agent, setAttr, List.getElem?_map, hp, Option.map_some, Option.getD_some, hidi, hi, if_true]
      simp [Agent.setAttr, Agent.attr]
    have hall : allPresent (setAttr st s k v) s [k] = true := by
      simp only [allPresent, hget, List.all_eq_true]
      intro i hi
      simp [key i hi]
    simp only [get, hall, if_true, rowsOf, hget]
    congr 1
    apply List.map_congr_left
    intro i hi
    simp [key i hi]
  · intro ops
    induction ops generalizing st with
    | nil => exact hid
    | cons op ops ih =>
      rw [List.foldl_cons]
      apply ih
      unfold Store.IdsArePositions
      intro i a ha
      have h1 : ((applyOp st op).pop.map (·.id))[i]? = some a.id := by simp [ha]
      rw [applyOp_pop_ids] at h1
      simp only [List.getElem?_map] at h1
      cases hp : st.pop[i]? with
      | none => simp [hp] at h1
      | some b =>
        simp [hp] at h1
        rw [← h1]; exact hid i b hp

/-- **`agentset[i]` and `agentset[i:j]` are Python's indexing of the ordered member list**: a non-negative index reads that
    position; `-k` reads position `len - k` (`-1` is the last member) and raises `IndexError` beyond `-len`; a slice with bounds
    inside the list is `take`/`drop`, an upper bound past the end stops at the end, and a negative bound `-k` denotes
    `len - k` (clamped at the start). -/
theorem C03_getitem_negative_indices_and_slices {α : Type} (l : List α) :
    (∀ i : Nat, pyIndex l (i : Int) = l[i]?) ∧
    (∀ k : Nat, 1 ≤ k → k ≤ l.length → pyIndex l (-(k : Int)) = l[l.length - k]?) ∧
    (∀ k : Nat, l.length < k → pyIndex l (-(k : Int)) = none) ∧
    (∀ a b : Nat, pySlice l (a : Int) (b : Int) = (l.drop (min a l.length)).take (min b l.length - min a l.length)) ∧
    (∀ (k : Nat) (j : Int), 1 ≤ k → pySlice l (-(k : Int)) j = pySlice l ((l.length - k : Nat) : Int) j) ∧
    (∀ (i : Int) (k : Nat), 1 ≤ k → pySlice l i (-(k : Int)) = pySlice l i ((l.length - k : Nat) : Int)) := by
  refine ⟨fun i => by simp [pyIndex], fun k h1 h2 => ?_, fun k h => ?_, fun a b => ?_, fun k j h1 => ?_, fun i k h1 => ?_⟩
  · have hneg : ¬ (0 : Int) ≤ -(k : Int) := by omega
    have hle : -(-(k : Int)) ≤ (l.length : Int) := by omega
    simp only [pyIndex, hneg, if_false, hle, if_true]
    simp
  · have hneg : ¬ (0 : Int) ≤ -(k : Int) := by omega
    have hle : ¬ -(-(k : Int)) ≤ (l.length : Int) := by omega
    simp only [pyIndex, hneg, if_false, hle]
  · have ha : ¬ ((a : Int) < 0) := by omega
    have hb : ¬ ((b : Int) < 0) := by omega
    simp [pySlice, pyClamp, ha, hb]
  · have hk : (-(k : Int)) < 0 := by omega
    have hc : pyClamp l.length (-(k : Int)) = pyClamp l.length ((l.length - k : Nat) : Int) := by
      have h2 : ¬ (((l.length - k : Nat) : Int) < 0) := by omega
      simp only [pyClamp, hk, if_true, h2, if_false]
      omega
    simp only [pySlice, hc]
  · have hk : (-(k : Int)) < 0 := by omega
    have hc : pyClamp l.length (-(k : Int)) = pyClamp l.length ((l.length - k : Nat) : Int) := by
      have h2 : ¬ (((l.length - k : Nat) : Int) < 0) := by omega
      simp only [pyClamp, hk, if_true, h2, if_false]
      omega
    simp only [pySlice, hc]

example : pyIndex [10, 20, 30] (-1) = some 30 ∧ pyIndex [10, 20, 30] (-4) = none ∧ pySlice [10, 20, 30, 40] 1 (-1) = [20, 30] ∧
    pySlice [10, 20, 30, 40] (-3) 9 = [20, 30, 40] := by decide

/-- **`agg` with `min` / `max`, and the error arms of `agg` and `map`**: on a non-empty set `agg(k, min)` (`max`) returns a value
    that some member has and that is ≤ (≥) every member's value; on an empty set they raise `ValueError` (Python's `min([])`);
    if some member lacks the attribute, every aggregation and every attribute-reading `map` raises `AttributeError`; calling a
    method name no agent has raises `AttributeError` exactly when the set is non-empty (an empty set maps to `[]`). -/
theorem C03_agg_min_max_and_error_arms (st : Store) (s k : Nat) :
    (∀ vs, (st.get s).mapM (fun i => (st.agent i).attr k) = some vs →
      (vs = [] → agg st s k .min = .error .value ∧ agg st s k .max = .error .value) ∧
      (vs ≠ [] → ∃ lo hi, agg st s k .min = .ok lo ∧ agg st s k .max = .ok hi ∧ lo ∈ vs ∧ hi ∈ vs ∧
        ∀ x ∈ vs, lo ≤ x ∧ x ≤ hi)) ∧
    ((st.get s).mapM (fun i => (st.agent i).attr k) = none →
      (∀ f, agg st s k f = .error .attr) ∧ map st s (.dbl k) = .error .attr ∧ ∀ d, map st s (.plus k d) = .error .attr) ∧
    (map st s .nosuch = .ok [] ↔ st.get s = []) ∧ (st.get s ≠ [] → map st s .nosuch = .error .attr) := by
  refine ⟨fun vs h => ⟨fun he => ?_, fun hne => ?_⟩, fun h => ⟨fun f => ?_, ?_, fun d => ?_⟩, ?_, fun hne => ?_⟩
  · subst he; simp [agg, h]
  · cases vs with
    | nil => exact absurd rfl hne
    | cons v rest =>
      obtain ⟨m1, m2⟩ := foldl_min_spec v rest
      obtain ⟨x1, x2⟩ := foldl_max_spec v rest
      exact ⟨rest.foldl min v, rest.foldl max v, by simp [agg, h], by simp [agg, h], m1, x1, fun x hx => ⟨m2 x hx, x2 x hx⟩⟩
  · cases f <;> simp [agg, h]
  · simp [map, h]
  · simp [map_plus_eq, h]
  · by_cases he : st.get s = [] <;> simp [map_nosuch_eq, he]
  · simp [map_nosuch_eq, hne]

example : agg { pop := [⟨0, 0, [(0, 4)]⟩, ⟨1, 0, [(0, -2)]⟩, ⟨2, 0, [(0, 7)]⟩], sets := [[0, 1, 2], []], rng := ⟨[]⟩ } 0 0 .min = .ok (-2) ∧
    agg { pop := [⟨0, 0, [(0, 4)]⟩, ⟨1, 0, [(0, -2)]⟩, ⟨2, 0, [(0, 7)]⟩], sets := [[0, 1, 2], []], rng := ⟨[]⟩ } 0 0 .max = .ok 7 ∧
    agg { pop := [⟨0, 0, [(0, 4)]⟩, ⟨1, 0, [(0, -2)]⟩, ⟨2, 0, [(0, 7)]⟩], sets := [[0, 1, 2], []], rng := ⟨[]⟩ } 1 0 .min = .error .value :=
  ⟨by rfl, by rfl, by rfl⟩

/-! ### non-vacuity: a concrete store exercising the statements above -/

private def demo : Store :=
  { pop := [⟨0, 0, [(0, 2)]⟩, ⟨1, 1, [(0, 1), (1, 5)]⟩, ⟨2, 2, [(0, 2)]⟩, ⟨3, 3, [(0, 1)]⟩, ⟨4, 0, [(0, 2)]⟩],
    sets := [[0, 1, 2, 3, 4]], rng := ⟨[3, 1, 4, 1, 5]⟩ }

example : demo.WF := by intro s hs; simp [demo] at hs; subst hs; decide
/-- descending sort on x with ties: 0,2,4 (x=2) keep their order, then 1,3 (x=1) -/
example : (sort demo 0 (.attr 0) false false).toOption.map (fun r => r.1.get r.2) = some [0, 2, 4, 1, 3] := by
  simp +decide [sort, keysOf, demo, Store.get, Store.agent, Key.eval, Agent.attr, Store.put, sortL, List.mergeSort,
    List.MergeSort.Internal.splitInTwo, Except.toOption]
/-- `select(agent_type=T0, at_most=2)`: T0 and its subclasses T1, T2 qualify, the first two are taken -/
example : (select demo 0 none (some 0) (.count 2) false).1.get 1 = [0, 1] := by decide
/-- `select(lambda a: a.x >= 2, agent_type=T1)`: of the members with x ≥ 2 (0, 2, 4) only agent 2 (class T2 ⊂ T1) qualifies -/
example : selectIds demo [0, 1, 2, 3, 4] (some (.ge 0 2)) (some 1) .inf = [2] := by decide
example : dedup [3, 1, 3, 2, 1] = [3, 1, 2] := by decide
example : get (setAttr demo 0 1 9) 0 [1] .error = .ok [[some 9], [some 9], [some 9], [some 9], [some 9]] ∧
    get demo 0 [1] .error = .error .attr := ⟨by rfl, by rfl⟩
example : ((setAttr demo 0 1 9).pop[1]?.map (·.attrs)) = some [(1, 9), (0, 1)] := by decide
example : (shuffle demo 0 false).1.get 1 = [0, 2, 4, 1, 3] ∧ (shuffle demo 0 false).1.get 0 = [0, 1, 2, 3, 4] := by decide
example : (group demo 0 (.attr 0) false).toOption.map (·.2) = some [(2, [0, 2, 4]), (1, [1, 3])] := by decide
example : sort demo 0 (.attr 1) true true = .error .attr ∧ remove demo 0 7 = .error .key := ⟨rfl, rfl⟩
/-- `{0,1,2,3,4} & [4,4,2,9→absent,0]` takes the right operand's order; `&=` keeps the left one's -/
example : interL [0, 1, 2, 3, 4] [4, 4, 2, 0] = [4, 2, 0] ∧ iandL [0, 1, 2, 3, 4] [4, 4, 2, 0] = [0, 2, 4] ∧
    unionL [0, 1, 2] [4, 4, 1, 3] = [0, 1, 2, 4, 3] ∧ xorL [0, 1, 2] [4, 4, 1, 3] = [0, 2, 4, 3] ∧
    ixorL [0, 1, 2] [4, 4, 1, 3] false = [0, 2, 4, 3] := by decide
example : eqL [0, 1, 2] [2, 0, 1] = true ∧ ltL [0, 1] [2, 0, 1] = true ∧ leL [0, 3] [2, 0, 1] = false := by decide
example : indexL [3, 1, 2, 5, 0] 2 (-3) none = some 2 ∧ indexL [3, 1, 2, 5, 0] 2 0 (some (-3)) = none := by decide
example : (kill (select demo 0 none (some 0) .inf false).1 2).sets = [[0, 1, 3, 4], [0, 1, 4]] := by decide
example : (setop demo .xor 0 (.list [4, 4, 7])).1.get 1 = [0, 1, 2, 3, 7] ∧
    (pop demo 0).toOption.map (·.2) = some 0 := by decide

/-- the method name and the argument a `map` by name is called with (`none`: a callable was passed) -/
def MapFn.named : MapFn → Option (Name × Int)
  | .dbl _ => none
  | .plus k d => some (.plus k, d)
  | .nosuch => some (.nosuch, 0)
  | .stat d => some (.base, d)
  | .cls d => some (.rank, d)
  | .own k d => some (.own k, d)

/-- the reading the property rejects (seeded change `C03-r4-map-by-name-resolved-on-class`): the name is resolved on the
    agent's *class* and the result is called with the agent put in front of the arguments —
    `getattr(type(agent), name)(agent, d)`.  A plain function then behaves like the bound method; a staticmethod and a
    classmethod get one positional argument too many; the instance `__dict__` is never consulted. -/
def callOnClass (st : Store) (name : Name) (d : Int) (i : Nat) : Except Err Int :=
  match classEntry (st.agent i).ty name with
  | none => .error .attr
  | some (.function b) => b.call st (.agent i) d
  | some (.staticmethod _) | some (.classmethod _) | some (.object _) => .error .type

/-- **`map` by name calls what the attribute lookup on each *agent* yields** — `[getattr(a, name)(d) for a in members]`,
    with `getattr` modelled as Python's lookup (`resolve`: instance `__dict__` unbound, then the class entry through its
    `__get__`) over the harness' class and instance dictionaries:
    * a `map` by name that returns, returns position by position what `getattr(member, name)(d)` returns; one that raises,
      raises what the *first* member whose call raises raised, every member before it having been called successfully;
    * hence (derived from the lookup, not written into `map`): the name of a staticmethod is called with the arguments alone
      (`2 * d` whoever the agent is), the name of a classmethod with the agent's exact class, the name of a callable stored
      on the instances calls that callable (`3 * a.k + d`, not the class-level method of the same name, `-999`), raising
      `AttributeError` iff a member lacks the attribute it reads;
    * resolving the name on the class instead (`callOnClass`) is the same thing for a plain instance method — which is why
      such methods alone cannot tell the two readings apart — and a different thing for the other three kinds;
    * whatever is mapped, a successful `map` returns exactly one result per member. -/
theorem C03_map_by_name_is_the_agents_own_attribute (st : Store) (s : Nat) (k : Nat) (d : Int) :
    (∀ f name d', MapFn.named f = some (name, d') →
      (∀ vs : List Int, map st s f = .ok vs → ∀ (j i : Nat), (st.get s)[j]? = some i → ∃ v, vs[j]? = some v ∧ callByName st name d' i = .ok v) ∧
      (∀ e : Err, map st s f = .error e → ∃ (pre : List Nat) (i : Nat) (post : List Nat), st.get s = pre ++ i :: post ∧ callByName st name d' i = .error e ∧
        ∀ j ∈ pre, ∃ v, callByName st name d' j = .ok v)) ∧
    map st s (.stat d) = .ok ((st.get s).map fun _ => 2 * d) ∧
    map st s (.cls d) = .ok ((st.get s).map fun i => ((st.agent i).ty : Int) + d) ∧
    (∀ vs, (st.get s).mapM (fun i => (st.agent i).attr k) = some vs →
      map st s (.own k d) = .ok (vs.map (3 * · + d))) ∧
    ((st.get s).mapM (fun i => (st.agent i).attr k) = none → map st s (.own k d) = .error .attr) ∧
    (∀ i, callOnClass st (.plus k) d i = callByName st (.plus k) d i ∧
      callOnClass st .base d i ≠ callByName st .base d i ∧ callOnClass st .rank d i ≠ callByName st .rank d i ∧
      (∀ v, (st.agent i).attr k = some v →
        callByName st (.own k) d i = .ok (3 * v + d) ∧ callOnClass st (.own k) d i = .ok (-999))) ∧
    (∀ f vs, map st s f = .ok vs → vs.length = (st.get s).length) := by
  have hmap : ∀ f name d', MapFn.named f = some (name, d') → map st s f = mapE (callByName st name d') (st.get s) := by
    intro f name d' h
    cases f <;> simp [MapFn.named] at h <;> obtain ⟨rfl, rfl⟩ := h <;> rfl
  refine ⟨fun f name d' hn => ⟨fun vs h => ?_, fun e h => ?_⟩, ?_, ?_, fun vs h => by simp [map_own_eq, h],
    fun h => by simp [map_own_eq, h], fun i => ⟨rfl, ?_, ?_, fun v hv => ⟨by rw [callByName_own, hv], rfl⟩⟩, fun f vs h => ?_⟩
  · rw [hmap f name d' hn] at h
    exact mapE_getElem _ _ _ h
  · rw [hmap f name d' hn] at h
    exact mapE_error _ _ _ h
  · exact mapE_ok_of_forall _ _ _ (fun i _ => callByName_base st d i)
  · exact mapE_ok_of_forall _ _ _ (fun i _ => callByName_rank st d i)
  · simp [callOnClass, classEntry, callByName_base]
  · simp [callOnClass, classEntry, callByName_rank]
  · cases hf : MapFn.named f with
    | some p =>
      obtain ⟨name, d'⟩ := p
      rw [hmap f name d' hf] at h
      exact mapE_length _ _ _ h
    | none =>
      cases f <;> simp [MapFn.named] at hf
      rename_i k'
      simp only [map] at h
      cases hm : (st.get s).mapM (fun i => (st.agent i).attr k') with
      | none => simp [hm] at h
      | some ws => simp [hm] at h; subst h; simp [mapM_some_length _ _ _ hm]

/-- non-vacuity: a mixed set; the staticmethod ignores the agents, the classmethod sees their classes, the per-instance callable their x -/
example : (map demo 0 (.stat 3)).toOption = some ((demo.get 0).map fun _ => 6) ∧ demo.get 0 ≠ [] ∧
    (map demo 0 (.cls 1)).toOption = some ((demo.get 0).map fun i => ((demo.agent i).ty : Int) + 1) ∧
    (map demo 0 (.own 0 2)).toOption.map (·.length) = some (demo.get 0).length := by decide

/-- the two readings on the mixed set: the agent's own lookup gives `[8, 5, 8, 5, 8]` for `own0(2)`, the class lookup the
    decoy's `-999`; `base` / `rank` resolved on the class and handed the agent raise `TypeError`; agent 1 has no `y`… it has:
    `plus1` raises `AttributeError` at the first member (agent 0) under either reading -/
example : map demo 0 (.own 0 2) = .ok [8, 5, 8, 5, 8] ∧ mapE (callOnClass demo (.own 0) 2) (demo.get 0) = .ok [-999, -999, -999, -999, -999] ∧
    mapE (callOnClass demo .base 3) (demo.get 0) = .error .type ∧ mapE (callOnClass demo .rank 3) (demo.get 0) = .error .type ∧
    map demo 0 (.plus 1 0) = .error .attr ∧ mapE (callOnClass demo (.plus 1) 0) (demo.get 0) = .error .attr ∧
    callByName demo (.plus 1) 4 1 = .ok 9 := ⟨by rfl, by rfl, by rfl, by rfl, by rfl, by rfl, by rfl⟩

/-- the lookup itself: an instance entry wins over any class entry and is not bound; a class-level function binds the agent,
    a staticmethod nothing, a classmethod the class; no entry anywhere = `AttributeError` -/
example : resolve (some (.object (.triple 7 0))) (some (.function .decoy)) 7 2 = some (.triple 7 0, .nothing) ∧
    resolve (some (.function .decoy)) none 7 2 = some (.decoy, .nothing) ∧
    resolve none (some (.function .decoy)) 7 2 = some (.decoy, .agent 7) ∧
    resolve none (some (.staticmethod .twice)) 7 2 = some (.twice, .nothing) ∧
    resolve none (some (.classmethod .rankPlus)) 7 2 = some (.rankPlus, .cls 2) ∧ resolve none none 7 2 = none := by decide

end Mesa.ASet
