import MesaModel.Proofs.AgentSet
/-!
# C03 — AgentSet behaves as an ordered set and its queries match list semantics

Property theorems only (model: `Model/AgentSet.lean`; helper lemmas: `Proofs/AgentSet.lean`,
`Proofs/ListOps.lean`).  The first group is about the list functions that mirror the code of each method
(for every element type, every list, every predicate / key / script); the second group is about the
store of named sets (`Store`), i.e. about in-place versus copying forms and about histories.

`select(at_most = <float f ≤ 1.0>)`: the code turns `f` into the count `int(len(self) * f)` with IEEE
double arithmetic.  The theorems take that count `k` as a parameter (`AtMost.count k`); that `k` is the
floor of the real product is **not** claimed (it fails at IEEE ties such as `int(49 * (1/49)) = 0`);
the driver recomputes `k` with Lean's `Float` and the correspondence check compares it with CPython's.
-/
namespace Mesa.ASet

/-! ## list semantics of each method -/

/-- `select`: the generator loop of the code returns exactly the first `k` members that pass the filter,
    in order (`k` = the int `at_most`, or the count derived from a fraction); without a limit, exactly
    the members that pass the filter, in order. -/
theorem C03_select_is_filter_take {α : Type} (p : α → Bool) (l : List α) :
    (∀ k, selectGo p (some k) l 0 = (l.filter p).take k) ∧ selectGo p none l 0 = l.filter p :=
  ⟨fun k => by simpa using selectGo_some p k l 0, selectGo_none p l 0⟩

/-- `at_most` is an upper limit only: a limit at least the size of the set (e.g. the fraction 1.0, whose
    count is the size) selects every member that passes the filter; a limit 0 selects nobody. -/
theorem C03_select_limit_bounds {α : Type} (p : α → Bool) (l : List α) (k : Nat) :
    (l.length ≤ k → selectGo p (some k) l 0 = l.filter p) ∧ selectGo p (some 0) l 0 = [] := by
  refine ⟨fun h => ?_, ?_⟩
  · rw [(C03_select_is_filter_take p l).1 k]
    exact List.take_of_length_le (Nat.le_trans (List.length_filter_le _ _) h)
  · rw [(C03_select_is_filter_take p l).1 0]; rfl

/-- `sort`: a permutation of the members (nobody lost or duplicated), ordered by the key — ascending or
    descending as asked — and stable: members with equal keys keep their original relative order, in both
    directions (what `sorted(..., reverse=True)` does). -/
theorem C03_sort_perm_ordered_stable {α : Type} (key : α → Int) (asc : Bool) (l : List α) :
    (sortL key asc l).Perm l ∧
    (sortL key asc l).Pairwise (fun a b => if asc then key a ≤ key b else key b ≤ key a) ∧
    ∀ v, (sortL key asc l).filter (fun a => key a = v) = l.filter (fun a => key a = v) := by
  refine ⟨sortL_perm key asc l, ?_, sortL_stable key asc l⟩
  refine (sortL_sorted key asc l).imp ?_
  intro a b h
  unfold sortLe at h
  cases asc <;> simpa using h

/-- `shuffle`: for every list and every state of the generator the result is a permutation of the
    members — it loses nobody and duplicates nobody — and consumes draws depending on the size only. -/
theorem C03_shuffle_is_permutation {α : Type} (l : List α) (g : Rng) :
    (Rng.shuffle l g).1.Perm l ∧ ((Rng.shuffle l g).1.Nodup ↔ l.Nodup) ∧
    ∀ {β : Type} (m : List β), m.length = l.length → (Rng.shuffle m g).2 = (Rng.shuffle l g).2 :=
  ⟨Rng.shuffle_perm l g, Rng.shuffle_nodup l g, fun m h => Rng.shuffle_rng_length m l g h⟩

/-- `groupby`: the group keys are the distinct key values in order of first occurrence; the group of a
    key is exactly the members with that key, in set order; the groups partition the members. -/
theorem C03_groupby_partitions_in_order {κ α : Type} [DecidableEq κ] (key : α → κ) (l : List α) :
    (groupBy key l).map (·.1) = dedup (l.map key) ∧
    (∀ kg ∈ groupBy key l, kg.2 = l.filter (fun x => key x = kg.1) ∧ kg.2 ≠ []) ∧
    ((groupBy key l).map (·.1)).Nodup ∧
    ((groupBy key l).map (·.2)).flatten.Perm l := by
  refine ⟨?_, ?_, ?_, groupBy_flatten_perm key l⟩
  · rw [groupBy_eq]; simp [Function.comp_def]
  · intro kg hkg
    rw [groupBy_eq] at hkg
    obtain ⟨k, hk, rfl⟩ := List.mem_map.mp hkg
    refine ⟨rfl, ?_⟩
    rw [mem_dedup] at hk
    obtain ⟨x, hx, hxk⟩ := List.mem_map.mp hk
    intro hnil
    have : x ∈ l.filter (fun x => key x = k) := by simp [hx, hxk]
    simp only at hnil
    rw [hnil] at this; simp at this
  · rw [groupBy_eq]; simp [Function.comp_def]; exact nodup_dedup _

/-- `AgentSet(agents)`: an ordered set — first occurrences, in order, no duplicates, same members. -/
theorem C03_constructor_is_ordered_set {α : Type} [DecidableEq α] (l : List α) :
    (dedup l).Nodup ∧ (∀ x, x ∈ dedup l ↔ x ∈ l) ∧ (l.Nodup → dedup l = l) :=
  ⟨nodup_dedup l, fun _ => mem_dedup, dedup_of_nodup⟩

/-! ## the store: ordered-set operations, in-place versus copy, histories -/

/-- `add` of a member and `discard` of a non-member change nothing; `add` of a non-member appends it;
    `remove` of a non-member raises `KeyError` (and, being an error, leaves the store as it was). -/
theorem C03_add_discard_remove (st : Store) (s : Nat) (a : Nat) (hs : s < st.sets.length) :
    (a ∈ st.get s → add st s a = st) ∧
    (a ∉ st.get s → discard st s a = st ∧ remove st s a = .error .key) ∧
    (a ∉ st.get s → (add st s a).get s = st.get s ++ [a]) ∧
    (a ∈ st.get s → remove st s a = .ok (discard st s a)) := by
  have hset := set_get_self st s hs
  refine ⟨fun h => ?_, fun h => ⟨?_, ?_⟩, fun h => ?_, fun h => ?_⟩
  · simp only [add, addKey_of_mem h, hset]
  · have : (st.get s).erase a = st.get s := List.erase_eq_self_iff.mpr h
    simp only [discard, this, hset]
  · simp [remove, h]
  · simp only [add]; rw [get_set_self st s _ hs, addKey_of_not_mem h]
  · simp [remove, h]

/-- length, iteration, membership and indexing agree: all four read the one member list. -/
theorem C03_len_iter_contains_getitem_agree (st : Store) (s : Nat) :
    len st s = (st.get s).length ∧ (∀ a, contains st s a = true ↔ a ∈ st.get s) ∧
    (∀ (i : Nat) a, item st s i = .ok a ↔ (st.get s)[i]? = some a) ∧
    (∀ (i : Nat), (st.get s).length ≤ i → item st s i = .error .index) := by
  refine ⟨rfl, fun a => by simp [contains], fun i a => ?_, fun i h => ?_⟩
  · simp only [item, pyIndex, Int.natCast_nonneg, if_true, Int.toNat_natCast]
    cases h : (st.get s)[i]? <;> simp
  · simp only [item, pyIndex, Int.natCast_nonneg, if_true, Int.toNat_natCast]
    rw [List.getElem?_eq_none h]

/-- No history of set operations ever makes a set list a member twice: starting from sets without
    duplicates, after any sequence of `AgentSet(...)`, `select`, `shuffle`, `sort`, `groupby`, `set`, `add`,
    `discard`, `remove` (in place or copying, on original or derived sets, raising or not) every set is
    duplicate-free. -/
theorem C03_no_duplicates_all_histories (st : Store) (h : st.WF) (ops : List SOp) :
    (ops.foldl applyOp st).WF := by
  induction ops generalizing st with
  | nil => exact h
  | cons op ops ih => exact ih _ (applyOp_wf h op)

/-- The in-place form leaves the set equal to what the copying form returns, and the copying form never
    alters the original — nor any other existing set: for `select`, `sort` (when the key exists) and
    `shuffle`, the set named by the in-place result equals the set named by the copying result; after the
    copying form every existing set reads as before; after the in-place form every *other* set does. -/
theorem C03_inplace_equals_copy_and_copy_preserves (st : Store) (s : Nat) (hs : s < st.sets.length) :
    (∀ p t a, let ri := select st s p t a true; let rc := select st s p t a false
      ri.2 = s ∧ rc.2 = st.sets.length ∧ ri.1.get ri.2 = rc.1.get rc.2 ∧
      (∀ j, j < st.sets.length → rc.1.get j = st.get j) ∧ (∀ j, j ≠ s → ri.1.get j = st.get j)) ∧
    (∀ key asc ri rc, sort st s key asc true = .ok ri → sort st s key asc false = .ok rc →
      ri.2 = s ∧ rc.2 = st.sets.length ∧ ri.1.get ri.2 = rc.1.get rc.2 ∧
      (∀ j, j < st.sets.length → rc.1.get j = st.get j) ∧ (∀ j, j ≠ s → ri.1.get j = st.get j)) ∧
    (let ri := shuffle st s true; let rc := shuffle st s false
      ri.2 = s ∧ rc.2 = st.sets.length ∧ ri.1.get ri.2 = rc.1.get rc.2 ∧
      (∀ j, j < st.sets.length → rc.1.get j = st.get j) ∧ (∀ j, j ≠ s → ri.1.get j = st.get j)) := by
  have key : ∀ (st' : Store) (l : List Nat), st'.sets = st.sets →
      (st'.put s true l).2 = s ∧ (st'.put s false l).2 = st.sets.length ∧
      (st'.put s true l).1.get (st'.put s true l).2 = (st'.put s false l).1.get (st'.put s false l).2 ∧
      (∀ j, j < st.sets.length → (st'.put s false l).1.get j = st.get j) ∧
      (∀ j, j ≠ s → (st'.put s true l).1.get j = st.get j) := by
    intro st' l he
    refine ⟨rfl, by simp [Store.put, he], ?_, ?_, ?_⟩
    · simp [Store.put, Store.get, he, hs]
    · intro j hj
      simp [Store.put, Store.get, he, List.getElem?_append_left hj]
    · intro j hj
      simp [Store.put, Store.get, he, Ne.symm hj]
  refine ⟨fun p t a => key st _ rfl, ?_, key { st with rng := _ } _ rfl⟩
  intro k asc ri rc h1 h2
  unfold sort at h1 h2
  cases hk : keysOf st k (st.get s) with
  | none => simp [hk] at h1
  | some ks =>
    simp only [hk, Except.ok.injEq] at h1 h2
    subst h1; subst h2
    exact key st _ rfl

/-- `get`, `set`, `agg`, `map` return what the same operation on the ordered member list would:
    `get` is the list of attribute rows in member order (`handle_missing="error"` raises iff some member
    lacks an attribute, `"default"` fills in the default, anything else is a `ValueError`); `agg` applies the
    function to the value list; `map` maps over the members in order; `set` touches attributes only —
    no set changes, nobody is added or lost. -/
theorem C03_get_set_agg_map_list_semantics (st : Store) (s : Nat) (k : Nat) :
    (∀ ks, (allPresent st s ks = true →
        get st s ks .error = .ok ((st.get s).map fun i => ks.map fun k => (st.agent i).attr k)) ∧
      (allPresent st s ks = false → get st s ks .error = .error .attr) ∧
      (∀ d, get st s ks (.default d) =
        .ok ((st.get s).map fun i => ks.map fun k => ((st.agent i).attr k).or d)) ∧
      get st s ks .bogus = .error .value) ∧
    (∀ vs, (st.get s).mapM (fun i => (st.agent i).attr k) = some vs →
        agg st s k .sum = .ok vs.sum ∧ agg st s k .len = .ok vs.length ∧
        map st s (.dbl k) = .ok (vs.map (· * 2 + 1)) ∧ ∀ d, map st s (.plus k d) = .ok (vs.map (· + d))) ∧
    (∀ v, (setAttr st s k v).pop.map (·.id) = st.pop.map (·.id) ∧ (setAttr st s k v).sets = st.sets ∧
        ∀ a ∈ (setAttr st s k v).pop, a.id ∈ st.get s → a.attr k = some v) := by
  refine ⟨fun ks => ⟨fun h => ?_, fun h => ?_, fun d => ?_, rfl⟩, fun vs h => ⟨?_, ?_, ?_, fun d => ?_⟩,
    fun v => ⟨?_, rfl, ?_⟩⟩
  · simp only [get, h, if_true, rowsOf]
    congr 1
    apply List.map_congr_left; intro i _
    apply List.map_congr_left; intro k _
    cases (st.agent i).attr k <;> rfl
  · simp [get, h]
  · simp only [get, rowsOf]
    congr 1
    apply List.map_congr_left; intro i _
    apply List.map_congr_left; intro k _
    cases (st.agent i).attr k <;> rfl
  · simp [agg, h]
  · simp [agg, h]
  · simp [map, h]
  · simp [map, h]
  · simp only [setAttr, List.map_map]
    apply List.map_congr_left
    intro a _
    simp only [Function.comp]
    split <;> rfl
  · intro a ha hmem
    simp only [setAttr, List.mem_map] at ha
    obtain ⟨b, _, rfl⟩ := ha
    by_cases hb : b.id ∈ st.get s
    · simp [hb, Agent.setAttr, Agent.attr]
    · simp only [hb, if_false] at hmem

/-! ### non-vacuity: a concrete store exercising the statements above -/

private def demo : Store :=
  { pop := [⟨0, 0, [(0, 2)]⟩, ⟨1, 1, [(0, 1), (1, 5)]⟩, ⟨2, 2, [(0, 2)]⟩, ⟨3, 3, [(0, 1)]⟩, ⟨4, 0, [(0, 2)]⟩],
    sets := [[0, 1, 2, 3, 4]], rng := ⟨[3, 1, 4, 1, 5]⟩ }

example : demo.WF := by intro s hs; simp [demo] at hs; subst hs; decide
/-- descending sort on x with ties: 0,2,4 (x=2) keep their order, then 1,3 (x=1) -/
example : (sort demo 0 (.attr 0) false false).toOption.map (fun r => r.1.get r.2) = some [0, 2, 4, 1, 3] := by
  simp +decide [sort, keysOf, demo, Store.get, Store.agent, Key.eval, Agent.attr, Store.put, sortL, List.mergeSort,
    List.MergeSort.Internal.splitInTwo, Except.toOption]
/-- `select(agent_type=T0, at_most=2)`: T0 and its subclasses T1, T2 qualify, the first two are taken -/
example : (select demo 0 none (some 0) (.count 2) false).1.get 1 = [0, 1] := by decide
example : (shuffle demo 0 false).1.get 1 = [0, 2, 4, 1, 3] ∧ (shuffle demo 0 false).1.get 0 = [0, 1, 2, 3, 4] := by decide
example : (group demo 0 (.attr 0) false).toOption.map (·.2) = some [(2, [0, 2, 4]), (1, [1, 3])] := by decide
example : sort demo 0 (.attr 1) true true = .error .attr ∧ remove demo 0 7 = .error .key := ⟨rfl, rfl⟩

end Mesa.ASet
