import MesaModel.Model.AgentSet
