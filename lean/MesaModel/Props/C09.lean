import MesaModel.Model.LegacyNbhd
