import MesaModel.Proofs.Legacy
import MesaModel.Proofs.LegacyOrth
import MesaModel.Proofs.LegacyHex
import MesaModel.Proofs.LegacyNet
import MesaModel.Proofs.LegacyDist
import MesaModel.Proofs.LegacyNetState
import MesaModel.Proofs.LegacyIndex
import MesaModel.Proofs.LegacyHexTorus
import MesaModel.Proofs.LegacyCompose
import MesaModel.Proofs.LegacyTruth
/-!
# C09 — legacy neighbourhood queries return exactly the cells/agents in range

Statements only; proofs are in `MesaModel/Proofs/Legacy{Orth,Hex,Net}.lean`.  The model
(`Model/LegacyNbhd.lean`) follows `_Grid.get_neighborhood` (fast interior path, slow border path,
insertion-ordered dict, centre pop, cache keyed by the argument tuple), `_HexGrid.get_neighborhood`
(breadth-first expansion over the *generated* offset tables) and `NetworkGrid.get_neighborhood`.
`InRange`, `Reach`, `hexNbrs`, `askAll` are defined in `Proofs/LegacyDefs.lean`.
-/
namespace Mesa.Legacy

/-- **Orthogonal grids: exactly the cells in range, no duplicates.**  For every width and height from 1 up
    (also smaller than the radius, where wrapped offsets collide), torus on/off, every centre, every radius,
    Moore / von Neumann, both `include_center` values: a cell is returned iff it is in the grid and is the
    centre displaced by an offset of Chebyshev resp. Manhattan norm ≤ r (taken modulo width and height on a
    torus); the centre itself is returned exactly when `include_center` is set. -/
theorem C09_orth_spec (d : Dim) (hw : 0 < d.w) (hh : 0 < d.h) (k : NKey) (l : List Coord) (h : nbhdCompute d k = .ok l) :
    l.Nodup ∧ ∀ c, c ∈ l ↔ d.inGrid c ∧ (c = k.pos → k.ic = true) ∧ (c ≠ k.pos → InRange d k.pos k.moore k.r c) :=
  orth_spec d hw hh k l h

/-- **"in range" is a distance bound**: on a bounded grid the Chebyshev (Moore) / Manhattan (von Neumann)
    distance to the centre is at most r; on a torus the same with the per-axis distance taken modulo the
    size (`IsTorusDist`: the least distance between the residue classes) -/
theorem C09_in_range_is_distance (d : Dim) (pos : Coord) (moore : Bool) (r : Nat) (c : Coord) :
    (d.torus = false → (InRange d pos moore r c ↔
      Grid.iabs (c.1 - pos.1) ≤ r ∧ Grid.iabs (c.2 - pos.2) ≤ r ∧
        (moore = true ∨ Grid.iabs (c.1 - pos.1) + Grid.iabs (c.2 - pos.2) ≤ r))) ∧
    (d.torus = true → d.inGrid c → ∀ mx my, IsTorusDist d.w c.1 pos.1 mx → IsTorusDist d.h c.2 pos.2 my →
      (InRange d pos moore r c ↔ mx ≤ r ∧ my ≤ r ∧ (moore = true ∨ mx + my ≤ r))) :=
  ⟨fun h => inRange_bounded d h pos moore r c, fun ht hc mx my hx hy => inRange_torus d ht pos moore r c hc mx my hx hy⟩

/-- the query is answered for every centre in the grid and rejected (`out of bounds`) for every other -/
theorem C09_orth_defined_iff_in_grid (d : Dim) (k : NKey) :
    (d.inGrid k.pos → ∃ l, nbhdCompute d k = .ok l) ∧ (nbhdCompute d k = .error .oob ↔ ¬ d.inGrid k.pos) :=
  ⟨nbhdCompute_ok d k, nbhdCompute_oob d k⟩

/-- **the two paths agree**: on interior centres the fast path inserts the very same list of cells, in the
    same order, as the border/torus path would -/
theorem C09_fast_eq_slow (d : Dim) (pos : Coord) (moore : Bool) (r : Nat) (hint : interior d pos r = true) :
    fastKeys pos moore r = slowKeys d pos moore r :=
  fast_eq_slow d pos moore r hint

/-- **every answer is independent of the queries asked before** (the cache is keyed by all four
    arguments and only ever holds what a fresh computation returns): any history of queries on one grid
    instance gets, query by query, the answers of fresh computations -/
theorem C09_cache_transparent (d : Dim) (qs : List NKey) : askAll d [] qs = qs.map (nbhdCompute d) :=
  askAll_transparent d qs

/-- **the cache key the code uses is the whole argument tuple** (the parameter list and the key tuple are regenerated from
    mesa/space.py on every run, like the hex tables): every argument of `get_neighborhood` is part of the key under which its
    result is stored, for both classes, and the arguments are the fields of the model's `NKey` / `HKey` — so the model's cache
    (keyed by the whole `NKey`) is the code's; a key that forgets an argument, or a new argument, breaks this obligation -/
theorem C09_cache_key_is_every_argument :
    (∀ x ∈ Gen.nbhdParams, x ∈ Gen.nbhdCacheKey) ∧ (∀ x ∈ Gen.nbhdCacheKey, x ∈ Gen.nbhdParams) ∧
    (∀ x ∈ Gen.hexParams, x ∈ Gen.hexCacheKey) ∧ (∀ x ∈ Gen.hexCacheKey, x ∈ Gen.hexParams) ∧
    Gen.nbhdParams = ["pos", "moore", "include_center", "radius"] ∧ Gen.hexParams = ["pos", "include_center", "radius"] := by
  decide

theorem C09_hex_cache_transparent (d : Dim) (qs : List HKey) :
    askAllHex d [] qs = qs.map (fun k => hexCompute d k.pos k.ic k.r) :=
  askAllHex_transparent d qs

/-- **hex grids: exactly the cells within r steps of touching hexagons** (steps through hexagons of the
    grid, wrapped on a torus), centre by flag, as a strictly sorted duplicate-free tuple -/
theorem C09_hex_spec (d : Dim) (pos : Coord) (ic : Bool) (r : Nat) :
    SortedSet (hexCompute d pos ic r) ∧
    ∀ c, c ∈ hexCompute d pos ic r ↔ (c = pos → ic = true) ∧ (c ≠ pos → Reach (hexNbrs d) r pos c) :=
  hex_spec d pos ic r

/-- **touching is symmetric on the grids of the quantifier** — bounded hex grids of any size and hex tori of *even* width — so
    "within r steps of touching hexagons" (`Reach (hexNbrs d)` in `C09_hex_spec`) is a distance there.  This is where the even
    width enters: on a torus of odd width the wrapped tables are not symmetric (witness below), which is why such grids are
    outside the property's quantifier (they are modelled and tied, but no oracle judges them) -/
theorem C09_hex_touching_symmetric (d : Dim) (hq : d.torus = false ∨ d.w % 2 = 0) (c n : Coord) (hc : d.inGrid c)
    (hn : d.inGrid n) : n ∈ hexNbrs d c ↔ c ∈ hexNbrs d n := by
  cases ht : d.torus with
  | false => exact hexNbrs_symm_bounded d ht c n hc hn
  | true =>
    rcases hq with hq | hq
    · rw [ht] at hq; cases hq
    · exact hexNbrs_symm_even_torus d ht hq c n hc hn

/-- a 3x3 hex torus: (2, 1) is listed as touching (0, 0), but (0, 0) is not listed as touching (2, 1) -/
example : ((2, 1) : Coord) ∈ hexNbrs ⟨3, 3, true⟩ (0, 0) ∧ ((0, 0) : Coord) ∉ hexNbrs ⟨3, 3, true⟩ (2, 1) := by decide
/-- a 4x3 hex torus: (3, 1) touches (0, 0) across the seam, and back -/
example : ((3, 1) : Coord) ∈ hexNbrs ⟨4, 3, true⟩ (0, 0) ∧ ((0, 0) : Coord) ∈ hexNbrs ⟨4, 3, true⟩ (3, 1) := by decide

theorem C09_hex_cells_in_grid (d : Dim) (hw : 0 < d.w) (hh : 0 < d.h) (pos : Coord) (hpos : d.inGrid pos) (ic : Bool) (r : Nat) :
    ∀ c ∈ hexCompute d pos ic r, d.inGrid c :=
  hex_inGrid d hw hh pos hpos ic r

/-- **the offset tables the code uses (regenerated from mesa/space.py on every run) are a hexagonal
    adjacency**: for every hexagon the six `adjacent` coordinates are distinct, exclude the hexagon itself,
    are exactly its six unit-step neighbours in axial coordinates, and touching is symmetric -/
theorem C09_hex_tables_are_hexagonal (c : Coord) :
    (hexAdjacent c).length = 6 ∧ (hexAdjacent c).Nodup ∧ c ∉ hexAdjacent c ∧
    (∀ n, n ∈ hexAdjacent c ↔ ∃ dd ∈ axialDirs, axial n = ((axial c).1 + dd.1, (axial c).2 + dd.2)) ∧
    (∀ n, n ∈ hexAdjacent c ↔ c ∈ hexAdjacent n) :=
  ⟨(hexAdjacent_six c).1, (hexAdjacent_six c).2.1, (hexAdjacent_six c).2.2, hexAdjacent_axial c, hexAdjacent_symm c⟩

/-- **`get_neighbors` / `iter_neighbors` / `get_cell_list_contents` return exactly the agents occupying
    the listed cells**, each once, on both cell disciplines (for any grid state whose views agree — every
    reachable one, by `C08_views_agree_all_histories`) -/
theorem C09_neighbors_spec (g : Grid) (hi : Inv g) (cells : List Coord) (hnd : cells.Nodup) :
    (cellsContents g cells).Nodup ∧ (∀ a, a ∈ cellsContents g cells ↔ ∃ c ∈ cells, g.pos a = some c) ∧
    cellsContents g cells = cells.flatMap g.content :=
  ⟨(cellsContents_spec g hi cells hnd).1, (cellsContents_spec g hi cells hnd).2, cellsContents_eq g hi cells⟩

/-- **`get_cell_list_contents` / `iter_cell_list_contents` for arbitrary integer coordinates** (they index
    `self._grid[x][y]` directly): in-grid coordinates are read as they are — the answer is `cellsContents` of the
    list, specified by `C09_neighbors_spec` —; whenever the call returns, the cells read are, position by position, the
    cells the coordinates denote under Python's aliasing of `-size .. -1` (`Grid.aliasCell`: a negative index counts from the
    end), all of them cells of the grid; a coordinate beyond that raises IndexError and nothing is returned -/
theorem C09_cell_list_contents_any_integers (g : Grid) (hw : 0 < g.w) (hh : 0 < g.h) (ps : List Coord) :
    ((∀ p ∈ ps, g.inGrid p) → g.rawCells ps = .ok ps) ∧
    (∀ cs, g.rawCells ps = .ok cs → cs = ps.map g.aliasCell ∧ cs.length = ps.length ∧ ∀ c ∈ cs, g.inGrid c) ∧
    ((∃ p ∈ ps, p.1 < -g.w ∨ g.w ≤ p.1 ∨ p.2 < -g.h ∨ g.h ≤ p.2) → ∃ e, g.rawCells ps = .error e) :=
  ⟨rawCells_inGrid g ps, fun cs h => ⟨rawCells_ok_alias g ps cs h, rawCells_ok g ps cs h⟩, rawCells_error g hw hh ps⟩

/-- so the neighbours of a query are the agents standing on cells in range -/
theorem C09_get_neighbors_exact (g : Grid) (hi : Inv g) (hw : 0 < g.w) (hh : 0 < g.h) (k : NKey) (l : List Coord)
    (h : nbhdCompute g.dim k = .ok l) (a : Aid) :
    a ∈ cellsContents g l ↔ ∃ c, g.pos a = some c ∧ (c = k.pos → k.ic = true) ∧ (c ≠ k.pos → InRange g.dim k.pos k.moore k.r c) := by
  obtain ⟨hnd, hmem⟩ := orth_spec g.dim hw hh k l h
  rw [(cellsContents_spec g hi l hnd).2 a]
  constructor
  · rintro ⟨c, hc, hp⟩; exact ⟨c, hp, ((hmem c).mp hc).2⟩
  · rintro ⟨c, hp, h1, h2⟩
    have hcg : g.inGrid c := hi.in_grid c (List.ne_nil_of_mem ((hi.pos_content a c).mp hp))
    exact ⟨c, (hmem c).mpr ⟨hcg, h1, h2⟩, hp⟩

/-- **cached `get_neighbors` interleaved with moves** (review item L11): on one grid instance, any history of mutating calls
    (within C08's quantifier) interleaved with `get_neighbors` queries — answered through the cache, which is filled by the
    earlier queries and never invalidated — returns, query by query, what a fresh neighbourhood computation on the grid *as it is
    at that moment* returns (`freshQ`); the cache cannot go stale because its entries depend on the shape of the grid only, which
    no call changes.  Each such state satisfies `Inv` (`C08_views_agree_all_histories`), so `C09_get_neighbors_exact` says what
    every answer is: the agents standing in range at that moment. -/
theorem C09_cached_neighbors_with_moves (w h : Int) (hw : 1 ≤ w) (hh : 1 ≤ h) (torus multi : Bool) (cutoff : Nat)
    (hist : List GQ) (hok : HistOkQ (init w h torus multi cutoff) hist) :
    runQ (init w h torus multi cutoff) [] hist = freshQ (init w h torus multi cutoff) hist :=
  runQ_eq_freshQ hist _ [] (by simp [init]; omega) (by simp [init]; omega) (inv_init w h torus multi cutoff)
    (by intro k v hl; simp at hl) hok

/-- two agents next to each other, a query (cached), the neighbour moves away, the same query again: first [1], then [] -/
example : runQ (init 4 4 false false 23) []
    [.op (.place 0 (1, 1)), .op (.place 1 (1, 2)), .nbrs ⟨(1, 1), true, false, 1⟩, .op (.move 1 (3, 3)), .nbrs ⟨(1, 1), true, false, 1⟩]
    = [.ok [1], .ok []] := by rfl

/-- **an agent occupies its cell whatever its truth value** (round 4, mutation C09-3; review 3, H3): agents are ordinary objects, a
    subclass may give them `__bool__` / `__len__` (a dead animal, a depot with an empty stock).  The readers of the model take the
    emptiness test as a parameter (`cellsContentsBy`, Model/LegacyTruth.lean: comparison with the empty value, or truthiness) and
    `runT` reads the contents with the test that the *generated* table names for mesa/space.py (`contentsTest`), handing it the set
    of falsy agents.  In any history in which agents become falsy or truthy (`TQ.truth`) between mutating calls and cached
    `get_neighbors` queries, whatever set `fz` of agents is falsy at the start, every query returns what a fresh computation returns
    on the grid as it is at that moment, in the history with the truth changes left out — the agents standing in range
    (`C09_get_neighbors_exact`), falsy or not.  A reader that goes by truthiness changes the table and breaks this obligation
    (`C09_truthiness_test_loses_falsy_agents` says what it would return instead). -/
theorem C09_neighbors_whatever_truth_value (w h : Int) (hw : 1 ≤ w) (hh : 1 ≤ h) (torus multi : Bool) (cutoff : Nat)
    (fz : Falsy) (hist : List TQ) (hok : HistOkQ (init w h torus multi cutoff) (eraseTruth hist)) :
    runT (init w h torus multi cutoff) [] fz hist = freshQ (init w h torus multi cutoff) (eraseTruth hist) := by
  rw [runT_eq_runQ]
  exact C09_cached_neighbors_with_moves w h hw hh torus multi cutoff _ hok

/-- **the readers of the code compare with the empty value** (table regenerated from mesa/space.py on every run by probing the
    four classes with a falsy agent), **and that test never consults a truth value**: for every grid state, every set of falsy
    agents and every list of cells the contents read are `cellsContents` (specified by `C09_neighbors_spec`), also through the raw
    indexing of the hex readers -/
theorem C09_contents_read_by_comparison_with_default (g : Grid) (fz : Falsy) (cells : List Coord) :
    contentsTest = .eqDefault ∧ cellsContentsBy .eqDefault fz g cells = cellsContents g cells ∧
    cellsContentsT fz g cells = cellsContents g cells ∧ hexNeighborsT fz g cells = hexNeighbors g cells :=
  ⟨contentsTest_eq, cellsContentsBy_eqDefault fz g cells, cellsContentsT_eq fz g cells, hexNeighborsT_eq fz g cells⟩

/-- **what the other test would do** (the refutation of "truthiness is as good"): on a single-occupancy grid a reader that writes
    `if cell` returns exactly the occupants that are not falsy — so it differs from the code on every falsy agent in range —; on a
    MultiGrid, whose cells are lists, the two tests agree -/
theorem C09_truthiness_test_loses_falsy_agents (g : Grid) (fz : Falsy) (cells : List Coord) :
    (g.multi = false → ∀ a, a ∈ cellsContentsBy .truthy fz g cells ↔ a ∈ cellsContents g cells ∧ a ∉ fz) ∧
    (g.multi = true → cellsContentsBy .truthy fz g cells = cellsContents g cells) :=
  ⟨fun hm a => mem_cellsContentsBy_truthy_single fz g hm cells a, fun hm => cellsContentsBy_truthy_multi fz g hm cells⟩

/-- agent 1 stands next to agent 0 and is made falsy, then truthy again: it is a neighbour all along -/
example : runT (init 4 4 false false 23) [] []
    [.q (.op (.place 0 (1, 1))), .q (.op (.place 1 (1, 2))), .truth 1 false, .q (.nbrs ⟨(1, 1), true, false, 1⟩), .truth 1 true,
     .q (.nbrs ⟨(1, 1), true, false, 1⟩)] = [.ok [1], .ok [1]] := by rfl
/-- `setTruth` keeps the set of falsy agents: falsy after `truth a False`, truthy after `truth a True`, the others unchanged -/
example (fz : Falsy) (a x : Aid) (b : Bool) : x ∈ setTruth fz a b ↔ (x = a ∧ b = false) ∨ (x ≠ a ∧ x ∈ fz) := mem_setTruth fz a b x
/-- the truth value is not idle in the model: the truthiness instance of the reader leaves the falsy agent 0 out, the code's keeps it -/
example : cellsContentsBy .truthy [0] (run (init 3 3 false false 8) [.place 0 (1, 1), .place 1 (0, 2)]) [(0, 2), (1, 1)] = [1] := by decide
example : cellsContentsBy .eqDefault [0] (run (init 3 3 false false 8) [.place 0 (1, 1), .place 1 (0, 2)]) [(0, 2), (1, 1)] = [1, 0] := by decide

/-- **hex `get_neighbors` / `iter_neighbors`**: for a centre in the grid every cell of the neighbourhood is a cell
    of the grid, so the raw indexing of `iter_cell_list_contents` reads exactly those cells, and the agents returned
    are exactly the agents standing on hexagons within r steps (centre by flag), each once -/
theorem C09_hex_get_neighbors_exact (g : Grid) (hi : Inv g) (hw : 0 < g.w) (hh : 0 < g.h) (pos : Coord) (hpos : g.inGrid pos)
    (ic : Bool) (r : Nat) :
    hexNeighbors g (hexCompute g.dim pos ic r) = .ok (cellsContents g (hexCompute g.dim pos ic r)) ∧
    (cellsContents g (hexCompute g.dim pos ic r)).Nodup ∧
    ∀ a, a ∈ cellsContents g (hexCompute g.dim pos ic r) ↔
      ∃ c, g.pos a = some c ∧ (c = pos → ic = true) ∧ (c ≠ pos → Reach (hexNbrs g.dim) r pos c) := by
  obtain ⟨hsorted, hmem⟩ := hex_spec g.dim pos ic r
  have hin : ∀ c ∈ hexCompute g.dim pos ic r, g.inGrid c := hex_inGrid g.dim hw hh pos hpos ic r
  obtain ⟨h1, h2⟩ := cellsContents_spec g hi _ hsorted.nodup
  refine ⟨by unfold hexNeighbors; rw [rawCells_inGrid g _ hin], h1, fun a => ?_⟩
  rw [h2]
  constructor
  · rintro ⟨c, hc, hp⟩; exact ⟨c, hp, (hmem c).mp hc⟩
  · rintro ⟨c, hp, hc⟩; exact ⟨c, (hmem c).mpr hc, hp⟩

/-- **NetworkGrid: exactly the nodes within r hops**, for any implementation `within` of
    `single_source_shortest_path_length(G, v, r).keys()` that meets its specification; the radius-1 special
    case (`G.neighbors`) obeys the same rule as the general case; centre by flag -/
theorem C09_network_spec (adj : Nat → List Nat) (within : Nat → Nat → List Nat)
    (hspec : ∀ v r u, u ∈ within v r ↔ Reach adj r v u) (hnd : ∀ v r, (within v r).Nodup)
    (hloop : ∀ v, v ∉ adj v) (v : Nat) (ic : Bool) (r : Nat) (u : Nat) :
    u ∈ netNbhd adj within v ic r ↔ (u = v → ic = true) ∧ (u ≠ v → Reach adj r v u) :=
  network_spec adj within hspec hnd hloop v ic r u

/-- for every simple undirected graph (the model's own proved expansion standing in for networkx) -/
theorem C09_network_all_simple_graphs (t : Net) (hs : SimpleEdges t.edges) (v : Nat) (ic : Bool) (r : Nat) :
    (t.nbhd v ic r).Nodup ∧ ∀ u, u ∈ t.nbhd v ic r ↔ (u = v → ic = true) ∧ (u ≠ v → Reach (adjOf t.edges) r v u) :=
  net_nbhd_spec t hs v ic r

/-- **NetworkGrid `get_neighbors` / `get_cell_list_contents` return exactly the agents occupying those nodes**:
    for any state whose views agree (every reachable one, `C08_network_views_agree_all_histories`) and any
    duplicate-free list of nodes, the agents returned are the agents whose `pos` is one of the nodes, each once,
    node by node in list order; a node that does not exist raises KeyError -/
theorem C09_network_contents_spec (t : Net) (hi : NetInv t) (nodes : List Nat) :
    (nodes.Nodup → (t.cellsContents nodes).Nodup ∧ ∀ a, a ∈ t.cellsContents nodes ↔ ∃ u ∈ nodes, t.pos a = some u) ∧
    t.cellsContents nodes = nodes.flatMap t.content ∧
    ((∀ u ∈ nodes, u < t.n) → t.getCellListContents nodes = .ok (t.cellsContents nodes)) ∧
    ((∃ u ∈ nodes, ¬ u < t.n) → t.getCellListContents nodes = .error .key) := by
  refine ⟨net_cellsContents_spec t hi nodes, net_cellsContents_eq t nodes, ?_, ?_⟩
  · intro h; unfold Net.getCellListContents; rw [if_pos]; simpa using h
  · rintro ⟨u, hu, hlt⟩; unfold Net.getCellListContents; rw [if_neg]
    simp only [List.all_eq_true, decide_eq_true_eq]; intro h; exact hlt (h u hu)

/-- so the NetworkGrid neighbours of a query are the agents standing on nodes within r hops (centre by flag) -/
theorem C09_network_neighbors_exact (t : Net) (hi : NetInv t) (hs : SimpleEdges t.edges) (v : Nat) (ic : Bool) (r : Nat) :
    (t.cellsContents (t.nbhd v ic r)).Nodup ∧
    ∀ a, a ∈ t.cellsContents (t.nbhd v ic r) ↔
      ∃ u, t.pos a = some u ∧ (u = v → ic = true) ∧ (u ≠ v → Reach (adjOf t.edges) r v u) := by
  obtain ⟨hnd, hmem⟩ := net_nbhd_spec t hs v ic r
  obtain ⟨h1, h2⟩ := net_cellsContents_spec t hi _ hnd
  refine ⟨h1, fun a => ?_⟩
  rw [h2]
  constructor
  · rintro ⟨u, hu, hp⟩; exact ⟨u, hp, (hmem u).mp hu⟩
  · rintro ⟨u, hp, hu⟩; exact ⟨u, (hmem u).mpr hu, hp⟩

/-! ## non-vacuity -/

/-- a 2-wide torus with radius 2 > size: wrapped offsets collide, the result still has each cell once -/
example : nbhdCompute ⟨2, 3, true⟩ ⟨(0, 0), true, false, 2⟩ = .ok [(0, 1), (0, 2), (1, 1), (1, 2), (1, 0)] := by rfl
example : interior ⟨5, 5, false⟩ (2, 2) 2 = true := by decide
example : nbhdCompute ⟨3, 3, false⟩ ⟨(3, 0), true, false, 1⟩ = .error .oob := by rfl
example : hexCompute ⟨4, 4, true⟩ (0, 0) false 1 = [(0, 1), (0, 3), (1, 0), (1, 1), (3, 0), (3, 1)] := by decide
example : SimpleEdges [(2, 1), (1, 0), (3, 1)] := by unfold SimpleEdges; decide
example : (Net.init 4 [(2, 1), (1, 0), (3, 1)]).nbhd 1 true 1 = [2, 0, 3, 1] := by decide
example : 3 ∈ ball (adjOf [(2, 1), (1, 0), (3, 1)]) 2 0 := by decide
example : (init 3 2 false true 11).rawCells [(-1, -1), (0, 0)] = .ok [(2, 1), (0, 0)] := by rfl
example : (init 3 2 false true 11).rawCells [(0, 0), (3, 0)] = .error .index := by rfl
/-- MultiGrid with several agents on the centre cell: with `include_center` the cell mates (and the asking agent itself)
    are returned, in the cell's list order at the centre's place in the neighbourhood; without it none of them -/
example : (match nbhdCompute ⟨3, 3, false⟩ ⟨(1, 1), false, true, 1⟩ with
    | .ok l => cellsContents (run (init 3 3 false true 18) [.place 0 (1, 1), .place 1 (1, 1), .place 2 (0, 1), .place 3 (1, 1)]) l
    | .error _ => []) = [2, 0, 1, 3] := by decide
example : (match nbhdCompute ⟨3, 3, false⟩ ⟨(1, 1), false, false, 1⟩ with
    | .ok l => cellsContents (run (init 3 3 false true 18) [.place 0 (1, 1), .place 1 (1, 1), .place 2 (0, 1), .place 3 (1, 1)]) l
    | .error _ => []) = [2] := by decide
/-- a centre outside a bounded hex grid with `include_center`: the centre is in the list and `get_neighbors` aliases it -/
example : hexCompute ⟨3, 3, false⟩ (-1, 0) true 1 = [(-1, 0), (0, 0)] := by decide
example : hexNeighbors (run (init 3 3 false true 18) [.place 0 (2, 0)]) [(-1, 0), (0, 0)] = .ok [0] := by rfl
/-- two agents on one node, one on another: the neighbours of node 0 within one hop, in `G.neighbors` order -/
example : (nrun (Net.init 4 [(2, 1), (1, 0), (3, 1)]) [.place 0 1, .place 1 3, .place 2 1]).cellsContents
    ((Net.init 4 [(2, 1), (1, 0), (3, 1)]).nbhd 0 true 1) = [0, 2] := by decide

end Mesa.Legacy
