import MesaModel.Proofs.LayersViews
/-!
# C18 (layers part) — a rejected property-layer call changes nothing

Lemmas for the C18 assembly.  In the Layers model every rejected call — a clashing, duplicate or
mis-shaped `add_property_layer` / `create_property_layer` on either implementation, removing an unknown
layer, an out-of-range cell write, a ufunc without its operand, a selection naming an unknown layer or
an invalid mode, placing into a full cell — returns the state it was given.
-/
namespace Mesa.Layers

-- splits `h : op … = (s', .err e)` into its branches: an accepting branch is impossible, a
-- rejecting one returns the input state
set_option hygiene false in
local macro "reject_branches" : tactic =>
  `(tactic| ((repeat' (first | split at h | (dsimp only at h; split at h))) <;>
      (first | (simp only [Prod.mk.injEq] at h; exact h.1.symm) | (simp at h))))

/-- `add_property_layer(layer)` that raises (same name already attached, shape differs from the grid,
    name clashes with an attribute of the cell class) leaves the state exactly as it was. -/
theorem C18_layers_add_reject_unchanged {s s' : State} {lid : Nat} {e : Err}
    (h : attach s lid = (s', .err e)) : s' = s := by
  unfold attach at h
  reject_branches

/-- the same for `create_property_layer` (legacy: construct + add): no layer object, array or name is
    left behind by a rejected call. -/
theorem C18_layers_create_reject_unchanged {s s' : State} {n : String} {dt : DType} {d : Int} {e : Err}
    (h : create s n dt d = (s', .err e)) : s' = s := by
  unfold create at h
  reject_branches

/-- the rejections are the three the code names, in the code's order (new: shape, duplicate, clash;
    legacy: duplicate, shape) -/
theorem C18_layers_add_rejects_exactly {s : State} {lid : Nat} {l : Layer} (hl : s.layer? lid = some l) :
    (attach s lid).2 = (match attachCheck s l with | some w => .err (.value w) | none => .ok) := by
  unfold attach
  rw [hl]
  simp only
  split <;> simp_all

/-- every op of the model: if it answers with an error, the state is unchanged -/
theorem C18_layers_step_reject_unchanged {s s' : State} {op : Op} {e : Err}
    (h : step s op = (s', .err e)) : s' = s := by
  cases op with
  | create n dt d => exact C18_layers_create_reject_unchanged h
  | newLayer n dims dt d => simp only [step] at h; unfold newLayer at h; reject_branches
  | attach l => exact C18_layers_add_reject_unchanged h
  | detach n => simp only [step] at h; unfold detach at h; reject_branches
  | layerSet l c v => simp only [step] at h; unfold layerSet at h; reject_branches
  | layerGet l c => simp only [step, Prod.mk.injEq] at h; exact h.1.symm
  | cellSet n c v => simp only [step] at h; unfold cellSet at h; reject_branches
  | cellGet n c => simp only [step, Prod.mk.injEq] at h; exact h.1.symm
  | cellSet2 l c w => simp only [step] at h; unfold cellSet2 layerSet at h; reject_branches
  | cellGet2 l c => simp only [step, Prod.mk.injEq] at h; exact h.1.symm
  | setCells l w cond =>
    cases w with
    | raw v => simp only [step] at h; unfold vecGuard setCells at h; reject_branches
    | py x => simp only [step] at h; unfold vecGuard setCellsV setCells at h; reject_branches
  | setFrom l hd cond => simp only [step] at h; unfold setFrom at h; reject_branches
  | modifyCells l vec f cond => simp only [step] at h; unfold vecGuard modifyCells at h; reject_branches
  | modifyT l f cond rd => simp only [step] at h; unfold vecGuard modifyCellsT at h; reject_branches
  | modifyU l vec op x cond => simp only [step] at h; unfold vecGuard modifyU modifyCellsT at h; reject_branches
  | modifyCell l c f => simp only [step] at h; unfold modifyCell at h; reject_branches
  | modifyCellU l c op x => simp only [step] at h; unfold modifyCellU modifyCell at h; reject_branches
  | fromData n hd => simp only [step] at h; unfold fromData at h; reject_branches
  | grab hd l => simp only [step] at h; unfold grab at h; reject_branches
  | grabMask hd => simp only [step] at h; unfold grabMask at h; reject_branches
  | hget hd c => simp only [step, Prod.mk.injEq] at h; exact h.1.symm
  | hset hd c v => simp only [step] at h; unfold hset at h; reject_branches
  | hdump hd => simp only [step, Prod.mk.injEq] at h; exact h.1.symm
  | dump l => simp only [step, Prod.mk.injEq] at h; exact h.1.symm
  | dumpName n => simp only [step, Prod.mk.injEq] at h; exact h.1.symm
  | dtype l => simp only [step, Prod.mk.injEq] at h; exact h.1.symm
  | layerSelect l p => simp only [step, Prod.mk.injEq] at h; exact h.1.symm
  | aggregate l k => simp only [step, Prod.mk.injEq] at h; exact h.1.symm
  | place a c => simp only [step] at h; unfold place at h; reject_branches
  | move a c => simp only [step] at h; unfold move at h; reject_branches
  | remove a => simp only [step] at h; unfold remove at h; reject_branches
  | empties => simp only [step, Prod.mk.injEq] at h; exact h.1.symm
  | nbhdMask k geom torus c ic r => simp only [step] at h; unfold nbhdMask at h; reject_branches
  | gridSet n => simp only [step] at h; unfold gridSet at h; reject_branches
  | select ms oe conds exts save => simp only [step] at h; reject_branches

/-- the legacy re-binding `layer.data = <held array>` (a transition outside the op language): refused ⇒ unchanged -/
theorem C18_layers_rebind_reject_unchanged {s s' : State} {l h : Nat} {e : Err}
    (h : rebind s l h = (s', .err e)) : s' = s := by
  unfold rebind at h
  reject_branches

def Out.isErr : Out → Bool
  | .err _ => true
  | _ => false

/-- the history with the rejected calls deleted -/
def accepted (s : State) : List Op → List Op
  | [] => []
  | op :: ops => if (step s op).2.isErr then accepted s ops else op :: accepted (step s op).1 ops

/-- A history with rejected calls yields the same final state, and the same outputs for all other
    calls, as the history with the rejected calls deleted: the program can catch the error and carry on
    as if the call had never been made. -/
theorem C18_layers_rejected_calls_invisible (s : State) (ops : List Op) :
    (run s (accepted s ops)).1 = (run s ops).1 ∧
    (run s (accepted s ops)).2 = (run s ops).2.filter (fun o => !o.isErr) := by
  induction ops generalizing s with
  | nil => simp [accepted, run]
  | cons op ops ih =>
    simp only [accepted, run]
    cases hr : (step s op).2.isErr with
    | true =>
      have hs : (step s op).1 = s := by
        cases ho : (step s op).2 with
        | err e => exact C18_layers_step_reject_unchanged (s' := (step s op).1) (e := e) (by rw [← ho])
        | ok => rw [ho] at hr; simp [Out.isErr] at hr
        | id n => rw [ho] at hr; simp [Out.isErr] at hr
        | val v => rw [ho] at hr; simp [Out.isErr] at hr
        | arr vs => rw [ho] at hr; simp [Out.isErr] at hr
        | sel l m => rw [ho] at hr; simp [Out.isErr] at hr
        | emp v a => rw [ho] at hr; simp [Out.isErr] at hr
        | dt d => rw [ho] at hr; simp [Out.isErr] at hr
      simp only [if_true, hs, List.filter_cons, hr, Bool.not_true, Bool.false_eq_true, if_false]
      exact ih s
    | false =>
      simp only [Bool.false_eq_true, if_false, run, List.filter_cons, hr, Bool.not_false, if_true]
      obtain ⟨h1, h2⟩ := ih (step s op).1
      exact ⟨h1, by rw [h2]⟩

/-- non-vacuity: a history in which calls are rejected (clash, duplicate, mis-shaped, unknown name)
    between accepted ones -/
example : (run (init .new [2, 2] none)
    [.create "agents" .int 0, .create "a" .int 3, .create "a" .int 4, .newLayer "b" [3, 2] .int 0, .attach 2, .detach "zz",
     .cellSet "a" [1, 1] 7, .cellGet "a" [1, 1]]).2 =
    [.err (.value .clash), .id 1, .err (.value .exists), .id 2, .err (.value .dims), .err .key, .ok, .val 7] := by
  decide

example : (accepted (init .new [2, 2] none)
    [.create "agents" .int 0, .create "a" .int 3, .create "a" .int 4, .newLayer "b" [3, 2] .int 0, .attach 2, .detach "zz",
     .cellSet "a" [1, 1] 7, .cellGet "a" [1, 1]]).length = 4 := by
  decide

end Mesa.Layers
