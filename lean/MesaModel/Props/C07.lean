import MesaModel.Proofs.CellSymm
import MesaModel.Proofs.CellDicts
/-!
# C07 — connections and neighbourhoods of cell spaces are exactly the geometry's

Property theorems only (models: `Model/CellGeometry.lean`; helper lemmas: `Proofs/Cell{Offsets,Connect,Grid,Symm,Nbhd,Edit,Dicts}.lean`;
generated constants: `Gen/CellTables.lean`, rewritten from grid.py / cell_agent.py on every check).

Reading guide: `gridConn k dims torus c` is `Cell.connections` of cell `c` (a list of (offset, cell));
`InB c dims` says `c` is a cell of the grid; `nbhd nb r ic c` is `c.get_neighborhood(r, ic)` without the
memo tables, for *any* connection structure `nb` (so it covers grids, `Network`, `VoronoiGrid`);
`Reach nb r c c'` is "c' is within r connection hops of c" (0 hops = c itself).
-/
namespace Mesa.Cells

/-- The n-dimensional Moore table (`product([-1,0,1], repeat=n)` minus the origin) is, for every n, exactly
    the set of vectors of Chebyshev norm 1, without repetition. -/
theorem C07_moore_offsets_spec (n : Nat) (d : List Int) :
    (d ∈ mooreOffsets n ↔ d.length = n ∧ chebNorm d = 1) ∧ (mooreOffsets n).Nodup :=
  ⟨mem_mooreOffsets_norm n d, mooreOffsets_nodup n⟩

/-- The n-dimensional von Neumann table is, for every n, exactly the set of vectors of Manhattan norm 1. -/
theorem C07_vn_offsets_spec (n : Nat) (d : List Int) :
    d ∈ vnOffsets n ↔ d.length = n ∧ manhNorm d = 1 := mem_vnOffsets_norm n d

/-- What grid.py says *now* (AST-extracted literals and tables probed from the running code on 5^n grids)
    equals the generic tables: the literal 2-D Moore table is `mooreOffsets 2`, the literal 2-D von Neumann
    table is a permutation of `vnOffsets 2`, the probed n-D tables for n ≤ 4 are `mooreOffsets n` /
    `vnOffsets n`, the probed 2-D tables are the literals, and the n-D code paths build from `[-1,0,1]` /
    `[-1,1]`.  A changed sign or a dropped entry in the source breaks this proof obligation. -/
theorem C07_generated_tables_are_generic :
    pairsToVecs Gen.moore2d = mooreOffsets 2 ∧ (pairsToVecs Gen.vn2d).Perm (vnOffsets 2) ∧
    Gen.mooreProbe1 = mooreOffsets 1 ∧ Gen.mooreProbe2 = pairsToVecs Gen.moore2d ∧
    Gen.mooreProbe3 = mooreOffsets 3 ∧ Gen.mooreProbe4 = mooreOffsets 4 ∧
    Gen.vnProbe1 = vnOffsets 1 ∧ Gen.vnProbe2 = pairsToVecs Gen.vn2d ∧
    Gen.vnProbe3 = vnOffsets 3 ∧ Gen.vnProbe4 = vnOffsets 4 ∧
    Gen.mooreNdBase = [-1, 0, 1] ∧ Gen.vnNdDeltas = [-1, 1] :=
  ⟨gen_moore2d, gen_vn2d, gen_mooreProbe1, gen_mooreProbe2, gen_mooreProbe3, gen_mooreProbe4,
   gen_vnProbe1, gen_vnProbe2, gen_vnProbe3, gen_vnProbe4, gen_ndLiterals.1, gen_ndLiterals.2⟩

/-- Hexagons: for all integers i, j the table the code selects for column parity `j % 2` lists exactly the
    offsets (di, dj) whose hexagon touches the hexagon at (i, j) (cube distance 1); the probed tables of the
    running code are these literals and the parity is taken from `coordinate[1]`.  Touching is symmetric. -/
theorem C07_hex_touching (i j di dj : Int) :
    ((di, dj) ∈ hexTable j ↔ hexTouch i j di dj) ∧
    (hexTouch i j di dj → hexTouch (i + di) (j + dj) (-di) (-dj)) ∧
    (Gen.hexProbeEven = pairsToVecs Gen.hexWhenEven ∧ Gen.hexProbeOdd = pairsToVecs Gen.hexWhenOdd ∧
      Gen.hexProbeOdd3 = pairsToVecs Gen.hexWhenOdd ∧ Gen.hexParityAxis = 1) :=
  ⟨hexTable_touching i j di dj, hexTouch_symm i j di dj, gen_hexProbes⟩

/-- Connecting one cell under one offset (n-D code path, all dimension vectors incl. sizes 1 and 2):
    the result is `c + d`, wrapped component-wise on a torus, and present iff that lies in bounds;
    on a torus it is always present; without wrapping it is absent exactly beyond the edge. -/
theorem C07_connect_spec {dims : List Nat} {torus : Bool} {c d : List Int}
    (hc : c.length = dims.length) (hd : d.length = dims.length) :
    (∀ c', connectNd dims torus c d = some c' ↔
        c' = (if torus then wrapv (addv c d) dims else addv c d) ∧ InB c' dims) ∧
    ((∀ w ∈ dims, 0 < w) → connectNd dims true c d = some (wrapv (addv c d) dims)) ∧
    (connectNd dims false c d = none ↔ ¬ InB (addv c d) dims) :=
  ⟨fun _ => connectNd_spec hc hd, fun hpos => connectNd_torus_total hpos hc hd, connectNd_plain_none hc hd⟩

/-- The 2-D code path (`_connect_single_cell_2d`) computes what the n-D one does. -/
theorem C07_connect_2d_is_nd (h w : Nat) (torus : Bool) (i j di dj : Int) :
    (connect2d h w torus i j di dj).map (fun p => [p.1, p.2]) = connectNd [h, w] torus [i, j] [di, dj] :=
  connect2d_eq_nd h w torus i j di dj

/-- Connection under an offset is undone by the negated offset, with and without wrapping. -/
theorem C07_connect_symm {dims : List Nat} {torus : Bool} {c d c' : List Int} (hpos : ∀ w ∈ dims, 0 < w)
    (hc : InB c dims) (hd : d.length = dims.length) (h : connectNd dims torus c d = some c') :
    connectNd dims torus c' (negv d) = some c := connectNd_symm hpos hc hd h

/-- `Cell.connections` of every cell of every grid (Moore / von Neumann in any number of axes through
    either code path, hex in 2-D): `key ↦ c'` is a connection iff `key` is an offset of the geometry at `c`
    (Chebyshev norm 1 / Manhattan norm 1 / touching hexagon) and `c'` is `c + key`, wrapped on a torus,
    in bounds. -/
theorem C07_grid_connections (k : GridKind) (dims : List Nat) (torus : Bool) (c : List Int) (hc : InB c dims)
    (hk : k = .hex → dims.length = 2) (key c' : List Int) :
    (key, c') ∈ gridConn k dims torus c ↔
      IsOffset k dims.length c key ∧
      c' = (if torus then wrapv (addv c key) dims else addv c key) ∧ InB c' dims := by
  rw [mem_gridConn k dims torus c hc hk]
  constructor
  · rintro ⟨ho, h⟩; exact ⟨ho, (connectNd_spec hc.length_eq ho.length_eq).mp h⟩
  · rintro ⟨ho, h⟩; exact ⟨ho, (connectNd_spec hc.length_eq ho.length_eq).mpr h⟩

/-- The cells of a grid are exactly the in-bounds coordinates, and connections never leave the grid. -/
theorem C07_grid_cells (k : GridKind) (dims : List Nat) (torus : Bool) (c : List Int) :
    (c ∈ allCoords dims ↔ InB c dims) ∧
    (InB c dims → (k = .hex → dims.length = 2) → ∀ key c', (key, c') ∈ gridConn k dims torus c → c' ∈ allCoords dims) :=
  ⟨mem_allCoords dims c, fun hc hk key c' h => (mem_allCoords dims c').mpr (gridConn_InB k dims torus c hc hk key c' h)⟩

/-- Grid connections are symmetric: if `key` leads from `c` to `c'` then `-key` leads from `c'` to `c`
    (hex tori: under the hypothesis that the size along the offset axis is even). -/
theorem C07_grid_symmetric (k : GridKind) (dims : List Nat) (torus : Bool) (c : List Int)
    (hpos : ∀ w ∈ dims, 0 < w) (hc : InB c dims) (hk : k = .hex → dims.length = 2)
    (hx : HexTorusOK k dims torus) (key c' : List Int) (h : (key, c') ∈ gridConn k dims torus c) :
    (negv key, c) ∈ gridConn k dims torus c' := gridConn_symm k dims torus c hpos hc hk hx key c' h

/-- `Network`: the connections of node `u` are the graph's edges at `u`, keyed by the neighbour, each once;
    for an undirected graph they are symmetric. -/
theorem C07_network_connections (directed : Bool) (edges : List (Nat × Nat)) (u : Nat) :
    (∀ key c', (key, c') ∈ netConn directed edges [(u : Int)] ↔
      ∃ v : Nat, key = [(v : Int)] ∧ c' = [(v : Int)] ∧
        ((u, v) ∈ edges ∨ (directed = false ∧ (v, u) ∈ edges))) ∧
    (netAdj directed edges u).Nodup ∧
    (directed = false → ∀ v, v ∈ netAdj directed edges u → u ∈ netAdj directed edges v) := by
  refine ⟨fun key c' => ?_, netAdj_nodup directed edges u, fun hd v hv => ?_⟩
  · rw [mem_netConn]
    constructor
    · rintro ⟨v, h1, h2, h3⟩; exact ⟨v, h1, h2, (mem_netAdj _ _ _ _).mp h3⟩
    · rintro ⟨v, h1, h2, h3⟩; exact ⟨v, h1, h2, (mem_netAdj _ _ _ _).mpr h3⟩
  · rw [mem_netAdj] at hv ⊢
    rcases hv with h | ⟨_, h⟩
    · exact Or.inr ⟨hd, h⟩
    · exact Or.inl h

/-- `VoronoiGrid._connect_cells` over an arbitrary exported triangle list: cells i and j are connected
    (key `(i, j)`) iff some triangle has both as vertices (at different positions); symmetric.
    PARTIAL: that the triangle list the code computes (float Bowyer–Watson inside a ±9999 frame) is the
    Delaunay triangulation of the centroids is not proved; the check validates it against an exact
    empty-circumcircle computation on small integer point sets. -/
theorem C07_voronoi_connections_partial (tris : List (Nat × Nat × Nat)) (i : Nat) :
    (∀ key c', (key, c') ∈ vorConn tris [(i : Int)] ↔
      ∃ j : Nat, key = [(i : Int), (j : Int)] ∧ c' = [(j : Int)] ∧ ∃ t ∈ tris, (i, j) ∈ triPairs t) ∧
    (∀ j, j ∈ vorAdj tris i → i ∈ vorAdj tris j) := by
  refine ⟨fun key c' => ?_, fun j hj => ?_⟩
  · rw [mem_vorConn]
    constructor
    · rintro ⟨j, h1, h2, h3⟩; exact ⟨j, h1, h2, (mem_vorAdj _ _ _).mp h3⟩
    · rintro ⟨j, h1, h2, h3⟩; exact ⟨j, h1, h2, (mem_vorAdj _ _ _).mpr h3⟩
  · rw [mem_vorAdj] at hj ⊢
    obtain ⟨t, ht, hm⟩ := hj
    exact ⟨t, ht, (mem_triPairs t i j).mp hm⟩

/-- The radius-r neighbourhood, for every connection structure, every cell, every radius ≥ 1:
    with `include_center` it is exactly the set of cells within r hops; without it, the same set minus the
    cell itself (also when the cell is connected to itself, S15, or has no connections, S14);
    no cell is listed twice. -/
theorem C07_nbhd_spec {α : Type} [DecidableEq α] (nb : α → List α) (r : Nat) (c c' : α) :
    (c' ∈ nbhd nb (r+1) true c ↔ Reach nb (r+1) c c') ∧
    (c' ∈ nbhd nb (r+1) false c ↔ c' ≠ c ∧ Reach nb (r+1) c c') ∧
    (∀ ic, (nbhd nb (r+1) ic c).Nodup) :=
  ⟨nbhd_true_spec nb r c c', nbhd_false_spec nb r c c', fun ic => nbhd_nodup nb (r+1) ic c⟩


/-- "Within r hops" is the usual notion: `Reach nb r c c'` iff there is a walk of at most r connection steps
    from `c` to `c'`. -/
theorem C07_reach_is_path {α : Type} (nb : α → List α) (r : Nat) (c c' : α) :
    Reach nb r c c' ↔ ∃ p : List α, p.length ≤ r ∧ IsPath nb c p c' := reach_iff_path nb r c c'

/-- Memo tables are transparent: for every connection structure and every sequence of
    `get_neighborhood` / `neighborhood` queries (any order, any repetition), starting from fresh tables
    the answers the code gives — each call and each recursive call first consulting
    `_neighborhood`'s, `get_neighborhood`'s and the `neighborhood` property's memo — are the answers of the
    uncached function. -/
theorem C07_cache_transparent {α : Type} [DecidableEq α] (nb : α → List α) (qs : List (Query α)) :
    runQueries nb {} qs = qs.map (Query.answer nb) :=
  runQueries_spec nb {} (cachesOK_empty nb) qs

/-- …and the same from any memo state a history of queries can have produced. -/
theorem C07_cache_transparent_from {α : Type} [DecidableEq α] (nb : α → List α) (cs : Caches α)
    (h : CachesOK nb cs) (q : Query α) (qs : List (Query α)) :
    CachesOK nb (q.run nb cs).2 ∧ runQueries nb cs (q :: qs) = (q :: qs).map (Query.answer nb) := by
  refine ⟨?_, runQueries_spec nb cs h _⟩
  cases q with
  | get c r ic => exact (getNbhd_spec nb r ic c cs h).2
  | prop c => exact (nbProp_spec nb c cs h).2

/-- The memo key of the model is the memo key of the source (review M24; generated obligation, re-checked on every run): in
    `cell.py` as it is now `get_neighborhood` and `_neighborhood` are memoised on all their arguments (`functools.cache` / `lru_cache`) and their parameters — hence
    whose memo key — are exactly `(self, radius, include_center)` (the `Memo` key `(cell, r, ic)` of `nbhdC` / `getNbhd`: no
    argument is missing from the key, none is added), `neighborhood` is a `cached_property` of the cell alone (`Caches.prop`),
    `get_neighborhood` hands both arguments on to `_neighborhood`, and the running class agrees with the source. -/
theorem C07_memo_keys_generated :
    Gen.nbhdMemo = [("get_neighborhood", ["memo-on-all-arguments"], ["self", "radius", "include_center"]),
                    ("_neighborhood", ["memo-on-all-arguments"], ["self", "radius", "include_center"]),
                    ("neighborhood", ["cached_property"], ["self"])] ∧
    Gen.nbhdMemoProbe = Gen.nbhdMemo ∧
    Gen.nbhdInnerCall = ["radius=radius", "include_center=include_center"] := by decide

/-- `Cell.connections` is a dict in the model too: in every grid (any kind, dimension vector, torus flag), every
    `Network` and every `VoronoiGrid` no key occurs twice among a cell's connections, so "the cell under key k"
    (`connections.get(k)`, what `move_relative` follows) and the listed items say the same. -/
theorem C07_connections_are_dicts :
    (∀ k dims torus c, KeysNodup (gridConn k dims torus c)) ∧
    (∀ directed edges c, KeysNodup (netConn directed edges c)) ∧
    (∀ tris c, KeysNodup (vorConn tris c)) :=
  ⟨gridConn_keysNodup, netConn_keysNodup, vorConn_keysNodup⟩

/-- `Cell.connect(other, key)` and `Cell.disconnect(other)` after construction, on any connection structure:
    `connect` is the dict assignment `connections[key] = other` on that one cell (the lookup of `key` now gives
    `other`, every other lookup is unchanged; on a dict: the items are the old ones with `key` re-bound or added),
    `disconnect` deletes exactly the items leading to `other`; both leave every other cell's connections alone
    and keep the dict a dict; afterwards `other` is / is not among the cell's neighbours. -/
theorem C07_connect_disconnect_spec {α κ : Type} [DecidableEq α] [DecidableEq κ] (conn : α → List (κ × α))
    (c other : α) (key : κ) :
    (∀ k', assocGet (connectConn conn c other key c) k' = if key = k' then some other else assocGet (conn c) k') ∧
    (∀ x, x ≠ c → connectConn conn c other key x = conn x ∧ disconnectConn conn c other x = conn x) ∧
    (∀ p, p ∈ disconnectConn conn c other c ↔ p ∈ conn c ∧ p.2 ≠ other) ∧
    (KeysNodup (conn c) →
      KeysNodup (connectConn conn c other key c) ∧ KeysNodup (disconnectConn conn c other c) ∧
      (∀ k' v', (k', v') ∈ connectConn conn c other key c ↔ (k' = key ∧ v' = other) ∨ (k' ≠ key ∧ (k', v') ∈ conn c)) ∧
      (∀ k', assocGet (disconnectConn conn c other c) k' =
        (assocGet (conn c) k').bind fun v => if v = other then none else some v)) ∧
    other ∈ nbOfConn (connectConn conn c other key) c ∧ other ∉ nbOfConn (disconnectConn conn c other) c := by
  refine ⟨fun k' => ?_, fun x hx => ⟨connectConn_other conn c other key hx, disconnectConn_other conn c other hx⟩,
    fun p => ?_, fun hk => ⟨?_, ?_, fun k' v' => ?_, fun k' => ?_⟩, ?_, ?_⟩
  · rw [connectConn_same]; exact assocGet_dictSet _ _ _ _
  · rw [disconnectConn_same]; exact mem_dictDropValue _ _ _
  · rw [connectConn_same]; exact keysNodup_dictSet hk _ _
  · rw [disconnectConn_same]; exact keysNodup_dictDropValue hk _
  · rw [connectConn_same]; exact mem_dictSet hk _ _ _ _
  · rw [disconnectConn_same]; exact assocGet_dictDropValue hk _ _
  · simp only [nbOfConn, connectConn_same]
    exact List.mem_map.mpr ⟨(key, other), dictSet_mem_self _ _ _, rfl⟩
  · simp only [nbOfConn, disconnectConn_same, List.mem_map, not_exists, not_and]
    intro p hp
    exact ((mem_dictDropValue _ _ _).mp hp).2

/-- Memo tables stay transparent when connections are edited (repair SC2): for every connection structure and
    every history of `get_neighborhood` / `neighborhood` queries *interleaved in any order with `connect` /
    `disconnect` calls on any cells*, the answers the code gives — consulting the three memo tables, dropping
    them (`_forget_neighborhoods`) at every edit — are the answers of the uncached function on the connections
    as they are at the moment of the query (`C07_nbhd_spec`: exactly the cells within r hops of the *edited*
    structure); from fresh tables and from any memo state a history can have produced. -/
theorem C07_cache_transparent_under_edits {α κ : Type} [DecidableEq α] [DecidableEq κ] (conn : α → List (κ × α))
    (acts : List (Act α κ)) :
    runActs conn {} acts = specActs conn acts ∧
    ∀ cs, CachesOK (nbOfConn conn) cs → runActs conn cs acts = specActs conn acts :=
  ⟨runActs_spec conn {} (cachesOK_empty _) acts, fun cs h => runActs_spec conn cs h acts⟩

/-! ### non-vacuity: the hypotheses are satisfiable and the statements bite -/

-- a 1×3 Moore torus: cell (0,1) is connected to itself (S15) and to both others under several offsets
example : (gridConn .moore [1, 3] true [0, 1]).map (·.2) =
    [[0, 0], [0, 1], [0, 2], [0, 0], [0, 2], [0, 0], [0, 1], [0, 2]] := by decide
example : InB [0, 1] [1, 3] ∧ HexTorusOK .moore [1, 3] true := by
  refine ⟨by simp [InB], fun h => by cases h⟩
-- S15 witness on the repaired semantics: the self-connected cell is not its own neighbour
example : nbhd (fun c => (gridConn .moore [1, 3] true c).map (·.2)) 1 false [0, 1] = [[0, 0], [0, 2]] := by decide
-- S14 witness: an isolated cell is within any radius of itself
example : nbhd (fun _ : Nat => []) 2 true 0 = [0] := by decide
example : Reach (fun _ : Nat => []) 2 0 0 := Or.inl rfl
-- radius 2 on a path 0 - 1 - 2 - 3
example : nbhd (netAdj false [(0, 1), (1, 2), (2, 3)]) 2 false 0 = [2, 1] := by decide
-- a hex torus with even width: offsets of the two parities
example : HexTorusOK .hex [3, 4] true := by
  intro _ _ h w hd; simp at hd; omega
example : (gridConn .hex [3, 4] true [0, 0]).map (·.2) = [[0, 3], [1, 3], [2, 0], [1, 0], [0, 1], [1, 1]] := by decide
-- beyond the edge: absent
example : connectNd [2, 2] false [0, 0] [-1, 0] = none := by decide
-- memo tables hit in both directions give the uncached answers
example : runQueries (netAdj false [(0, 1), (1, 2)]) {} [.get 0 2 true, .prop 1, .get 0 2 false, .get 1 1 true, .get 0 2 true]
    = [[0, 2, 1], [0, 2], [2, 1], [0, 2, 1], [0, 2, 1]] := by decide
-- SC2: on the path 0 - 1 - 2, cell 0 is asked, then connected to cell 2 (key [2]), then asked again: the second
-- answers see the new connection, also at radius 2 from cell 1's side after a disconnect …
private def path3 : List Int → List (Key × Coord) := netConn false [(0, 1), (1, 2)]
example : runActs path3 {} [.ask (.get [0] 1 false), .ask (.prop [0]), .connect [0] [2] [2], .ask (.get [0] 1 false),
      .ask (.prop [0]), .disconnect [1] [2], .ask (.get [0] 2 false), .ask (.get [1] 1 true)]
    = [[[1]], [[1]], [[1], [2]], [[1], [2]], [[1], [2]], [[0], [1]]] := by decide
-- … whereas keeping the memo table across the edit (the code before the repair) returns the stale answer
example : (getNbhd (nbOfConn (connectConn path3 [0] [2] [2])) 1 false [0] (getNbhd (nbOfConn path3) 1 false [0] {}).2).1
    ≠ nbhd (nbOfConn (connectConn path3 [0] [2] [2])) 1 false [0] := by decide
example : KeysNodup (path3 [1]) ∧ assocGet (connectConn path3 [1] [0] [2] [1]) [2] = some [0] :=
  ⟨netConn_keysNodup _ _ _, by decide⟩

end Mesa.Cells
