import MesaModel.Model.CopySet
namespace Mesa.CopySet
end Mesa.CopySet
