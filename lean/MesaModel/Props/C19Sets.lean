import MesaModel.Proofs.CopySetMain
/-!
# C19, AgentSet half — a deep copy / pickle round trip of an AgentSet is faithful, lasting and detached

Model: `Model/CopySet.lean` (identities; weak members; models own their agents; `Agent._ids`; liveness as after a garbage
collection; copy by identity shift).  `view w s` is what the program reads from set `s`: for every member that is alive its
identity, `unique_id`, attribute value and model, in the set's order, and the state of the set's generator.
All theorems hold for every well-formed world, and every world reached by any history is well-formed
(`C19_agentset_reachable_wf`).
-/
namespace Mesa.CopySet

/-- every world reached by a history of operations is well-formed (the hypothesis of the theorems below) -/
theorem C19_agentset_reachable_wf (ops : List Op) : WF (run init ops) := WF.init.run ops

/-- **Faithful and lasting.**  The copy shows the same `unique_id`s and attribute values in the same order and an equal
    generator state; every object it shows is a new one (`old + next`: members and their models).  `view` only shows members
    that survive a garbage collection, so the copy keeps its members (this is what the repair S24 establishes). -/
theorem C19_agentset_copy_faithful (w : World) (t : Nat) (w' : World) (t' : Nat) (hc : copySet w t = some (w', t')) :
    ∃ items script, view w t = some (items, script) ∧
      view w' t' = some (items.map (fun (a, u, x, m) => (a + w.next, u, x, m + w.next)), script) := by
  obtain ⟨items, script, h1, _, h2⟩ := copy_view t hc
  exact ⟨items, script, h1, h2⟩

/-- a small history: a model with a scripted generator, three agents, a set over two of them (in another order) -/
def demo : World := run init [.newModel [3, 1, 4], .create 1 2, .create 1 0, .create 1 5, .mkSet 1 [3, 2]]

example : view demo 5 = some ([(3, 2, 0, 1), (2, 1, 2, 1)], [3, 1, 4]) := by decide

/-- the world after copying the demo set -/
def demoCopy : World := match copySet demo 5 with | some p => p.1 | none => demo

/-- what the copy of set `t` shows (`k = false`: the code before S24) -/
def copyView (w : World) (t : Nat) (k : Bool) : Option (List (Nat × Nat × Int × Nat) × List Nat) :=
  match copySet w t k with
  | some (w', t') => view w' t'
  | none => none

example : copyView demo 5 true = some ([(9, 2, 0, 7), (8, 1, 2, 7)], [3, 1, 4]) := by decide

/-- **The code before S24 violates the property**: without `_restored_models` nothing references the reconstructed model,
    and after a garbage collection the copy of a two-member set shows no member at all. -/
theorem C19_agentset_copy_without_owners_loses_members :
    view demo 5 = some ([(3, 2, 0, 1), (2, 1, 2, 1)], [3, 1, 4]) ∧ copyView demo 5 false = some ([], [3, 1, 4]) :=
  ⟨by decide, by decide⟩

/-- **The copied model.**  Every model of an (alive) member is reconstructed: it is alive, its registry `list(model.agents)` is
    the original registry shifted to the new objects — every registered agent, member of the set or not, in registration
    order — and the sharing of generators is preserved (a set that uses its members' model's generator does so in the copy). -/
theorem C19_agentset_copy_registry (w : World) (t : Nat) (r : SetRec) (hr : w.sets t = some r) (a : Nat)
    (ha : a ∈ aliveMembers w r) (w' : World) (t' : Nat) (hc : copySet w t = some (w', t')) :
    ∃ ar mr, w.agents a = some ar ∧ w.models ar.model = some mr ∧
      regView w ar.model = some mr.reg ∧
      regView w' (ar.model + w.next) = some (mr.reg.map (· + w.next)) ∧
      (r.gen = mr.gen → ∃ r' mr', w'.sets t' = some r' ∧ w'.models (ar.model + w.next) = some mr' ∧ r'.gen = mr'.gen) := by
  obtain ⟨ar, mr, har, hmr, halive, hm⟩ := member_model ha
  simp only [copySet, hr, Option.some.injEq, Prod.mk.injEq] at hc
  obtain ⟨rfl, rfl⟩ := hc
  obtain ⟨h1, h2⟩ := copy_registry t hm hmr
  refine ⟨ar, mr, har, hmr, by simp [regView, halive, hmr], h1, ?_⟩
  intro hg
  exact ⟨_, _, copyWorld_sets_new t r true, h2, by simp [hg]⟩

example : regView demoCopy 7 = some [8, 9, 10] ∧ regView demo 1 = some [2, 3, 4] := ⟨by decide, by decide⟩

/-- **Frame.**  A history none of whose operations writes an object the set depends on (the set, its generator, its members,
    their models) leaves what the set shows unchanged — whatever else it creates, removes, reorders or copies. -/
theorem C19_agentset_frame (w : World) (hw : WF w) (s : Nat) (r : SetRec) (hr : w.sets s = some r) (ops : List Op)
    (hav : WritesOnly (fun x => x ∉ deps w s) w ops) : view (run w ops) s = view w s :=
  frame_run hw hr ops hav

/-- **The copy leaves every existing set as it was** (also its liveness: copying creates no reference to an old object). -/
theorem C19_agentset_original_untouched_by_copy (w : World) (hw : WF w) (t s : Nat) (hs : s < w.next)
    (w' : World) (t' : Nat) (hc : copySet w t = some (w', t')) : view w' s = view w s :=
  (agree_copy hw hs t true hc).view_eq

/-- **Detached, both ways.**  After `copy t`:
    operations that only write objects created by or after the copy never change what the original shows, and
    operations that only write objects that existed before the copy never change what the copy shows —
    for operation sequences of any length. -/
theorem C19_agentset_copy_detached (w : World) (hw : WF w) (t : Nat) (w' : World) (t' : Nat)
    (hc : copySet w t = some (w', t')) :
    (∀ ops, WritesOnly (fun x => w.next ≤ x) w' ops → view (run w' ops) t = view w t) ∧
    (∀ ops, WritesOnly (fun x => x < w.next) w' ops → view (run w' ops) t' = view w' t') := by
  have hw' : WF w' := by
    have := hw.step (.copy t)
    simpa [step, hc] using this
  cases hr : w.sets t with
  | none => simp [copySet, hr] at hc
  | some r =>
    have ht : t < w.next := (hw.setsLt t r hr).1
    have hag := agree_copy hw ht t true hc
    constructor
    · intro ops hwo
      have hr' : w'.sets t = some r := by rw [hag.set, hr]
      have := frame_run hw' hr' ops (hwo.mono (fun x hx hmem => by
        rw [hag.deps_eq] at hmem
        have := deps_lt hw ht x hmem
        omega))
      rw [this, hag.view_eq]
    · intro ops hwo
      have ht' : t' = t + w.next := by
        simp only [copySet, hr, Option.some.injEq, Prod.mk.injEq] at hc
        exact hc.2.symm
      have hr' : ∃ r', w'.sets t' = some r' := by
        simp only [copySet, hr, Option.some.injEq, Prod.mk.injEq] at hc
        obtain ⟨rfl, rfl⟩ := hc
        exact ⟨_, copyWorld_sets_new t r true⟩
      obtain ⟨r', hr'⟩ := hr'
      exact frame_run hw' hr' ops (hwo.mono (fun x hx hmem => by
        have := copy_deps_fresh t hc x hmem
        omega))

/-- the two premises of `C19_agentset_copy_detached` are satisfiable by real work on either side: shuffling the copy and
    removing one of its members writes fresh objects only; changing an attribute of an original member, creating an agent in
    the original model and sorting the original set writes old objects only -/
example : WritesOnly (fun x => demo.next ≤ x) demoCopy [.shuffle 11, .remove 9] := by
  simp only [WritesOnly]
  decide

example : WritesOnly (fun x => x < demo.next) demoCopy [.setW 3 7, .create 1 4, .sortW 5] := by
  simp only [WritesOnly]
  decide

example : view (run demoCopy [.shuffle 11, .remove 9]) 11 = some ([(8, 1, 2, 7)], [1, 4]) := by decide

end Mesa.CopySet
