import MesaModel.Proofs.Collect
/-!
# C18 (DataCollector part) — a rejected `add_table_row` changes nothing

Lemmas for whoever assembles C18.  The rejecting calls of the DataCollector are `add_table_row` to an
unknown table (`err Unknown`) and with a missing column under `ignore_missing=False` (`err Missing`).
-/
namespace Mesa.Collect

/-- A rejected `add_table_row` leaves the whole state (model, collector, every table) exactly as it was:
    per-op fact, for every state, reachable or not. -/
theorem C18_collect_tablerow_reject_unchanged (cfg : Cfg) (s : State) (t : Nat) (r : List (Nat × Val))
    (ign : Bool) (e : Err) (h : (apply cfg s (.row t r ign)).2 = some e) :
    (apply cfg s (.row t r ign)).1 = s :=
  addTableRow_reject_unchanged s t r ign e h

/-- `add_table_row` rejects exactly an unknown table, or — without `ignore_missing` — a row lacking one of
    the table's columns; nothing else. -/
theorem C18_collect_tablerow_rejects_exactly (s : State) (t : Nat) (r : List (Nat × Val)) (ign : Bool) :
    ((addTableRow s t r ign).2 = some .unknown ↔ s.tables.lookup t = none) ∧
    ((addTableRow s t r ign).2 = some .missing ↔
      ∃ tab, s.tables.lookup t = some tab ∧ ign = false ∧ ∃ c ∈ tab, r.lookup c.1 = none) ∧
    (∀ e, (addTableRow s t r ign).2 = some e → e = .unknown ∨ e = .missing) := by
  unfold addTableRow
  cases hl : s.tables.lookup t with
  | none => simp
  | some tab =>
    simp only []
    by_cases hc : (!ign && tab.any fun c => (r.lookup c.1).isNone) = true
    · simp only [hc, if_true]
      simp only [Bool.and_eq_true, Bool.not_eq_true', List.any_eq_true, Option.isNone_iff_eq_none] at hc
      refine ⟨by simp, ⟨fun _ => ⟨tab, rfl, hc.1, hc.2⟩, fun _ => trivial⟩, ?_⟩
      intro e he
      exact Or.inr (Option.some.inj he).symm
    · simp only [hc, Bool.false_eq_true, if_false]
      simp only [Bool.and_eq_true, Bool.not_eq_true', List.any_eq_true, Option.isNone_iff_eq_none, not_and] at hc
      refine ⟨by simp, ⟨fun h => by simp at h, ?_⟩, fun e he => by simp at he⟩
      rintro ⟨tab', htab, hi, hex⟩
      cases htab
      exact absurd hex (hc hi)

/-- Over histories: the program can catch the error and carry on — a history yields the same final state
    (hence the same later observations) as the history with its rejected `add_table_row` calls deleted. -/
theorem C18_collect_tablerow_reject_history (cfg : Cfg) (s : State) (ops : List Op) :
    run cfg s (dropRejectedRows cfg s ops) = run cfg s ops :=
  run_dropRejectedRows cfg s ops

/-! non-vacuity -/
section Example
def exT : State := init { mreps := [], areps := [], treps := [], isAgentClass := fun _ => false, isSub := fun _ _ => false } [(0, [0, 1])]
example : (addTableRow exT 0 [(0, .int 1)] false).2 = some .missing := by decide
example : (addTableRow exT 3 [(0, .int 1)] true).2 = some .unknown := by decide
example : (addTableRow exT 0 [(0, .int 1)] true).1.tables = [(0, [(0, [.int 1]), (1, [.none])])] := by decide
/-! `add_table_row` as it was before the T1 repair — one loop that validates and appends column by column.  After the
    repair the code checks every column before the first append, which is why `addTableRow` returns the untouched state
    on rejection; for the interleaved loop "rejected ⇒ unchanged" is false: the row below is rejected (column 1 is
    missing) after column 0 has grown, the table is ragged -/
def interleavedLoop (row : List (Nat × Val)) : Table → Table × Option Err
  | [] => ([], none)
  | (c, vs) :: rest =>
    match row.lookup c with
    | some v => ((c, vs ++ [v]) :: (interleavedLoop row rest).1, (interleavedLoop row rest).2)
    | none => ((c, vs) :: rest, some .missing)
example : interleavedLoop [(0, .int 1)] [(0, []), (1, [])] = ([(0, [.int 1]), (1, [])], some .missing) := by decide
example : (interleavedLoop [(0, .int 1)] [(0, []), (1, [])]).1 ≠ [(0, []), (1, [])] := by decide
end Example

end Mesa.Collect
