import MesaModel.Model.CellSpace
