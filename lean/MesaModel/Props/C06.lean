import MesaModel.Proofs.CellDyn
import MesaModel.Proofs.CellCollection
import MesaModel.Proofs.CellHexMove
import MesaModel.Proofs.CellExact
/-!
# C06 — cell spaces: `agent.cell` and `cell.agents` mirror each other; capacity; emptiness views

Property theorems only (model: `Model/CellSpace.lean`, helper lemmas: `Proofs/CellSpace.lean`,
`Proofs/CellSpaces.lean`).

`Reachable sp s`: `s` is the occupancy state and `sp` the space (with its connections as they are now) after
*any* finite history, started on any well-formed freshly built space, of operations (creating CellAgents /
FixedAgents / Grid2DMovingAgents, `a.cell = c`, `a.cell = None`, `move_to`, `move_relative`,
`Grid2DMovingAgent.move`, `remove`, switching the empty-cell search strategy, `select_random_empty_cell`,
`select_random_cell`) — accepted and rejected calls alike, with any arguments (unknown agents, coordinates
that are no cell, missing directions, full cells, …) — *interleaved with connection edits*
(`Cell.connect(other, key)` / `Cell.disconnect(other)` on cells of the space, after construction) *and capacity writes*
(`cell.capacity = k`, k an int ≥ 0 or None, by hand: `DOp.setCap`; the occupants of the cell stay, also when there are more
than k of them — so "never more agents than the capacity" is NOT an invariant of these histories; what is: a cell never
*accepts* an agent while it holds capacity-many or more, `C06_capacity`).
`SpaceOK sp` holds for every grid (Moore / von Neumann in any dimension, hex), every `Network` and
every `VoronoiGrid` of the model (`C06_spaces_wellformed`) and is kept by every edit.
-/
namespace Mesa.Cells

/-- states reachable from a freshly built well-formed space by any history of agent operations, connection
    edits and capacity writes; `sp` is the space as the edits left it -/
def Reachable (sp : Space) (s : State) : Prop :=
  ∃ (sp0 : Space) (ops : List DOp), SpaceOK sp0 ∧ drun sp0 (init sp0) ops = (sp, s)

theorem reachable_inv {sp : Space} (_hsp : SpaceOK sp) {s : State} (h : Reachable sp s) : Inv sp s := by
  obtain ⟨sp0, ops, hsp0, he⟩ := h
  have := (drun_inv hsp0 (inv_init sp0) ops).2.1
  rw [he] at this
  exact this

theorem Reachable.step {sp : Space} {s : State} (h : Reachable sp s) (op : Op) :
    Reachable sp (step sp s op).1 := by
  obtain ⟨sp0, ops, hsp0, he⟩ := h
  refine ⟨sp0, ops ++ [.op op], hsp0, ?_⟩
  rw [drun_append, he]
  rfl

/-- a history without connection edits on a well-formed space (the notion of the first version of this file) -/
theorem reachable_of_run {sp : Space} (hsp : SpaceOK sp) (ops : List Op) : Reachable sp (run sp (init sp) ops) :=
  ⟨sp, ops.map .op, hsp, drun_ops sp (init sp) ops⟩

/-- All space types of the model are well-formed: grids of every kind, dimension vector, torus flag and
    capacity (hex: 2-D), networks on any edge list over nodes 0..n-1 (directed or not), Voronoi grids on
    any triangle list over n centroids — with a constant capacity or with the default, area-based one. -/
theorem C06_spaces_wellformed :
    (∀ k dims torus cap, (k = GridKind.hex → dims.length = 2) → SpaceOK (gridSpace k dims torus cap)) ∧
    (∀ directed n edges cap, (∀ e ∈ edges, e.1 < n ∧ e.2 < n) → SpaceOK (netSpace directed n edges cap)) ∧
    (∀ n tris cap, (∀ t ∈ tris, t.1 < n ∧ t.2.1 < n ∧ t.2.2 < n) → SpaceOK (vorSpace n tris cap)) ∧
    (∀ n tris areas, (∀ t ∈ tris, t.1 < n ∧ t.2.1 < n ∧ t.2.2 < n) → SpaceOK (vorSpaceAreas n tris areas)) :=
  ⟨fun k dims torus cap hk => gridSpace_ok k dims torus cap hk,
   fun d n e cap he => netSpace_ok d n e cap he, fun n t cap ht => vorSpace_ok n t cap ht,
   fun n t ar ht => vorSpaceAreas_ok n t ar ht⟩

/-- Mirror: after any history, for every agent still in the model, the agent reports cell `c` iff `c` lists
    it; it is listed at most once there; and no other cell lists it.  (For *every* agent, in the model or
    not: a listed agent reports the cell that lists it.) -/
theorem C06_mirror {sp : Space} (hsp : SpaceOK sp) {s : State} (h : Reachable sp s) (a : Aid) :
    (a ∈ s.registry → ∀ c, s.cellOf a = some c ↔ a ∈ s.occ c) ∧
    (∀ c, (s.occ c).count a ≤ 1) ∧
    (∀ c c', a ∈ s.occ c → a ∈ s.occ c' → c = c') ∧
    (∀ c, a ∈ s.occ c → s.cellOf a = some c ∧ c ∈ sp.cells) := by
  have hi := reachable_inv hsp h
  refine ⟨fun hr c => ⟨fun hc => ?_, hi.mem_cell a c⟩, fun c => ?_, fun c c' h1 h2 => ?_, fun c hm => ?_⟩
  · rcases hi.cell_mem a c hc with h1 | ⟨_, h2⟩
    · exact h1
    · exact absurd hr h2
  · exact List.nodup_iff_count.mp (hi.nodup c) a
  · have e1 := hi.mem_cell a c h1
    have e2 := hi.mem_cell a c' h2
    rw [e1] at e2; simpa using e2
  · exact ⟨hi.mem_cell a c hm, hi.occ_cells a c hm⟩

/-- Capacity, for capacities the program may rewrite (`cell.capacity = k`).
    (1) *Acceptance* — after any history (capacity writes of every kind included), whatever operation comes next: a cell
    with capacity k (0 included, repair SC3) ends up with at most k agents or with at most as many as it held; so a cell
    that holds capacity-many agents or more (exactly when `add_agent` refuses: `fullFor`) never gains one, and a cell
    below its capacity never goes above it.
    (2) *Bound* — along a history that never lowers a capacity under the occupancy the cell has at that moment
    (`CapRespecting`: raising, lifting to None, lowering down to the number of occupants are all allowed; a history without
    capacity writes is the special case) every cell with capacity k holds at most k agents, at the end and hence throughout.
    (The bound is not an invariant of all histories: `cell.capacity = 1` on a cell holding two leaves two — see the examples.) -/
theorem C06_capacity :
    (∀ {sp : Space}, SpaceOK sp → ∀ {s : State}, Reachable sp s → ∀ (op : Op) (c : Cid) (k : Nat), sp.cap c = some k →
      (((step sp s op).1.occ c).length ≤ k ∨ ((step sp s op).1.occ c).length ≤ (s.occ c).length) ∧
      (fullFor sp s c = true → ((step sp s op).1.occ c).length ≤ (s.occ c).length) ∧
      ((s.occ c).length ≤ k → ((step sp s op).1.occ c).length ≤ k)) ∧
    (∀ {sp0 : Space}, SpaceOK sp0 → ∀ (ops : List DOp), CapRespecting sp0 (init sp0) ops = true → ∀ (c : Cid) (k : Nat),
      (drun sp0 (init sp0) ops).1.cap c = some k → ((drun sp0 (init sp0) ops).2.occ c).length ≤ k) := by
  constructor
  · intro sp hsp s h op c k hk
    have hg := step_no_growth hsp.closed (reachable_inv hsp h) op c k hk
    refine ⟨hg, fun hf => ?_, fun hle => ?_⟩
    · obtain ⟨n, hn, hle⟩ := (fullFor_iff sp s c).mp hf
      rw [hk] at hn
      simp only [Option.some.injEq] at hn
      omega
    · omega
  · intro sp0 hsp0 ops hr c k hk
    have := (drun_inv0 hsp0 (inv_init sp0) ops hr).cap c k hk
    omega

/-- What a capacity write does (`space[c].capacity = k`, k an int or None): on a cell of the space it is accepted and changes
    that cell's capacity and nothing else — the other capacities, the cells, the connections, the kind of the space and the
    whole occupancy state (the occupants stay, also when they are more than k) —; on a coordinate that is no cell `space[c]`
    raises KeyError and nothing changes.  `add_agent` / `is_full` read the new value from then on (`fullFor`, `isFull` take
    the space as it is now). -/
theorem C06_capacity_write (sp : Space) (s : State) (c : Cid) (k : Option Nat) :
    (c ∈ sp.cells → (dstep sp s (.setCap c k)).2 = .ok ∧ (dstep sp s (.setCap c k)).1.1.cap c = k ∧
      (∀ c', c' ≠ c → (dstep sp s (.setCap c k)).1.1.cap c' = sp.cap c')) ∧
    (c ∉ sp.cells → (dstep sp s (.setCap c k)).2 = .err .key ∧ (dstep sp s (.setCap c k)).1.1.cap = sp.cap) ∧
    (dstep sp s (.setCap c k)).1.2 = s ∧ (dstep sp s (.setCap c k)).1.1.cells = sp.cells ∧
    (dstep sp s (.setCap c k)).1.1.conn = sp.conn ∧ (dstep sp s (.setCap c k)).1.1.isGrid = sp.isGrid := by
  refine ⟨fun hc => ?_, fun hc => ?_, rfl, editSp_cells sp _, editSp_conn_setCap sp c k, editSp_isGrid sp _⟩
  · simp only [dstep, editSp, hc, if_true, setCapSp, upd_same]
    exact ⟨trivial, trivial, fun c' hc' => upd_other _ _ _ hc'⟩
  · simp only [dstep, editSp, hc, if_false]
    exact ⟨trivial, trivial⟩

/-- The default `capacity_function` of `VoronoiGrid` (`round_float`): the i-th cell, of exact area `num/den`, gets
    the capacity `k = int(500 · area)`, i.e. `k ≤ 500 · num/den < k + 1`, whatever `capacity` was passed to the
    constructor; and after any history that leaves the capacities alone the cell holds at most `k` agents (each cell its own
    bound; `k = 0`: nobody). -/
theorem C06_voronoi_default_capacity (n : Nat) (tris : List (Nat × Nat × Nat)) (areas : List (Nat × Nat))
    (ht : ∀ t ∈ tris, t.1 < n ∧ t.2.1 < n ∧ t.2.2 < n) (i num den : Nat) (ha : areas[i]? = some (num, den)) (hd : 0 < den) :
    (vorSpaceAreas n tris areas).cap [(i : Int)] = some (roundFloat num den) ∧
    roundFloat num den * den ≤ 500 * num ∧ 500 * num < (roundFloat num den + 1) * den ∧
    (∀ ops : List Op, ((run (vorSpaceAreas n tris areas) (init (vorSpaceAreas n tris areas)) ops).occ [(i : Int)]).length
      ≤ roundFloat num den) := by
  have hcap : (vorSpaceAreas n tris areas).cap [(i : Int)] = some (roundFloat num den) := by
    simp [vorSpaceAreas, ha]
  refine ⟨hcap, (roundFloat_spec num den hd).1, (roundFloat_spec num den hd).2, fun ops => ?_⟩
  have := (run_invB (B := fun _ => 0) (vorSpaceAreas_ok n tris areas ht).closed (inv_init _) ops).cap _ _ hcap
  omega

/-- Emptiness views agree with the truth after any history: `is_empty` is "no agents"; `add_agent` refuses (`fullFor`)
    exactly when the cell has a capacity k (0 included) and holds k agents or more; `is_full` (`len == capacity`) implies
    "refuses", and the two differ exactly on an over-full cell (more occupants than the capacity — possible only after the
    program lowered `cell.capacity` under the occupancy): wherever the occupancy is within the capacity, `is_full` ⇔
    "`add_agent` would refuse" (every capacity: None, 0, k); on a grid the `empty` property layer / `cell.empty`
    holds `is_empty` for every cell; `empties` is the list of cells without agents; `space.agents` is the
    cells' agent lists chained — duplicate-free, containing exactly the listed agents, among them every
    agent still in the model that reports a cell. -/
theorem C06_views {sp : Space} (hsp : SpaceOK sp) {s : State} (h : Reachable sp s) :
    (∀ c, isEmpty s c = true ↔ s.occ c = []) ∧
    (∀ c, (fullFor sp s c = true ↔ ∃ k, sp.cap c = some k ∧ k ≤ (s.occ c).length) ∧
      (isFull sp s c = true → fullFor sp s c = true) ∧
      (fullFor sp s c = true ∧ isFull sp s c = false ↔ ∃ k, sp.cap c = some k ∧ k < (s.occ c).length) ∧
      ((∀ k, sp.cap c = some k → (s.occ c).length ≤ k) → isFull sp s c = fullFor sp s c)) ∧
    (sp.isGrid = true → ∀ c, s.flag c = some (isEmpty s c)) ∧
    (∀ c, c ∈ empties sp s ↔ c ∈ sp.cells ∧ s.occ c = []) ∧
    (spaceAgents sp s = sp.cells.flatMap s.occ ∧ (spaceAgents sp s).Nodup) ∧
    (∀ a, a ∈ spaceAgents sp s ↔ ∃ c, a ∈ s.occ c) ∧
    (∀ a c, a ∈ s.registry → s.cellOf a = some c → a ∈ spaceAgents sp s) := by
  have hi := reachable_inv hsp h
  have hsa := spaceAgents_eq hsp hi
  have hmem : ∀ a, a ∈ spaceAgents sp s ↔ ∃ c, a ∈ s.occ c := by
    intro a
    rw [hsa, List.mem_flatMap]
    constructor
    · rintro ⟨c, _, hm⟩; exact ⟨c, hm⟩
    · rintro ⟨c, hm⟩; exact ⟨c, hi.occ_cells a c hm, hm⟩
  refine ⟨fun c => by simp [isEmpty], fun c => ?_, fun hg c => ?_, fun c => ?_, ⟨hsa, ?_⟩, hmem,
    fun a c hr hc => ?_⟩
  · refine ⟨fullFor_iff sp s c, ?_, ?_, ?_⟩
    · cases hk : sp.cap c with
      | none => simp [isFull, hk]
      | some k => simp only [isFull, fullFor, hk]; intro he; simp at he; simp; omega
    · cases hk : sp.cap c with
      | none => simp [isFull, fullFor, hk]
      | some k => simp only [isFull, fullFor, hk]; simp; omega
    · intro hb
      cases hk : sp.cap c with
      | none => simp [isFull, fullFor, hk]
      | some k =>
        have hcap := hb k hk
        simp only [isFull, fullFor, hk]
        by_cases he : (s.occ c).length = k
        · simp [he]
        · have : ¬ (s.occ c).length ≥ k := by omega
          simp [he, this]
  · rcases hi.flag c with h1 | ⟨h1, _⟩
    · exact h1
    · rw [hg] at h1; simp at h1
  · simp [empties, isEmpty]
  · rw [hsa]; exact flatMap_occ_nodup hsp hi
  · rw [hmem]
    rcases hi.cell_mem a c hc with h1 | ⟨_, h2⟩
    · exact ⟨c, h1⟩
    · exact absurd hr h2

/-- `select_random_empty_cell` (both search strategies, any draw script, at *any* state) changes nothing
    and, whenever it returns, returns a cell of the space that holds no agent. -/
theorem C06_select_random_empty_cell (sp : Space) (s : State) (draws : List Nat) :
    (step sp s (.randEmpty draws)).1 = s ∧
    ∀ c, (step sp s (.randEmpty draws)).2 = .okCell c → c ∈ sp.cells ∧ s.occ c = [] := by
  have hdraw : ∀ (l : List Cid) (d : Nat) (c : Cid), draw l d = some c → c ∈ l := by
    intro l d c hd
    unfold draw at hd
    exact List.mem_of_getElem? hd
  have hloop : ∀ (ds : List Nat) (c : Cid), tryRandomLoop s sp.cells ds = .okCell c → c ∈ sp.cells ∧ s.occ c = [] := by
    intro ds
    induction ds with
    | nil => intro c hc; simp [tryRandomLoop] at hc
    | cons d ds ih =>
      intro c hc
      simp only [tryRandomLoop] at hc
      split at hc
      · simp at hc
      · rename_i c0 hd
        split at hc
        · rename_i he
          simp at hc; subst hc
          exact ⟨hdraw _ _ _ hd, by simpa [isEmpty] using he⟩
        · exact ih c hc
  have hchoice : ∀ (l : List Cid) (ds : List Nat) (c : Cid), choice l ds = .okCell c → c ∈ l := by
    intro l ds c hc
    unfold choice at hc
    split at hc
    · simp at hc
    · split at hc
      · simp at hc
      · split at hc
        · rename_i hd
          simp at hc; subst hc
          exact hdraw _ _ _ hd
        · simp at hc
  simp only [step]
  split
  · exact ⟨rfl, hloop draws⟩
  · refine ⟨rfl, fun c hc => ?_⟩
    have := hchoice _ _ _ hc
    simpa [empties, isEmpty] using this

/-- Removing an agent from the model takes it out of its cell: after any history, a `remove()` that returns
    leaves the agent in no cell's list and not in the model; and `remove()` of a CellAgent /
    Grid2DMovingAgent always returns. -/
theorem C06_remove_leaves_cell {sp : Space} (hsp : SpaceOK sp) {s : State} (h : Reachable sp s) (a : Aid) :
    ((step sp s (.remove a)).2 = .ok →
      (∀ c, a ∉ (step sp s (.remove a)).1.occ c) ∧ a ∉ (step sp s (.remove a)).1.registry) ∧
    (∀ k, s.kinds[a]? = some k → k ≠ .fixed → (step sp s (.remove a)).2 = .ok) := by
  have hi := reachable_inv hsp h
  have hd := inv_deregister hi a
  have hnr : a ∉ s.registry.erase a := fun hm => (hi.reg_nodup.mem_erase_iff.mp hm).1 rfl
  have mobile : ∀ k, s.kinds[a]? = some k → k ≠ AKind.fixed →
      (setCellMobile sp { s with registry := s.registry.erase a } a none).2 = .ok ∧
      (∀ c, a ∉ (setCellMobile sp { s with registry := s.registry.erase a } a none).1.occ c) ∧
      a ∉ (setCellMobile sp { s with registry := s.registry.erase a } a none).1.registry := by
    intro k hk hfix
    have hmob : ∀ o, s.cellOf a = some o → a ∈ s.occ o := fun o ho => hi.mobile_mem hk hfix ho
    rw [setCellMobile_eq hd hmob]
    cases ho : s.cellOf a with
    | none =>
      refine ⟨rfl, fun c hm => ?_, hnr⟩
      have := hi.mem_cell a c hm
      rw [ho] at this; simp at this
    | some o =>
      refine ⟨rfl, fun c hm => ?_, hnr⟩
      have hu := inv_unplace hd (a := a) (o := o) ho (hmob o ho)
      have := hu.mem_cell a c hm
      rw [unplace_cellOf] at this
      simp at this
  constructor
  · intro hok
    simp only [Mesa.Cells.step] at hok ⊢
    cases hk : s.kinds[a]? with
    | none => rw [hk] at hok; simp at hok
    | some k =>
      rw [hk] at hok
      cases k with
      | cell => exact (mobile .cell hk (by simp)).2
      | grid2d => exact (mobile .grid2d hk (by simp)).2
      | fixed =>
        simp only at hok ⊢
        cases ho : s.cellOf a with
        | none => rw [ho] at hok; simp at hok
        | some c =>
          rw [ho] at hok
          simp only at hok ⊢
          by_cases hm : a ∈ s.occ c
          · rw [removeAgent_mem (s := { s with registry := s.registry.erase a }) hm]
            have hdet := inv_detachFixed hi hk ho hm
            refine ⟨fun c' hm' => ?_, hnr⟩
            have h1 := hdet.mem_cell a c' hm'
            simp only [detachFixed] at h1
            rw [ho] at h1
            simp at h1
            subst h1
            have : a ∈ (s.occ c).erase a := by simpa [detachFixed, upd_same] using hm'
            exact ((hi.nodup c).mem_erase_iff.mp this).1 rfl
          · have : removeAgent { s with registry := s.registry.erase a } c a = none := by
              simp [removeAgent, hm]
            rw [this] at hok
            simp at hok
  · intro k hk hfix
    simp only [Mesa.Cells.step, hk]
    cases k with
    | fixed => exact absurd rfl hfix
    | cell => exact (mobile .cell hk (by simp)).1
    | grid2d => exact (mobile .grid2d hk (by simp)).1


/-- `Grid2DMovingAgent.DIRECTION_MAP` as the source has it now (AST literal = the running class attribute):
    every name maps to a Moore offset, the cardinal names to the unit steps of the row/column convention
    (`up` decreases the first coordinate), and opposite names to opposite vectors. -/
theorem C06_direction_map_generated :
    Gen.directionMap = Gen.directionProbe ∧
    (∀ p ∈ Gen.directionMap, [p.2.1, p.2.2] ∈ mooreOffsets 2) ∧
    dirVec "up" = some [-1, 0] ∧ dirVec "Down" = some [1, 0] ∧ dirVec "LEFT" = some [0, -1] ∧
    dirVec "right" = some [0, 1] ∧ dirVec "back" = none ∧
    (∀ p ∈ [("n", "s"), ("e", "w"), ("ne", "sw"), ("nw", "se"), ("north", "south"),
        ("east", "west"), ("up", "down"), ("left", "right"), ("upleft", "downright"), ("upright", "downleft"),
        ("northeast", "southwest"), ("northwest", "southeast")],
      (dirVec p.1).map negv = dirVec p.2) := by
  refine ⟨gen_directions.1, gen_directions.2, by decide, by decide, by decide, by decide, by decide, by decide⟩

/-- The bookkeeping behind the theorems above, for every history: the full invariant of the model. -/
theorem C06_invariant_all_histories {sp : Space} (hsp : SpaceOK sp) (ops : List Op) :
    Inv sp (run sp (init sp) ops) := run_inv hsp.closed (inv_init sp) ops

/-- Connection edits (`Cell.connect` / `Cell.disconnect`) and capacity writes (`cell.capacity = k`) after construction:
    for every history of agent operations interleaved with them, on every well-formed space, the edited space is still
    well-formed (its connections lead to its own cells), it has the cells and kind it was built with — and the capacities it
    was built with if the history writes none (what a write changes: `C06_capacity_write`) —, the occupancy
    state is `Reachable` (so every theorem of this file holds for it, with relative moves following the edited
    connections and placements asking the capacities as they are now) and satisfies the full invariant; histories without
    edits are the special case.  (An edit never touches the occupancy state — by construction of `dstep`; the check compares
    the full observation, capacities included, after every capacity write and after the next operation.) -/
theorem C06_histories_with_connection_edits {sp0 : Space} (hsp0 : SpaceOK sp0) (ops : List DOp) :
    let r := drun sp0 (init sp0) ops
    SpaceOK r.1 ∧ Reachable r.1 r.2 ∧ Inv r.1 r.2 ∧
    r.1.cells = sp0.cells ∧ ((∀ o ∈ ops, o.isSetCap = false) → r.1.cap = sp0.cap) ∧ r.1.isGrid = sp0.isGrid ∧
    (∀ l : List Op, drun sp0 (init sp0) (l.map .op) = (sp0, run sp0 (init sp0) l)) := by
  obtain ⟨h1, h2, h3, h4, h5⟩ := drun_inv hsp0 (inv_init sp0) ops
  exact ⟨h1, ⟨sp0, ops, hsp0, rfl⟩, h2, h3, h5, h4, fun l => drun_ops sp0 (init sp0) l⟩

/-- `Grid2DMovingAgent` direction names on a `HexGrid` (tables and `DIRECTION_MAP` as the source has them now):
    the connection keys of a hex cell depend on the parity of its column `j = coordinate[1]`, so
    (1) the cardinal names (n/s/e/w and synonyms) name a key at every cell, the names with a row step of −1 combined
    with a column step (ne, nw, …) only in odd columns, those with a row step of +1 (se, sw, …) only in even columns;
    (2) `move_relative(d)` / one step of `move` from cell (i, j) finds a cell iff `d` is in the table of j's parity
    and the target — wrapped on a torus — is in bounds, and then it is that target;
    (3) on a hex grid without wrapping a diagonal name never carries two steps (each diagonal step changes the
    column parity): `move(name, k)` with k ≥ 2 raises "No cell in direction" from every cell and changes nothing. -/
theorem C06_hex_direction_names :
    (∀ j : Int, ∀ p ∈ Gen.directionMap,
      ((p.2.1, p.2.2) ∈ hexTable j ↔
        (p.2.1 = 0 ∨ p.2.2 = 0) ∨ (j % 2 ≠ 0 ∧ p.2.1 = -1) ∨ (j % 2 = 0 ∧ p.2.1 = 1))) ∧
    (∀ (h w : Nat) (torus : Bool) (cap : Option Nat) (i j : Int) (d : Key) (c' : Cid),
      connGet (gridSpace .hex [h, w] torus cap) [i, j] d = some c' ↔
        ∃ di dj ni nj, d = [di, dj] ∧ c' = [ni, nj] ∧ (di, dj) ∈ hexTable j ∧
          connect2d h w torus i j di dj = some (ni, nj)) ∧
    (∀ (h w : Nat) (cap : Option Nat) (s : State) (a : Aid) (name : String) (k : Int) (di dj : Int) (c : Cid),
      s.kinds[a]? = some .grid2d → dirVec name = some [di, dj] → di ≠ 0 → dj ≠ 0 → 2 ≤ k → s.cellOf a = some c →
      step (gridSpace .hex [h, w] false cap) s (.gridMove a name k) = (s, .err .noCell)) := by
  refine ⟨fun j => ?_, fun h w torus cap i j d c' => ?_, fun h w cap s a name k di dj c hk hd hi hj h2 hc => ?_⟩
  · rcases Int.emod_two_eq j with h0 | h1
    · simp only [hexTable, h0]; decide
    · simp only [hexTable, h1]; decide
  · show assocGet (gridConn .hex [h, w] torus [i, j]) d = some c' ↔ _
    rw [assocGet_eq_some_iff (gridConn_keysNodup .hex [h, w] torus [i, j])]
    exact mem_hexConn h w torus i j d c'
  · have hk2 : k.toNat = (k.toNat - 2) + 2 := by omega
    have hw := hex_diag_walk h w cap [di, dj] di dj rfl hi hj (k.toNat - 2) c
    rw [← hk2] at hw
    have hk0 : ¬ k ≤ 0 := by omega
    simp only [step, hk, hd, hk0, if_false, hc, hw]

/-! ### the `CellCollection` API (`all_cells`, `empties`, neighbourhoods, selections) -/

/-- The agent views of a collection mirror `agent.cell`: after any history, for every collection of distinct
    cells — `all_cells`, `empties`, every (memoised) neighbourhood at every radius, every selection out of these —
    `coll.agents` is the cells' agent lists *as they are now*, lists nobody twice, lists exactly the agents listed
    by a cell of the collection, i.e. (for agents still in the model) exactly those whose `cell` is in the
    collection; `coll[cell]` answers only for cells of the collection, with a duplicate-free list of agents that all
    report that cell and all belong to `coll.agents`. -/
theorem C06_collection_views {sp : Space} (hsp : SpaceOK sp) {s : State} (h : Reachable sp s) :
    (∀ cells : Coll, cells.Nodup →
      (collAgents s cells).Nodup ∧
      (∀ a, a ∈ collAgents s cells ↔ ∃ c ∈ cells, a ∈ s.occ c) ∧
      (∀ a, a ∈ s.registry → (a ∈ collAgents s cells ↔ ∃ c ∈ cells, s.cellOf a = some c)) ∧
      (∀ c l, collGet s cells c = some l →
        c ∈ cells ∧ l.Nodup ∧ ∀ a ∈ l, s.cellOf a = some c ∧ a ∈ collAgents s cells)) ∧
    (sp.cells.Nodup ∧ (empties sp s).Nodup ∧
      (∀ r ic c, (nbhd (nbOfConn sp.conn) r ic c).Nodup) ∧
      (∀ f am (cells : Coll), cells.Nodup → (select f am cells).Nodup)) := by
  have hi := reachable_inv hsp h
  refine ⟨fun cells hnd => ⟨collAgents_nodup hi hnd, mem_collAgents s cells, fun a hr => ?_, fun c l hg => ?_⟩,
    hsp.nodup, hsp.nodup.filter _, fun r ic c => nbhd_nodup _ r ic c,
    fun f am cells hnd => (select_sublist f am cells).nodup hnd⟩
  · rw [mem_collAgents]
    constructor
    · rintro ⟨c, hc, hm⟩; exact ⟨c, hc, hi.mem_cell a c hm⟩
    · rintro ⟨c, hc, hco⟩
      rcases hi.cell_mem a c hco with h1 | ⟨_, h2⟩
      · exact ⟨c, hc, h1⟩
      · exact absurd hr h2
  · unfold collGet at hg
    split at hg
    · rename_i hc
      simp only [Option.some.injEq] at hg
      subst hg
      exact ⟨hc, hi.nodup c, fun a ha => ⟨hi.mem_cell a c ha, (mem_collAgents s cells a).mpr ⟨c, hc, ha⟩⟩⟩
    · cases hg

/-- `select(filter_func, at_most)` on any collection, for every filter function and every bound: the result is
    the matching cells in the collection's order, cut after the first `limit` of them, where `limit` (`AtMost.limit`)
    is the int itself (nothing for an int ≤ 0), `int(len * at_most)` for a float ≤ 1 and the float rounded up above 1;
    so it is a sub-collection in the same order, every cell in it passes the filter, it never holds more than `limit`
    cells, without a bound it holds *every* matching cell; and `space.empties` is `all_cells.select(is_empty)`. -/
theorem C06_select_spec (f : Option (Cid → Bool)) (am : AtMost) (cells : Coll) :
    (select f am cells = match am.limit cells.length with
      | none => cells.filter (selFilter f)
      | some l => (cells.filter (selFilter f)).take l) ∧
    (select f am cells).Sublist cells ∧
    (∀ c ∈ select f am cells, c ∈ cells ∧ selFilter f c = true) ∧
    (∀ l, am.limit cells.length = some l → (select f am cells).length ≤ l) ∧
    (∀ c, c ∈ select f .inf cells ↔ c ∈ cells ∧ selFilter f c = true) ∧
    (∀ sp s, empties sp s = select (some (isEmpty s)) .inf sp.cells) := by
  refine ⟨select_eq f am cells, select_sublist f am cells, fun c hc => select_mem_filter f am cells hc,
    fun l hl => select_length_le f am cells hl, fun c => ?_, fun sp s => ?_⟩
  · rw [select_eq]; simp [AtMost.limit, List.mem_filter]
  · rw [select_eq]; simp [AtMost.limit, empties, selFilter]

/-- `select_random_cell` / `select_random_agent` on any collection (C01: which draws, over which population):
    the population is the collection's cell list / its chained agent lists, in order; on an empty population
    IndexError is raised and no draw is made; otherwise exactly one draw `d` is consumed — whatever else the
    generator holds — and the element at position `d % len` is returned; a selected agent is listed by a cell
    of the collection and (after any history) reports that cell. -/
theorem C06_select_random_spec {sp : Space} (hsp : SpaceOK sp) {s : State} (h : Reachable sp s) (cells : Coll)
    (draws : List Nat) :
    (selectRandomCell cells draws = .err .index ↔ cells = []) ∧
    (selectRandomAgent s cells draws = .err .index ↔ collAgents s cells = []) ∧
    (∀ c pos used, selectRandomCell cells draws = .ok c pos used →
      used = 1 ∧ cells[pos]? = some c ∧ c ∈ cells ∧ ∃ d ds, draws = d :: ds ∧ pos = d % cells.length) ∧
    (∀ a pos used, selectRandomAgent s cells draws = .ok a pos used →
      used = 1 ∧ (collAgents s cells)[pos]? = some a ∧
      (∃ d ds, draws = d :: ds ∧ pos = d % (collAgents s cells).length) ∧
      ∃ c ∈ cells, a ∈ s.occ c ∧ s.cellOf a = some c) ∧
    (∀ d ds, cells ≠ [] → ∃ c, selectRandomCell cells (d :: ds) = .ok c (d % cells.length) 1) ∧
    (∀ d ds, collAgents s cells ≠ [] →
      ∃ a, selectRandomAgent s cells (d :: ds) = .ok a (d % (collAgents s cells).length) 1) := by
  have hi := reachable_inv hsp h
  refine ⟨pick_err_index, pick_err_index, fun c pos used hp => pick_ok hp, fun a pos used hp => ?_,
    fun d ds hne => ?_, fun d ds hne => ?_⟩
  · obtain ⟨h1, h2, h3, h4⟩ := pick_ok hp
    obtain ⟨c, hc, hm⟩ := (mem_collAgents s cells a).mp h3
    exact ⟨h1, h2, h4, c, hc, hm, hi.mem_cell a c hm⟩
  · obtain ⟨x, _, hx⟩ := pick_cons hne d ds; exact ⟨x, hx⟩
  · obtain ⟨x, _, hx⟩ := pick_cons hne d ds; exact ⟨x, hx⟩

/-- `cell.empty` on a space that is not a grid (`Network`, `VoronoiGrid`: no property layer, a plain instance attribute
    written by `add_agent` / `remove_agent`): after any history it either does not exist yet — then the cell has never been
    entered and is empty — or holds `is_empty`. -/
theorem C06_cell_empty_attribute {sp : Space} (hsp : SpaceOK sp) {s : State} (h : Reachable sp s) (c : Cid) :
    (s.flag c = none → sp.isGrid = false ∧ s.occ c = []) ∧
    (∀ b, s.flag c = some b → b = isEmpty s c) := by
  have hi := reachable_inv hsp h
  rcases hi.flag c with h1 | ⟨h1, h2, h3⟩
  · constructor
    · intro hn
      rw [h1] at hn
      exact absurd hn (by simp)
    · intro b hb
      rw [h1] at hb
      simpa [isEmpty] using hb.symm
  · constructor
    · intro _
      exact ⟨h1, h3⟩
    · intro b hb
      rw [h2] at hb
      exact absurd hb (by simp)

/-! ### exact outcomes (what a placing call does, and exactly when it is refused) -/

/-- `a.cell = space[c]` (= `a.move_to(space[c])`) for a CellAgent / Grid2DMovingAgent, after any history, for any cell of the
    space: it is refused — "Cell is full", nothing changed — **iff** `c` is not the agent's own cell and `c` has a capacity
    `n` and holds `n` agents or more (more: only after `cell.capacity` was lowered under the occupancy; so never for capacity
    `None`, always for capacity 0, and never when re-entering the own, possibly full or over-full, cell: repair SC4); otherwise it returns, the agent reports `c`, `c`'s list is its old list without the agent plus
    the agent at the end, every other list is the old one without the agent (only the cell left changes), no other agent's
    cell changes and the model's registry is untouched. -/
theorem C06_assignment_exact {sp : Space} (hsp : SpaceOK sp) {s : State} (h : Reachable sp s) (a : Aid) (k : AKind)
    (hk : s.kinds[a]? = some k) (hmob : k ≠ .fixed) (c : Cid) (hc : c ∈ sp.cells) :
    (step sp s (.moveTo a c) = step sp s (.setCell a (some c))) ∧
    ((step sp s (.setCell a (some c))).2 = .err .full ↔
      s.cellOf a ≠ some c ∧ ∃ n, sp.cap c = some n ∧ n ≤ (s.occ c).length) ∧
    ((step sp s (.setCell a (some c))).2 = .err .full → (step sp s (.setCell a (some c))).1 = s) ∧
    ((step sp s (.setCell a (some c))).2 ≠ .err .full →
      (step sp s (.setCell a (some c))).2 = .ok ∧
      (step sp s (.setCell a (some c))).1.cellOf a = some c ∧
      (step sp s (.setCell a (some c))).1.occ c = (s.occ c).erase a ++ [a] ∧
      (∀ c', c' ≠ c → (step sp s (.setCell a (some c))).1.occ c' = (s.occ c').erase a) ∧
      (∀ b, b ≠ a → (step sp s (.setCell a (some c))).1.cellOf b = s.cellOf b) ∧
      (step sp s (.setCell a (some c))).1.registry = s.registry ∧
      (step sp s (.setCell a (some c))).1.kinds = s.kinds) := by
  have hi := reachable_inv hsp h
  have hm : ∀ o, s.cellOf a = some o → a ∈ s.occ o := fun o ho => hi.mobile_mem hk hmob ho
  have hset : step sp s (.setCell a (some c)) = setCellMobile sp s a (some c) := by
    simp only [step, hk, hc, if_true]
    cases k <;> simp_all [setCell]
  have hmove : step sp s (.moveTo a c) = setCellMobile sp s a (some c) := by
    simp only [step, hk, hc, if_true]
    cases k <;> simp_all [setCell]
  rw [hmove, hset, setCellMobile_eq hi hm]
  have hff := fullFor_iff sp s c
  have hother : ∀ c', s.cellOf a ≠ some c' → (s.occ c').erase a = s.occ c' := by
    intro c' hne
    apply List.erase_of_not_mem
    intro hmem
    exact hne (hi.mem_cell a c' hmem)
  refine ⟨rfl, ?_⟩
  cases ho : s.cellOf a with
  | none =>
    have hnc : (s.occ c).erase a = s.occ c := hother c (by rw [ho]; simp)
    by_cases hf : fullFor sp s c = true
    · have hn := hff.mp hf
      simp [hf, hn]
    · have hf' : fullFor sp s c = false := by simpa using hf
      have hn : ¬ ∃ n, sp.cap c = some n ∧ n ≤ (s.occ c).length := fun hx => hf (hff.mpr hx)
      simp only [hf', Bool.false_eq_true, if_false]
      refine ⟨⟨fun hx => by simp at hx, fun hx => absurd hx.2 hn⟩, fun hx => by simp at hx, fun _ => ?_⟩
      refine ⟨trivial, by simp [place, upd_same], by simp [place, upd_same, hnc], fun c' hc' => ?_, fun b hb => ?_, rfl, rfl⟩
      · simp only [place, upd_other _ _ _ hc']
        exact (hother c' (by rw [ho]; simp)).symm
      · simp only [place, upd_other _ _ _ hb]
  | some o =>
    by_cases hco : c = o
    · subst hco
      simp only [if_true]
      refine ⟨⟨fun hx => by simp at hx, fun hx => absurd rfl hx.1⟩, fun hx => by simp at hx, fun _ => ?_⟩
      refine ⟨trivial, by simp [place, upd_same], by simp [place, unplace, upd_same], fun c' hc' => ?_, fun b hb => ?_, rfl, rfl⟩
      · simp only [place, unplace, upd_other _ _ _ hc']
        exact (hother c' (by rw [ho]; simpa using fun e => hc' e.symm)).symm
      · simp only [place, unplace, upd_other _ _ _ hb]
    · have hne : (some o : Option Cid) ≠ some c := by simpa using fun e => hco e.symm
      have hnc : (s.occ c).erase a = s.occ c := hother c (by rw [ho]; exact hne)
      simp only [hco, if_false]
      by_cases hf : fullFor sp s c = true
      · have hn := hff.mp hf
        simp [hf, hn, hne]
      · have hf' : fullFor sp s c = false := by simpa using hf
        have hn : ¬ ∃ n, sp.cap c = some n ∧ n ≤ (s.occ c).length := fun hx => hf (hff.mpr hx)
        simp only [hf', Bool.false_eq_true, if_false]
        refine ⟨⟨fun hx => by simp at hx, fun hx => absurd hx.2 hn⟩, fun hx => by simp at hx, fun _ => ?_⟩
        refine ⟨trivial, by simp [place, upd_same], ?_, fun c' hc' => ?_, fun b hb => ?_, rfl, rfl⟩
        · simp only [place, unplace, upd_same, upd_other _ _ _ hco, hnc]
        · simp only [place, upd_other _ _ _ hc']
          by_cases hc'o : c' = o
          · subst hc'o; simp [unplace, upd_same]
          · simp only [unplace, upd_other _ _ _ hc'o]
            exact (hother c' (by rw [ho]; simpa using fun e => hc'o e.symm)).symm
        · simp only [place, unplace, upd_other _ _ _ hb]

/-- `a.cell = None` on a mobile agent, after any history: always accepted; the agent reports no cell and is in no list,
    every list is the old one without the agent, nobody else is touched.  `FixedAgent`: `a.cell = space[c]` is refused with
    "Cannot move agent in FixedCell" iff the agent has ever been placed (also after its `remove()`), else with "Cell is
    full" iff the cell holds as many agents as its capacity `n` or more, and accepted iff neither applies (no third refusal): then
    the agent is appended to the cell's list. -/
theorem C06_unplace_and_fixed_exact {sp : Space} (hsp : SpaceOK sp) {s : State} (h : Reachable sp s) (a : Aid) (k : AKind)
    (hk : s.kinds[a]? = some k) :
    (k ≠ .fixed →
      (step sp s (.setCell a none)).2 = .ok ∧ (step sp s (.setCell a none)).1.cellOf a = none ∧
      (∀ c, (step sp s (.setCell a none)).1.occ c = (s.occ c).erase a ∧ a ∉ (step sp s (.setCell a none)).1.occ c) ∧
      (∀ b, b ≠ a → (step sp s (.setCell a none)).1.cellOf b = s.cellOf b) ∧
      (step sp s (.setCell a none)).1.registry = s.registry) ∧
    (k = .fixed → ∀ c, c ∈ sp.cells →
      ((step sp s (.setCell a (some c))).2 = .err .fixed ↔ s.cellOf a ≠ none) ∧
      ((step sp s (.setCell a (some c))).2 = .err .full ↔
        s.cellOf a = none ∧ ∃ n, sp.cap c = some n ∧ n ≤ (s.occ c).length) ∧
      ((step sp s (.setCell a (some c))).2 = .ok ↔
        s.cellOf a = none ∧ ¬ ∃ n, sp.cap c = some n ∧ n ≤ (s.occ c).length) ∧
      ((step sp s (.setCell a (some c))).2 ≠ .ok → (step sp s (.setCell a (some c))).1 = s) ∧
      ((step sp s (.setCell a (some c))).2 = .ok →
        (step sp s (.setCell a (some c))).1.cellOf a = some c ∧
        (step sp s (.setCell a (some c))).1.occ c = s.occ c ++ [a] ∧
        (∀ c', c' ≠ c → (step sp s (.setCell a (some c))).1.occ c' = s.occ c') ∧
        (∀ b, b ≠ a → (step sp s (.setCell a (some c))).1.cellOf b = s.cellOf b))) := by
  have hi := reachable_inv hsp h
  have hother : ∀ c', s.cellOf a ≠ some c' → (s.occ c').erase a = s.occ c' := by
    intro c' hne
    apply List.erase_of_not_mem
    intro hmem
    exact hne (hi.mem_cell a c' hmem)
  constructor
  · intro hmob
    have hm : ∀ o, s.cellOf a = some o → a ∈ s.occ o := fun o ho => hi.mobile_mem hk hmob ho
    have hset : step sp s (.setCell a none) = setCellMobile sp s a none := by
      simp only [step, hk]
      cases k <;> simp_all [setCell]
    rw [hset, setCellMobile_eq hi hm]
    cases ho : s.cellOf a with
    | none =>
      refine ⟨rfl, ho, fun c => ⟨(hother c (by rw [ho]; simp)).symm, hi.not_mem_of_none ho c⟩, fun _ _ => rfl, rfl⟩
    | some o =>
      refine ⟨rfl, by simp [unplace, upd_same], fun c => ?_, fun b hb => by simp only [unplace, upd_other _ _ _ hb], rfl⟩
      by_cases hco : c = o
      · subst hco
        simp only [unplace, upd_same, true_and]
        exact fun hx => ((hi.nodup c).mem_erase_iff.mp hx).1 rfl
      · have hne : s.cellOf a ≠ some c := by rw [ho]; simpa using fun e => hco e.symm
        simp only [unplace, upd_other _ _ _ hco]
        exact ⟨(hother c hne).symm, fun hx => hne (hi.mem_cell a c hx)⟩
  · intro hfix c hc
    subst hfix
    have hset : step sp s (.setCell a (some c)) = setCellFixed sp s a (some c) := by
      simp only [step, hk, hc, if_true, setCell]
    rw [hset, setCellFixed_eq hi]
    have hff := fullFor_iff sp s c
    cases ho : s.cellOf a with
    | some o => simp
    | none =>
      by_cases hf : fullFor sp s c = true
      · have hn := hff.mp hf
        simp [hf, hn]
      · have hf' : fullFor sp s c = false := by simpa using hf
        have hn : ¬ ∃ n, sp.cap c = some n ∧ n ≤ (s.occ c).length := fun hx => hf (hff.mpr hx)
        simp only [hf', Bool.false_eq_true, if_false]
        refine ⟨by simp, ⟨fun hx => by simp at hx, fun hx => absurd hx.2 hn⟩, ⟨fun _ => ⟨trivial, hn⟩, fun _ => trivial⟩,
          fun hx => by simp at hx, fun _ => ?_⟩
        refine ⟨by simp [place, upd_same], by simp [place, upd_same], fun c' hc' => ?_, fun b hb => ?_⟩
        · simp only [place, upd_other _ _ _ hc']
        · simp only [place, upd_other _ _ _ hb]

/-- `select_random_empty_cell`, exactly (C06's "only ever returns a cell with no agents" is `C06_select_random_empty_cell`):
    *rejection sampling* (a grid with `_try_random`, the default): the cells named by the draws are tried in order and the
    first one without agents is returned — never an occupied one, never IndexError; if every drawn cell is occupied the
    script is exhausted (the real loop goes on drawing).  *List strategy* (`Network`, `VoronoiGrid`, a grid with
    `_try_random = False`): IndexError, without a draw, iff no cell is empty; otherwise one draw `d` returns the
    `d % len`-th cell of `empties` (the cells without agents, in the space's order). -/
theorem C06_select_random_empty_exact (sp : Space) (s : State) (draws : List Nat) :
    ((sp.isGrid && s.tryRandom) = true → sp.cells ≠ [] →
      (step sp s (.randEmpty draws)).2 =
        match (drawn sp.cells draws).find? (fun c => (s.occ c).isEmpty) with
        | some c => .okCell c
        | none => .err .script) ∧
    ((sp.isGrid && s.tryRandom) = false →
      ((step sp s (.randEmpty draws)).2 = .err .index ↔ ∀ c ∈ sp.cells, s.occ c ≠ []) ∧
      (∀ d ds, draws = d :: ds → (∃ c ∈ sp.cells, s.occ c = []) →
        ∃ c, (sp.cells.filter fun c => (s.occ c).isEmpty)[d % (sp.cells.filter fun c => (s.occ c).isEmpty).length]? = some c ∧
          (step sp s (.randEmpty draws)).2 = .okCell c)) := by
  constructor
  · intro hg hne
    simp only [step, hg, if_true]
    exact tryRandomLoop_eq s sp.cells hne draws
  · intro hg
    have hstep : (step sp s (.randEmpty draws)).2 = choice (empties sp s) draws := by
      simp only [step, hg, Bool.false_eq_true, if_false]
    rw [hstep]
    have hemp : empties sp s = sp.cells.filter fun c => (s.occ c).isEmpty := rfl
    constructor
    · unfold choice
      by_cases he : (empties sp s).isEmpty = true
      · simp only [he, if_true, true_iff]
        intro c hc hocc
        have : c ∈ empties sp s := by simp [empties, isEmpty, hc, hocc]
        rw [List.isEmpty_iff.mp he] at this
        cases this
      · simp only [he, Bool.false_eq_true, if_false]
        have hne : empties sp s ≠ [] := fun e => he (by simp [e])
        obtain ⟨c, hcm⟩ := List.exists_mem_of_ne_nil _ hne
        have hc2 : c ∈ sp.cells ∧ s.occ c = [] := by simpa [empties, isEmpty] using hcm
        constructor
        · intro hx
          exfalso
          cases draws with
          | nil => simp at hx
          | cons d ds =>
            have hpos : 0 < (empties sp s).length := List.length_pos_iff.mpr hne
            simp [draw, Nat.mod_lt _ hpos] at hx
        · intro hall
          exact absurd hc2.2 (hall c hc2.1)
    · intro d ds hd ⟨c, hc, hocc⟩
      subst hd
      have hmem : c ∈ empties sp s := by simp [empties, isEmpty, hc, hocc]
      have hne : empties sp s ≠ [] := List.ne_nil_of_mem hmem
      have hpos : 0 < (empties sp s).length := List.length_pos_iff.mpr hne
      have hie : (empties sp s).isEmpty = false := by
        cases hl : empties sp s with
        | nil => exact absurd hl hne
        | cons x t => rfl
      refine ⟨(empties sp s)[d % (empties sp s).length]'(Nat.mod_lt _ hpos), ?_, ?_⟩
      · rw [← hemp]; simp [Nat.mod_lt _ hpos]
      · simp [choice, hie, draw, Nat.mod_lt _ hpos]

theorem removeEach_listed {sp : Space} (hsp : SpaceOK sp) (c : Cid) (l : List Aid) :
    ∀ {s : State}, Reachable sp s → s.occ c = l →
      (removeEach sp s l).2 = .ok ∧ (removeEach sp s l).1.occ c = [] ∧
      (∀ c', c' ≠ c → (removeEach sp s l).1.occ c' = s.occ c') ∧
      (∀ b, b ∈ (removeEach sp s l).1.registry ↔ b ∈ s.registry ∧ b ∉ l) ∧
      Reachable sp (removeEach sp s l).1 := by
  induction l with
  | nil =>
    intro s h hl
    exact ⟨rfl, hl, fun _ _ => rfl, fun b => by simp [removeEach], h⟩
  | cons a t ih =>
    intro s h hl
    have hi := reachable_inv hsp h
    have hm : a ∈ s.occ c := by rw [hl]; simp
    obtain ⟨hok, hocc, hreg⟩ := remove_listed hi hm
    have hr' : Reachable sp (step sp s (.remove a)).1 := h.step (.remove a)
    have hpair : step sp s (.remove a) = ((step sp s (.remove a)).1, .ok) := by
      rw [← hok]
    have hunf : removeEach sp s (a :: t) = removeEach sp (step sp s (.remove a)).1 t := by
      rw [removeEach, hpair]
    have hl' : (step sp s (.remove a)).1.occ c = t := by
      rw [hocc c, hl]; simp
    obtain ⟨h1, h2, h3, h4, h5⟩ := ih hr' hl'
    rw [hunf]
    refine ⟨h1, h2, fun c' hc' => ?_, fun b => ?_, h5⟩
    · rw [h3 c' hc', hocc c']
      apply List.erase_of_not_mem
      intro hmem
      have e1 := hi.mem_cell a c' hmem
      have e2 := hi.mem_cell a c hm
      rw [e1] at e2
      exact hc' (by simpa using e2)
    · rw [h4 b, hreg, hi.reg_nodup.mem_erase_iff]
      simp only [List.mem_cons, not_or]
      constructor
      · rintro ⟨⟨h6, h7⟩, h8⟩; exact ⟨h7, h6, h8⟩
      · rintro ⟨h7, h6, h8⟩; exact ⟨⟨h6, h7⟩, h8⟩

/-- Emptying a cell by `for a in cell.agents: a.remove()`, after any history, for any cell and whatever agents (mobile,
    fixed, still in the model or not) it lists: every `remove()` returns, the cell ends up empty, no other cell's list
    changes, and exactly the agents the cell listed have left the model's registry.  (That `cell.agents` is a copy — so the
    loop sees every agent although they leave the cell's own list meanwhile — is the tie's `agentscopy` / `clearcell` lines.) -/
theorem C06_clear_cell {sp : Space} (hsp : SpaceOK sp) {s : State} (h : Reachable sp s) (c : Cid) :
    (clearCell sp s c).2 = .ok ∧ (clearCell sp s c).1.occ c = [] ∧
    (∀ c', c' ≠ c → (clearCell sp s c).1.occ c' = s.occ c') ∧
    (∀ b, b ∈ (clearCell sp s c).1.registry ↔ b ∈ s.registry ∧ b ∉ s.occ c) ∧
    Reachable sp (clearCell sp s c).1 :=
  removeEach_listed hsp c (s.occ c) h rfl

/-! ### non-vacuity -/

-- a 2×2 Moore torus with capacity 1: place, rejected move into a full cell (S11 witness: nothing changes),
-- re-entering the own full cell is accepted
private def sp0 : Space := gridSpace .moore [2, 2] true (some 1)
private def ops0 : List Op :=
  [.new .cell, .new .cell, .setCell 0 (some [0, 0]), .setCell 1 (some [1, 1]), .setCell 0 (some [1, 1])]
example : SpaceOK sp0 := gridSpace_ok _ _ _ _ (by simp)
example : (step sp0 (run sp0 (init sp0) ops0) (.setCell 0 (some [1, 1]))).2 = .err .full := by decide
example : (run sp0 (init sp0) ops0).cellOf 0 = some [0, 0] ∧ (run sp0 (init sp0) ops0).occ [0, 0] = [0] ∧
    (run sp0 (init sp0) ops0).occ [1, 1] = [1] ∧ (run sp0 (init sp0) ops0).registry = [0, 1] := by decide
example : (step sp0 (run sp0 (init sp0) ops0) (.setCell 0 (some [0, 0]))).2 = .ok := by decide
example : (step sp0 (run sp0 (init sp0) ops0) (.randEmpty [0, 3, 1])).2 = .okCell [0, 1] := by decide
example : (step sp0 (run sp0 (init sp0) ops0) (.gridMove 0 "N" 1)).2 = .err .attr := by decide

-- connection edits: a long-range connection added to cell (0,0) of a 3×3 grid under a new key is followed by
-- `move_relative`; after `disconnect` the key is gone again; edits to coordinates that are no cells are rejected
private def sp1 : Space := gridSpace .vn [3, 3] false none
private def dops1 : List DOp :=
  [.op (.new .cell), .op (.setCell 0 (some [0, 0])), .connect [0, 0] [2, 2] (some [7, 7]), .op (.moveRel 0 [7, 7])]
example : SpaceOK sp1 := gridSpace_ok _ _ _ _ (by simp)
example : (drun sp1 (init sp1) dops1).2.cellOf 0 = some [2, 2] ∧ (drun sp1 (init sp1) dops1).2.occ [2, 2] = [0] := by decide
example : (step sp1 (run sp1 (init sp1) [.new .cell, .setCell 0 (some [0, 0])]) (.moveRel 0 [7, 7])).2 = .err .noCell := by decide
example : (dstep (drun sp1 (init sp1) dops1).1 (drun sp1 (init sp1) dops1).2 (.connect [0, 0] [3, 3] none)).2 = .err .key := by decide
example : ((drun sp1 (init sp1) (dops1 ++ [.disconnect [0, 0] [2, 2]])).1.conn [0, 0]).map (·.1) = [[0, 1], [1, 0]] := by decide
example : (editSp (vorSpace 3 [(0, 1, 2)] none) (.connect [0] [1] none)).2 = .err .type := by decide

-- default Voronoi capacities: areas 1/250 and 7/1000 give capacities 2 and 3; the third agent is refused by cell 0
private def vd : Space := vorSpaceAreas 3 [(0, 1, 2)] [(1, 250), (7, 1000), (5, 1)]
private def vops : List Op := [.new .cell, .new .cell, .new .cell, .setCell 0 (some [0]), .setCell 1 (some [0])]
example : vd.cap [0] = some 2 ∧ vd.cap [1] = some 3 ∧ vd.cap [2] = some 2500 := by decide
example : (step vd (run vd (init vd) vops) (.setCell 2 (some [0]))).2 = .err .full ∧
    (step vd (run vd (init vd) vops) (.setCell 2 (some [1]))).2 = .ok ∧ isFull vd (run vd (init vd) vops) [0] = true := by decide

-- hex: "ne" is a key in odd columns only; two diagonal steps are impossible, one is fine; cardinal names work everywhere
private def hx : Space := gridSpace .hex [4, 4] false none
private def hops : List Op := [.new .grid2d, .setCell 0 (some [2, 1])]
example : dirVec "NE" = some [-1, 1] ∧ (step hx (run hx (init hx) hops) (.gridMove 0 "NE" 1)).2 = .ok ∧
    (step hx (run hx (init hx) hops) (.gridMove 0 "NE" 1)).1.cellOf 0 = some [1, 2] ∧
    (step hx (run hx (init hx) hops) (.gridMove 0 "NE" 2)).2 = .err .noCell ∧
    (step hx (run hx (init hx) hops) (.gridMove 0 "se" 1)).2 = .err .noCell ∧
    (step hx (run hx (init hx) hops) (.gridMove 0 "north" 2)).1.cellOf 0 = some [0, 1] := by decide
-- … whereas on a torus of odd width the wrap keeps the parity and two diagonal steps can succeed
example : walk (gridSpace .hex [4, 3] true none) [1, 1] 2 [0, 2] = some [2, 1] := by decide

-- collections on the 2×2 torus of `ops0` (agents 0 at (0,0), 1 at (1,1), capacity 1)
private def s0 : State := run sp0 (init sp0) ops0
example : Reachable sp0 s0 := reachable_of_run (gridSpace_ok _ _ _ _ (by simp)) ops0
example : collAgents s0 sp0.cells = [0, 1] ∧ empties sp0 s0 = [[0, 1], [1, 0]] := by decide
example : select (some (isFull sp0 s0)) (.frac 1 2) sp0.cells = [[0, 0], [1, 1]] ∧
    select (some (isFull sp0 s0)) (.frac 1 4) sp0.cells = [[0, 0]] ∧ select none (.int (-1)) sp0.cells = [] ∧
    select none (.frac 5 2) sp0.cells = [[0, 0], [0, 1], [1, 0]] ∧ selectIsSelf none .inf = true := by decide
example : selectRandomCell (empties sp0 s0) [7, 3] = .ok [1, 0] 1 1 ∧ selectRandomAgent s0 sp0.cells [6] = .ok 0 0 1 ∧
    selectRandomAgent s0 (empties sp0 s0) [6] = .err .index ∧ selectRandomCell sp0.cells [] = .err .script := by decide
example : selectRandomAgent s0 (nbhd (nbOfConn sp0.conn) 1 false [0, 0]) [5] = .ok 1 0 1 := by decide

-- exact outcomes: in `s0` (capacity 1, agent 0 at (0,0), agent 1 at (1,1)) agent 0 is refused by (1,1), accepted by its own
-- full cell and by the free cell (0,1), which then lists it while (0,0) is empty again
example : s0.cellOf 0 ≠ some [1, 1] ∧ sp0.cap [1, 1] = some 1 ∧ (s0.occ [1, 1]).length = 1 := by decide
-- capacity writes: two agents in cell (0,0) of an unbounded grid, then `cell.capacity = 1`: both stay (the bound is broken by
-- the program, the history is not `CapRespecting`), the cell refuses a third agent but is not `is_full`; agent 0 re-enters its
-- own over-full cell (repair SC4: accepted, back at the end of the list); after `cell.capacity = None` the third agent is
-- taken; `cell.capacity = 2` on the two occupants is `CapRespecting` and makes the cell `is_full`; no such cell: KeyError
private def w0 : Space := gridSpace .vn [1, 2] false none
private def wops : List DOp :=
  [.op (.new .cell), .op (.new .cell), .op (.new .cell), .op (.setCell 0 (some [0, 0])), .op (.setCell 1 (some [0, 0])),
   .setCap [0, 0] (some 1)]
example : SpaceOK w0 := gridSpace_ok _ _ _ _ (by simp)
example : (drun w0 (init w0) wops).1.cap [0, 0] = some 1 ∧ (drun w0 (init w0) wops).1.cap [0, 1] = none ∧
    (drun w0 (init w0) wops).2.occ [0, 0] = [0, 1] ∧ CapRespecting w0 (init w0) wops = false := by decide
example : fullFor (drun w0 (init w0) wops).1 (drun w0 (init w0) wops).2 [0, 0] = true ∧
    isFull (drun w0 (init w0) wops).1 (drun w0 (init w0) wops).2 [0, 0] = false ∧
    (dstep (drun w0 (init w0) wops).1 (drun w0 (init w0) wops).2 (.op (.setCell 2 (some [0, 0])))).2 = .err .full ∧
    (dstep (drun w0 (init w0) wops).1 (drun w0 (init w0) wops).2 (.op (.setCell 0 (some [0, 0])))).2 = .ok ∧
    (drun w0 (init w0) (wops ++ [.op (.setCell 0 (some [0, 0]))])).2.occ [0, 0] = [1, 0] := by decide
example : (drun w0 (init w0) (wops ++ [.setCap [0, 0] none, .op (.setCell 2 (some [0, 0]))])).2.occ [0, 0] = [0, 1, 2] ∧
    (dstep w0 (init w0) (.setCap [0, 2] (some 1))).2 = .err .key := by decide
example : CapRespecting w0 (init w0) (wops.dropLast ++ [.setCap [0, 0] (some 2)]) = true ∧
    isFull (drun w0 (init w0) (wops.dropLast ++ [.setCap [0, 0] (some 2)])).1 (drun w0 (init w0) (wops.dropLast ++ [.setCap [0, 0] (some 2)])).2 [0, 0] = true := by
  decide
example : (step sp0 s0 (.setCell 0 (some [0, 1]))).1.occ [0, 1] = [0] ∧ (step sp0 s0 (.setCell 0 (some [0, 1]))).1.occ [0, 0] = [] ∧
    (step sp0 s0 (.moveTo 0 [0, 0])).2 = .ok ∧ (step sp0 s0 (.setCell 0 none)).1.cellOf 0 = none := by decide
-- capacity 0 is a capacity (repair SC3; it used to be falsy = unlimited): a capacity-0 cell refuses everybody, stays empty — also in
-- the `empty` layer — and is full; the default capacity of a Voronoi cell of area 1/1000 is 0
private def z0 : Space := gridSpace .vn [1, 2] false (some 0)
example : (step z0 (run z0 (init z0) [.new .cell]) (.setCell 0 (some [0, 0]))).2 = .err .full ∧
    (step z0 (run z0 (init z0) [.new .cell]) (.setCell 0 (some [0, 0]))).1.flag [0, 0] = some true ∧
    isFull z0 (init z0) [0, 0] = true ∧ isEmpty (init z0) [0, 0] = true := by decide
example : (vorSpaceAreas 3 [(0, 1, 2)] [(1, 1000), (7, 1000), (5, 1)]).cap [0] = some 0 := by decide
-- several agents of both kinds in one cell of an unbounded grid
private def z : Space := gridSpace .vn [1, 2] false none
private def zops : List Op := [.new .cell, .new .fixed, .new .cell, .setCell 0 (some [0, 0]), .setCell 1 (some [0, 0]), .setCell 2 (some [0, 0])]
example : (run z (init z) zops).occ [0, 0] = [0, 1, 2] ∧ isFull z (run z (init z) zops) [0, 0] = false := by decide
-- a FixedAgent: placed once, then "Cannot move agent in FixedCell" — also after its `remove()`
example : (step z (run z (init z) zops) (.setCell 1 (some [0, 1]))).2 = .err .fixed ∧
    (step z (run z (init z) (zops ++ [.remove 1])) (.setCell 1 (some [0, 1]))).2 = .err .fixed ∧
    (run z (init z) (zops ++ [.remove 1])).occ [0, 0] = [0, 2] := by decide
-- emptying the cell that lists a CellAgent, a FixedAgent and another CellAgent: all three leave the cell and the model
example : (clearCell z (run z (init z) zops) [0, 0]).2 = .ok ∧ (clearCell z (run z (init z) zops) [0, 0]).1.occ [0, 0] = [] ∧
    (run z (init z) zops).registry = [0, 1, 2] ∧ (clearCell z (run z (init z) zops) [0, 0]).1.registry = [] := by decide
-- `cell.empty` on a Network: absent before the first `add_agent`, then `is_empty` (False while occupied, True after leaving)
private def nw : Space := netSpace false 2 [(0, 1)] none
example : (init nw).flag [0] = none ∧ (run nw (init nw) [.new .cell, .setCell 0 (some [0])]).flag [0] = some false ∧
    (run nw (init nw) [.new .cell, .setCell 0 (some [0]), .setCell 0 (some [1])]).flag [0] = some true ∧
    (run nw (init nw) [.new .cell, .setCell 0 (some [0]), .setCell 0 (some [1])]).flag [1] = some false := by decide
-- rejection sampling: the draws 0, 3, 1 name (0,0), (1,1) — both occupied — and (0,1), which is returned; the list strategy
-- returns the `d % 2`-th of the two empty cells; with every cell occupied it raises IndexError without a draw
example : drawn sp0.cells [0, 3, 1] = [[0, 0], [1, 1], [0, 1]] ∧ (step sp0 s0 (.randEmpty [0, 3, 1])).2 = .okCell [0, 1] ∧
    (step sp0 s0 (.randEmpty [0, 3])).2 = .err .script := by decide
example : (step sp0 { s0 with tryRandom := false } (.randEmpty [5])).2 = .okCell [1, 0] := by decide
example : (step z { run z (init z) (zops ++ [.new .cell, .setCell 3 (some [0, 1])]) with tryRandom := false } (.randEmpty [5])).2
    = .err .index := by decide

end Mesa.Cells
