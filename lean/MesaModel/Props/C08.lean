import MesaModel.Model.Legacy
