import MesaModel.Proofs.LegacyC08
import MesaModel.Proofs.LegacyNetState
import MesaModel.Proofs.LegacyCalls
import MesaModel.Proofs.LegacyIndex
import MesaModel.Proofs.LegacySelect
import MesaModel.Proofs.LegacyDraws
import MesaModel.Proofs.LegacyTruth

/-!
# C08 — legacy grids: pos, cell contents, empties and empty_mask never disagree

Statements only; proofs are in `MesaModel/Proofs/Legacy.lean` and `LegacyC08.lean`.  `Grid` models `SingleGrid` (`multi = false`)
and `MultiGrid` (`multi = true`); the hex variants inherit every call of this property unchanged (the
correspondence check runs all four classes against this one model).  `Inv` (Proofs/LegacyDefs.lean) is the
agreement of the views; `HistOk` is the quantifier's precondition (`place_agent` of an unplaced agent at
in-grid coordinates; every other call unrestricted: arbitrary integer targets, placed or unplaced agents,
any scripts of random draws, reads of `empties` anywhere).
-/
namespace Mesa.Legacy

/-- **All histories keep the views in agreement.**  For every width and height from 1 up, torus on/off,
    both cell disciplines, every cutoff and every history within the quantifier: `agent.pos` is the one
    cell whose content includes the agent, cells hold no duplicates, a SingleGrid cell holds at most one
    agent, `empty_mask` is exactly emptiness, and `_empties`, *if it has been built at any earlier point*,
    is exactly the sorted set of empty in-grid cells. -/
theorem C08_views_agree_all_histories (w h : Int) (hw : 1 ≤ w) (hh : 1 ≤ h) (torus multi : Bool) (cutoff : Nat)
    (ops : List Op) (hok : HistOk (init w h torus multi cutoff) ops) :
    Inv (run (init w h torus multi cutoff) ops) :=
  (run_inv_cfg _ ops (by simp [init]; omega) (by simp [init]; omega) (inv_init w h torus multi cutoff) hok).1

/-- one call keeps the agreement (the induction step, for any state — reachable or not — that satisfies it) -/
theorem C08_step_keeps_agreement (g : Grid) (hw : 0 < g.w) (hh : 0 < g.h) (hi : Inv g) (op : Op) (hok : OpOk g op) :
    Inv (step g op).1 :=
  (step_inv_cfg g op hw hh hi hok).1

/-- `pos` is the one cell holding the agent; `None` exactly when it is in no cell -/
theorem C08_pos_is_the_one_cell (g : Grid) (hi : Inv g) (a : Aid) :
    (∀ p, g.pos a = some p → a ∈ g.content p ∧ ∀ q, a ∈ g.content q → q = p) ∧
    (g.pos a = none ↔ ∀ q, a ∉ g.content q) :=
  c08_pos_is_the_one_cell g hi a

/-- a SingleGrid cell never holds two agents, after any history -/
theorem C08_single_cell_at_most_one (w h : Int) (hw : 1 ≤ w) (hh : 1 ≤ h) (torus : Bool) (cutoff : Nat)
    (ops : List Op) (hok : HistOk (init w h torus false cutoff) ops) (p : Coord) :
    ((run (init w h torus false cutoff) ops).content p).length ≤ 1 :=
  c08_single_cell_at_most_one w h hw hh torus cutoff ops hok p

/-- **`empties` is exact whether or not it was read before**: the set returned is the strictly sorted list of
    the empty in-grid cells; it is the very list a fresh `build_empties` would produce now (so an `_empties`
    built at any earlier point and maintained incrementally since is indistinguishable from one built now);
    reading changes nothing observable and keeps the agreement. -/
theorem C08_empties_exact_built_or_not (g : Grid) (hi : Inv g) :
    SortedSet g.readEmpties.2 ∧ (∀ p, p ∈ g.readEmpties.2 ↔ g.inGrid p ∧ g.content p = []) ∧
    g.readEmpties.2 = g.buildEmpties ∧ ObsEq g g.readEmpties.1 ∧ Inv g.readEmpties.1 :=
  c08_empties_exact_built_or_not g hi

/-- `exists_empty_cells`, `is_cell_empty` and `empty_mask` describe exactly the cells that hold no agent -/
theorem C08_emptiness_views (g : Grid) (hi : Inv g) :
    (g.existsEmpty.2 = true ↔ ∃ p, g.inGrid p ∧ g.content p = []) ∧
    (∀ p, g.isCellEmpty p = true ↔ g.content p = []) ∧
    (∀ p, g.inGrid p → (g.mask p = true ↔ g.content p = [])) :=
  c08_emptiness_views g hi

/-- `grid.agents` lists every placed agent exactly once and nobody else, and is the cell contents in
    iteration order (the `AgentSet` drops nothing) -/
theorem C08_agents_view (g : Grid) (hi : Inv g) :
    g.agentsList.Nodup ∧ (∀ a, a ∈ g.agentsList ↔ g.pos a ≠ none) ∧ g.agentsList = g.allCells.flatMap g.content :=
  ⟨(agentsList_spec g hi).1, (agentsList_spec g hi).2, agentsList_eq g hi⟩

/-- **`grid.agents` shows an agent whatever its truth value** (finding L-AGENTS-FALSY, repaired): agents are ordinary objects, a
    subclass may define `__bool__` / `__len__`.  `grid.agents` of the model takes its emptiness test from the generated table
    (`agentsTest`: probed on the four classes with a falsy agent on every run) and is handed the set `fz` of falsy agents; the
    test of the code is `is None`, and with it `grid.agents` is the view of `C08_agents_view` for every `fz`.  (Before the repair
    the table said `truthy` and the model left a falsy occupant of a SingleGrid out, as the code did: example below.) -/
theorem C08_agents_whatever_truth_value (g : Grid) (fz : Falsy) :
    agentsTest = .eqDefault ∧ g.agentsBy .eqDefault fz = g.agentsList ∧ g.agentsListT fz = g.agentsList :=
  ⟨agentsTest_eq, agentsBy_eqDefault fz g, agentsListT_eq g fz⟩

/-- the truthiness test (`if not entry: continue`) leaves the falsy agent 0 out of `grid.agents` of a SingleGrid, not of a MultiGrid -/
example : (run (init 3 3 false false 8) [.place 0 (1, 1), .place 1 (0, 2)]).agentsBy .truthy [0] = [1] := by decide
example : (run (init 3 3 false false 8) [.place 0 (1, 1), .place 1 (0, 2)]).agentsBy .eqDefault [0] = [1, 0] := by decide
example : (run (init 3 3 false true 8) [.place 0 (1, 1), .place 1 (0, 2)]).agentsBy .truthy [0] = [1, 0] := by decide

/-- indexing `grid[x, y]` wraps on a torus and rejects outside a bounded grid -/
theorem C08_getitem_wraps_or_rejects (g : Grid) (hw : 0 < g.w) (hh : 0 < g.h) (p : Coord) :
    (g.inGrid p → g.getItem p = .ok (g.content p)) ∧
    (¬ g.inGrid p → g.torus = true → g.inGrid (p.1 % g.w, p.2 % g.h) ∧ g.getItem p = .ok (g.content (p.1 % g.w, p.2 % g.h))) ∧
    (¬ g.inGrid p → g.torus = false → g.getItem p = .error .oob) :=
  c08_getitem_wraps_or_rejects g hw hh p

/-- **`move_agent` wraps or rejects**: an in-grid target is taken as is; a target outside a torus is wrapped
    with Python's `%` (= `Int.emod`) and the wrapped cell is in the grid; a target outside a bounded grid is
    rejected with the state untouched; whenever the call succeeds the agent's `pos` is that target cell and
    no other agent's `pos` changes. -/
theorem C08_move_wraps_or_rejects (g : Grid) (hw : 0 < g.w) (hh : 0 < g.h) (a : Aid) (p : Coord) :
    (g.inGrid p → (g.move a p).2 = .ok → (g.move a p).1.pos a = some p) ∧
    (¬ g.inGrid p → g.torus = true →
        g.inGrid (p.1 % g.w, p.2 % g.h) ∧ ((g.move a p).2 = .ok → (g.move a p).1.pos a = some (p.1 % g.w, p.2 % g.h))) ∧
    (¬ g.inGrid p → g.torus = false → g.move a p = (g, .err .oob)) ∧
    (∀ b, b ≠ a → (g.move a p).1.pos b = g.pos b) :=
  c08_move_wraps_or_rejects g hw hh a p

/-- when does `move_agent` of a placed agent succeed: always on a MultiGrid; on a SingleGrid exactly when
    the (wrapped) target holds nobody else — otherwise it is rejected with `Cell not empty` -/
theorem C08_move_single_rejects_occupied (g : Grid) (hs : g.multi = false) (a : Aid) (p q : Coord)
    (hq : g.torusAdj p = .ok q) (hocc : g.content q ≠ [] ∧ g.content q ≠ [a]) :
    g.move a p = (g, .err .full) :=
  c08_move_single_rejects_occupied g hs a p q hq hocc

/-- **`move_to_empty` lands on a cell that was empty** (both branches: rejection sampling above the cutoff,
    `choice(sorted(empties))` below it; whether or not `empties` had been built) -/
theorem C08_moveToEmpty_lands_on_empty (g : Grid) (hw : 0 < g.w) (hh : 0 < g.h) (hi : Inv g) (a : Aid) (s : Grid.Script)
    (hok : (g.moveToEmpty a s).2 = .ok) :
    ∃ q, g.inGrid q ∧ g.content q = [] ∧ (g.moveToEmpty a s).1.pos a = some q :=
  c08_moveToEmpty_lands_on_empty g hw hh hi a s hok

/-- `move_to_empty` raises `No empty cells` exactly on a full grid -/
theorem C08_moveToEmpty_full_grid (g : Grid) (hw : 0 < g.w) (hh : 0 < g.h) (hi : Inv g) (a : Aid) (s : Grid.Script) :
    (g.moveToEmpty a s).2 = .err .noEmpty ↔ ∀ p, g.inGrid p → g.content p ≠ [] :=
  c08_moveToEmpty_full_grid g hw hh hi a s

/-- **`move_agent_to_one_of` lands on one of the offered cells** (after wrapping) -/
theorem C08_moveToOneOf_lands_on_offered (g : Grid) (hw : 0 < g.w) (hh : 0 < g.h) (a : Aid) (ps : List Coord)
    (sel : Grid.Selection) (he : Grid.HandleEmpty) (s : Grid.Script) (hne : ps ≠ [])
    (hok : (g.moveToOneOf a ps sel he s).2 = .ok) :
    ∃ q ∈ ps, ∃ q', g.torusAdj q = .ok q' ∧ (g.moveToOneOf a ps sel he s).1.pos a = some q' :=
  c08_moveToOneOf_lands_on_offered g hw hh a ps sel he s hne hok

/-- **`closest` lands on a nearest offered cell**: the agent ends on the cell an offered position `q` denotes,
    and no offered position denotes a cell nearer (in `_distance_squared`, which `C08_distance_is_torus_metric`
    shows to be the metric of the torus) to where the agent stood -/
theorem C08_closest_minimises_distance (g : Grid) (hw : 0 < g.w) (hh : 0 < g.h) (a : Aid) (ps : List Coord)
    (he : Grid.HandleEmpty) (s : Grid.Script) (hne : ps ≠ [])
    (hok : (g.moveToOneOf a ps .closest he s).2 = .ok) :
    ∃ cur, g.pos a = some cur ∧ ∃ q ∈ ps, ∃ q', g.torusAdj q = .ok q' ∧
      (g.moveToOneOf a ps .closest he s).1.pos a = some q' ∧
      g.distSq q' cur = g.distSq q cur ∧ ∀ y ∈ ps, g.distSq q cur ≤ g.distSq y cur :=
  c08_closest_minimises_distance g hw hh a ps he s hne hok

/-- **what `closest` measures on a torus** (N1 repair): per axis the least distance between the residue
    classes of the two coordinates — the same for an out-of-grid coordinate and the cell it wraps to -/
theorem C08_distance_is_torus_metric (g : Grid) (hw : 0 < g.w) (hh : 0 < g.h) (ht : g.torus = true) (p q : Coord) :
    (∃ mx my, IsTorusDist g.w p.1 q.1 mx ∧ IsTorusDist g.h p.2 q.2 my ∧ g.distSq p q = mx * mx + my * my) ∧
    g.distSq (p.1 % g.w, p.2 % g.h) q = g.distSq p q :=
  ⟨distSq_torus_spec g hw hh ht p q, distSq_wrap g hw hh ht p q⟩

/-! ## what each call does to the cell lists (the order inside a MultiGrid cell is observable) -/

/-- **`remove_agent`**: a placed agent leaves its cell's list and gets `pos None`, nothing else changes;
    **an agent that is not on the grid**: nothing changes — a SingleGrid returns silently, a MultiGrid raises
    TypeError (`x, y = None`) -/
theorem C08_remove_takes_out_or_changes_nothing (g : Grid) (hi : Inv g) (a : Aid) :
    (∀ p, g.pos a = some p → (g.remove a).2 = .ok ∧ (g.remove a).1.pos a = none ∧
      (g.remove a).1.content p = (g.content p).erase a ∧ (∀ q, q ≠ p → (g.remove a).1.content q = g.content q) ∧
      ∀ b, b ≠ a → (g.remove a).1.pos b = g.pos b) ∧
    (g.pos a = none → (g.remove a).1 = g ∧ (g.remove a).2 = if g.multi then .err .type else .ok) :=
  c08_remove_spec g hi a

/-- **the hazard outside the quantifier — `remove_agent` of an agent that lives on another space** (`pos a = some p`
    was written by that space; this grid's cell `p` does not hold `a`): `MultiGrid.remove_agent` raises ValueError and
    changes nothing; `SingleGrid.remove_agent` does not look — it clears cell `p`, so an occupant `b` of that cell is
    evicted while keeping its `pos`, and the views of this grid disagree from then on (`Grid.foreignPos` and the
    protocol line `foreign` reproduce it on the real classes; recorded as an observation, not a defect by the
    statement: the quantifier's histories are those of one grid) -/
theorem C08_remove_foreign_agent (g : Grid) (a : Aid) (p : Coord) (hp : g.pos a = some p) (hf : a ∉ g.content p) :
    (g.multi = true → g.remove a = (g, .err .value)) ∧
    (g.multi = false → (g.remove a).2 = .ok ∧ (g.remove a).1.content p = [] ∧ (g.remove a).1.pos a = none ∧
      (∀ b, b ≠ a → (g.remove a).1.pos b = g.pos b) ∧
      ∀ b, b ∈ g.content p → g.pos b = some p → ¬ Inv (g.remove a).1) :=
  c08_remove_foreign g a p hp hf

/-- **`place_agent`** (within the quantifier: unplaced agent) appends the agent to the cell's list -/
theorem C08_place_appends (g : Grid) (a : Aid) (p : Coord) (hpos : g.pos a = none) (hok : (g.place a p).2 = .ok) :
    (g.place a p).1.content p = g.content p ++ [a] ∧ (g.place a p).1.pos a = some p ∧
    (∀ q, q ≠ p → (g.place a p).1.content q = g.content q) ∧ ∀ b, b ≠ a → (g.place a p).1.pos b = g.pos b :=
  ⟨place_content_self g a p hpos hok, place_ok_pos g a p hpos hok, fun q hq => place_content_other g a p q hq,
   fun b hb => place_pos_other g a b p hb⟩

/-- **`move_agent`** of a placed agent, when it succeeds: the agent leaves its cell's list and is appended to
    the (wrapped) target's — also when both are the same cell: it goes to the end —; no other cell is touched -/
theorem C08_move_contents (g : Grid) (hw : 0 < g.w) (hh : 0 < g.h) (hi : Inv g) (a : Aid) (p cur : Coord)
    (hcur : g.pos a = some cur) (hok : (g.move a p).2 = .ok) :
    ∃ q, g.torusAdj p = .ok q ∧ (g.move a p).1.pos a = some q ∧
      (g.move a p).1.content q = (g.content q).erase a ++ [a] ∧
      (cur ≠ q → (g.move a p).1.content cur = (g.content cur).erase a) ∧
      ∀ x, x ≠ cur → x ≠ q → (g.move a p).1.content x = g.content x :=
  c08_move_contents g hw hh hi a p cur hcur hok

/-- **`swap_pos`** of two placed agents always succeeds and exchanges them: each is appended to the other's
    cell list and leaves its own, every other cell and agent is untouched; agents sharing a cell (or one agent
    swapped with itself): nothing happens -/
theorem C08_swap_exchanges (g : Grid) (hi : Inv g) (a b : Aid) (pa pb : Coord) (hpa : g.pos a = some pa) (hpb : g.pos b = some pb) :
    (g.swap a b).2 = .ok ∧ (g.swap a b).1.pos a = some pb ∧ (g.swap a b).1.pos b = some pa ∧
    (∀ c, c ≠ a → c ≠ b → (g.swap a b).1.pos c = g.pos c) ∧
    (pa = pb → (g.swap a b).1 = g) ∧
    (pa ≠ pb → (g.swap a b).1.content pb = (g.content pb).erase b ++ [a] ∧
               (g.swap a b).1.content pa = (g.content pa).erase a ++ [b]) ∧
    ∀ x, x ≠ pa → x ≠ pb → (g.swap a b).1.content x = g.content x :=
  c08_swap_spec g hi a b pa pb hpa hpb

/-! ## the read paths that take arbitrary integers and slices

`is_cell_empty`, `grid[x]` and `get_cell_list_contents` index `self._grid[x][y]` directly: no `torus_adj`, no
bounds check, Python's negative-index aliasing.  `grid[ix, iy]` sends ints through `torus_adj` and slices through
Python slicing.  The model says what these reads return for *all* integers / slices. -/

/-- **`is_cell_empty` for arbitrary integers**: in-grid coordinates are answered for that cell; a coordinate in
    `-size .. -1` aliases to the cell `size` further (Python indexing from the end) — it still is a cell of the
    grid and the answer is that cell's emptiness —; anything else raises IndexError -/
theorem C08_isCellEmpty_any_integers (g : Grid) (hw : 0 < g.w) (hh : 0 < g.h) (p : Coord) :
    (g.inGrid p → g.isCellEmptyRaw p = .ok (g.isCellEmpty p)) ∧
    (∀ b, g.isCellEmptyRaw p = .ok b → ∃ c, g.inGrid c ∧ (c.1 = p.1 ∨ c.1 = p.1 + g.w) ∧ (c.2 = p.2 ∨ c.2 = p.2 + g.h) ∧
      b = g.isCellEmpty c) ∧
    ((∃ e, g.isCellEmptyRaw p = .error e) ↔ (p.1 < -g.w ∨ g.w ≤ p.1 ∨ p.2 < -g.h ∨ g.h ≤ p.2)) :=
  c08_isCellEmpty_any_integers g hw hh p

/-- **a slice never reaches outside the list and never repeats an index**: for every list length and every
    `slice(start, stop, step)` (any integers or `None`; only a zero step raises) the selected indices are
    in `0 .. n-1`, strictly increasing for a positive step and strictly decreasing for a negative one; `[:]` selects
    everything in order, `[a:b]` with `0 ≤ a ≤ b ≤ n` selects `a .. b-1`, and with in-range bounds and a positive step
    exactly the arithmetic progression below `stop` -/
theorem C08_slices_select_in_range_indices (n : Int) (hn : 0 ≤ n) (s : Grid.PySlice) :
    (Grid.sliceIndices n s = .error .value ↔ s.step = some 0) ∧
    (∀ l, Grid.sliceIndices n s = .ok l → (∀ i ∈ l, 0 ≤ i ∧ i < n) ∧ l.Nodup ∧
      (0 < s.step.getD 1 → l.Pairwise (· < ·)) ∧ (s.step.getD 1 < 0 → l.Pairwise (· > ·))) ∧
    Grid.sliceIndices n ⟨none, none, none⟩ = .ok ((List.range n.toNat).map fun (k : Nat) => (k : Int)) ∧
    (∀ a b, 0 ≤ a ∧ a ≤ b ∧ b ≤ n →
      Grid.sliceIndices n ⟨some a, some b, none⟩ = .ok ((List.range (b - a).toNat).map fun (k : Nat) => a + (k : Int))) ∧
    (∀ a b st i, 0 ≤ a ∧ a ≤ n ∧ 0 ≤ b ∧ b ≤ n → 0 < st →
      ∃ l, Grid.sliceIndices n ⟨some a, some b, some st⟩ = .ok l ∧ (i ∈ l ↔ ∃ k : Nat, i = a + (k : Int) * st ∧ i < b)) :=
  ⟨sliceIndices_error n s, fun l h => sliceIndices_spec n hn s l h, sliceIndices_full n, sliceIndices_simple n,
   fun a b st i h hst => mem_sliceIndices_step n a b st h hst i⟩

/-- **indexing shows cells of the grid**: every form of `grid[…]` that returns — `grid[x]`, `grid[(x1, y1), …]`,
    `grid[ix, iy]` with ints and slices — returns the contents of in-grid cells only; `grid[:, :]` is the iteration
    order, `grid[x, :]` is the column `grid[x]`; `grid[x]` aliases `-width .. -1` to the columns counted from the end
    and raises IndexError beyond; a tuple of positions is wrapped / rejected position by position like `grid[x, y]` -/
theorem C08_indexing_shows_cells (g : Grid) (hw : 0 < g.w) (hh : 0 < g.h) :
    (∀ ix iy cs, g.getItem2 ix iy = .ok cs → ∀ c ∈ cs, g.inGrid c) ∧
    g.getItem2 (.slice ⟨none, none, none⟩) (.slice ⟨none, none, none⟩) = .ok g.allCells ∧
    (∀ x, 0 ≤ x ∧ x < g.w → g.getItem2 (.int x) (.slice ⟨none, none, none⟩) = g.getColumn x) ∧
    (∀ x y, g.getItem2 (.int x) (.int y) = (g.torusAdj (x, y)).map fun c => [c]) ∧
    (∀ i, (0 ≤ i ∧ i < g.w → g.getColumn i = .ok ((List.range g.h.toNat).map fun (y : Nat) => (i, (y : Int)))) ∧
          (-g.w ≤ i ∧ i < 0 → g.getColumn i = .ok ((List.range g.h.toNat).map fun (y : Nat) => (i + g.w, (y : Int)))) ∧
          (i < -g.w ∨ g.w ≤ i → g.getColumn i = .error .index)) ∧
    (∀ ps cs, g.getMany ps = .ok cs → cs.length = ps.length ∧ (∀ c ∈ cs, g.inGrid c) ∧
      ∀ pc ∈ ps.zip cs, g.torusAdj pc.1 = .ok pc.2) :=
  ⟨getItem2_inGrid g hw hh, getItem2_full g hw, getItem2_column g hh, getItem2_int_int g, getColumn_spec g hw,
   fun ps cs h => getMany_ok g hw hh ps cs h⟩

/-! ## `coord_iter` and `select_cells` (the views built on iteration and on `empty_mask`)

`Grid.coordIter`, `Grid.selectCells`, `Layers` are in `Model/LegacySelect.lean`; `Grid.Candidate` (in the grid, in every mask,
empty if `only_empty`, every condition holds) and `Extreme.valid` (the layer exists, the mode is `highest` / `lowest`) in
`Proofs/LegacySelect.lean`. -/

/-- **`coord_iter()` shows every cell of the grid exactly once, in increasing `(x, y)` order, with its content**, and it
    agrees with `pos`: an agent's `pos` is the coordinate of the one entry that lists it -/
theorem C08_coord_iter_shows_every_cell_once (g : Grid) (hi : Inv g) :
    SortedSet (g.coordIter.map (·.2)) ∧ (g.coordIter.map (·.2)).Nodup ∧
    (∀ l c, (l, c) ∈ g.coordIter ↔ g.inGrid c ∧ l = g.content c) ∧
    (∀ a p, g.pos a = some p ↔ ∃ l, (l, p) ∈ g.coordIter ∧ a ∈ l) := by
  refine ⟨?_, ?_, mem_coordIter g, coordIter_pos g hi⟩
  · rw [coordIter_coords]; exact sorted_allCells g
  · rw [coordIter_coords]; exact (sorted_allCells g).nodup

/-- **after every history `select_cells(only_empty=True)` is `empties`**: the list selected through `empty_mask` is the
    very list `sorted(grid.empties)` gives at that moment — whether `empties` was built before, during or never in the
    history — for all sizes, torus flags, both cell disciplines, any layer values -/
theorem C08_select_only_empty_is_empties_all_histories (w h : Int) (hw : 1 ≤ w) (hh : 1 ≤ h) (torus multi : Bool) (cutoff : Nat)
    (ops : List Op) (hok : HistOk (init w h torus multi cutoff) ops) (ls : Layers) :
    (run (init w h torus multi cutoff) ops).selectCells ls [] true [] [] =
      .ok (run (init w h torus multi cutoff) ops).readEmpties.2 := by
  have hi := C08_views_agree_all_histories w h hw hh torus multi cutoff ops hok
  rw [selectCells_only_empty _ hi, (C08_empties_exact_built_or_not _ hi).2.2.1]

/-- **`select_cells` selects exactly**: with masks, `only_empty` and conditions on layers that exist (no extreme values) the
    result is the strictly `(x, y)`-sorted list of the cells of the grid that lie in every mask, hold no agent if `only_empty`,
    and satisfy every condition -/
theorem C08_select_cells_exact (g : Grid) (hi : Inv g) (ls : Layers) (masks : List CMask) (onlyEmpty : Bool) (conds : List Cond)
    (hv : ∀ c ∈ conds, c.layer < ls.n) :
    ∃ l, g.selectCells ls masks onlyEmpty conds [] = .ok l ∧ SortedSet l ∧ ∀ p, p ∈ l ↔ g.Candidate ls masks onlyEmpty conds p :=
  selectCells_exact g hi ls masks onlyEmpty conds hv

/-- **an extreme value keeps exactly the candidates that no candidate beats** (`highest`: a maximal value of the layer among
    the candidates, `lowest`: a minimal one; all ties are kept) -/
theorem C08_select_extreme_value (g : Grid) (hi : Inv g) (ls : Layers) (masks : List CMask) (onlyEmpty : Bool) (conds : List Cond)
    (hv : ∀ c ∈ conds, c.layer < ls.n) (i : Nat) (hl : i < ls.n) (high : Bool) :
    ∃ l, g.selectCells ls masks onlyEmpty conds [⟨i, if high then .highest else .lowest⟩] = .ok l ∧ SortedSet l ∧
      ∀ p, p ∈ l ↔ g.Candidate ls masks onlyEmpty conds p ∧ ∀ q, g.Candidate ls masks onlyEmpty conds q →
        if high then ls.data i q ≤ ls.data i p else ls.data i p ≤ ls.data i q :=
  selectCells_extreme g hi ls masks onlyEmpty conds hv i hl high

/-- **any chain of extreme values narrows, never to nothing**: the result is a sub-list of the candidates (same order), and
    if there is a candidate at all, a cell is selected -/
theorem C08_select_extremes_narrow (g : Grid) (hi : Inv g) (ls : Layers) (masks : List CMask) (onlyEmpty : Bool) (conds : List Cond)
    (hv : ∀ c ∈ conds, c.layer < ls.n) (exts : List Extreme) (hx : ∀ e ∈ exts, e.valid ls) :
    ∃ l0 l, g.selectCells ls masks onlyEmpty conds [] = .ok l0 ∧ g.selectCells ls masks onlyEmpty conds exts = .ok l ∧
      l.Sublist l0 ∧ (l0 ≠ [] → l ≠ []) :=
  selectCells_narrow g hi ls masks onlyEmpty conds hv exts hx

/-- `select_cells` raises exactly when a condition or an extreme value names a layer that does not exist (KeyError) or an
    extreme value has a mode other than `highest` / `lowest` (ValueError) — also when no cell is left to take an extreme of -/
theorem C08_select_rejects_exactly (g : Grid) (ls : Layers) (masks : List CMask) (onlyEmpty : Bool) (conds : List Cond)
    (exts : List Extreme) :
    (∃ e, g.selectCells ls masks onlyEmpty conds exts = .error e) ↔
      (∃ c ∈ conds, ¬ c.layer < ls.n) ∨ ∃ x ∈ exts, ¬ x.valid ls :=
  selectCells_error g ls masks onlyEmpty conds exts

/-- **the empty cells around a position** (`select_cells(masks=get_neighborhood_mask(…), only_empty=True)`, the idiom for
    "move to a free neighbouring cell"): exactly the cells of the grid in range of the centre (C09's `InRange`; the centre by
    flag) that hold no agent -/
theorem C08_select_empty_cells_in_range (g : Grid) (hi : Inv g) (hw : 0 < g.w) (hh : 0 < g.h) (k : NKey) (cells : List Coord)
    (hk : nbhdCompute g.dim k = .ok cells) (ls : Layers) :
    ∃ l, g.selectCells ls [nbhdMask cells] true [] [] = .ok l ∧ SortedSet l ∧
      ∀ p, p ∈ l ↔ g.inGrid p ∧ (p = k.pos → k.ic = true) ∧ (p ≠ k.pos → InRange g.dim k.pos k.moore k.r p) ∧ g.content p = [] := by
  obtain ⟨l, h1, h2, h3⟩ := selectCells_exact g hi ls [nbhdMask cells] true [] (by simp)
  refine ⟨l, h1, h2, fun p => ?_⟩
  rw [h3 p]
  have hmem := (orth_spec g.dim hw hh k cells hk).2 p
  simp only [Grid.Candidate, List.mem_singleton, forall_eq, nbhdMask, decide_eq_true_eq, hmem, forall_const, List.not_mem_nil,
    false_imp_iff, implies_true, and_true]
  constructor
  · rintro ⟨hp, ⟨_, h4, h5⟩, h6⟩; exact ⟨hp, h4, h5, h6⟩
  · rintro ⟨hp, h4, h5, h6⟩; exact ⟨hp, ⟨hp, h4, h5⟩, h6⟩

/-! ## which draws the random movers consume, and over which ordered list

`agent.random` is a script of raw draws (`_randbelow(n)` = next draw `% n`); these theorems pin down how many draws each mover
takes, in which order, and which list the last draw indexes — what a seeded run depends on. -/

/-- **`selection="random"`**: exactly one draw `x`; the agent is moved to the offer `pos[x % len(pos)]` (offers in the order
    given); an exhausted generator raises before anything changes -/
theorem C08_moveToOneOf_random_draws (g : Grid) (a : Aid) (ps : List Coord) (hne : ps ≠ []) (he : Grid.HandleEmpty) :
    g.moveToOneOf a ps .random he [] = (g, .err .script) ∧
    ∀ x xs, ∃ q, ps[x % ps.length]? = some q ∧ g.moveToOneOf a ps .random he (x :: xs) = g.move a q := by
  have hemp : ps.isEmpty = false := by cases ps <;> simp_all
  obtain ⟨h0, h1⟩ := chooseOneOf_random g a ps hne
  refine ⟨by simp [Grid.moveToOneOf, hemp, h0], fun x xs => ?_⟩
  obtain ⟨q, hq, hc⟩ := h1 x xs
  exact ⟨q, hq, by simp [Grid.moveToOneOf, hemp, hc]⟩

/-- **the tie list of `closest`**: the scan collects exactly the offers at minimal distance from the agent, each as often as it
    was offered, in the order scanned (= the shuffled order) -/
theorem C08_closest_scan_is_min_filter (g : Grid) (cur : Coord) (ps : List Coord) :
    g.closestScan cur ps none [] = ps.filter (g.isClosest cur ps) ∧
    (∀ t, t ∈ ps.filter (g.isClosest cur ps) ↔ t ∈ ps ∧ ∀ y ∈ ps, g.distSq t cur ≤ g.distSq y cur) ∧
    (ps ≠ [] → ps.filter (g.isClosest cur ps) ≠ []) :=
  ⟨closestScan_filter g cur ps, fun t => by simp [Grid.isClosest], exists_closest g cur ps⟩

/-- **`selection="closest"` for a placed agent**: `len(pos) - 1` draws shuffle the offers (CPython's Fisher–Yates, a
    permutation), the next draw `x` indexes the tie list of the *shuffled* offers — `ties[x % len(ties)]` —, later draws are
    never looked at; with fewer than `len(pos)` draws the generator is exhausted and nothing changes -/
theorem C08_closest_draws_and_tie_list (g : Grid) (a : Aid) (cur : Coord) (hcur : g.pos a = some cur) (ps : List Coord)
    (hne : ps ≠ []) (he : Grid.HandleEmpty) (s : Grid.Script) :
    (s.length < ps.length → g.moveToOneOf a ps .closest he s = (g, .err .script)) ∧
    (ps.length ≤ s.length → ∃ ps' x q, Grid.shuffle ps s = some (ps', s.drop (ps.length - 1)) ∧ ps'.Perm ps ∧
      s[ps.length - 1]? = some x ∧
      (ps'.filter (g.isClosest cur ps'))[x % (ps'.filter (g.isClosest cur ps')).length]? = some q ∧
      g.moveToOneOf a ps .closest he s = g.move a q) := by
  have hemp : ps.isEmpty = false := by cases ps <;> simp_all
  obtain ⟨h1, h2⟩ := chooseOneOf_closest g a cur hcur ps hne s
  refine ⟨fun h => by simp [Grid.moveToOneOf, hemp, h1 h], fun h => ?_⟩
  obtain ⟨ps', x, q, e1, e2, e3, e4, e5⟩ := h2 h
  exact ⟨ps', x, q, e1, e2, e3, e4, by simp [Grid.moveToOneOf, hemp, e5]⟩

/-- **`move_to_empty`: which draws**.  Full grid: `No empty cells`.  At most `cutoff` empty cells: one draw `x`, the target is
    `sorted(empties)[x % n]`.  More: pairs of draws `(x, y)` — `x` first — until the cell `(x % width, y % height)` is empty:
    the target is the cell of the first successful attempt and every earlier attempt hit an occupied cell; if the script ends
    first (every complete attempt having failed) the generator is exhausted.  In every case the rest is `remove_agent` +
    `place_agent` on the grid with `empties` built. -/
theorem C08_moveToEmpty_draws (g : Grid) (hi : Inv g) (a : Aid) (s : Grid.Script) :
    (g.buildEmpties = [] → g.moveToEmpty a s = (g.readEmpties.1, .err .noEmpty)) ∧
    (g.buildEmpties ≠ [] → g.buildEmpties.length ≤ g.cutoff →
      (s = [] → g.moveToEmpty a s = (g.readEmpties.1, .err .script)) ∧
      ∀ x xs, s = x :: xs → ∃ q, g.buildEmpties[x % g.buildEmpties.length]? = some q ∧
        g.moveToEmpty a s = removePlace g.readEmpties.1 a q) ∧
    (g.buildEmpties ≠ [] → g.cutoff < g.buildEmpties.length →
      (g.pickLoop s = none → g.moveToEmpty a s = (g.readEmpties.1, .err .script) ∧
        ∀ j, 2 * j + 1 < s.length → ∃ (x' y' : Nat), s[2 * j]? = some x' ∧ s[2 * j + 1]? = some y' ∧
          g.isCellEmpty ((x' : Int) % g.w, (y' : Int) % g.h) = false) ∧
      ∀ q, g.pickLoop s = some q → g.moveToEmpty a s = removePlace g.readEmpties.1 a q ∧
        ∃ (k x y : Nat), s[2 * k]? = some x ∧ s[2 * k + 1]? = some y ∧ q = ((x : Int) % g.w, (y : Int) % g.h) ∧
          g.isCellEmpty q = true ∧
          ∀ j, j < k → ∃ (x' y' : Nat), s[2 * j]? = some x' ∧ s[2 * j + 1]? = some y' ∧
            g.isCellEmpty ((x' : Int) % g.w, (y' : Int) % g.h) = false) := by
  obtain ⟨h1, h2, h3⟩ := moveToEmpty_draws g hi a s
  refine ⟨h1, h2, fun hne hgt => ⟨fun hp => ⟨(h3 hne hgt).1 hp, pickLoop_none g s hp⟩,
    fun q hp => ⟨(h3 hne hgt).2 q hp, pickLoop_draws g s q hp⟩⟩⟩

/-! ## NetworkGrid as a space of its own (beyond the four classes the statement names: same agreement, same style)

`Net` (Model/LegacyNbhd.lean) models `NetworkGrid.place_agent / remove_agent / move_agent` (after the NG1 repair)
and the reads `is_cell_empty`, `get_cell_list_contents`, `get_all_cell_contents`, `agents`.  `NetInv` is the
agreement of `agent.pos` with the node lists; `NHistOk` asks only that `place_agent` is called for an unplaced
agent (on any node id — also one that does not exist: rejected); moves and removals are unrestricted. -/

/-- **All NetworkGrid histories keep `pos` and the node lists in agreement**, for every graph and every history
    of place / remove / move (targets that exist or not, placed or unplaced agents) -/
theorem C08_network_views_agree_all_histories (n : Nat) (edges : List (Nat × Nat)) (ops : List NOp)
    (hok : NHistOk (Net.init n edges) ops) : NetInv (nrun (Net.init n edges) ops) :=
  nrun_inv _ ops (netInv_init n edges) hok

/-- one call keeps the agreement (the induction step, for any state that satisfies it) -/
theorem C08_network_step_keeps_agreement (t : Net) (hi : NetInv t) (op : NOp) (hok : NOpOk t op) : NetInv (nstep t op).1 :=
  nstep_inv t op hi hok

/-- `pos` is the one node whose list holds the agent — a node of the graph —, `None` exactly when no list does -/
theorem C08_network_pos_is_the_one_node (t : Net) (hi : NetInv t) (a : Aid) :
    (∀ v, t.pos a = some v → v < t.n ∧ a ∈ t.content v ∧ ∀ u, a ∈ t.content u → u = v) ∧
    (t.pos a = none ↔ ∀ u, a ∉ t.content u) := by
  refine ⟨fun v hv => ?_, ?_⟩
  · have hm := (hi.pos_content a v).mp hv
    refine ⟨hi.in_net v (List.ne_nil_of_mem hm), hm, fun u hu => ?_⟩
    have := (hi.pos_content a u).mpr hu
    rw [hv] at this; exact (Option.some.inj this).symm
  · constructor
    · intro h u hu; have := (hi.pos_content a u).mpr hu; rw [h] at this; cases this
    · intro h
      cases hp : t.pos a with
      | none => rfl
      | some v => exact absurd ((hi.pos_content a v).mp hp) (h v)

/-- `is_cell_empty` says exactly whether a node's list is empty and raises KeyError exactly for a node that
    does not exist; `get_all_cell_contents` and `agents` list every placed agent exactly once and nobody else,
    in node order -/
theorem C08_network_emptiness_and_contents_views (t : Net) (hi : NetInv t) :
    (∀ v, v < t.n → t.isCellEmpty v = .ok (t.content v).isEmpty) ∧ (∀ v, ¬ v < t.n → t.isCellEmpty v = .error .key) ∧
    t.getAllCellContents.Nodup ∧ (∀ a, a ∈ t.getAllCellContents ↔ t.pos a ≠ none) ∧
    t.agentsList = t.getAllCellContents ∧ t.getAllCellContents = t.allNodes.flatMap t.content :=
  ⟨fun v hv => by simp [Net.isCellEmpty, hv], fun v hv => by simp [Net.isCellEmpty, hv], net_all_spec t hi⟩

/-- **`move_agent` lands on the target node or is rejected with nothing changed**: a placed agent moved to a
    node of the graph ends in that node's list (at its end), has left its old list, `pos` is the target and no
    other agent or node is touched; a node that does not exist (NG1) or an unplaced agent gives KeyError and
    the state is untouched -/
theorem C08_network_move_lands_or_rejects (t : Net) (hi : NetInv t) (a : Aid) (v : Nat) :
    (∀ u, t.pos a = some u → v < t.n →
      (t.move a v).2 = .ok ∧ (t.move a v).1.pos a = some v ∧ (∀ b, b ≠ a → (t.move a v).1.pos b = t.pos b) ∧
      (t.move a v).1.content v = (t.content v).erase a ++ [a] ∧
      (u ≠ v → (t.move a v).1.content u = (t.content u).erase a) ∧
      ∀ x, x ≠ u → x ≠ v → (t.move a v).1.content x = t.content x) ∧
    (¬ v < t.n → t.move a v = (t, .err .key)) ∧
    (t.pos a = none → t.move a v = (t, .err .key)) :=
  ⟨fun u hp hv => net_move_placed t hi a u v hp hv, net_move_missing t a v, net_move_unplaced t a v⟩

/-- `place_agent` appends to the node's list and sets `pos` (KeyError, nothing changed, for a node that does
    not exist); `remove_agent` takes the agent out of its node's list and clears `pos` (KeyError, nothing
    changed, for an agent that is not in the space) -/
theorem C08_network_place_remove (t : Net) (hi : NetInv t) (a : Aid) :
    (∀ v, v < t.n → (t.place a v).2 = .ok ∧ (t.place a v).1.pos a = some v ∧ (t.place a v).1.content v = t.content v ++ [a] ∧
      (∀ b, b ≠ a → (t.place a v).1.pos b = t.pos b) ∧ ∀ u, u ≠ v → (t.place a v).1.content u = t.content u) ∧
    (∀ v, ¬ v < t.n → t.place a v = (t, .err .key)) ∧
    (∀ v, t.pos a = some v → (t.remove a).2 = .ok ∧ (t.remove a).1.pos a = none ∧
      (∀ b, b ≠ a → (t.remove a).1.pos b = t.pos b) ∧
      (t.remove a).1.content v = (t.content v).erase a ∧ ∀ u, u ≠ v → (t.remove a).1.content u = t.content u) ∧
    (t.pos a = none → t.remove a = (t, .err .key)) :=
  ⟨fun v hv => ⟨(net_place_res t a v).1 hv, (net_place_pos t a v hv).1, (net_place_content t a v hv).1,
      (net_place_pos t a v hv).2, (net_place_content t a v hv).2⟩,
   fun v hv => (net_place_res t a v).2 hv, fun v hp => net_remove_placed t hi a v hp, net_remove_unplaced t a⟩

/-! ## non-vacuity and witnesses -/

/-- Python's aliasing on a 3x2 grid: `is_cell_empty((-1, -1))` looks at cell (2, 1); `(3, 0)` raises -/
example : (run (init 3 2 false true 11) [.place 0 (2, 1)]).isCellEmptyRaw (-1, -1) = .ok false := by rfl
example : (init 3 2 false true 11).isCellEmptyRaw (3, 0) = .error .index := by rfl
example : Grid.sliceIndices 5 ⟨some 10, some (-10), some (-2)⟩ = .ok [4, 2, 0] := by rfl
example : Grid.sliceIndices 5 ⟨some (-2), none, none⟩ = .ok [3, 4] := by rfl
example : (init 3 2 false true 11).getItem2 (.slice ⟨none, none, some (-1)⟩) (.int 1) = .ok [(2, 1), (1, 1), (0, 1)] := by rfl
/-- the rows are sliced only if a column was selected: `grid[1:1, ::0]` is `[]`, `grid[:, ::0]` raises -/
example : (init 3 2 false true 11).getItem2 (.slice ⟨some 1, some 1, none⟩) (.slice ⟨none, none, some 0⟩) = .ok [] := by rfl
example : (init 3 2 false true 11).getItem2 (.slice ⟨none, none, none⟩) (.slice ⟨none, none, some 0⟩) = .error .value := by rfl

/-- swap on a MultiGrid with shared cells: 0 and 1 exchange cells, 2 stays, the arrivals are at the end -/
example : let g := run (init 3 3 false true 18) [.place 0 (0, 0), .place 2 (0, 0), .place 1 (1, 1), .place 3 (1, 1), .swap 0 1]
    (g.content (0, 0), g.content (1, 1)) = ([2, 1], [3, 0]) := by decide
/-- a move onto the own cell of a MultiGrid sends the agent to the end of the list -/
example : (run (init 2 2 true true 13) [.place 0 (0, 0), .place 1 (0, 0), .move 0 (2, 2)]).content (0, 0) = [1, 0] := by decide
/-- `remove_agent` of an agent that is not on the grid -/
example : (step (init 2 2 true true 13) (.remove 0)).2 = .err .type := by decide
example : (step (init 2 2 true false 13) (.remove 0)).2 = .ok := by decide

/-- the foreign-agent hazard is reachable: agent 1 sits on (1, 1); agent 0, placed on another grid at (1, 1), is "removed" here -/
example : let g := ((run (init 3 3 false false 18) [.place 1 (1, 1)]).foreignPos 0 (1, 1)).remove 0
    (g.2, g.1.content (1, 1), g.1.pos 1) = (.ok, [], some (1, 1)) := by decide

/-- a NetworkGrid history within the quantifier with three rejected calls (missing node twice, unplaced agent) -/
def demoNetOps : List NOp := [.place 0 1, .place 1 1, .move 0 7, .place 2 9, .move 0 2, .remove 2, .move 1 1, .remove 0]

example : NHistOk (Net.init 3 [(0, 1), (1, 2)]) demoNetOps := by
  simp [demoNetOps, NHistOk, NOpOk, nstep, Net.place, Net.move, Net.init, updA]

/-- NG1 witness (the defect before its repair left the agent in no node): the move to a node that does not
    exist is rejected and the agent stays where it was -/
example : (nstep (nrun (Net.init 3 []) [.place 0 1]) (.move 0 7)).2 = .err .key := by decide
example : (nrun (Net.init 3 []) [.place 0 1, .move 0 7]).pos 0 = some 1 := by decide
example : (nrun (Net.init 3 []) [.place 0 1, .move 0 7]).content 1 = [0] := by decide
example : (nrun (Net.init 3 []) [.place 0 1, .place 1 1, .move 0 1]).content 1 = [1, 0] := by decide

/-- `coord_iter` on a 2x2 MultiGrid: four entries in (x, y) order, the stacked cell listed with both agents -/
example : (run (init 2 2 false true 13) [.place 0 (1, 0), .place 1 (1, 0)]).coordIter =
    [([], (0, 0)), ([], (0, 1)), ([0, 1], (1, 0)), ([], (1, 1))] := by decide

/-- `select_cells` on a 3x2 grid with agent 0 on (1, 1) and layer 0 = 5 on (0, 0) and (2, 1), 9 on (1, 1): the highest value
    among the *empty* cells is 5, attained twice; without `only_empty` it is 9; an unknown layer / mode raises; extreme values
    of an empty selection select nothing -/
def demoLayers : Layers := { n := 2, data := fun i c => if i = 0 then (if c = (1, 1) then 9 else if c = (0, 0) ∨ c = (2, 1) then 5 else 0) else 0 }

example : (run (init 3 2 false false 12) [.place 0 (1, 1)]).selectCells demoLayers [] true [] [⟨0, .highest⟩] = .ok [(0, 0), (2, 1)] := by
  rfl
example : (run (init 3 2 false false 12) [.place 0 (1, 1)]).selectCells demoLayers [] false [] [⟨0, .highest⟩] = .ok [(1, 1)] := by
  rfl
example : (run (init 3 2 false false 12) [.place 0 (1, 1)]).selectCells demoLayers [] true [⟨0, .ge, 5⟩] [] = .ok [(0, 0), (2, 1)] := by
  rfl
example : (init 3 2 false false 12).selectCells demoLayers [] false [⟨0, .ge, 100⟩] [⟨0, .highest⟩, ⟨1, .lowest⟩] = .ok [] := by rfl
example : (init 3 2 false false 12).selectCells demoLayers [] false [] [⟨0, .highest⟩, ⟨1, .other⟩] = .error .value := by rfl
example : (init 3 2 false false 12).selectCells demoLayers [] false [⟨5, .ge, 1⟩] [] = .error .key := by rfl
example : (⟨0, .highest⟩ : Extreme).valid demoLayers := by simp [Extreme.valid, demoLayers]
/-- the hypotheses of `C08_select_empty_cells_in_range` are satisfiable: the empty cells next to (0, 0), whose neighbour (0, 1) is taken -/
example : nbhdCompute (run (init 3 2 false false 12) [.place 0 (0, 1)]).dim ⟨(0, 0), true, false, 1⟩ = .ok [(0, 1), (1, 0), (1, 1)] := by
  rfl
example : (run (init 3 2 false false 12) [.place 0 (0, 1)]).selectCells demoLayers [nbhdMask [(0, 1), (1, 0), (1, 1)]] true [] [] =
    .ok [(1, 0), (1, 1)] := by rfl

/-- ties among the closest offers: from (2, 2) the offers (2, 3), (0, 0), (3, 2) have two cells at distance 1; the draws 1, 0
    shuffle the offers, the third draw picks from the tie list of the shuffled offers: (2, 3).  With two draws only the generator
    is exhausted and nothing moves.  (The same lines run against the real classes: corpus/C08/R3_draws_and_ties.ops.) -/
example : (run (init 5 5 false true 27) [.place 0 (2, 2), .moveToOneOf 0 [(2, 3), (0, 0), (3, 2)] .closest .none [1, 0, 1]]).pos 0
    = some (2, 3) := by decide
example : (step (run (init 5 5 false true 27) [.place 0 (2, 2)]) (.moveToOneOf 0 [(2, 4), (0, 0), (3, 3)] .closest .none [1, 0])).2
    = .err .script := by decide
example : (run (init 5 5 false true 27) [.place 0 (2, 2), .moveToOneOf 0 [(2, 4), (0, 0), (3, 3)] .random .none [7]]).pos 0
    = some (0, 0) := by decide
/-- the tie list keeps multiplicity and scan order -/
example : (init 5 5 false true 27).closestScan (2, 2) [(3, 2), (0, 0), (2, 3), (3, 2)] none [] = [(3, 2), (2, 3), (3, 2)] := by decide
/-- `move_to_empty` above the cutoff: a 6x6 grid (cutoff 31) with agent 0 on (1, 1): the pair (7, 13) denotes the occupied (1, 1),
    the pair (2, 3) is free -/
example : (run (init 6 6 false false 31) [.place 0 (1, 1), .moveToEmpty 0 [7, 13, 2, 3, 5]]).pos 0 = some (2, 3) := by decide
/-- … and below it (3x3, cutoff 18): the draw 5 indexes the sorted list of the 8 empty cells -/
example : (run (init 3 3 false false 18) [.place 0 (1, 1), .moveToEmpty 0 [5]]).pos 0 = some (2, 0) := by decide

/-- the hypotheses are satisfiable by a non-trivial history: `empties` read mid-history, a wrapped move, a
    rejected move, both random movers -/
def demoOps : List Op :=
  [.place 0 (0, 0), .place 1 (1, 1), .readEmpties, .move 0 (4, -1), .move 0 (1, 1), .swap 0 1,
   .moveToEmpty 1 [5], .moveToOneOf 0 [(21, 0), (4, 0)] .closest .none [0, 0], .remove 1]

example : HistOk (init 3 3 true false 18) demoOps := by
  simp [demoOps, HistOk, OpOk, step, Grid.place, Grid.inGrid, init, Grid.isCellEmpty, updA]

/-- N1 witness (the defect before its repair chose (4,0)): from (0,0) on a 10-wide torus the offer (21,0)
    denotes cell (1,0), which is nearer than (4,0) — for every script of draws that suffices -/
example : (run (init 10 3 true true 29) [.place 0 (0, 0), .moveToOneOf 0 [(21, 0), (4, 0)] .closest .none [0, 0]]).pos 0
    = some (1, 0) := by decide

/-- S2 witness (the defect before its repair lost the agent): a SingleGrid move onto an occupied cell is
    rejected and the mover stays where it was -/
example : (run (init 3 3 false false 18) [.place 0 (0, 0), .place 1 (1, 1), .move 0 (1, 1)]).pos 0 = some (0, 0) := by decide
example : (step (run (init 3 3 false false 18) [.place 0 (0, 0), .place 1 (1, 1)]) (.move 0 (1, 1))).2 = .err .full := by decide

/-- S1 witness: MultiGrid `empty_mask` follows the contents whether or not `empties` was ever built -/
example : (run (init 2 2 false true 13) [.place 0 (0, 0)]).mask (0, 0) = false := by decide
example : (run (init 2 2 false true 13) [.place 0 (0, 0), .remove 0]).mask (0, 0) = true := by decide

end Mesa.Legacy
