import MesaModel.Proofs.Copy
/-!
# C19 — copies and pickles of cell spaces are faithful and detached   (partial: object identity is runtime)

Two parts decide C19:
* the **two-sided correspondence** (`harness/c19.py`, `Driver/Copy.lean`): the Lean side keeps the original and the
  copy as two independent values of the C06/C07 cell-space model (so every theorem of C06/C07 holds for the copy's
  state by construction), the implementation copies the real space; all later observations of both sides must agree
  with the model, and the property's clauses (equal right after the copy, no shared objects, frame) are evaluated on
  the implementation;
* the theorems below, about the **identity-level model** (`Model/Copy.lean`) of what `Grid.__init__`,
  `add/remove_property_layer`, `pickle_gridcell` / `unpickle_gridcell` and `Grid.__setstate__` do to class objects,
  descriptor objects and layer objects — the mechanism that decides which array a cell attribute of the copy reads
  and writes.  `run ops` ranges over all programs of `newGrid / addLayer / removeLayer / copy` (copies of copies
  included; rejected calls leave the world unchanged).

Not modelled: pickle's and deepcopy's own traversal and memo (trusted: each object is reconstructed once — the
correspondence is what checks it, and it is where defect S22 lived).
-/
namespace Mesa.Copy

/-- In every reachable world, for every space (original or copy of any generation) and every cell of it, reading or
    writing the attribute `n` on the cell goes — through the descriptor on the cell's class — to layer object `l`
    exactly when `(n, l)` is one of that space's own layers. -/
theorem C19_cells_see_own_layers (ops : List Op) (sid : Nat) (sp : SpaceObj)
    (h : (run ops).spaces sid = some sp) (c : CellObj) (hc : c ∈ sp.cells) (n : String) (l : Nat) :
    resolve (run ops) c n = some l ↔ (n, l) ∈ sp.layers := by
  have o := (good_run ops).ok sid sp h
  unfold resolve
  rw [o.cells_klass c hc]
  exact o.descr_iff n l

/-- Right after a copy, every cell of the copy resolves every layer name of the original to a layer object of the
    copy that did not exist before (a fresh array), never to one of the original's. -/
theorem C19_copy_sees_own_layers (ops : List Op) (sid : Nat) (sp : SpaceObj) (w' : World)
    (hs : (run ops).spaces sid = some sp) (hc : copySpace (run ops) sid = .ok w') :
    w'.spaces (run ops).nextSpace = some (copiedSpace (run ops) sp) ∧
      ∀ c ∈ (copiedSpace (run ops) sp).cells, ∀ n ∈ sp.layers.map (·.1),
        ∃ l, resolve w' c n = some l ∧ (n, l) ∈ (copiedSpace (run ops) sp).layers ∧
          (run ops).nextLayer ≤ l ∧ ∀ j sj, (run ops).spaces j = some sj → ∀ q ∈ sj.layers, q.2 ≠ l := by
  have g := good_run ops
  unfold copySpace at hc
  rw [hs] at hc
  simp only [Except.ok.injEq] at hc
  subst hc
  refine ⟨by simp, ?_⟩
  intro c hcm n hn
  have hnames := freshLayers_names (sp.layers.map (·.1)) (run ops).nextLayer
  have : n ∈ (freshLayers (sp.layers.map (·.1)) (run ops).nextLayer).map (·.1) := by rw [hnames]; exact hn
  obtain ⟨p, hp, rfl⟩ := List.mem_map.mp this
  have hr := freshLayers_range _ _ p hp
  refine ⟨p.2, ?_, hp, hr.1, ?_⟩
  · simp only [copiedSpace, List.mem_map] at hcm
    obtain ⟨c0, _, rfl⟩ := hcm
    have hnd : ((freshLayers (sp.layers.map (·.1)) (run ops).nextLayer).map (·.1)).Nodup := by
      rw [hnames]; exact (g.ok sid sp hs).names_nodup
    simp only [resolve, installAll, if_true, copiedSpace]
    exact (lookup_iff_mem hnd p.1 p.2).mpr hp
  · intro j sj hj q hq
    have := (g.ok j sj hj).layer_lt q hq
    omega

/-- The copy is faithful in shape: the same cell coordinates in the same order, the same layer names in the
    same order. -/
theorem C19_copy_faithful (w w' : World) (sid : Nat) (sp : SpaceObj) (hs : w.spaces sid = some sp)
    (hc : copySpace w sid = .ok w') :
    w'.spaces w.nextSpace = some (copiedSpace w sp) ∧
      (copiedSpace w sp).cells.map (·.coord) = sp.cells.map (·.coord) ∧
      (copiedSpace w sp).layers.map (·.1) = sp.layers.map (·.1) := by
  unfold copySpace at hc
  rw [hs] at hc
  simp only [Except.ok.injEq] at hc
  subst hc
  exact ⟨by simp, by simp [copiedSpace, Function.comp_def], freshLayers_names _ _⟩

/-- Detached: in every reachable world two different spaces (an original and any of its copies, or two copies)
    share neither their cell class — so no descriptor — nor any layer object. -/
theorem C19_copy_detached (ops : List Op) (i j : Nat) (si sj : SpaceObj) (hij : i ≠ j)
    (hi : (run ops).spaces i = some si) (hj : (run ops).spaces j = some sj) :
    si.cellKlass ≠ sj.cellKlass ∧ (∀ p ∈ si.layers, ∀ q ∈ sj.layers, p.2 ≠ q.2) ∧
    ∀ c ∈ si.cells, ∀ n l, resolve (run ops) c n = some l → ∀ q ∈ sj.layers, q.2 ≠ l := by
  have g := good_run ops
  obtain ⟨h1, h2⟩ := g.apart i j si sj hij hi hj
  refine ⟨h1, h2, fun c hc n l hr q hq => ?_⟩
  have := (C19_cells_see_own_layers ops i si hi c hc n l).mp hr
  exact fun e => h2 (n, l) this q hq e.symm

/-- the same as an invariant of single steps (useful for worlds not built by `run`) -/
theorem C19_spaces_never_share {w : World} (g : Good w) (op : Op) : Good (step w op) := good_step g op

/-- Copying leaves the original and every other existing space exactly as they were: same object, same cells, same
    layers, and every attribute of every one of their cells resolves as before. -/
theorem C19_original_untouched_by_copy (ops : List Op) (sid : Nat) (w' : World)
    (hc : copySpace (run ops) sid = .ok w') (j : Nat) (sj : SpaceObj) (hj : (run ops).spaces j = some sj)
    (hne : j ≠ (run ops).nextSpace) :
    w'.spaces j = some sj ∧ ∀ c ∈ sj.cells, ∀ n, resolve w' c n = resolve (run ops) c n := by
  have g := good_run ops
  have o := g.ok j sj hj
  unfold copySpace at hc
  split at hc
  · simp at hc
  · simp only [Except.ok.injEq] at hc
    subst hc
    refine ⟨by simp [hne, hj], fun c hcm n => ?_⟩
    have hk : c.klass ≠ (run ops).nextClass := by rw [o.cells_klass c hcm]; have := o.klass_lt; omega
    simp [resolve, installAll, hk]

/-- `add_property_layer` is rejected exactly when the name is already a layer of that space (or the space does not
    exist), and a rejected call leaves the world unchanged. -/
theorem C19_reject_unchanged (w : World) (sid : Nat) (name : String) :
    ((∃ e, addLayer w sid name = .error e) ↔
      (w.spaces sid = none ∨ ∃ sp, w.spaces sid = some sp ∧ (sp.layers.lookup name).isSome)) ∧
    ((∃ e, addLayer w sid name = .error e) → step w (.addLayer sid name) = w) ∧
    ((∃ e, removeLayer w sid name = .error e) → step w (.removeLayer sid name) = w) ∧
    ((∃ e, copySpace w sid = .error e) → step w (.copy sid) = w) := by
  refine ⟨?_, ?_, ?_, ?_⟩
  · unfold addLayer
    cases hs : w.spaces sid with
    | none => simp
    | some sp =>
      simp only [reduceCtorEq, Option.some.injEq, exists_eq_left', false_or]
      split <;> simp_all
  · rintro ⟨e, h⟩; simp [step, h]
  · rintro ⟨e, h⟩; simp [step, h]
  · rintro ⟨e, h⟩; simp [step, h]

/-! non-vacuity: a grid with an extra layer, copied twice (a copy of the copy), then a layer removed from the original -/
section Example
def exOps : List Op :=
  [.newGrid [[0, 0], [0, 1], [1, 0], [1, 1]], .addLayer 0 "heat", .copy 0, .copy 1, .removeLayer 0 "heat", .addLayer 0 "empty"]
example : ((run exOps).spaces 2).map (fun sp => (sp.cellKlass, sp.layers, sp.cells.length)) =
    some (5, [("empty", 4), ("heat", 5)], 4) := by decide
example : resolve (run exOps) ⟨[1, 1], 5⟩ "heat" = some 5 := by decide
example : ((run exOps).spaces 0).map (·.layers) = some [("empty", 0)] := by decide
example : ((run exOps).spaces 1).map (·.layers) = some [("empty", 2), ("heat", 3)] := by decide
end Example

end Mesa.Copy
