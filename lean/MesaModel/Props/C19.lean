import MesaModel.Model.Copy
