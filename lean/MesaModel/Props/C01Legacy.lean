import MesaModel.Proofs.LegacySetOrder
/-!
# C01 (legacy-grid part) — the iteration order of a Python set never reaches an observable

Two places of the legacy grids take their population from a `set`: `move_to_empty` picks with
`agent.random.choice(sorted(self.empties))` (at most `cutoff_empties` empty cells), and `_HexGrid.get_neighborhood` collects
`coordinates` in a set and returns `tuple(sorted(coordinates))`.  Model/LegacySetOrder.lean states both with the set as a list
in an *arbitrary* iteration order (`es`; for the hex set: any insertion function `ins` that adds the member, wherever hashing puts
it) and applies `sorted(...)` = `sortedOf` where the code does.  The theorems: a permutation of the iteration order changes neither
the chosen cell nor the generator state afterwards; the number of draws depends on sizes only; and these order-explicit versions
*are* the model the C08 / C09 theorems are about (which keeps sets in canonical sorted form).
-/
namespace Mesa.Legacy

/-- **`sorted(set)` does not depend on the iteration order**: strictly sorted, the same members, and equal for any two
    orders of the same set (even with repetitions) -/
theorem C01_legacy_sorted_set_order_independent (l l' : List Coord) (h : l.Perm l') :
    sortedOf l = sortedOf l' ∧ SortedSet (sortedOf l) ∧ ∀ x, x ∈ sortedOf l ↔ x ∈ l :=
  ⟨sortedOf_perm l l' h, sorted_sortedOf l, mem_sortedOf l⟩

/-- **`move_to_empty`: the same chosen cell and the same generator state afterwards for every iteration order of `empties`** -/
theorem C01_legacy_move_to_empty_pick_order_independent (g : Grid) (es es' : List Coord) (h : es.Perm es') (s : Grid.Script) :
    g.pickEmpty es s = g.pickEmpty es' s :=
  pickEmpty_perm g es es' h s

/-- **draws consumed depend on sizes only**: with at most `cutoff` empty cells exactly one draw `x` is consumed and the pick is
    `sorted(empties)[x % len(empties)]` (no draw left: the generator is exhausted); with more, the population is not the set at
    all — the pick is the sampling loop's, which consumes draws in pairs -/
theorem C01_legacy_move_to_empty_draws_by_size (g : Grid) (es : List Coord) (hnd : es.Nodup) :
    (0 < es.length → es.length ≤ g.cutoff →
      g.pickEmpty es [] = none ∧
      ∀ x xs, ∃ q, (sortedOf es)[x % es.length]? = some q ∧ g.pickEmpty es (x :: xs) = some (q, xs)) ∧
    (g.cutoff < es.length → ∀ s, g.pickEmpty es s = g.pickLoopS s) := by
  refine ⟨fun hpos hle => ?_, fun hgt s => by simp [Grid.pickEmpty, hgt]⟩
  have hlen : (sortedOf es).length = es.length := (sortedOf_perm_self es hnd).length_eq
  have hne : sortedOf es ≠ [] := fun h => by rw [h] at hlen; simp at hlen; omega
  have hng : ¬ es.length > g.cutoff := by omega
  obtain ⟨h0, h1⟩ := choice_draws (sortedOf es) hne
  refine ⟨by simp [Grid.pickEmpty, hng, h0], fun x xs => ?_⟩
  obtain ⟨q, hq, hc⟩ := h1 x xs
  rw [hlen] at hq
  exact ⟨q, hq, by simp [Grid.pickEmpty, hng, hc]⟩

/-- **the order-explicit pick is the model's `move_to_empty`**: for any state whose views agree and any duplicate-free listing
    `es` of its empty cells — in whatever order — `move_to_empty` is: `No empty cells` if there is none, else the pick above
    followed by `remove_agent` + `place_agent` (`removePlace`); so the call's outcome cannot depend on the order -/
theorem C01_legacy_move_to_empty_is_the_model (g : Grid) (hi : Inv g) (a : Aid) (s : Grid.Script) (es : List Coord)
    (hnd : es.Nodup) (hes : ∀ p, p ∈ es ↔ g.inGrid p ∧ g.content p = []) :
    g.moveToEmpty a s =
      if es = [] then (g.readEmpties.1, .err .noEmpty)
      else match g.pickEmpty es s with
        | none => (g.readEmpties.1, .err .script)
        | some (q, _) => removePlace g.readEmpties.1 a q :=
  moveToEmpty_pickEmpty g hi a s es hnd hes

/-- **hex neighbourhoods: any representation of the set `coordinates`** (`ins c v` = `coordinates.add(c)`: any function that
    adds the member, whatever position hashing gives it) yields the very tuple the model computes — for every grid, centre,
    flag and radius; no draw is involved -/
theorem C01_legacy_hex_neighborhood_set_order_independent (ins ins' : Coord → List Coord → List Coord) (h : SetIns ins)
    (h' : SetIns ins') (d : Dim) (pos : Coord) (ic : Bool) (r : Nat) :
    hexComputeW ins d pos ic r = hexComputeW ins' d pos ic r ∧ hexComputeW ins d pos ic r = hexCompute d pos ic r :=
  ⟨by rw [hexComputeW_eq ins h, hexComputeW_eq ins' h'], hexComputeW_eq ins h d pos ic r⟩

/-! ## non-vacuity -/

example : sortedOf [(1, 0), (0, 1), (2, 2), (0, 0)] = [(0, 0), (0, 1), (1, 0), (2, 2)] := by decide
example : [((1, 0) : Coord), (0, 1), (0, 0)].Perm [(0, 0), (1, 0), (0, 1)] := by decide
/-- two iteration orders of the three empty cells of a 2x2 grid, one draw: the same cell, the same rest of the script -/
example : (init 2 2 false false 13).pickEmpty [(1, 0), (0, 1), (0, 0)] [5, 9] = some ((1, 0), [9]) := by decide
example : (init 2 2 false false 13).pickEmpty [(0, 0), (1, 0), (0, 1)] [5, 9] = some ((1, 0), [9]) := by decide
/-- two set representations: members prepended / appended -/
example : SetIns (fun c v => c :: v) := fun c v x => by simp
example : SetIns (fun c v => v ++ [c]) := fun c v x => by simp [or_comm]
example : hexComputeW (fun c v => c :: v) ⟨4, 4, false⟩ (1, 1) false 1 = [(0, 0), (0, 1), (1, 0), (1, 2), (2, 0), (2, 1)] := by decide
example : hexComputeW (fun c v => v ++ [c]) ⟨4, 4, false⟩ (1, 1) false 1 = [(0, 0), (0, 1), (1, 0), (1, 2), (2, 0), (2, 1)] := by decide

end Mesa.Legacy
