import MesaModel.Proofs.Viz
import MesaModel.Proofs.VizLayers
import MesaModel.Proofs.VizAltair
import MesaModel.Proofs.VizInputs
import MesaModel.Proofs.VizKwargs
import MesaModel.Proofs.VizSize
import MesaModel.Proofs.VizCtrl
import MesaModel.Proofs.VizNet
import MesaModel.Proofs.VizFrame
import MesaModel.Proofs.VizPlot
/-!
# C20 — visualisation data shows each agent once, where it is, as portrayed

Property theorems only (model: `Model/Viz.lean`, helper lemmas and the spec predicates
`Reachable`, `markerOf`, `drawEntries`, `rowOf`, `bindsByKeyword`: `Proofs/Viz.lean`).

`Reachable sp`: a space of any of the twelve supported classes, freshly built, then changed by any
sequence of successful `place` / `move` / `remove` calls.  Heaps and portrayals are arbitrary: the
portrayal may hand the *same* dict object to several agents (defect V3).
`markerOf fam heap p a`: the marker the property demands for agent `a` — at the drawing position of
its location (`pos`, else `cell.coordinate`), with colour / size / marker / zorder / alpha / edgecolors /
linewidths as its portrayal returned them, defaults otherwise.

Finding V7 (fixed): a portrayal that returned alpha / edgecolors / linewidths for some agents only made
`_scatter` raise IndexError.  Since the fix every agent has a slot in each optional array (`None` if its
portrayal does not specify the key) and `_fill_unspecified` gives those agents matplotlib's default, so
`C20_draw_one_marker_per_agent` holds for every portrayal; `C20_V7_some_agents_optional_drawn` is the witness.
-/
namespace Mesa.Viz

/-! ## which agents are drawn -/

/-- `space.agents`, which every back end walks, lists exactly the agents currently in the space, each
    once (ids are unique), and every one of them has a location. -/
theorem C20_space_agents_exactly_once {sp : Space} (h : Reachable sp) :
    (spaceAgents sp).Perm sp.placed ∧ (sp.placed.map (·.id)).Nodup ∧
    ∀ a ∈ sp.placed, ∃ l, a.location = some l :=
  let w := reachable_wf h
  ⟨spaceAgents_perm w, w.idsNodup, fun a ha => let ⟨l, hl, _⟩ := w.located a ha; ⟨l, hl⟩⟩

/-! ## collect_agent_data -/

/-- `collect_agent_data` returns one entry per agent of `space.agents`, in that order — for every heap and
    every portrayal, shared dict objects included — and as many entries as there are agents in the space. -/
theorem C20_collect_one_entry_per_agent {sp : Space} (h : Reachable sp) (df : Defaults) (heap : Heap) (p : Portrayal) :
    collectAgentData df heap p (spaceAgents sp) = some ((spaceAgents sp).filterMap (entryOf df heap p)) ∧
    ((spaceAgents sp).filterMap (entryOf df heap p)).length = sp.placed.length ∧
    ∀ a ∈ spaceAgents sp, (entryOf df heap p a).isSome := by
  have w := reachable_wf h
  have hl := spaceAgents_located w
  have hs : ∀ a ∈ spaceAgents sp, (entryOf df heap p a).isSome := by
    intro a ha; obtain ⟨l, e⟩ := hl a ha; simp [entryOf, e]
  exact ⟨collect_eq_filterMap df heap p _ hl,
    (filterMap_length_full.mpr hs).trans (spaceAgents_perm w).length_eq, hs⟩

/-- The entry of an agent holds its location (`pos`, else `cell.coordinate`) and, for each supported key,
    the value its portrayal returned, the default otherwise; the remaining keys are reported as ignored.
    Nothing else enters: in particular not what the portrayal returned for other agents. -/
theorem C20_entry_is_portrayal_or_default (df : Defaults) (heap : Heap) (p : Portrayal) (a : Agent) (l : Loc)
    (hl : a.location = some l) :
    ∃ e, entryOf df heap p a = some e ∧ e.loc = l ∧
      e.s = (Dict.get? (portrayed heap p a.id) "size").getD df.size ∧
      e.c = (Dict.get? (portrayed heap p a.id) "color").getD df.color ∧
      e.marker = (Dict.get? (portrayed heap p a.id) "marker").getD df.marker ∧
      e.zorder = (Dict.get? (portrayed heap p a.id) "zorder").getD df.zorder ∧
      e.alpha = Dict.get? (portrayed heap p a.id) "alpha" ∧
      e.edgecolors = Dict.get? (portrayed heap p a.id) "edgecolors" ∧
      e.linewidths = Dict.get? (portrayed heap p a.id) "linewidths" ∧
      e.ignored = (Dict.keys (portrayed heap p a.id)).filter (fun k => !supportedKeys.contains k) :=
  ⟨_, by simp [entryOf, hl], collectOne_spec df l _⟩

/-- Witness V3: with the pops done in place, a portrayal handing the same dict `{"color": "red"}` to two
    agents gives the second agent the default colour and leaves the dict empty; the repaired code records
    red for both. -/
theorem C20_V3_inplace_pop_refuted :
    let heap : Heap := [[("color", "red")]]
    let p : Portrayal := fun _ => some 0
    let agents := [mkAgent .multi 1 ⟨0, 0⟩, mkAgent .multi 2 ⟨1, 1⟩]
    ((collectInPlace libDefaults p heap agents).map fun r => (r.1.map (·.c), r.2)) = some (["red", "tab:blue"], [[]]) ∧
    (collectAgentData libDefaults heap p agents).map (·.map (·.c)) = some ["red", "red"] := by
  decide

/-- The boundary of V3: as long as no two agents are handed the same dict object (`refsOf`: the references
    the portrayal returns; a freshly built dict is no reference), popping in place recorded the same
    entries as the repaired code — the defect needed a shared dict. -/
theorem C20_inplace_agrees_on_unshared_dicts (df : Defaults) (p : Portrayal) (heap : Heap) (agents : List Agent)
    (h : (refsOf p agents).Nodup) :
    (collectInPlace df p heap agents).map (·.1) = collectAgentData df heap p agents :=
  collectInPlace_fst df p agents heap h

/-! ## _scatter -/

/-- The scatter calls partition the entries, whatever the portrayals returned: the members of the calls are
    a permutation of the entries (each agent is drawn by exactly one call), every call is non-empty and draws
    only entries with its marker and its z-order, and no (marker, z-order) pair is scattered twice. -/
theorem C20_scatter_partition (es : List Entry) :
    ((scatter es).flatMap (·.members)).Perm es ∧
    (∀ g ∈ scatter es, g.members ≠ [] ∧ ∀ e ∈ g.members, e.marker = g.marker ∧ e.zorder = g.zorder) ∧
    ((scatter es).map fun g => (g.marker, g.zorder)).Nodup := by
  rw [scatter_eq]
  refine ⟨groupsOf_perm es, fun g hg => ?_, groupsOf_keys_nodup es⟩
  obtain ⟨h1, h2⟩ := groupsOf_mem hg
  refine ⟨h1, fun e he => ?_⟩
  rw [h2, mkGroup_members, List.mem_filter] at he
  simpa using he.2

/-- The optional keywords of a scatter call (fix V7).  For each of alpha / edgecolors / linewidths: the
    keyword is left out exactly when no agent of the call specifies it; otherwise the array has exactly one
    slot per agent of the call — so the masks always fit — holding that agent's value, or the default
    (`none`) if its portrayal does not specify the key.  Hence every marker of the call is drawn with the
    values of the agent it stands for (`drawn`), for every mix of specified and unspecified keys. -/
theorem C20_scatter_optional_args (es : List Entry) :
    ∀ g ∈ scatter es,
      (∀ (f : Entry → Option Val) (arg : Option (List (Option Val))),
        (f = (·.alpha) ∧ arg = g.alpha) ∨ (f = (·.edgecolors) ∧ arg = g.edgecolors) ∨
          (f = (·.linewidths) ∧ arg = g.linewidths) →
        (arg = none ↔ ∀ e ∈ g.members, f e = none) ∧
        ∀ vs, arg = some vs → vs.length = g.members.length ∧ vs = g.members.map f) ∧
      g.drawn = g.members := by
  intro g hg
  rw [scatter_eq] at hg
  obtain ⟨_, h2⟩ := groupsOf_mem hg
  have hsub : ∀ e ∈ (mkGroup es g.marker g.zorder).members, e ∈ es := fun e he => (List.mem_filter.mp he).1
  have key : ∀ f : Entry → Option Val,
      (fillKey f g.members = none ↔ ∀ e ∈ g.members, f e = none) ∧
      ∀ vs, fillKey f g.members = some vs → vs.length = g.members.length ∧ vs = g.members.map f := by
    intro f
    unfold fillKey
    split
    · rename_i ha
      rw [List.all_eq_true] at ha
      exact ⟨⟨fun _ e he => by simpa using ha e he, fun _ => rfl⟩, fun vs h => by cases h⟩
    · rename_i ha
      refine ⟨⟨fun h => (by cases h), fun h => absurd ?_ ha⟩, fun vs h => ?_⟩
      · rw [List.all_eq_true]; intro e he; simp [h e he]
      · injection h with h; subst h; exact ⟨List.length_map _, rfl⟩
  have ha : g.alpha = fillKey (·.alpha) g.members := by
    rw [h2]; exact passKey_eq_fillKey _ hsub
  have he : g.edgecolors = fillKey (·.edgecolors) g.members := by
    rw [h2]; exact passKey_eq_fillKey _ hsub
  have hl : g.linewidths = fillKey (·.linewidths) g.members := by
    rw [h2]; exact passKey_eq_fillKey _ hsub
  refine ⟨fun f arg h => ?_, by rw [h2]; exact mkGroup_drawn es _ _⟩
  rcases h with ⟨rfl, rfl⟩ | ⟨rfl, rfl⟩ | ⟨rfl, rfl⟩
  · rw [ha]; exact key _
  · rw [he]; exact key _
  · rw [hl]; exact key _

/-! ## draw_space -/

/-- What the property demands of an agent's marker: it sits at the drawing position of the agent's
    location and carries the portrayal's values or the defaults (size default: the space's `s_default`). -/
theorem C20_marker_values (fam : Family) (heap : Heap) (p : Portrayal) (a : Agent) (l : Loc)
    (hl : a.location = some l) :
    ∃ e, markerOf fam heap p a = some e ∧ e.loc = transform fam l ∧
      e.s = (Dict.get? (portrayed heap p a.id) "size").getD "D" ∧
      e.c = (Dict.get? (portrayed heap p a.id) "color").getD "tab:blue" ∧
      e.marker = (Dict.get? (portrayed heap p a.id) "marker").getD "o" ∧
      e.zorder = (Dict.get? (portrayed heap p a.id) "zorder").getD "1" ∧
      e.alpha = Dict.get? (portrayed heap p a.id) "alpha" ∧
      e.edgecolors = Dict.get? (portrayed heap p a.id) "edgecolors" ∧
      e.linewidths = Dict.get? (portrayed heap p a.id) "linewidths" := by
  have hs := collectOne_spec drawDefaults l (portrayed heap p a.id)
  exact ⟨{ collectOne drawDefaults l (portrayed heap p a.id) with loc := transform fam l }, by simp [markerOf, hl],
    rfl, hs.2.1, hs.2.2.1, hs.2.2.2.1, hs.2.2.2.2.1, hs.2.2.2.2.2.1, hs.2.2.2.2.2.2.1, hs.2.2.2.2.2.2.2.1⟩

/-- a space that holds an agent is never one of those `draw_space` refuses before it looks at the agents -/
theorem drawRaises_none_of_placed {sp : Space} (h : Reachable sp) (hne : sp.placed ≠ []) : drawRaises sp = none := by
  have hw := reachable_wf h
  have hnet : sp.fam.cellular = true → sp.cells.isEmpty = false := by
    intro hcell
    obtain ⟨a, ha⟩ := List.exists_mem_of_ne_nil _ hne
    obtain ⟨l, _, hl⟩ := hw.located a ha
    have hmem := hl hcell
    cases hc : sp.cells with
    | nil => rw [hc] at hmem; cases hmem
    | cons c cs => rfl
  have hext : sp.fam.isOrthogonal = true ∨ sp.fam.isHex = true ∨ sp.fam.cellular = false → ¬ (sp.w = 0 ∧ sp.h = 0) := by
    intro hf hz
    have := extent_pos h hne hf
    omega
  unfold drawRaises
  cases hfam : sp.fam <;> simp only [hfam] at hnet hext ⊢ <;>
    first
    | rfl
    | exact if_neg (hext (by simp [Family.isOrthogonal, Family.isHex, Family.cellular]))
    | (rw [hnet rfl]; rfl)

/-- `draw_space`, for every reachable space of the twelve classes, every heap and every portrayal — shared dicts and
    optional keys returned for some agents only included.  It raises before looking at the agents exactly on the spaces
    `drawRaises` names — a `mesa.space` grid or continuous space of size 0 × 0 (ZeroDivisionError in the default size), a
    network without nodes (ValueError) —, and such a space holds no agent (outside the property's quantifier: no occupancy
    state to show).  On every other space — every space that holds an agent among them — it succeeds, and what ends up on
    the Axes (`drawn`) is, as a multiset, exactly one marker per agent currently in the space, the one the property demands
    (`markerOf`), and nothing else; the calls are non-empty, homogeneous in marker and z-order, and no (marker, z-order)
    pair is scattered twice. -/
theorem C20_draw_one_marker_per_agent {sp : Space} (h : Reachable sp) (heap : Heap) (p : Portrayal) :
    (sp.placed ≠ [] → drawRaises sp = none) ∧
    (∀ e, drawRaises sp = some e → drawSpace sp heap p = .error e ∧ sp.placed = []) ∧
    (drawRaises sp = none → ∃ gs, drawSpace sp heap p = .ok gs ∧
      (gs.flatMap (·.drawn)).Perm (sp.placed.filterMap (markerOf sp.fam heap p)) ∧
      (∀ a ∈ sp.placed, (markerOf sp.fam heap p a).isSome) ∧
      (gs.flatMap (·.drawn)).length = sp.placed.length ∧
      (∀ g ∈ gs, g.drawn = g.members ∧ g.members ≠ [] ∧ ∀ e ∈ g.members, e.marker = g.marker ∧ e.zorder = g.zorder) ∧
      (gs.map fun g => (g.marker, g.zorder)).Nodup) := by
  refine ⟨drawRaises_none_of_placed h, fun e he => ⟨by unfold drawSpace; rw [he], ?_⟩, fun hr => ?_⟩
  · apply Classical.byContradiction
    intro hne
    rw [drawRaises_none_of_placed h hne] at he
    cases he
  have w := reachable_wf h
  have hs := C20_scatter_partition (drawEntries sp heap p)
  have hd : ∀ g ∈ scatter (drawEntries sp heap p), g.drawn = g.members :=
    fun g hg => (C20_scatter_optional_args _ g hg).2
  have hfm : (scatter (drawEntries sp heap p)).flatMap (·.drawn) = (scatter (drawEntries sp heap p)).flatMap (·.members) :=
    flatMap_congr' hd
  have hp : ((scatter (drawEntries sp heap p)).flatMap (·.drawn)).Perm (sp.placed.filterMap (markerOf sp.fam heap p)) := by
    rw [hfm]; exact hs.1.trans (drawEntries_perm w heap p)
  exact ⟨_, drawSpace_eq w hr heap p, hp, markerOf_isSome w heap p,
    hp.length_eq.trans (filterMap_length_full.mpr (markerOf_isSome w heap p)),
    fun g hg => ⟨hd g hg, hs.2.1 g hg⟩, hs.2.2⟩

/-- `draw_space` never answers anything else: the result is the scatter calls of the entries. -/
theorem C20_draw_ok_one_marker_per_agent {sp : Space} (h : Reachable sp) (heap : Heap) (p : Portrayal)
    {gs : List Group} (hd : drawSpace sp heap p = .ok gs) :
    (gs.flatMap (·.drawn)).Perm (sp.placed.filterMap (markerOf sp.fam heap p)) ∧
    (gs.flatMap (·.drawn)).length = sp.placed.length := by
  have hr : drawRaises sp = none := by
    cases hc : drawRaises sp with
    | none => rfl
    | some e => unfold drawSpace at hd; rw [hc] at hd; cases hd
  obtain ⟨gs', h1, h2, _, h4, _⟩ := (C20_draw_one_marker_per_agent h heap p).2.2 hr
  rw [hd] at h1
  injection h1 with h1
  subst h1
  exact ⟨h2, h4⟩

/-- the state of the V7 witness: two agents on a MultiGrid -/
def v7Space : Space :=
  { fam := .multi, w := 2, h := 2, cells := gridCells 2 2,
    placed := [mkAgent .multi 1 ⟨0, 0⟩, mkAgent .multi 2 ⟨1, 1⟩] }

theorem v7Space_reachable : Reachable v7Space := by
  have h0 : Space.init? .multi 2 2 [] = some { fam := .multi, w := 2, h := 2, cells := gridCells 2 2, placed := [] } := by
    decide
  have h1 := Reachable.step (op := .place 1 ⟨0, 0⟩) (Reachable.init h0) (sp' :=
    { fam := .multi, w := 2, h := 2, cells := gridCells 2 2, placed := [mkAgent .multi 1 ⟨0, 0⟩] }) (by decide)
  exact Reachable.step (op := .place 2 ⟨1, 1⟩) h1 (by decide)

/-- Witness V7 (raised IndexError before the fix): agent 1 returns `{"alpha": "50"}`, agent 2 returns `{}`.
    `collect_agent_data` records `[50, None]`; one scatter call draws both agents, is handed an alpha array
    with a slot for each — agent 2's is the default — and no edgecolors / linewidths keyword. -/
theorem C20_V7_some_agents_optional_drawn :
    let heap : Heap := [[("alpha", "50")]]
    let p : Portrayal := fun a => if a = 1 then some 0 else none
    (collectAgentData libDefaults heap p (spaceAgents v7Space)).map alphas = some [some "50", none] ∧
    (drawSpace v7Space heap p).toOption.map (·.map fun g => (g.marker, g.zorder, g.alpha)) =
      some [("o", "1", some [some "50", none])] ∧
    (drawSpace v7Space heap p).toOption.map (·.map fun g => (g.edgecolors, g.linewidths)) = some [(none, none)] ∧
    (drawSpace v7Space heap p).toOption.map (·.map fun g => g.drawn.map fun e => (e.loc, e.alpha)) =
      some [[(⟨0, 0⟩, some "50"), (⟨1, 1⟩, none)]] := by
  intro heap p
  refine ⟨by decide, by decide, by decide, by decide⟩

/-- V5: a space without agents (one that `draw_space` does not refuse for its size, see above) is drawn without markers
    and without an exception; Altair gets no rows. -/
theorem C20_empty_space_draws_nothing {sp : Space} (h : Reachable sp) (heap : Heap) (p : Portrayal)
    (he : sp.placed = []) :
    (drawRaises sp = none → drawSpace sp heap p = .ok []) ∧ (altairSupported sp.fam = true → altairRows sp heap p = .ok []) := by
  have w := reachable_wf h
  have hsa : spaceAgents sp = [] := by
    have := (spaceAgents_perm w).length_eq
    rw [he] at this
    exact List.length_eq_zero_iff.mp this
  refine ⟨fun hr => by rw [drawSpace_eq w hr, drawEntries, hsa]; rfl, fun hs => ?_⟩
  unfold altairRows
  rw [hs, hsa]
  rfl

/-- On hex grids the marker of an agent in cell (col, row) sits at the centre of the hexagon that
    `_get_hexmesh` draws for that cell (and that the property layer colours for it). -/
theorem C20_hex_marker_at_hexagon_centre (fam : Family) (hf : fam.isHex = true) (col row : Nat) :
    transform fam ⟨col, row⟩ = hexCenter col row :=
  transform_hex_eq_hexCenter fam hf col row

/-- Distinct locations are drawn at distinct positions, in every space class. -/
theorem C20_distinct_locations_distinct_positions (fam : Family) {a b : Loc}
    (h : transform fam a = transform fam b) : a = b :=
  transform_injective fam h

/-! ## the default size -/

/-- The default size and `draw_space`: the spaces `draw_space` refuses for their size (`drawRaises`) are exactly those
    whose default size `(180 / extent)²` is undefined — for every space, reachable or not. -/
theorem defaultSize_undefined_iff (sp : Space) : defaultSize sp = .undefined ↔ drawRaises sp ≠ none := by
  have hsz : ∀ e : Int, sizeOfExtent e = .undefined ↔ ¬ 0 < e := by
    intro e; unfold sizeOfExtent; split <;> simp_all
  have hgrid : sizeOfExtent (max (sp.w : Int) (sp.h : Int)) = .undefined ↔ (sp.w = 0 ∧ sp.h = 0) := by
    rw [hsz]; omega
  have hnet : (if sp.cells.length = 0 then SizeDefault.undefined else if sp.cells.length = 1 then sizeOfExtent 1 else .layout) =
      .undefined ↔ sp.cells.isEmpty = true := by
    cases hc : sp.cells with
    | nil => simp
    | cons c cs =>
      cases cs with
      | nil => simp [sizeOfExtent]
      | cons d ds => simp
  unfold defaultSize drawRaises
  cases hfam : sp.fam <;> simp only
  case vor =>
    have hx := spread_nonneg (sp.cells.map (·.x))
    have hy := spread_nonneg (sp.cells.map (·.y))
    constructor
    · intro hu
      rw [hsz] at hu
      exfalso; apply hu
      split <;> omega
    · intro hn; exact absurd rfl hn
  case netgrid => rw [hnet]; split <;> simp_all
  case net => rw [hnet]; split <;> simp_all
  all_goals (rw [hgrid]; split <;> simp_all)

/-- The size of a marker whose portrayal names none (`s_default`) is a positive finite number in every reachable
    space that holds an agent: `(180 / max(width, height))²` on grids and continuous spaces (the extent is positive
    there); `180²` on a network with a single node (fix V12: the layout has no extent — it was (180/0)² = inf) and on a
    Voronoi grid with a single centroid (fix V15: it was a ZeroDivisionError); `(180 / side)²` with the positive larger
    side of the centroids' bounding box on Voronoi grids with more centroids.  (Networks with several nodes: by
    networkx's layout, not modelled.)  In particular `draw_space` does not refuse such a space for its size. -/
theorem C20_default_size_defined {sp : Space} (h : Reachable sp) (hne : sp.placed ≠ []) :
    defaultSize sp ≠ .undefined ∧
    (sp.fam.isOrthogonal = true ∨ sp.fam.isHex = true ∨ sp.fam.cellular = false →
      0 < max (sp.w : Int) (sp.h : Int) ∧
      defaultSize sp = .exact ⟨32400, (max (sp.w : Int) (sp.h : Int) * max (sp.w : Int) (sp.h : Int)).toNat⟩) ∧
    (sp.fam = .net ∨ sp.fam = .netgrid →
      sp.cells.length ≠ 0 ∧ (sp.cells.length = 1 → defaultSize sp = .exact ⟨32400, 1⟩) ∧
      (2 ≤ sp.cells.length → defaultSize sp = .layout)) ∧
    (sp.fam = .vor → (∃ f, defaultSize sp = .exact f ∧ f.num = 32400 ∧ 0 < f.den) ∧
      (sp.cells.length = 1 → defaultSize sp = .exact ⟨32400, 1⟩)) := by
  have hw := reachable_wf h
  refine ⟨fun hu => ?_, fun hf => ?_, fun hf => ?_, fun hf => ⟨?_, fun h1 => ?_⟩⟩
  · exact (defaultSize_undefined_iff sp).mp hu (drawRaises_none_of_placed h hne)
  · have hpos := extent_pos h hne hf
    refine ⟨hpos, ?_⟩
    unfold defaultSize sizeOfExtent
    rcases hf with hf | hf | hf <;> cases hfam : sp.fam <;> simp [hfam, Family.isOrthogonal, Family.isHex, Family.cellular] at hf <;>
      simp only [if_pos hpos]
  · obtain ⟨a, ha⟩ := List.exists_mem_of_ne_nil _ hne
    obtain ⟨l, _, hl⟩ := hw.located a ha
    have hcell : sp.fam.cellular = true := by rcases hf with hf | hf <;> rw [hf] <;> rfl
    have hmem := hl hcell
    have hlen : sp.cells.length ≠ 0 := by
      intro h0
      rw [List.length_eq_zero_iff.mp h0] at hmem
      cases hmem
    refine ⟨hlen, fun h1 => ?_, fun h2 => ?_⟩
    · unfold defaultSize
      rcases hf with hf | hf <;> simp only [hf, h1] <;> rfl
    · unfold defaultSize
      have h1 : sp.cells.length ≠ 1 := by omega
      rcases hf with hf | hf <;> simp only [hf, if_neg hlen, if_neg h1]
  · have hx := spread_nonneg (sp.cells.map (·.x))
    have hy := spread_nonneg (sp.cells.map (·.y))
    unfold defaultSize
    simp only [hf]
    have he : 0 ≤ max (spread (sp.cells.map (·.x))) (spread (sp.cells.map (·.y))) := by omega
    generalize max (spread (sp.cells.map (·.x))) (spread (sp.cells.map (·.y))) = e at *
    have hpos : 0 < (if e = 0 then 1 else e) := by split <;> omega
    unfold sizeOfExtent
    rw [if_pos hpos]
    refine ⟨_, rfl, rfl, ?_⟩
    have := Int.mul_pos hpos hpos
    simp only
    omega
  · match hc : sp.cells, h1 with
    | [c], _ =>
      unfold defaultSize
      simp only [hf, hc]
      have : spread [c.x] = 0 ∧ spread [c.y] = 0 := by simp [spread, minOf, maxOf]
      simp [this.1, this.2, sizeOfExtent]

/-! ## plotting keyword arguments -/

/-- `draw_space(space, agent_portrayal, ax=ax, **kw)` with plotting keywords among `alpha` / `edgecolors` /
    `linewidths`, on a space `draw_space` does not refuse for its size (there it raises the same error with keywords as
    without).  The keywords reach the scatter calls of grids and networks only (`kw'`; continuous and Voronoi spaces drop
    them).  The call is refused if and only if the space holds an agent and some keyword is also specified by some agent's
    portrayal (`clashes`) — both directions —, and the keyword named in the error is the first one that clashes in the
    order edgecolors, linewidths, alpha; otherwise the scatter calls are those of `draw_space` without keywords — so
    `C20_draw_one_marker_per_agent` applies to them — and every one is handed `kw'` in addition. -/
theorem C20_draw_kwargs {sp : Space} (h : Reachable sp) (hr : drawRaises sp = none) (heap : Heap) (p : Portrayal)
    (kw : List (Key × Val)) :
    ∃ gs kw', drawSpace sp heap p = .ok gs ∧ kw' = (if forwardsKwargs sp.fam then kw else []) ∧
      ((sp.placed = [] ∨ ∀ kf ∈ optKeys, ¬ clashes (drawEntries sp heap p) kw' kf) →
        drawSpaceKw sp heap p kw = .ok ⟨gs, kw'⟩) ∧
      (sp.placed ≠ [] → (∃ kf ∈ optKeys, clashes (drawEntries sp heap p) kw' kf) →
        ∃ k, drawSpaceKw sp heap p kw = .error (.conflict k)) ∧
      (∀ k, drawSpaceKw sp heap p kw = .error (.conflict k) →
        sp.placed ≠ [] ∧ ∃ kf before after, optKeys = before ++ kf :: after ∧ kf.1 = k ∧
          clashes (drawEntries sp heap p) kw' kf ∧ ∀ kf' ∈ before, ¬ clashes (drawEntries sp heap p) kw' kf') ∧
      drawSpaceKw sp heap p kw ≠ .error .attribute ∧ (∀ e, drawSpaceKw sp heap p kw ≠ .error (.raised e)) := by
  have w := reachable_wf h
  have hlen := drawEntries_length w heap p
  refine ⟨_, _, drawSpace_eq w hr heap p, rfl, fun hc => ?_, fun hne hcl => ?_, fun k hk => ?_, ?_, fun e => ?_⟩
  · rw [drawSpaceKw_eq w hr]
    unfold scatterKw
    rcases hc with he | hc
    · have : drawEntries sp heap p = [] := List.length_eq_zero_iff.mp (by rw [hlen, he]; rfl)
      rw [this]; rfl
    · split
      · rename_i he
        have : drawEntries sp heap p = [] := by simpa using he
        rw [this]; rfl
      · rw [(kwConflict_none_iff _ _).mpr hc]
  · rw [drawSpaceKw_eq w hr]
    unfold scatterKw
    have hne' : (drawEntries sp heap p).isEmpty = false := by
      cases hd : drawEntries sp heap p with
      | nil => rw [hd] at hlen; exact absurd (List.length_eq_zero_iff.mp hlen.symm) hne
      | cons e es => rfl
    rw [hne']
    simp only [Bool.false_eq_true, if_false]
    cases hc : kwConflict (drawEntries sp heap p) (if forwardsKwargs sp.fam then kw else []) with
    | some k => exact ⟨k, rfl⟩
    | none =>
      obtain ⟨kf, hm, hcl⟩ := hcl
      exact absurd hcl ((kwConflict_none_iff _ _).mp hc kf hm)
  · rw [drawSpaceKw_eq w hr] at hk
    unfold scatterKw at hk
    split at hk
    · cases hk
    · rename_i he
      cases hc : kwConflict (drawEntries sp heap p) (if forwardsKwargs sp.fam then kw else []) with
      | none => rw [hc] at hk; cases hk
      | some k' =>
        rw [hc] at hk
        injection hk with hk
        injection hk with hk
        subst hk
        refine ⟨fun hp => ?_, kwConflict_first hc⟩
        have : (drawEntries sp heap p).length = 0 := by rw [hlen, hp]; rfl
        exact he (by simpa using List.length_eq_zero_iff.mp this)
  · rw [drawSpaceKw_eq w hr]
    unfold scatterKw
    split
    · intro hx; cases hx
    · cases kwConflict (drawEntries sp heap p) (if forwardsKwargs sp.fam then kw else []) <;> intro hx <;> cases hx
  · rw [drawSpaceKw_eq w hr]
    unfold scatterKw
    split
    · intro hx; cases hx
    · cases kwConflict (drawEntries sp heap p) (if forwardsKwargs sp.fam then kw else []) <;> intro hx <;> cases hx

/-! ## the part of the plane the picture shows -/

/-- Every agent of a reachable space is drawn inside the axis limits `draw_space` sets.  Grids, hex grids and continuous
    spaces: strictly inside — half a cell, the hexagons' padding, a twentieth of the space around it.  Voronoi grids: inside
    or on the limits (the centroids' bounding box plus a twentieth of its sides), strictly inside in a direction in which
    the centroids have an extent. -/
theorem C20_markers_inside_the_limits {sp : Space} (h : Reachable sp) {a : Agent} (ha : a ∈ sp.placed) :
    (sp.fam.isOrthogonal = true ∨ sp.fam.isHex = true ∨ sp.fam.cellular = false →
      ∃ l f, a.location = some l ∧ frameOf sp = some f ∧ f.shows (transform sp.fam l)) ∧
    (sp.fam = .vor → ∃ l f, a.location = some l ∧ frameOf sp = some f ∧ f.touches (transform sp.fam l) ∧
      (0 < spread (sp.cells.map (·.x)) → f.xlo < f.den * l.x ∧ f.den * l.x < f.xhi) ∧
      (0 < spread (sp.cells.map (·.y)) → f.ylo < f.den * l.y ∧ f.den * l.y < f.yhi)) := by
  refine ⟨fun hf => ?_, fun hf => ?_⟩
  · obtain ⟨l, hloc, h1, h2, h3, h4⟩ := located_in_bounds h ha hf
    have hm0 := Int.emod_nonneg (l.y - 1) (by decide : (2 : Int) ≠ 0)
    have hm1 := Int.emod_lt_of_pos (l.y - 1) (by decide : (0 : Int) < 2)
    have hh : (0 : Int) ≤ ((sp.h % 2 : Nat) : Int) := Int.natCast_nonneg _
    refine ⟨l, ?_⟩
    rcases hf with hf | hf | hf <;> cases hfam : sp.fam <;>
      simp [hfam, Family.isOrthogonal, Family.isHex, Family.cellular] at hf <;>
      (unfold frameOf; simp only [hfam]; refine ⟨_, hloc, rfl, ?_⟩;
       simp only [Frame.shows, transform, Family.isHex]; simp; omega)
  · have hw := reachable_wf h
    obtain ⟨l, hloc, hl⟩ := hw.located a ha
    have hmem := hl (by rw [hf]; rfl)
    have hx : l.x ∈ sp.cells.map (·.x) := List.mem_map.mpr ⟨l, hmem, rfl⟩
    have hy : l.y ∈ sp.cells.map (·.y) := List.mem_map.mpr ⟨l, hmem, rfl⟩
    cases h1 : minOf (sp.cells.map (·.x)) with
    | none => cases hc : sp.cells.map (·.x) <;> simp [hc, minOf] at h1 hx
    | some x0 =>
    cases h2 : maxOf (sp.cells.map (·.x)) with
    | none => cases hc : sp.cells.map (·.x) <;> simp [hc, maxOf] at h2 hx
    | some x1 =>
    cases h3 : minOf (sp.cells.map (·.y)) with
    | none => cases hc : sp.cells.map (·.y) <;> simp [hc, minOf] at h3 hy
    | some y0 =>
    cases h4 : maxOf (sp.cells.map (·.y)) with
    | none => cases hc : sp.cells.map (·.y) <;> simp [hc, maxOf] at h4 hy
    | some y1 =>
    have a1 := (minOf_spec h1).2 l.x hx
    have a2 := (maxOf_spec h2).2 l.x hx
    have a3 := (minOf_spec h3).2 l.y hy
    have a4 := (maxOf_spec h4).2 l.y hy
    refine ⟨l, ⟨20, 20 * x0 - (x1 - x0), 20 * x1 + (x1 - x0), 20 * y0 - (y1 - y0), 20 * y1 + (y1 - y0)⟩, hloc, ?_, ?_, ?_, ?_⟩
    · unfold frameOf; simp only [hf, h1, h2, h3, h4]
    · simp only [Frame.touches, transform, Family.isHex, hf]
      simp
      omega
    · intro hsp
      simp only [spread, h1, h2] at hsp
      simp only
      omega
    · intro hsp
      simp only [spread, h3, h4] at hsp
      simp only
      omega

/-! ## networks drawn with a layout given by the caller -/

/-- `draw_network` with `layout_alg` a callable (the layout `ly`: node label ↦ position, not empty), for every reachable
    space, heap and portrayal.  The only way it fails is a KeyError: exactly when some agent stands on a node the layout
    has no entry for, and the error names the node of the first such agent in `space.agents` order.  Otherwise what ends
    up on the Axes is, as a multiset, one marker per agent in the space — its entry (`C20_entry_is_portrayal_or_default`)
    moved to the position the layout registers under the *label* of the agent's node (`placeBy`; fix V6: not under the
    node's rank in the graph) —, and the default marker size is `(180 / extent)²` of the layout's bounding box, a positive
    finite number also for a layout without extent (fix V12). -/
theorem C20_network_markers_at_layout_positions {sp : Space} (h : Reachable sp) (heap : Heap) (p : Portrayal)
    (ly : Layout) (hne : ly ≠ []) :
    (∀ n, drawNetwork sp heap p ly = .error (.key n) ↔
      ∃ before e after, (spaceAgents sp).filterMap (entryOf drawDefaults heap p) = before ++ e :: after ∧
        e.loc.x = n ∧ ly.lookup n = none ∧ ∀ b ∈ before, (ly.lookup b.loc.x).isSome) ∧
    ((∃ d, drawNetwork sp heap p ly = .ok d) ∨ ∃ n, drawNetwork sp heap p ly = .error (.key n)) ∧
    (∀ d, drawNetwork sp heap p ly = .ok d →
      d.size = layoutSize ly ∧ (∃ f, d.size = .exact f ∧ f.num = 32400 ∧ 0 < f.den) ∧
      ((d.groups.flatMap (·.drawn)).map some).Perm ((sp.placed.filterMap (entryOf drawDefaults heap p)).map (placeBy ly)) ∧
      (d.groups.flatMap (·.drawn)).length = sp.placed.length) := by
  have w := reachable_wf h
  have hcol := collect_eq_filterMap drawDefaults heap p _ (spaceAgents_located w)
  have hemp : ly.isEmpty = false := by cases ly <;> simp_all
  have hdn : drawNetwork sp heap p ly =
      match relocate ly ((spaceAgents sp).filterMap (entryOf drawDefaults heap p)) with
      | .error err => .error err
      | .ok es' => .ok ⟨scatter es', layoutSize ly⟩ := by
    unfold drawNetwork
    rw [hemp, hcol]
    rfl
  generalize hes : (spaceAgents sp).filterMap (entryOf drawDefaults heap p) = es at *
  refine ⟨fun n => ?_, ?_, fun d hd => ?_⟩
  · rw [hdn, ← relocate_error_iff ly es n]
    cases relocate ly es with
    | ok es' => simp
    | error err =>
      simp only
      constructor <;> (intro hx; injection hx with hx; rw [hx])
  · rw [hdn]
    have hno := relocate_not_other ly es
    cases hr : relocate ly es with
    | ok es' => exact Or.inl ⟨_, rfl⟩
    | error err =>
      rw [hr] at hno
      cases err with
      | key n => exact Or.inr ⟨n, rfl⟩
      | value => exact absurd rfl hno.1
      | noPosition => exact absurd rfl hno.2
  · rw [hdn] at hd
    cases hr : relocate ly es with
    | error err => rw [hr] at hd; cases hd
    | ok es' =>
      rw [hr] at hd
      injection hd with hd
      subst hd
      have hs := C20_scatter_partition es'
      have hdr : ∀ g ∈ scatter es', g.drawn = g.members := fun g hg => (C20_scatter_optional_args _ g hg).2
      have hfm : (scatter es').flatMap (·.drawn) = (scatter es').flatMap (·.members) := flatMap_congr' hdr
      have hmap := (relocate_ok_iff ly es es').mp hr
      have hperm : es.Perm (sp.placed.filterMap (entryOf drawDefaults heap p)) := by
        rw [← hes]; exact (spaceAgents_perm w).filterMap _
      have hlen : es.length = sp.placed.length := by
        rw [← hes]
        have hsome : ∀ a ∈ spaceAgents sp, (entryOf drawDefaults heap p a).isSome := by
          intro a ha; obtain ⟨l, e⟩ := spaceAgents_located w a ha; simp [entryOf, e]
        exact (filterMap_length_full.mpr hsome).trans (spaceAgents_perm w).length_eq
      refine ⟨rfl, ?_, ?_, ?_⟩
      · have hx := spread_nonneg (ly.map (·.2.x))
        have hy := spread_nonneg (ly.map (·.2.y))
        simp only [layoutSize]
        have he : 0 ≤ max (spread (ly.map (·.2.x))) (spread (ly.map (·.2.y))) := by omega
        generalize max (spread (ly.map (·.2.x))) (spread (ly.map (·.2.y))) = e at *
        have hpos : 0 < (if e = 0 then 1 else e) := by split <;> omega
        unfold sizeOfExtent
        rw [if_pos hpos]
        refine ⟨_, rfl, rfl, ?_⟩
        have := Int.mul_pos hpos hpos
        simp only
        omega
      · simp only
        rw [hfm]
        refine ((hs.1.map some).trans ?_)
        rw [← hmap]
        exact hperm.map _
      · simp only
        rw [hfm, hs.1.length_eq]
        have : es'.length = es.length := by
          have := congrArg List.length hmap
          simpa using this.symm
        omega

/-! ## measure plots -/

/-- `PlotMatplotlib` for a measure given as a string, a dict measure ↦ colour, a list or a tuple, over every table of
    collected model variables.  It fails exactly when a requested measure is not in the table — a KeyError naming the first
    such measure in the order of the request —, and otherwise draws exactly one line per requested measure, in that order,
    each carrying the values collected for *its* measure, labelled with the measure (no label for a single string) and
    coloured as the dict says (the colour cycle otherwise); a legend exactly for dict / list / tuple requests, the y label
    exactly for a string; anything else plots nothing. -/
theorem C20_plot_one_line_per_requested_measure (t : Table) (spec : MeasureSpec) :
    (∀ m, plotMeasure t spec = .error m ↔
      ∃ before r after, spec.requests = before ++ r :: after ∧ r.1 = m ∧ t.lookup m = none ∧
        ∀ b ∈ before, (t.lookup b.1).isSome) ∧
    (∀ pl, plotMeasure t spec = .ok pl →
      spec.requests.map (lineOf t) = pl.lines.map some ∧ pl.lines.length = spec.requests.length ∧
      (pl.legend = true ↔ (∃ ms, spec = .dict ms) ∨ (∃ ms, spec = .list ms) ∨ (∃ ms, spec = .tuple ms)) ∧
      (∀ m, pl.ylabel = some m ↔ spec = .str m)) ∧
    ((∀ r ∈ spec.requests, (t.lookup r.1).isSome) → ∃ pl, plotMeasure t spec = .ok pl) := by
  refine ⟨fun m => ?_, fun pl h => ?_, fun hall => ?_⟩
  · rw [← plotLines_error_iff]
    unfold plotMeasure
    cases plotLines t spec.requests with
    | ok ls => simp
    | error e => simp
  · unfold plotMeasure at h
    cases hr : plotLines t spec.requests with
    | error e => rw [hr] at h; cases h
    | ok ls =>
      rw [hr] at h
      injection h with h
      subst h
      have hm := (plotLines_ok_iff t _ ls).mp hr
      refine ⟨hm, ?_, ?_, ?_⟩
      · have := congrArg List.length hm
        simpa using this.symm
      · cases spec <;> simp
      · intro m
        cases spec <;> simp
  · unfold plotMeasure
    cases hr : plotLines t spec.requests with
    | ok ls => exact ⟨_, rfl⟩
    | error e =>
      obtain ⟨before, r, after, hsplit, hx, hnone, _⟩ := (plotLines_error_iff t _ e).mp hr
      have := hall r (by rw [hsplit]; simp)
      rw [hx, hnone] at this
      cases this

theorem plotLines_labels (t : Table) : ∀ (rs : List (String × Option String × Option String)) (ls : List PlotLine),
    plotLines t rs = .ok ls →
    ls.map (fun l => (l.label, l.color)) = rs.map (fun r => (r.2.1, r.2.2)) ∧
    rs.map (fun r => t.lookup r.1) = ls.map (fun l => some l.ys)
  | [], ls, h => by
    simp only [plotLines] at h
    injection h with h
    subst h
    exact ⟨rfl, rfl⟩
  | (m, label, color) :: rest, ls, h => by
    simp only [plotLines] at h
    cases hl : t.lookup m with
    | none => rw [hl] at h; cases h
    | some ys =>
      rw [hl] at h
      simp only at h
      cases hr : plotLines t rest with
      | error e => rw [hr] at h; cases h
      | ok ls' =>
        rw [hr] at h
        injection h with h
        subst h
        obtain ⟨i1, i2⟩ := plotLines_labels t rest ls' hr
        exact ⟨by simp only [List.map_cons, i1], by simp only [List.map_cons, i2, hl]⟩

/-- How the lines of a measure plot are labelled and coloured, form by form: a string is plotted without label and colour
    (the y label names it), a dict entry `m: colour` as the line of `m`'s values labelled `m` in that colour, a list /
    tuple entry labelled with the measure in the next colour of the cycle; anything else plots nothing. -/
theorem C20_plot_lines_labelled_and_coloured (t : Table) (spec : MeasureSpec) (pl : Plot) (h : plotMeasure t spec = .ok pl) :
    (∀ m, spec = .str m → pl.lines.map (fun l => (l.label, l.color)) = [(none, none)] ∧ [t.lookup m] = pl.lines.map (fun l => some l.ys)) ∧
    (∀ ms, spec = .dict ms → pl.lines.map (fun l => (l.label, l.color)) = ms.map (fun mc => (some mc.1, some mc.2)) ∧
      ms.map (fun mc => t.lookup mc.1) = pl.lines.map (fun l => some l.ys)) ∧
    (∀ ms, spec = .list ms ∨ spec = .tuple ms → pl.lines.map (fun l => (l.label, l.color)) = ms.map (fun m => (some m, none)) ∧
      ms.map (fun m => t.lookup m) = pl.lines.map (fun l => some l.ys)) ∧
    (spec = .other → pl.lines = []) := by
  unfold plotMeasure at h
  cases hr : plotLines t spec.requests with
  | error e => rw [hr] at h; cases h
  | ok ls =>
    rw [hr] at h
    injection h with h
    subst h
    obtain ⟨h1, h2⟩ := plotLines_labels t _ ls hr
    refine ⟨fun m hs => ?_, fun ms hs => ?_, fun ms hs => ?_, fun hs => ?_⟩
    · subst hs
      exact ⟨h1, h2⟩
    · subst hs
      simp only [MeasureSpec.requests, List.map_map] at h1 h2
      exact ⟨h1, h2⟩
    · rcases hs with hs | hs <;> subst hs <;> simp only [MeasureSpec.requests, List.map_map] at h1 h2 <;> exact ⟨h1, h2⟩
    · subst hs
      simp only [MeasureSpec.requests, List.map_nil] at h1
      simpa using h1

theorem relocate_not_value (ly : Layout) : ∀ es, relocate ly es ≠ .error .value
  | [] => by simp [relocate]
  | e :: es => by
    have ih := relocate_not_value ly es
    unfold relocate
    cases ly.lookup e.loc.x with
    | none => simp
    | some pos =>
      simp only
      cases hr : relocate ly es with
      | error err =>
        rw [hr] at ih
        simp only
        intro h
        injection h with h
        subst h
        exact ih rfl
      | ok es' => simp

/-- What the plot and network entry points refuse: `make_plot_component` takes the backend "matplotlib", answers
    NotImplementedError for "altair" and ValueError for every other name; `draw_network` with a caller's layout raises
    ValueError exactly when the layout is empty (whatever the agents and their portrayals are). -/
theorem C20_plot_backend_and_empty_layout (backend : String) (sp : Space) (heap : Heap) (p : Portrayal) (ly : Layout) :
    (plotBackend backend = .ok () ↔ backend = "matplotlib") ∧
    (plotBackend backend = .error .notImplemented ↔ backend = "altair") ∧
    (plotBackend backend = .error .value ↔ backend ≠ "matplotlib" ∧ backend ≠ "altair") ∧
    (drawNetwork sp heap p ly = .error .value ↔ ly = []) := by
  refine ⟨?_, ?_, ?_, ?_⟩
  · unfold plotBackend
    by_cases h1 : backend = "matplotlib"
    · simp [h1]
    · by_cases h2 : backend = "altair" <;> simp [h1, h2]
  · unfold plotBackend
    by_cases h1 : backend = "matplotlib"
    · subst h1; decide
    · by_cases h2 : backend = "altair" <;> simp [h1, h2]
  · unfold plotBackend
    by_cases h1 : backend = "matplotlib"
    · simp [h1]
    · by_cases h2 : backend = "altair" <;> simp [h1, h2]
  · unfold drawNetwork
    cases ly with
    | nil => simp
    | cons a rest =>
      simp only [List.isEmpty_cons, Bool.false_eq_true, if_false]
      cases collectAgentData drawDefaults heap p (spaceAgents sp) with
      | none => simp
      | some es =>
        simp only
        cases hr : relocate (a :: rest) es with
        | error err =>
          have := relocate_not_value (a :: rest) es
          rw [hr] at this
          simp only
          constructor
          · intro h; injection h with h; subst h; exact absurd rfl this
          · intro h; cases h
        | ok es' => simp

/-! ## Altair -/

/-- `_draw_grid` hands Altair one row per agent currently in the space (for the space classes Altair
    supports; the others are refused with NotImplementedError), for every portrayal, shared dicts included. -/
theorem C20_altair_one_row_per_agent {sp : Space} (h : Reachable sp) (heap : Heap) (p : Portrayal) :
    (altairSupported sp.fam = true →
      altairRows sp heap p = .ok ((spaceAgents sp).filterMap (rowOf heap p)) ∧
      ((spaceAgents sp).filterMap (rowOf heap p)).Perm (sp.placed.filterMap (rowOf heap p)) ∧
      ((spaceAgents sp).filterMap (rowOf heap p)).length = sp.placed.length) ∧
    (altairSupported sp.fam = false → altairRows sp heap p = .error .notImplemented) := by
  have w := reachable_wf h
  refine ⟨fun hs => ?_, fun hs => by unfold altairRows; rw [hs]; rfl⟩
  have hl := spaceAgents_located w
  refine ⟨?_, (spaceAgents_perm w).filterMap _, ?_⟩
  · unfold altairRows
    rw [hs, altairRowsOf_eq_filterMap heap p _ hl]
    rfl
  · have hsome : ∀ a ∈ spaceAgents sp, (rowOf heap p a).isSome := by
      intro a ha; obtain ⟨l, e⟩ := hl a ha; simp [rowOf, e]
    exact (filterMap_length_full.mpr hsome).trans (spaceAgents_perm w).length_eq

/-- The row of an agent carries its coordinates under `x` and `y` and every other key exactly as its
    portrayal returned it. -/
theorem C20_altair_row_values (heap : Heap) (p : Portrayal) (a : Agent) (l : Loc) (hl : a.location = some l) :
    ∃ row, rowOf heap p a = some row ∧
      Dict.get? row "x" = some (toString l.x) ∧ Dict.get? row "y" = some (toString l.y) ∧
      ∀ k, k ≠ "x" → k ≠ "y" → Dict.get? row k = Dict.get? (portrayed heap p a.id) k :=
  ⟨_, by simp [rowOf, hl], altairRow_spec _ l⟩

/-- The Altair chart (`_draw_grid`): its data are the rows of `C20_altair_one_row_per_agent`; the encoding is read off
    the row of the *first* agent of `space.agents` — a colour / size channel iff that agent's portrayal has the key,
    tooltips for its other keys (all but colour, size, x, y) in the portrayal's order — and of `{}` for a space without
    agents; the marks get the default size `30000 / min(width, height)²` exactly when sizes do not come from the rows;
    x and y are ordinal (nominal for `mesa.space.ContinuousSpace`).  On a supported space of width or height 0 (only
    `mesa.space` classes can be built that small; it holds no agent) that default size is a ZeroDivisionError. -/
theorem C20_altair_chart_encoding {sp : Space} (h : Reachable sp) (heap : Heap) (p : Portrayal)
    (hs : altairSupported sp.fam = true) :
    (sp.placed ≠ [] → min sp.w sp.h ≠ 0) ∧
    (min sp.w sp.h = 0 → altairChart sp heap p = .error .zeroDivision) ∧
    (min sp.w sp.h ≠ 0 → ∃ c, altairChart sp heap p = .ok c ∧
      c.rows = (spaceAgents sp).filterMap (rowOf heap p) ∧
      (spaceAgents sp = [] → c.color = false ∧ c.size = false ∧ c.tooltip = []) ∧
      (∀ a rest, spaceAgents sp = a :: rest →
        c.color = Dict.hasKey (portrayed heap p a.id) "color" ∧
        c.size = Dict.hasKey (portrayed heap p a.id) "size" ∧
        c.tooltip = (Dict.keys (portrayed heap p a.id)).filter fun k => !invalidTooltips.contains k) ∧
      (c.markSize = none ↔ c.size = true) ∧
      (c.size = false → c.markSize = some ⟨30000, (min sp.w sp.h) * (min sp.w sp.h)⟩) ∧
      c.xyType = (if sp.fam = .cs then "nominal" else "ordinal")) := by
  have hr := ((C20_altair_one_row_per_agent h heap p).1 hs).1
  have hposp : sp.placed ≠ [] → min sp.w sp.h ≠ 0 := min_pos_of_placed h hs
  refine ⟨hposp, fun hz => ?_, fun hpos => ?_⟩
  · have hpl : sp.placed = [] := Classical.byContradiction fun hne => hposp hne hz
    have hsa : spaceAgents sp = [] := by
      have := (spaceAgents_perm (reachable_wf h)).length_eq
      rw [hpl] at this
      exact List.length_eq_zero_iff.mp this
    rw [hsa] at hr
    exact altairChart_zero hr hz
  refine ⟨_, altairChart_eq hr hpos, rfl, fun he => ?_, fun a rest he => ?_, ?_, ?_, rfl⟩
  · simp only [he, List.filterMap_nil]
    exact ⟨rfl, rfl, rfl⟩
  · obtain ⟨l, hl⟩ := spaceAgents_located (reachable_wf h) a (by rw [he]; exact List.mem_cons_self)
    simp only [he, firstRow_filterMap heap p a rest hl]
    exact ⟨hasKey_altairRow _ l (by decide) (by decide), hasKey_altairRow _ l (by decide) (by decide),
      keys_altairRow_filter _ l _ (by decide) (by decide)⟩
  · simp only
    split <;> simp_all
  · intro hsz
    simp only at hsz ⊢
    rw [hsz]
    rfl

/-- PARTIAL (open finding A1).  The full statement — "an agent whose portrayal returns a colour (a size) is drawn with
    it", i.e. the chart has the channel as soon as some agent's row has the key — is false for `_draw_grid`, which reads
    the encoding off the first row only (`C20_A1_first_row_encoding_refuted` below).  What holds: a portrayal that gives
    every agent a colour (a size) is encoded with it, one that gives none is not — whatever the order of the agents; and
    the rows (`C20_altair_row_values`) carry every agent's values in all cases. -/
theorem C20_altair_portrayal_encoded_partial {sp : Space} (h : Reachable sp) (heap : Heap) (p : Portrayal)
    (hs : altairSupported sp.fam = true) {c : AltairChart} (hc : altairChart sp heap p = .ok c) :
    (sp.placed ≠ [] → (∀ a ∈ sp.placed, Dict.hasKey (portrayed heap p a.id) "color" = true) → c.color = true) ∧
    ((∀ a ∈ sp.placed, Dict.hasKey (portrayed heap p a.id) "color" = false) → c.color = false) ∧
    (sp.placed ≠ [] → (∀ a ∈ sp.placed, Dict.hasKey (portrayed heap p a.id) "size" = true) → c.size = true) ∧
    ((∀ a ∈ sp.placed, Dict.hasKey (portrayed heap p a.id) "size" = false) → c.size = false) := by
  have hpos : min sp.w sp.h ≠ 0 := by
    intro hz
    rw [(C20_altair_chart_encoding h heap p hs).2.1 hz] at hc
    cases hc
  obtain ⟨c', hc', _, hnil, hcons, _⟩ := (C20_altair_chart_encoding h heap p hs).2.2 hpos
  rw [hc] at hc'
  injection hc' with hc'
  subst hc'
  have hperm := spaceAgents_perm (reachable_wf h)
  have hmem : ∀ a, a ∈ spaceAgents sp → a ∈ sp.placed := fun a ha => hperm.subset ha
  have hne : sp.placed ≠ [] → spaceAgents sp ≠ [] := by
    intro hp he
    have := hperm.length_eq
    rw [he] at this
    exact hp (List.length_eq_zero_iff.mp this.symm)
  cases he : spaceAgents sp with
  | nil =>
    obtain ⟨h1, h2, _⟩ := hnil he
    exact ⟨fun hp => absurd he (hne hp), fun _ => h1, fun hp => absurd he (hne hp), fun _ => h2⟩
  | cons a rest =>
    obtain ⟨h1, h2, _⟩ := hcons a rest he
    have ha : a ∈ sp.placed := hmem a (by rw [he]; exact List.mem_cons_self)
    exact ⟨fun _ hall => by rw [h1]; exact hall a ha, fun hall => by rw [h1]; exact hall a ha,
      fun _ hall => by rw [h2]; exact hall a ha, fun hall => by rw [h2]; exact hall a ha⟩

/-- Open finding A1, the refutation of the full statement: on the hex grid `a1Space` agent 2 — the first of `space.agents` —
    is portrayed by a z-order only and agents 1 and 3 by colour red and size 5: their rows carry colour and size, the
    chart has neither channel (all marks get the default colour and the default size 30000 / 2²).  The other way round
    (`a1Portrayal'`: only the first agent returns a size) the chart has a quantitative size channel that two of the
    three rows have no value for. -/
def a1Space : Space :=
  { fam := .hexm, w := 2, h := 3, cells := gridCells 2 3,
    placed := [mkAgent .hexm 1 ⟨1, 2⟩, mkAgent .hexm 2 ⟨0, 1⟩, mkAgent .hexm 3 ⟨1, 2⟩] }
def a1Heap : Heap := [[("color", "red"), ("size", "5")], [("zorder", "2")]]
def a1Portrayal : Portrayal := fun a => if a = 2 then some 1 else some 0
def a1Portrayal' : Portrayal := fun a => if a = 2 then some 0 else some 1

theorem C20_A1_first_row_encoding_refuted :
    (∃ c, altairChart a1Space a1Heap a1Portrayal = .ok c ∧ c.color = false ∧ c.size = false ∧ c.markSize = some ⟨30000, 4⟩ ∧
      (c.rows.filter fun r => Dict.hasKey r "color" && Dict.hasKey r "size").length = 2) ∧
    (∃ c, altairChart a1Space a1Heap a1Portrayal' = .ok c ∧ c.size = true ∧ c.markSize = none ∧
      (c.rows.filter fun r => !Dict.hasKey r "size").length = 2) := by
  refine ⟨⟨_, rfl, ?_⟩, ⟨_, rfl, ?_⟩⟩ <;> decide

/-! ## property layers -/

/-- Orthogonal grids: the image handed to `imshow(origin="lower")` shows `data[x, y]` in column `x` of image
    row `y`, i.e. at the cell's own place. -/
theorem C20_layer_image_orientation (L : Layer) (hw : L.wellFormed = true) {x y : Nat} (hx : x < L.w) (hy : y < L.h) :
    ∃ row v, (imshowRows L)[y]? = some row ∧ row[x]? = some (some v) ∧ L.at x y = some v := by
  obtain ⟨row, h1, h2⟩ := imshowRows_getElem L hy hx
  obtain ⟨v, hv⟩ := Layer.at_isSome hw hx hy
  exact ⟨row, v, h1, by rw [h2, hv], hv⟩

/-- Hex grids: `_get_hexmesh` (`hexMesh`) yields one hexagon per cell, row by row; the hexagon number `y * w + x` is the
    one centred at `hexCenter x y` — where the agents of cell `(x, y)` are drawn (`C20_hex_marker_at_hexagon_centre`) —, and
    the colour with the same number (`hexColors`: `data.T.ravel()`, fix V8) is that of `data[x, y]`: the two lists that
    `PolyCollection(hexagons, facecolors=…)` pairs up by position agree cell by cell, and there are as many of each as cells. -/
theorem C20_layer_hex_orientation (L : Layer) (hw : L.wellFormed = true) {x y : Nat} (hx : x < L.w) (hy : y < L.h) :
    (hexMesh L.w L.h).length = L.h * L.w ∧ (hexColors L).length = (hexMesh L.w L.h).length ∧
    (hexMesh L.w L.h)[y * L.w + x]? = some (hexCenter x y) ∧
    ∃ v, (hexColors L)[y * L.w + x]? = some (some v) ∧ L.at x y = some v := by
  obtain ⟨v, hv⟩ := Layer.at_isSome hw hx hy
  refine ⟨hexMesh_length _ _, ?_, hexMesh_getElem L.w L.h hy hx, v, by rw [hexColors_getElem L hy hx, hv], hv⟩
  rw [hexMesh_length]
  unfold hexColors
  generalize L.h = n
  induction n with
  | zero => simp
  | succ n ih =>
    rw [List.range_succ, List.flatMap_append, List.length_append, ih]
    simp [Nat.succ_mul]

/-- `data.ravel()`, what the code used before fix V8 -/
def hexColorsRavel (L : Layer) : List (Option Int) :=
  (List.range L.w).flatMap fun c => (List.range L.h).map fun r => L.at c r

/-- Witness V8: on a 2 × 3 layer `data.ravel()` colours the hexagon of cell (1, 0) with the value of
    cell (0, 1). -/
theorem C20_V8_ravel_refuted :
    let L : Layer := { w := 2, h := 3, vals := [0, 1, 2, 3, 4, 5] }
    (hexColorsRavel L)[0 * L.w + 1]? = some (L.at 0 1) ∧ L.at 0 1 ≠ L.at 1 0 ∧
    (hexColors L)[0 * L.w + 1]? = some (L.at 1 0) := by
  decide

/-! ## property layers: which layers, over which range, at which level -/

/-- The level of a value over a range `vmin < vmax` (`np.clip(Normalize(vmin, vmax)(v), 0, 1)`, as a fraction of
    the span): it lies in `[0, 1]`, is 0 exactly for the values up to `vmin` and 1 exactly from `vmax` on. -/
theorem C20_layer_level_bounds (v vmin vmax : Int) (h : vmin < vmax) :
    ((normLevel v vmin vmax).den : Int) = vmax - vmin ∧ 0 ≤ (normLevel v vmin vmax).num ∧
    (normLevel v vmin vmax).num ≤ (normLevel v vmin vmax).den ∧
    ((normLevel v vmin vmax).num = 0 ↔ v ≤ vmin) ∧
    ((normLevel v vmin vmax).num = (normLevel v vmin vmax).den ↔ vmax ≤ v) := by
  have hs : vmax - vmin ≠ 0 := by omega
  have hd : (((vmax - vmin).toNat : Nat) : Int) = vmax - vmin := Int.toNat_of_nonneg (by omega)
  have hb := clamp_bounds (a := v - vmin) (lo := 0) (hi := vmax - vmin) (by omega)
  have h0 := clamp_eq_lo (a := v - vmin) (lo := 0) (hi := vmax - vmin) (by omega)
  have h1 := clamp_eq_hi (a := v - vmin) (lo := 0) (hi := vmax - vmin) (by omega)
  simp only [normLevel, if_neg hs]
  refine ⟨hd, hb.1, by rw [hd]; exact hb.2, ⟨fun h => by have := h0.mp h; omega, fun h => h0.mpr (by omega)⟩, ?_⟩
  rw [hd]
  exact ⟨fun h => by have := h1.mp h; omega, fun h => h1.mpr (by omega)⟩

/-- The level is monotone in the value, and strictly monotone between `vmin` and `vmax`: there a larger value
    is drawn at a strictly higher level, so different values of the layer look different. -/
theorem C20_layer_level_monotone (vmin vmax : Int) (h : vmin < vmax) {v v' : Int} :
    (v ≤ v' → (normLevel v vmin vmax).num ≤ (normLevel v' vmin vmax).num) ∧
    (vmin ≤ v → v < v' → v' ≤ vmax → (normLevel v vmin vmax).num < (normLevel v' vmin vmax).num) ∧
    (normLevel v vmin vmax).den = (normLevel v' vmin vmax).den := by
  have hs : vmax - vmin ≠ 0 := by omega
  simp only [normLevel, if_neg hs]
  refine ⟨fun hv => clamp_mono (by omega), fun h1 h2 h3 => ?_, trivial⟩
  rw [clamp_eq_self (by omega) (by omega), clamp_eq_self (by omega) (by omega)]
  omega

/-- Between `vmin` and `vmax` the level is linear in the value and determines it: `v = vmin + level · (vmax − vmin)`
    (the numerator of the level is `v − vmin`). -/
theorem C20_layer_level_determines_value (v vmin vmax : Int) (h : vmin < vmax) (h1 : vmin ≤ v) (h2 : v ≤ vmax) :
    v = vmin + (normLevel v vmin vmax).num := by
  have hs : vmax - vmin ≠ 0 := by omega
  simp only [normLevel, if_neg hs]
  rw [clamp_eq_self (by omega) (by omega)]
  omega

/-- Under the automatic range (no `vmin` / `vmax` in the portrayal) the range is the layer's own minimum and
    maximum, both are values of the layer and every cell lies in the range — so, by the two theorems above, the
    picture determines the layer. -/
theorem C20_layer_auto_range (L : Layer) (pt : LayerPortrayal) (hmin : pt.vmin = none) (hmax : pt.vmax = none)
    {vmin vmax : Int} (hr : layerRange L pt = some (vmin, vmax)) :
    vmin ∈ L.vals ∧ vmax ∈ L.vals ∧ vmin ≤ vmax ∧ ∀ x y v, L.at x y = some v → vmin ≤ v ∧ v ≤ vmax := by
  unfold layerRange at hr
  cases h1 : minOf L.vals <;> cases h2 : maxOf L.vals <;> rw [h1, h2] at hr <;> try (cases hr; done)
  rename_i lo hi
  simp only [hmin, hmax, Option.getD_none, Option.some.injEq, Prod.mk.injEq] at hr
  obtain ⟨rfl, rfl⟩ := hr
  have ⟨hm1, hm2⟩ := minOf_spec h1
  have ⟨hM1, hM2⟩ := maxOf_spec h2
  exact ⟨hm1, hM1, hm2 _ hM1, fun x y v hv => ⟨hm2 v (Layer.at_mem hv), hM2 v (Layer.at_mem hv)⟩⟩

/-- What a drawn layer shows (all four ways of drawing; `Picture.cell`: image row `y`, column `x` for the
    orthogonal grids — `imshow(…, origin="lower")` —, hexagon `y·w + x` for the hex grids): at the place of cell
    `(x, y)` the layer's current value `data[x, y]`, normalised over `[vmin, vmax]` (`layerRange`: the portrayal's
    bounds, else the layer's own minimum / maximum), at opacity `alpha`; the colour bar, if requested, spans the
    same `[vmin, vmax]`; on hex grids the range is not inverted. -/
theorem C20_layer_cells_show_their_values {fam : Family} {name : String} {L : Layer} {pt : LayerPortrayal} {d : DrawnLayer}
    (hw : L.wellFormed = true) (hd : drawLayer fam name L pt = .ok d) {x y : Nat} (hx : x < L.w) (hy : y < L.h) :
    ∃ v vmin vmax, L.at x y = some v ∧ layerRange L pt = some (vmin, vmax) ∧ d.name = name ∧
      d.cbar = (if pt.colorbar then some (vmin, vmax) else none) ∧
      (fam.isHex = true → vmin ≤ vmax) ∧
      (∀ c, pt.mode = .color c → fam.isHex = false →
        d.pic.cell L.w x y = some (.opacity (orthoShade pt.alpha v vmin vmax))) ∧
      (∀ c, pt.mode = .color c → fam.isHex = true →
        d.pic.cell L.w x y = some (.opacity (hexShade pt.alpha v vmin vmax))) ∧
      (∀ c, pt.mode = .colormap c → fam.isHex = false →
        d.pic.cell L.w x y = some (.raw v pt.alpha vmin vmax)) ∧
      (∀ c, pt.mode = .colormap c → fam.isHex = true →
        d.pic.cell L.w x y = some (.level (normLevel v vmin vmax) pt.alpha)) ∧
      pt.mode ≠ .neither :=
  drawLayer_cell hw hd hx hy

/-- `draw_property_layers` draws exactly the requested layers the space has, once each and in the order of the
    request (`knownPorts`); names without a layer are skipped; every picture is the one of its own layer and its
    own portrayal. -/
theorem C20_layers_drawn_are_the_requested_ones (fam : Family) (layers : List (String × Layer))
    (ports : List (String × LayerPortrayal)) {ds : List DrawnLayer} (h : drawLayers fam layers ports = .ok ds) :
    (fam.isOrthogonal = true ∨ fam.isHex = true) ∧
    ds.map (·.name) = (knownPorts layers ports).map (·.1) ∧
    ∀ d ∈ ds, ∃ pt L, (d.name, pt) ∈ knownPorts layers ports ∧ layers.lookup d.name = some L ∧
      drawLayer fam d.name L pt = .ok d := by
  unfold drawLayers at h
  split at h
  · rename_i hg
    exact ⟨by simpa using hg, drawLayersLoop_spec fam layers ports ds h⟩
  · cases h

/-- `draw_space(space, agent_portrayal, propertylayer_portrayal, ax)` puts both on one Axes: the agents exactly as
    without layers (so `C20_draw_one_marker_per_agent` applies), then the layers exactly as `draw_property_layers`
    draws them; an empty request is skipped (on every class), a refused one raises after the agents are drawn. -/
theorem C20_draw_space_with_layers {sp : Space} (h : Reachable sp) (hr : drawRaises sp = none) (heap : Heap) (p : Portrayal)
    (layers : List (String × Layer)) (ports : List (String × LayerPortrayal)) :
    ∃ gs, drawSpace sp heap p = .ok gs ∧
      (ports = [] → drawSpaceFull sp heap p layers ports = .ok (gs, [])) ∧
      (ports ≠ [] → ∀ ds, drawLayers sp.fam layers ports = .ok ds → drawSpaceFull sp heap p layers ports = .ok (gs, ds)) ∧
      (ports ≠ [] → ∀ e, drawLayers sp.fam layers ports = .error e →
        drawSpaceFull sp heap p layers ports = .error (.layers e)) := by
  obtain ⟨gs, hgs, _⟩ := (C20_draw_one_marker_per_agent h heap p).2.2 hr
  refine ⟨gs, hgs, fun he => ?_, fun hne ds hd => ?_, fun hne e hd => ?_⟩
  · unfold drawSpaceFull; rw [hgs, he]; rfl
  · have : ports.isEmpty = false := by cases ports <;> simp_all
    unfold drawSpaceFull; rw [hgs]; simp only [this, hd]; rfl
  · have : ports.isEmpty = false := by cases ports <;> simp_all
    unfold drawSpaceFull; rw [hgs]; simp only [this, hd]; rfl

/-- What is refused: a space class without property layers (AttributeError), a layer whose portrayal names neither
    a colour nor a colormap, a hex layer over an inverted range (ValueError, raised by `Normalize`). -/
theorem C20_layers_refused (fam : Family) (layers : List (String × Layer)) (name : String) (L : Layer) (pt : LayerPortrayal) :
    ((fam.isOrthogonal || fam.isHex) = false → ∀ ports, drawLayers fam layers ports = .error .attribute) ∧
    (pt.mode = .neither → drawLayer fam name L pt = .error .value) ∧
    (fam.isHex = true → ∀ vmin vmax, layerRange L pt = some (vmin, vmax) → vmax < vmin →
      drawLayer fam name L pt = .error .value) := by
  refine ⟨fun h ports => by unfold drawLayers; rw [h]; rfl, fun hm => ?_, fun hf vmin vmax hr hlt => ?_⟩
  · unfold drawLayer
    cases minOf L.vals <;> cases maxOf L.vals <;> simp [hm]
  · unfold layerRange at hr
    unfold drawLayer
    cases h1 : minOf L.vals <;> cases h2 : maxOf L.vals <;> rw [h1, h2] at hr <;> try (cases hr; done)
    simp only [Option.some.injEq, Prod.mk.injEq] at hr
    obtain ⟨rfl, rfl⟩ := hr
    cases hm : pt.mode <;> simp [hf, hlt]

/-- Colour mode, orthogonal against hex grids: inside the range (and for `alpha ≤ 1`) both draw the cell at
    opacity `level · alpha`; they differ only in where they cut (`np.clip` of the product against `np.clip` of the
    level): a value above `vmax` is drawn more opaque on an orthogonal grid (witness: value 3 over `[0, 2]` at
    alpha 0.5: 3/4 against 1/2). -/
theorem C20_layer_color_modes_agree_in_range (alpha : Nat) (ha : alpha ≤ 100) (v vmin vmax : Int) (h : vmin < vmax)
    (h1 : vmin ≤ v) (h2 : v ≤ vmax) :
    orthoShade alpha v vmin vmax = hexShade alpha v vmin vmax ∧
    (orthoShade alpha v vmin vmax).num = (v - vmin) * alpha ∧
    ((orthoShade alpha v vmin vmax).den : Int) = (vmax - vmin) * 100 ∧
    orthoShade 50 3 0 2 = ⟨150, 200⟩ ∧ hexShade 50 3 0 2 = ⟨100, 200⟩ := by
  have hs : vmax - vmin ≠ 0 := by omega
  have hp : 0 < vmax - vmin := by omega
  have hmul : (v - vmin) * (alpha : Int) ≤ (vmax - vmin) * 100 :=
    Int.mul_le_mul (by omega) (by omega) (by omega) (by omega)
  have hnn : 0 ≤ (v - vmin) * (alpha : Int) := Int.mul_nonneg (by omega) (by omega)
  have hden : ((vmax - vmin) * 100).toNat = (vmax - vmin).toNat * 100 := by
    have : 0 ≤ vmax - vmin := by omega
    omega
  refine ⟨?_, ?_, ?_, by decide, by decide⟩
  · simp only [orthoShade, hexShade, normLevel, if_neg hs, if_pos hp]
    rw [clamp_eq_self hnn hmul, clamp_eq_self (by omega) (by omega), hden]
  · simp only [orthoShade, if_neg hs, if_pos hp]
    exact clamp_eq_self hnn hmul
  · simp only [orthoShade, if_neg hs, if_pos hp]
    exact Int.toNat_of_nonneg (by omega)

/-! ## the model-parameter check -/

/-- `_check_model_params` accepts a parameter set exactly when the constructor takes no `*args` (refused by
    policy) and Python can bind the instance positionally and the parameters by keyword (`bindsByKeyword`:
    the binding rule written out — `**kw` under any name, positional-only parameters, keyword-only
    parameters, defaults, the instance parameter under any name). -/
theorem C20_check_accepts_iff_binds_by_keyword (sig : List Param) (keys : List String) :
    checkModelParams sig keys = .ok () ↔ hasVarPositional sig = false ∧ bindsByKeyword sig keys :=
  checkModelParams_ok_iff sig keys

/-- The check told about keywords the caller of the constructor passes anyway (fix P3: `simulator`, which a
    `SimulatorController` adds on every reset) accepts exactly when the call `init(instance, **extra, **params)` can be
    made: no parameter has the name of such a keyword (it would be passed twice), and the constructor binds the extra
    keywords together with the parameters — a class that cannot take `simulator=` is refused, a class that requires it is
    not reported as missing it. -/
theorem C20_check_with_controller_keywords (sig : List Param) (extra keys : List String) :
    (checkModelParamsExtra sig extra keys = .ok () ↔
      hasVarPositional sig = false ∧ (∀ k ∈ extra, k ∉ keys) ∧ bindsByKeyword sig (extra ++ keys)) ∧
    checkModelParamsExtra sig [] keys = checkModelParams sig keys :=
  ⟨checkModelParamsExtra_ok_iff sig extra keys, checkModelParamsExtra_nil sig keys⟩

/-- The split into user-adjustable and fixed parameters loses and invents nothing, keeps the order inside
    each part, puts a parameter into the fixed part exactly when `check_param_is_fixed` says so, and — the
    names of a dict being distinct — no name lands in both parts. -/
theorem C20_split_lossless_disjoint (ps : List (String × PyVal)) :
    ((splitModelParams ps).1 ++ (splitModelParams ps).2).Perm ps ∧
    (splitModelParams ps).1.Sublist ps ∧ (splitModelParams ps).2.Sublist ps ∧
    (∀ kv ∈ (splitModelParams ps).1, isFixed kv.2 = false) ∧
    (∀ kv ∈ (splitModelParams ps).2, isFixed kv.2 = true) ∧
    ((ps.map (·.1)).Nodup → ∀ k, k ∈ (splitModelParams ps).1.map (·.1) → k ∉ (splitModelParams ps).2.map (·.1)) := by
  refine ⟨split_perm ps, List.filter_sublist, List.filter_sublist, ?_, ?_, ?_⟩
  · intro kv h
    have := (List.mem_filter.mp h).2
    simpa using this
  · intro kv h
    exact (List.mem_filter.mp h).2
  · intro hnd k h1 h2
    have hp := ((split_perm ps).map (·.1)).nodup_iff.mpr hnd
    rw [List.map_append, List.nodup_append] at hp
    exact hp.2.2 k h1 k h2 rfl

/-- `ModelCreator` (fix P2) checks the constructor against all parameters, the user-adjustable ones
    included: it accepts exactly when `_check_model_params` accepts the whole parameter dict (with the keywords of the
    controller, if any). -/
theorem C20_creator_checks_all_params (sig : List Param) (ps : List (String × PyVal)) (extra : List String) :
    (creatorCheck sig ps extra = .ok () ↔ checkModelParamsExtra sig extra (ps.map (·.1)) = .ok ()) ∧
    (creatorCheck sig ps = .ok () ↔ checkModelParams sig (ps.map (·.1)) = .ok ()) :=
  ⟨creatorCheck_ok_iff sig ps extra, by rw [creatorCheck_ok_iff sig ps [], checkModelParamsExtra_nil]⟩

/-! ## ModelCreator: from `model_params` to the parameters the model is (re-)created with -/

/-- The parameter set `ModelCreator` hands on for creating the model (`model_parameters`): every name of
    `model_params` exactly once — the fixed ones first, then the user-adjustable ones, each part in the order of the
    dict —, a fixed value as it was given, an input at its `value`.  Nothing is lost in the split and nothing is added. -/
theorem C20_creator_params_lossless (ps : List (String × ParamVal)) :
    (initialParams ps).map (·.1) = (splitParams ps).2.map (·.1) ++ (splitParams ps).1.map (·.1) ∧
    ((initialParams ps).map (·.1)).Perm (ps.map (·.1)) ∧
    (initialParams ps).Perm (ps.map fun kv => (kv.1, kv.2.initial)) ∧
    (∀ kv ∈ (splitParams ps).1, isFixed kv.2.toPy = false) ∧ (∀ kv ∈ (splitParams ps).2, isFixed kv.2.toPy = true) := by
  refine ⟨initialParams_keys ps, ?_, ?_, ?_, ?_⟩
  · rw [initialParams_keys, ← List.map_append]
    exact (splitParams_perm ps).map _
  · rw [initialParams_eq]
    exact (splitParams_perm ps).map _
  · intro kv h
    have := (List.mem_filter.mp h).2
    simpa using this
  · intro kv h
    exact (List.mem_filter.mp h).2

/-- `UserInputs` creates one input per user-adjustable parameter, in the order of the dict, reporting under the
    parameter's name: for a `Slider` a float or an int slider as the slider says, for an option dict the input its
    `type` names, labelled with its `label` (the parameter's name if it has none), starting at its `value`; it
    raises exactly when some option dict names an unsupported type. -/
theorem C20_user_inputs_one_per_adjustable_param (us : List (String × ParamVal)) :
    (∀ ws, userInputs us = .ok ws →
      ws.map (·.name) = us.map (·.1) ∧ us.map (fun kv => widgetOf kv.1 kv.2) = ws.map some) ∧
    ((∃ t, userInputs us = .error t) ↔ ∃ kv ∈ us, widgetOf kv.1 kv.2 = none) := by
  refine ⟨userInputs_ok us, ⟨fun ⟨t, h⟩ => userInputs_error us t h, fun ⟨kv, hm, hw⟩ => ?_⟩⟩
  cases h : userInputs us with
  | error t => exact ⟨t, rfl⟩
  | ok ws =>
    have h2 := (userInputs_ok us ws h).2
    have : widgetOf kv.1 kv.2 ∈ us.map (fun kv => widgetOf kv.1 kv.2) := List.mem_map.mpr ⟨kv, hm, rfl⟩
    rw [h2, hw] at this
    simp at this

/-- `ModelCreator` renders without an error exactly when every input type is supported and the constructor can be
    called by keyword with the parameter set it hands on (`initialParams`) together with the keywords `extra` the
    controller adds — the check of the full `model_params` is a check of the call `Model(**model_parameters)`
    (`Model(simulator=simulator, **model_parameters)`) that a reset makes. -/
theorem C20_creator_accepts_iff_model_can_be_created (sig : List Param) (ps : List (String × ParamVal)) (extra : List String) :
    (∃ r, modelCreator sig ps extra = .ok r) ↔
      (∃ ws, userInputs (splitParams ps).1 = .ok ws) ∧ hasVarPositional sig = false ∧
        (∀ k ∈ extra, k ∉ (initialParams ps).map (·.1)) ∧
        bindsByKeyword sig (extra ++ (initialParams ps).map (·.1)) := by
  have hkeys : ∀ k, k ∈ (ps.map fun kv => (kv.1, kv.2.toPy)).map (·.1) ↔ k ∈ (initialParams ps).map (·.1) := by
    intro k
    rw [((C20_creator_params_lossless ps).2.1).mem_iff, List.map_map]
    rfl
  have hcheck : creatorCheck sig (ps.map fun kv => (kv.1, kv.2.toPy)) extra = .ok () ↔
      hasVarPositional sig = false ∧ (∀ k ∈ extra, k ∉ (initialParams ps).map (·.1)) ∧
        bindsByKeyword sig (extra ++ (initialParams ps).map (·.1)) := by
    rw [creatorCheck_ok_iff sig _ extra, checkModelParamsExtra_ok_iff]
    refine and_congr_right fun _ => and_congr ?_ (bindsByKeyword_congr fun k => ?_)
    · exact forall_congr' fun k => imp_congr_right fun _ => not_congr (hkeys k)
    · rw [List.mem_append, List.mem_append, hkeys k]
  unfold modelCreator
  cases hu : userInputs (splitParams ps).1 with
  | error t => simp
  | ok ws =>
    simp only
    cases hc : creatorCheck sig (ps.map fun kv => (kv.1, kv.2.toPy)) extra with
    | error e =>
      have : ¬(hasVarPositional sig = false ∧ (∀ k ∈ extra, k ∉ (initialParams ps).map (·.1)) ∧
          bindsByKeyword sig (extra ++ (initialParams ps).map (·.1))) := by
        rw [← hcheck, hc]; simp
      exact ⟨fun ⟨r, hr⟩ => by simp at hr, fun ⟨_, hh⟩ => absurd hh this⟩
    | ok u =>
      have := hcheck.mp (by rw [hc])
      cases u
      exact ⟨fun _ => ⟨⟨ws, rfl⟩, this⟩, fun _ => ⟨_, rfl⟩⟩

/-- A change of an input (`on_change(name, value)` for a name the parameter set has) replaces the value under that
    name and nothing else: the names — hence whether the constructor can be called with the set — stay the same. -/
theorem C20_input_change_keeps_the_parameter_set (sig : List Param) (params : List (String × Option Val))
    (name : String) (value : Val) (h : name ∈ params.map (·.1)) :
    (onChange params name value).map (·.1) = params.map (·.1) ∧
    (∀ kv ∈ onChange params name value, kv.1 = name → kv.2 = some value) ∧
    (∀ kv, kv.1 ≠ name → (kv ∈ onChange params name value ↔ kv ∈ params)) ∧
    (bindsByKeyword sig ((onChange params name value).map (·.1)) ↔ bindsByKeyword sig (params.map (·.1))) := by
  have hk := onChange_keys params name value h
  obtain ⟨h1, h2⟩ := onChange_spec params name value h
  exact ⟨hk, h1, h2, by rw [hk]⟩

/-! ## The controls of `SolaraViz`: Step, ▶ / ❚❚, Reset, the play loop, and the model a reset creates

`Ctrl` is the state `ModelController` / `SimulatorController` and `ModelCreator` share (`Model/VizCtrl.lean`); a model class
is a `Behaviour` (is the instance created with these arguments still `running` after its k-th step?) and every theorem
holds for all of them. -/

/-- The Step button is disabled exactly while playing or when the model has stopped; a click advances the model by
    exactly `render_interval` steps (it does not stop early when the model stops in between), updates the display
    once, leaves the model and its arguments in place, and the flag the buttons are drawn from is the model's
    `running` after the last of these steps. -/
theorem C20_ctrl_step_button (beh : Behaviour) (c : Ctrl) :
    (c.apply beh .step = none ↔ (c.playing = true ∨ c.running = false)) ∧
    (∀ c', c.apply beh .step = some c' →
      c'.steps = c.steps + c.render ∧ c'.updates = c.updates + 1 ∧ c'.gen = c.gen ∧ c'.kwargs = c.kwargs ∧
      c'.playing = false ∧ c'.params = c.params ∧
      (0 < c.render → c'.running = beh c.kwargs (c.steps + c.render) ∧ c'.mrunning = c'.running)) := by
  constructor
  · simp only [Ctrl.apply]
    cases c.playing <;> cases c.running <;> simp
  · intro c' h
    simp only [Ctrl.apply] at h
    split at h
    · exact absurd h (by simp)
    · rename_i hc
      have hp : c.playing = false := by cases hpl : c.playing <;> simp_all
      injection h with h
      subst h
      obtain ⟨⟨a1, _, a3, a4, _, _, a7⟩, _, _, _, e5⟩ := stepLoop_spec beh false none c.render 1 c
      obtain ⟨g1, g2⟩ := stepLoop_all beh false c.render 1 c (fun h => absurd h (by simp))
      simp only [doStep, hp, Bool.false_eq_true, if_false]
      refine ⟨g1, by rw [a7], a4, a3, g2.trans hp, a1, fun hr => ?_⟩
      obtain ⟨f1, f2, _⟩ := e5 hr
      rw [g1] at f2
      exact ⟨f1.trans f2, f1.symm⟩

/-- Over every history of clicks, slider moves, input changes and play loops (with whatever the user does during
    them): the controller never goes back to an earlier model, and as long as no reset replaced the model its step
    count never decreases and its constructor arguments stay what they were. -/
theorem C20_ctrl_steps_never_go_back (beh : Behaviour) (c : Ctrl) (ops : List CtrlOp) :
    c.gen ≤ (c.run beh ops).gen ∧
    ((c.run beh ops).gen = c.gen → c.steps ≤ (c.run beh ops).steps ∧ (c.run beh ops).kwargs = c.kwargs) :=
  run_before beh ops c

/-- If `SolaraViz` renders (the inputs are supported and `ModelCreator`'s check accepts `model_params`) — with a
    `ModelController` (`sim = false`) or with a `SimulatorController` (`sim = true`) —, then after every history of user
    actions the parameter set still has exactly the names `ModelCreator` handed on, every model a reset has created was
    called with exactly these names besides the controller's own keywords (`extraKeywords`: `simulator` under a
    `SimulatorController`, nothing otherwise), no parameter has the name of such a keyword, and the constructor binds
    the controller's keywords together with the parameters: no reset can fail on its arguments, whatever the inputs
    were changed to. -/
theorem C20_ctrl_every_reset_gets_the_whole_parameter_set (beh : Behaviour) (sig : List Param)
    (ps : List (String × ParamVal)) (kw0 : Params) (r : Nat) (t sim : Bool) (c0 : Ctrl)
    (h : Ctrl.init beh sig ps kw0 r t sim = .ok c0) (ops : List CtrlOp) :
    (c0.run beh ops).params.map (·.1) = (initialParams ps).map (·.1) ∧
    (0 < (c0.run beh ops).gen → (c0.run beh ops).kwargs.map (·.1) = (initialParams ps).map (·.1)) ∧
    (c0.run beh ops).extraKeywords = (if sim then ["simulator"] else []) ∧
    hasVarPositional sig = false ∧
    (∀ k ∈ (c0.run beh ops).extraKeywords, k ∉ (c0.run beh ops).params.map (·.1)) ∧
    bindsByKeyword sig ((c0.run beh ops).extraKeywords ++ (c0.run beh ops).params.map (·.1)) := by
  unfold Ctrl.init at h
  cases hm : modelCreator sig ps (if sim then ["simulator"] else []) with
  | error e => rw [hm] at h; exact absurd h (by simp)
  | ok res =>
    obtain ⟨mp, ws⟩ := res
    rw [hm] at h
    injection h with h
    have hacc := (C20_creator_accepts_iff_model_can_be_created sig ps _).mp ⟨_, hm⟩
    -- what `modelCreator` returned
    have hmp : mp = initialParams ps ∧ userInputs (splitParams ps).1 = .ok ws := by
      unfold modelCreator at hm
      cases hu : userInputs (splitParams ps).1 with
      | error t => rw [hu] at hm; exact absurd hm (by simp)
      | ok ws' =>
        rw [hu] at hm
        simp only at hm
        cases hc : creatorCheck sig (ps.map fun kv => (kv.1, kv.2.toPy)) (if sim then ["simulator"] else []) with
        | error e => rw [hc] at hm; exact absurd hm (by simp)
        | ok u =>
          rw [hc] at hm
          simp only at hm
          injection hm with hm
          injection hm with h1 h2
          exact ⟨h1.symm, by rw [h2]⟩
    have hinv : c0.paramsInv ((initialParams ps).map (·.1)) := by
      subst h
      refine ⟨by rw [hmp.1], fun n hn => ?_, fun hg => absurd hg (Nat.lt_irrefl 0)⟩
      simp only at hn
      rw [(userInputs_ok _ ws hmp.2).1] at hn
      rw [initialParams_keys]
      exact List.mem_append_right _ hn
    have hrun := run_paramsInv beh _ ops c0 hinv
    have hsim : (c0.run beh ops).extraKeywords = (if sim then ["simulator"] else []) := by
      unfold Ctrl.extraKeywords
      rw [run_sim beh ops c0]
      subst h
      rfl
    refine ⟨hrun.1, hrun.2.2, hsim, hacc.2.1, ?_, ?_⟩
    · rw [hrun.1, hsim]
      exact hacc.2.2.1
    · rw [hrun.1, hsim]
      exact hacc.2.2.2

/-- A reset after any sequence of input changes creates a fresh model (step 0, not playing, the flag of the buttons on
    — whatever the new model says of itself: `mrunning` is the class's answer for these arguments at step 0) whose keyword
    arguments are the whole parameter set — every name once — with, for each name, the value its input reported last,
    and the value it had before for a name no input reported. -/
theorem C20_ctrl_reset_uses_latest_inputs (beh : Behaviour) (c : Ctrl) (names : List String) (hi : c.paramsInv names)
    (changes : List (String × Val)) (hin : ∀ ch ∈ changes, ch.1 ∈ c.inputs) :
    let c' := c.run beh (changes.map (fun ch => CtrlOp.change ch.1 ch.2) ++ [.reset])
    c'.gen = c.gen + 1 ∧ c'.steps = 0 ∧ c'.playing = false ∧ c'.running = true ∧ c'.mrunning = beh c'.kwargs 0 ∧
    c'.kwargs.map (·.1) = names ∧
    ∀ name, c'.kwargs.lookup name = match lastChange changes name with
      | some v => some (some v)
      | none => c.params.lookup name :=
  run_changes_reset beh names changes c hi hin

/-- The play loop on a model that stops when it reaches step `S`, left alone for at least `m` ticks, where `m` is the
    number of ticks that takes (`steps + render·(m−1) < S ≤ steps + render·m`): it makes exactly `m` ticks of
    `render_interval` steps each — a tick is never cut short, so the model may be stepped up to `render_interval − 1`
    steps past `S` —, then ends by itself with the run flag off (`playing` stays on, the ▶ / ❚❚ button is disabled),
    having updated the display once per tick (never, while the threads option leaves that to the other thread). -/
theorem C20_ctrl_play_runs_to_the_models_stop (beh : Behaviour) (S m n : Nat) (c : Ctrl)
    (hbeh : ∀ j, beh c.kwargs j = decide (j < S)) (hp : c.playing = true) (hr : c.running = true)
    (hm : 0 < m) (hmn : m ≤ n) (hlo : c.steps + c.render * (m - 1) < S) (hhi : S ≤ c.steps + c.render * m) :
    let c' := playLoop beh (List.replicate n (Ev.idle, none)) c
    c'.steps = c.steps + c.render * m ∧ S ≤ c'.steps ∧ c'.steps < S + c.render ∧
    c'.running = false ∧ c'.mrunning = false ∧ c'.playing = true ∧ c'.gen = c.gen ∧
    c'.updates = (if c.threads then c.updates else c.updates + m) := by
  obtain ⟨k, rfl⟩ : ∃ k, m = k + 1 := ⟨m - 1, by omega⟩
  simp only [Nat.add_sub_cancel] at hlo
  obtain ⟨h1, h2, h3, h4, h5, _, h7⟩ := playLoop_idle_run beh S k n c hbeh hp hr hmn hlo hhi
  have hmul : c.render * (k + 1) = c.render * k + c.render := Nat.mul_succ _ _
  exact ⟨h1, by rw [h1]; exact hhi, by rw [h1]; omega, h2, h3, h4, h5, h7⟩

/-- Pausing.  (a) A click on ❚❚ while the loop sleeps between two ticks: the loop still makes one whole tick of
    `render_interval` steps (by then on the not-playing branch: one update), then ends.  (b) A click on ❚❚ during
    the `j`-th step of a tick (the model still running up to there): the tick ends right after that step. -/
theorem C20_ctrl_pause (beh : Behaviour) (c : Ctrl) (hp : c.playing = true) (hr : c.running = true) :
    (∀ rest, let c' := playLoop beh ((Ev.pause, none) :: rest) c
      c'.steps = c.steps + c.render ∧ c'.playing = false ∧ c'.updates = c.updates + 1 ∧ c'.gen = c.gen) ∧
    (∀ j, 1 ≤ j → j ≤ c.render → (∀ k, 1 ≤ k → k < j → beh c.kwargs (c.steps + k) = true) →
      (doStep beh (some j) c).steps = c.steps + j ∧ (doStep beh (some j) c).playing = false ∧
      (doStep beh (some j) c).gen = c.gen) := by
  constructor
  · intro rest
    have hf : (applyEv beh c .pause).playing = false ∧ (applyEv beh c .pause).steps = c.steps ∧ (applyEv beh c .pause).render = c.render ∧
        (applyEv beh c .pause).updates = c.updates ∧ (applyEv beh c .pause).gen = c.gen := by
      simp [applyEv, Ctrl.clickPlay, hr, hp]
    simp only [playLoop, hp, hr, Bool.and_self, if_true]
    generalize applyEv beh c Ev.pause = c1 at *
    obtain ⟨f1, f2, f3, f4, f5⟩ := hf
    obtain ⟨⟨_, _, _, a4, _, _, a7⟩, _⟩ := stepLoop_spec beh false none c1.render 1 c1
    obtain ⟨g1, g2⟩ := stepLoop_all beh false c1.render 1 c1 (fun h => absurd h (by simp))
    have hd : (doStep beh none c1).steps = c.steps + c.render ∧ (doStep beh none c1).playing = false ∧
        (doStep beh none c1).updates = c.updates + 1 ∧ (doStep beh none c1).gen = c.gen := by
      simp only [doStep, f1, Bool.false_eq_true, if_false]
      exact ⟨by rw [g1, f2, f3], g2.trans f1, by rw [a7, f4], a4.trans f5⟩
    rw [playLoop_not_running beh rest _ (by simp [hd.2.1])]
    exact hd
  · intro j h1 hj hb
    have hk := stepLoop_hook beh j (j - 1) c.render 1 c (by omega) hp hr (by omega)
      (fun k hk1 hk2 => hb k hk1 (by omega))
    obtain ⟨⟨_, _, _, a4, _, _, _⟩, _⟩ := stepLoop_spec beh true (some j) c.render 1 c
    simp only [doStep, hp, if_true]
    split
    · exact ⟨by rw [hk.1]; omega, hk.2, a4⟩
    · exact ⟨by simp only; rw [hk.1]; omega, hk.2, a4⟩

/-- As long as the threads checkbox is left alone, after every history of user actions `model.running` is what the
    model class says of the current model at its current step, and the flag the buttons are drawn from (`running`: Step
    and ▶ / ❚❚ are disabled without it) is the model's own `running` — with one exception: a model that has not been
    stepped since a reset (or the first render) created it has the flag on whatever it says of itself, because
    `do_reset` sets `running.value = True` and never reads `model.running`.  For a class whose instances start
    `running` (what `mesa.Model.__init__` does) the flag is the model's throughout.  (Toggling the checkbox mounts the
    controller anew with the flag on — `ctrlThreadsWitness` below: the buttons of a stopped model come back.) -/
theorem C20_ctrl_running_flag_is_the_models (beh : Behaviour) (c : Ctrl) (ops : List CtrlOp)
    (hops : ∀ op ∈ ops, op.isThreads = false) (hm : c.mrunning = beh c.kwargs c.steps)
    (h : c.running = c.mrunning ∨ (c.steps = 0 ∧ c.running = true)) :
    let c' := c.run beh ops
    c'.mrunning = beh c'.kwargs c'.steps ∧
    (c'.running = c'.mrunning ∨ (c'.steps = 0 ∧ c'.running = true ∧ beh c'.kwargs 0 = false)) ∧
    ((∀ kw, beh kw 0 = true) → c'.running = c'.mrunning) := by
  obtain ⟨h1, h2⟩ := run_flagInv beh ops c hops ⟨hm, h⟩
  refine ⟨h1, ?_, fun hb => ?_⟩
  · rcases h2 with h2 | ⟨h3, h4⟩
    · exact Or.inl h2
    · cases hb : beh (c.run beh ops).kwargs 0 with
      | true => left; rw [h1, h3, hb, h4]
      | false => exact Or.inr ⟨h3, h4, rfl⟩
  · rcases h2 with h2 | ⟨h3, h4⟩
    · exact h2
    · rw [h1, h3, hb, h4]

/-- The exception is real: a model class that stops in its constructor when created with `stop=0`, Reset:
    the new model is not running, the flag is on and Step can be clicked. -/
theorem C20_ctrl_reset_flag_ignores_a_stopped_model :
    let beh : Behaviour := fun kw _ => decide (kw.lookup "stop" ≠ some (some "0"))
    let c : Ctrl := { params := [("stop", some "0")], kwargs := [] }
    ((c.run beh [.reset]).mrunning, (c.run beh [.reset]).running, ((c.run beh [.reset]).apply beh .step).isSome) =
      (false, true, true) := by
  decide

/-! ## non-vacuity -/

/-- a hex grid with three agents, two of them in one cell and sharing one portrayal dict -/
def exSpace : Space :=
  { fam := .hexm, w := 2, h := 3, cells := gridCells 2 3,
    placed := [mkAgent .hexm 1 ⟨1, 2⟩, mkAgent .hexm 2 ⟨0, 1⟩, mkAgent .hexm 3 ⟨1, 2⟩] }

def exHeap : Heap := [[("color", "red"), ("marker", "s"), ("id", "7")], [("zorder", "2")]]
def exPortrayal : Portrayal := fun a => if a = 2 then some 1 else some 0

example : Reachable exSpace := by
  have h0 : Space.init? .hexm 2 3 [] = some { fam := .hexm, w := 2, h := 3, cells := gridCells 2 3, placed := [] } := by
    decide
  have h1 := Reachable.step (op := .place 1 ⟨1, 2⟩) (Reachable.init h0) (sp' :=
    { fam := .hexm, w := 2, h := 3, cells := gridCells 2 3, placed := [mkAgent .hexm 1 ⟨1, 2⟩] }) (by decide)
  have h2 := Reachable.step (op := .place 2 ⟨0, 1⟩) h1 (sp' :=
    { fam := .hexm, w := 2, h := 3, cells := gridCells 2 3,
      placed := [mkAgent .hexm 1 ⟨1, 2⟩, mkAgent .hexm 2 ⟨0, 1⟩] }) (by decide)
  exact Reachable.step (op := .place 3 ⟨1, 2⟩) h2 (by decide)

-- `space.agents` walks the cells: agent 2 (cell (0,1)) comes before agents 1 and 3 (cell (1,2))
example : (spaceAgents exSpace).map (·.id) = [2, 1, 3] := by decide

-- several agents, markers and z-orders, one portrayal dict shared: the drawing consists of two non-empty
-- scatter calls
example : (drawSpace exSpace exHeap exPortrayal).toOption.map (·.map fun g => (g.marker, g.zorder, g.members.length)) =
    some [("o", "2", 1), ("s", "1", 2)] := by decide

-- a signature with every parameter kind but *args, accepted with a keyword that goes to **options
example : checkModelParams
    [⟨"self", .posOnly, false⟩, ⟨"a", .posOnly, true⟩, ⟨"n", .posOrKw, false⟩, ⟨"k", .kwOnly, false⟩,
     ⟨"options", .varKw, false⟩] ["n", "k", "a", "zz"] = .ok () := by decide

example : bindsByKeyword [⟨"self", .posOrKw, false⟩, ⟨"n", .posOrKw, false⟩] ["n"] :=
  ⟨_, _, rfl, rfl, by simp [Kind.takesKeyword], by simp⟩

example : ¬ bindsByKeyword [⟨"self", .posOrKw, false⟩, ⟨"kwargs", .posOrKw, false⟩] [] := by
  rintro ⟨inst, rest, e, _, _, hr⟩
  injection e with e1 e2
  subst e1; subst e2
  have := hr ⟨"kwargs", .posOrKw, false⟩ (by simp) rfl (by simp) (by simp)
  simp at this

-- the default size: 180² on a one-node network (V12), (180/3)² = 32400/9 on the 2 × 3 hex grid, by the centroids'
-- bounding box (8 × 6) on a Voronoi grid
example : defaultSize { fam := .net, w := 1, h := 1, cells := [⟨7, 0⟩], placed := [mkAgent .net 1 ⟨7, 0⟩] } = .exact ⟨32400, 1⟩ := by
  decide
example : defaultSize exSpace = .exact ⟨32400, 9⟩ := by decide
example : defaultSize { fam := .vor, w := 1, h := 1, cells := [⟨0, 0⟩, ⟨8, 3⟩, ⟨1, 6⟩], placed := [] } = .exact ⟨32400, 64⟩ := by
  decide

-- plotting keywords on the V7 space: alpha as a keyword clashes with agent 1's own alpha; linewidths does not and
-- reaches both markers
example : drawSpaceKw v7Space [[("alpha", "50")]] (fun a => if a = 1 then some 0 else none) [("linewidths", "3"), ("alpha", "25")] =
    .error (.conflict "alpha") := by decide

example : (drawSpaceKw v7Space [[("alpha", "50")]] (fun a => if a = 1 then some 0 else none) [("linewidths", "3")]).toOption.map
    (·.drawn.map (·.map fun e => (e.alpha, e.linewidths))) = some [[(some "50", some "3"), (none, some "3")]] := by decide

-- ModelCreator: a required parameter given as a Slider, an option dict, two fixed values (one of them a dict)
def exParams : List (String × ParamVal) :=
  [("n", .slider false "N" "5"), ("fixed", .plain "3"), ("k", .spec "SliderFloat" (some "3") none), ("fd", .plainDict)]

example : modelCreator [⟨"self", .posOrKw, false⟩, ⟨"n", .posOrKw, false⟩, ⟨"k", .posOrKw, true⟩, ⟨"kw", .varKw, false⟩] exParams =
    .ok ([("fixed", some "3"), ("fd", some "dict"), ("n", some "5"), ("k", some "3")],
         [⟨.sliderInt, "n", "N", some "5"⟩, ⟨.sliderFloat, "k", "k", some "3"⟩]) := by decide

example : modelCreator [⟨"self", .posOrKw, false⟩, ⟨"n", .posOrKw, false⟩] [("n", .spec "Foo" (some "1") none), ("zz", .plain "1")] =
    .error (.unsupported "Foo") := by decide

example : onChange (initialParams exParams) "k" "7" = [("fixed", some "3"), ("fd", some "dict"), ("n", some "5"), ("k", some "7")] := by
  decide

-- measure plots: a dict request draws its measures in the dict's order with the dict's colours; a missing measure is a KeyError
example : plotMeasure [("a", [1, 2]), ("b", [3, 4])] (.dict [("b", "red"), ("a", "blue")]) =
    .ok ⟨[⟨some "b", some "red", [3, 4]⟩, ⟨some "a", some "blue", [1, 2]⟩], none, true⟩ := by decide
example : plotMeasure [("a", [1, 2])] (.list ["a", "zz", "yy"]) = .error "zz" := by decide

-- the limits: the 2 × 3 hex grid shows (-2, 6) × (-4, 11) in hex units, the agent in cell (1, 2) is drawn at (3, 6); a 3 × 2
-- continuous space shows (-3/20, 63/20) × (-2/20, 42/20)
example : frameOf exSpace = some ⟨1, -2, 6, -4, 11⟩ ∧ (⟨1, -2, 6, -4, 11⟩ : Frame).shows (transform .hexm ⟨1, 2⟩) := by decide
example : frameOf { fam := .cs, w := 3, h := 2, cells := [], placed := [] } = some ⟨20, -3, 63, -2, 42⟩ := by decide

-- a network whose nodes are labelled 7, 2, 5 (in graph order) drawn with the layout 2 ↦ (0,0), 7 ↦ (4,1): the agent on node 7 is
-- drawn at (4,1) — the position under its label, not that of the first node —, the default size is (180/4)²; an agent on
-- node 5, which the layout lacks, is a KeyError
def exNet : Space :=
  { fam := .net, w := 1, h := 1, cells := [⟨7, 0⟩, ⟨2, 0⟩, ⟨5, 0⟩], placed := [mkAgent .net 1 ⟨7, 0⟩, mkAgent .net 2 ⟨2, 0⟩] }
def exLayout : Layout := [(2, ⟨0, 0⟩), (7, ⟨4, 1⟩)]

example : (drawNetwork exNet [] (fun _ => none) exLayout).toOption.map (fun d => (d.groups.map (·.drawn.map (·.loc)), d.size)) =
    some ([[⟨4, 1⟩, ⟨0, 0⟩]], .exact ⟨32400, 16⟩) := by decide

example : drawNetwork { exNet with placed := exNet.placed ++ [mkAgent .net 3 ⟨5, 0⟩] } [] (fun _ => none) exLayout = .error (.key 5) := by
  decide

-- the controls: a model class that stops when it reaches its `stop` argument
def exStopOf : String → Option Nat
  | "3" => some 3 | "4" => some 4 | "5" => some 5 | "7" => some 7 | _ => none

def exBeh : Behaviour := fun kw k => match kw.lookup "stop" with
  | some (some v) => ((exStopOf v).map fun s => decide (k < s)).getD true
  | _ => true

def exCtrlSig : List Param := [⟨"self", .posOrKw, false⟩, ⟨"kw", .varKw, false⟩]

/-- `SolaraViz(Model(stop=3), model_params={"stop": Slider(value=5), "n": 2}, render_interval=2)` -/
def exCtrl : Ctrl :=
  { params := [("n", some "2"), ("stop", some "5")], inputs := ["stop"], kwargs := [("stop", some "3")], render := 2 }

example : Ctrl.init exBeh exCtrlSig [("stop", .slider false "Stop" "5"), ("n", .plain "2")] [("stop", some "3")] 2 false = .ok exCtrl := by
  decide

-- with a `SimulatorController`: a class that cannot take `simulator=` is refused, a class that requires it renders and the
-- resets pass it; the same class under a `ModelController` is refused as missing it; `simulator` among the parameters
-- would be passed twice
def exSimSig : List Param := [⟨"self", .posOrKw, false⟩, ⟨"simulator", .posOrKw, false⟩, ⟨"n", .posOrKw, true⟩]
example : Ctrl.init exBeh [⟨"self", .posOrKw, false⟩, ⟨"n", .posOrKw, true⟩] [("n", .plain "2")] [] 1 false true =
    .error (.check (.invalid "simulator")) := by decide
example : (Ctrl.init exBeh exSimSig [("n", .plain "2")] [] 1 false true).toOption.map (fun c => (c.extraKeywords, c.params)) =
    some (["simulator"], [("n", some "2")]) := by decide
example : Ctrl.init exBeh exSimSig [("n", .plain "2")] [] 1 false false = .error (.check (.missing "simulator")) := by decide
example : Ctrl.init exBeh exSimSig [("n", .plain "2"), ("simulator", .plain "1")] [] 1 false true =
    .error (.check (.invalid "simulator")) := by decide

example : exCtrl.paramsInv ["n", "stop"] := ⟨rfl, by decide, fun h => absurd h (by decide)⟩

-- Step twice: 4 steps, the model stopped at step 3 in the middle of the second click; both buttons are disabled now
example : ((exCtrl.run exBeh [.step, .step]).steps, (exCtrl.run exBeh [.step, .step]).running,
    (exCtrl.run exBeh [.step, .step]).apply exBeh .step, (exCtrl.run exBeh [.step, .step]).apply exBeh .play) =
    (4, false, none, none) := by decide

-- the input reports 7, then 4; Reset: the next model is created with n=2, stop=4; played from there it runs 2 ticks
example : (exCtrl.run exBeh [.change "stop" "7", .change "stop" "4", .reset]).kwargs = [("n", some "2"), ("stop", some "4")] := by
  decide

example : let c := exCtrl.run exBeh [.change "stop" "7", .change "stop" "4", .reset, .play, .loop [(.idle, none), (.idle, none), (.idle, none)]]
    (c.steps, c.running, c.playing, c.updates, c.gen) = (4, false, true, 2, 1) := by decide

-- the hypothesis of `C20_ctrl_play_runs_to_the_models_stop` is met by this class: created with stop=4 it runs while steps < 4
example : ∀ j, exBeh [("n", some "2"), ("stop", some "4")] j = decide (j < 4) := fun _ => rfl

-- ❚❚ during the sleep: one more whole tick; ❚❚ during the first step of a tick: one step
example : let c := exCtrl.run exBeh [.reset, .play, .loop [(.pause, none)]]
    (c.steps, c.playing, c.updates) = (2, false, 1) := by decide
example : let c := exCtrl.run exBeh [.reset, .play, .loop [(.idle, some 1)]]
    (c.steps, c.playing) = (1, false) := by decide

/-- the threads checkbox mounts the controller anew: the flag is on although the model has stopped -/
def ctrlThreadsWitness : Ctrl := exCtrl.run exBeh [.step, .step, .threads true]
example : (ctrlThreadsWitness.running, ctrlThreadsWitness.mrunning, (ctrlThreadsWitness.apply exBeh .step).isSome) =
    (true, false, true) := by decide

-- Altair: the encoding follows the first agent of `space.agents` (agent 2, cell (0,1)): its dict has a z-order only, so
-- neither colour nor size is encoded and the marks get the default size 30000 / 2²; the tooltips are its other keys
example : (altairChart exSpace exHeap exPortrayal).toOption.map (fun c => (c.color, c.size, c.tooltip)) =
      some (false, false, ["zorder"]) ∧
    (altairChart exSpace exHeap exPortrayal).toOption.map (fun c => (c.markSize, c.xyType, c.rows.length)) =
      some (some ⟨30000, 4⟩, "ordinal", 3) := by
  refine ⟨by decide, by decide⟩

-- property layers: a 2 × 2 grid with two layers; the request names one of them, an unknown layer and the other
def exLayers : List (String × Layer) := [("a", ⟨2, 2, [0, 1, 2, 3]⟩), ("b", ⟨2, 2, [5, 5, 5, 5]⟩)]

example : drawLayers .moore exLayers
    [("a", { mode := .color "red", alpha := 50, vmin := some 0, vmax := some 2, colorbar := false }),
     ("zz", { mode := .neither }), ("b", { mode := .colormap "viridis" })] =
    .ok [⟨"a", .imgRgba "red" [[some ⟨0, 200⟩, some ⟨100, 200⟩], [some ⟨50, 200⟩, some ⟨150, 200⟩]], none⟩,
         ⟨"b", .imgCmap "viridis" 100 5 5 [[some 5, some 5], [some 5, some 5]], some (5, 5)⟩] := by decide

example : (drawLayers .hex exLayers [("a", { mode := .color "red", alpha := 50, vmin := some 0, vmax := some 2 })]).toOption.map
    (·.map fun d => (d.pic.cell 2 1 0, d.pic.cell 2 1 1, d.cbar)) =
    some [(some (.opacity ⟨100, 200⟩), some (.opacity ⟨100, 200⟩), some (0, 2))] := by decide

example : drawLayers .hex exLayers [("a", { mode := .colormap "viridis", vmin := some 3, vmax := some 1 })] = .error .value := by
  decide

example : (drawSpaceFull v7Space [] (fun _ => none) [("a", ⟨2, 2, [0, 1, 2, 3]⟩)]
      [("a", { mode := .color "red", colorbar := false })]).toOption.map (fun r => (r.1.length, r.2.map (·.name))) =
    some (1, ["a"]) := by decide

example : drawLayers .net exLayers [] = .error .attribute := by decide

example : layerRange ⟨2, 2, [4, 1, 7, 3]⟩ { mode := .color "red" } = some (1, 7) := by decide

end Mesa.Viz
