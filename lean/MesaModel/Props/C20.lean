import MesaModel.Model.Viz
