import MesaModel.Proofs.Viz
/-!
# C20 — visualisation data shows each agent once, where it is, as portrayed

Property theorems only (model: `Model/Viz.lean`, helper lemmas and the spec predicates
`Reachable`, `markerOf`, `drawEntries`, `rowOf`, `UniformOptional`, `bindsByKeyword`: `Proofs/Viz.lean`).

`Reachable sp`: a space of any of the twelve supported classes, freshly built, then changed by any
sequence of successful `place` / `move` / `remove` calls.  Heaps and portrayals are arbitrary: the
portrayal may hand the *same* dict object to several agents (defect V3).
`markerOf fam heap p a`: the marker the property demands for agent `a` — at the drawing position of
its location (`pos`, else `cell.coordinate`), with colour / size / marker / zorder / alpha / edgecolors /
linewidths as its portrayal returned them, defaults otherwise.

Open finding V7: a portrayal that returns alpha / edgecolors / linewidths for some agents only makes
`_scatter` raise IndexError.  The full statement "`draw_space` draws one marker per agent for every
portrayal" is therefore false for the code as it is (`C20_V7_full_statement_refuted`); the shipped theorem
`C20_draw_one_marker_per_agent_partial` has the hypothesis `UniformOptional`, and
`C20_draw_fails_iff_optional_not_uniform` says that this is exactly the missing case.
-/
namespace Mesa.Viz

/-! ## which agents are drawn -/

/-- `space.agents`, which every back end walks, lists exactly the agents currently in the space, each
    once (ids are unique), and every one of them has a location. -/
theorem C20_space_agents_exactly_once {sp : Space} (h : Reachable sp) :
    (spaceAgents sp).Perm sp.placed ∧ (sp.placed.map (·.id)).Nodup ∧
    ∀ a ∈ sp.placed, ∃ l, a.location = some l :=
  let w := reachable_wf h
  ⟨spaceAgents_perm w, w.idsNodup, fun a ha => let ⟨l, hl, _⟩ := w.located a ha; ⟨l, hl⟩⟩

/-! ## collect_agent_data -/

/-- `collect_agent_data` returns one entry per agent of `space.agents`, in that order — for every heap and
    every portrayal, shared dict objects included — and as many entries as there are agents in the space. -/
theorem C20_collect_one_entry_per_agent {sp : Space} (h : Reachable sp) (df : Defaults) (heap : Heap) (p : Portrayal) :
    collectAgentData df heap p (spaceAgents sp) = some ((spaceAgents sp).filterMap (entryOf df heap p)) ∧
    ((spaceAgents sp).filterMap (entryOf df heap p)).length = sp.placed.length ∧
    ∀ a ∈ spaceAgents sp, (entryOf df heap p a).isSome := by
  have w := reachable_wf h
  have hl := spaceAgents_located w
  have hs : ∀ a ∈ spaceAgents sp, (entryOf df heap p a).isSome := by
    intro a ha; obtain ⟨l, e⟩ := hl a ha; simp [entryOf, e]
  exact ⟨collect_eq_filterMap df heap p _ hl,
    (filterMap_length_full.mpr hs).trans (spaceAgents_perm w).length_eq, hs⟩

/-- The entry of an agent holds its location (`pos`, else `cell.coordinate`) and, for each supported key,
    the value its portrayal returned, the default otherwise; the remaining keys are reported as ignored.
    Nothing else enters: in particular not what the portrayal returned for other agents. -/
theorem C20_entry_is_portrayal_or_default (df : Defaults) (heap : Heap) (p : Portrayal) (a : Agent) (l : Loc)
    (hl : a.location = some l) :
    ∃ e, entryOf df heap p a = some e ∧ e.loc = l ∧
      e.s = (Dict.get? (portrayed heap p a.id) "size").getD df.size ∧
      e.c = (Dict.get? (portrayed heap p a.id) "color").getD df.color ∧
      e.marker = (Dict.get? (portrayed heap p a.id) "marker").getD df.marker ∧
      e.zorder = (Dict.get? (portrayed heap p a.id) "zorder").getD df.zorder ∧
      e.alpha = Dict.get? (portrayed heap p a.id) "alpha" ∧
      e.edgecolors = Dict.get? (portrayed heap p a.id) "edgecolors" ∧
      e.linewidths = Dict.get? (portrayed heap p a.id) "linewidths" ∧
      e.ignored = (Dict.keys (portrayed heap p a.id)).filter (fun k => !supportedKeys.contains k) :=
  ⟨_, by simp [entryOf, hl], collectOne_spec df l _⟩

/-- The location rule: `agent.pos` if it is set, `agent.cell.coordinate` otherwise. -/
theorem C20_location_rule (a : Agent) :
    (∀ p, a.pos = some p → a.location = some p) ∧ (a.pos = none → a.location = a.cell) := by
  unfold Agent.location
  exact ⟨fun p hp => by rw [hp], fun hp => by rw [hp]⟩

/-- Witness V3: with the pops done in place, a portrayal handing the same dict `{"color": "red"}` to two
    agents gives the second agent the default colour and leaves the dict empty; the repaired code records
    red for both. -/
theorem C20_V3_inplace_pop_refuted :
    let heap : Heap := [[("color", "red")]]
    let p : Portrayal := fun _ => some 0
    let agents := [mkAgent .multi 1 ⟨0, 0⟩, mkAgent .multi 2 ⟨1, 1⟩]
    ((collectInPlace libDefaults p heap agents).map fun r => (r.1.map (·.c), r.2)) = some (["red", "tab:blue"], [[]]) ∧
    (collectAgentData libDefaults heap p agents).map (·.map (·.c)) = some ["red", "red"] := by
  decide

/-- The boundary of V3: as long as no two agents are handed the same dict object (`refsOf`: the references
    the portrayal returns; a freshly built dict is no reference), popping in place recorded the same
    entries as the repaired code — the defect needed a shared dict. -/
theorem C20_inplace_agrees_on_unshared_dicts (df : Defaults) (p : Portrayal) (heap : Heap) (agents : List Agent)
    (h : (refsOf p agents).Nodup) :
    (collectInPlace df p heap agents).map (·.1) = collectAgentData df heap p agents :=
  collectInPlace_fst df p agents heap h

/-! ## _scatter -/

/-- The scatter calls partition the entries: whenever `_scatter` succeeds, the members of its calls are a
    permutation of the entries (each agent is drawn by exactly one call), every call is non-empty and draws
    only entries with its marker and its z-order, and no (marker, z-order) pair is scattered twice. -/
theorem C20_scatter_partition {es : List Entry} {gs : List Group} (h : scatter es = .ok gs) :
    (gs.flatMap (·.members)).Perm es ∧
    (∀ g ∈ gs, g.members ≠ [] ∧ ∀ e ∈ g.members, e.marker = g.marker ∧ e.zorder = g.zorder) ∧
    (gs.map fun g => (g.marker, g.zorder)).Nodup := by
  classical
  by_cases hne : es = []
  · subst hne
    rw [scatter_nil] at h
    injection h with h; subst h
    simp
  · by_cases hu : UniformOptional es
    · rw [scatter_uniform hne hu] at h
      injection h with h; subst h
      refine ⟨groupsOf_perm es, fun g hg => ?_, groupsOf_keys_nodup es⟩
      obtain ⟨h1, h2⟩ := groupsOf_mem hg
      refine ⟨h1, fun e he => ?_⟩
      rw [h2, List.mem_filter] at he
      simpa using he.2
    · rw [scatter_nonuniform hne hu] at h
      cases h

/-! ## draw_space -/

/-- What the property demands of an agent's marker: it sits at the drawing position of the agent's
    location and carries the portrayal's values or the defaults (size default: the space's `s_default`). -/
theorem C20_marker_values (fam : Family) (heap : Heap) (p : Portrayal) (a : Agent) (l : Loc)
    (hl : a.location = some l) :
    ∃ e, markerOf fam heap p a = some e ∧ e.loc = transform fam l ∧
      e.s = (Dict.get? (portrayed heap p a.id) "size").getD "D" ∧
      e.c = (Dict.get? (portrayed heap p a.id) "color").getD "tab:blue" ∧
      e.marker = (Dict.get? (portrayed heap p a.id) "marker").getD "o" ∧
      e.zorder = (Dict.get? (portrayed heap p a.id) "zorder").getD "1" ∧
      e.alpha = Dict.get? (portrayed heap p a.id) "alpha" ∧
      e.edgecolors = Dict.get? (portrayed heap p a.id) "edgecolors" ∧
      e.linewidths = Dict.get? (portrayed heap p a.id) "linewidths" := by
  have hs := collectOne_spec drawDefaults l (portrayed heap p a.id)
  exact ⟨{ collectOne drawDefaults l (portrayed heap p a.id) with loc := transform fam l }, by simp [markerOf, hl],
    rfl, hs.2.1, hs.2.2.1, hs.2.2.2.1, hs.2.2.2.2.1, hs.2.2.2.2.2.1, hs.2.2.2.2.2.2.1, hs.2.2.2.2.2.2.2.1⟩

/-- Whenever `draw_space` succeeds, what it scattered is — as a multiset — exactly one marker per agent
    currently in the space, the one the property demands (`markerOf`), and nothing else.  This holds for
    every supported space class, every occupancy and every portrayal, shared dicts included. -/
theorem C20_draw_ok_one_marker_per_agent {sp : Space} (h : Reachable sp) (heap : Heap) (p : Portrayal)
    {gs : List Group} (hd : drawSpace sp heap p = .ok gs) :
    (gs.flatMap (·.members)).Perm (sp.placed.filterMap (markerOf sp.fam heap p)) ∧
    (∀ a ∈ sp.placed, (markerOf sp.fam heap p a).isSome) ∧
    (gs.flatMap (·.members)).length = sp.placed.length := by
  have w := reachable_wf h
  rw [drawSpace_eq w] at hd
  have hp := (C20_scatter_partition hd).1.trans (drawEntries_perm w heap p)
  exact ⟨hp, markerOf_isSome w heap p,
    hp.length_eq.trans (filterMap_length_full.mpr (markerOf_isSome w heap p))⟩

/-- PARTIAL (open finding V7).  If every optional key (alpha, edgecolors, linewidths) is returned for all
    agents in the space or for none, `draw_space` succeeds and draws exactly one marker per agent, as
    demanded.  Missing for the full statement: portrayals returning an optional key for some agents only. -/
theorem C20_draw_one_marker_per_agent_partial {sp : Space} (h : Reachable sp) (heap : Heap) (p : Portrayal)
    (hu : UniformOptional (drawEntries sp heap p)) :
    ∃ gs, drawSpace sp heap p = .ok gs ∧
      (gs.flatMap (·.members)).Perm (sp.placed.filterMap (markerOf sp.fam heap p)) ∧
      (∀ g ∈ gs, g.members ≠ [] ∧ ∀ e ∈ g.members, e.marker = g.marker ∧ e.zorder = g.zorder) ∧
      (gs.map fun g => (g.marker, g.zorder)).Nodup := by
  classical
  have w := reachable_wf h
  by_cases hne : drawEntries sp heap p = []
  · have hd : drawSpace sp heap p = .ok [] := by rw [drawSpace_eq w, hne, scatter_nil]
    have := C20_draw_ok_one_marker_per_agent h heap p hd
    exact ⟨[], hd, this.1, by simp, by simp⟩
  · have hd : drawSpace sp heap p = .ok (groupsOf (drawEntries sp heap p)) := by
      rw [drawSpace_eq w, scatter_uniform hne hu]
    have hs := C20_scatter_partition (by rw [← drawSpace_eq w]; exact hd)
    exact ⟨_, hd, (C20_draw_ok_one_marker_per_agent h heap p hd).1, hs.2.1, hs.2.2⟩

/-- `draw_space` never fails for another reason: it raises (IndexError) exactly when there are agents and
    some optional key is returned for some of them only. -/
theorem C20_draw_fails_iff_optional_not_uniform {sp : Space} (h : Reachable sp) (heap : Heap) (p : Portrayal) :
    (drawSpace sp heap p = .error .index ↔ sp.placed ≠ [] ∧ ¬UniformOptional (drawEntries sp heap p)) ∧
    ((∃ gs, drawSpace sp heap p = .ok gs) ∨ drawSpace sp heap p = .error .index) := by
  classical
  have w := reachable_wf h
  have hlen := drawEntries_length w heap p
  rw [drawSpace_eq w]
  by_cases hne : drawEntries sp heap p = []
  · have hp : sp.placed = [] := by
      rw [hne] at hlen; exact List.length_eq_zero_iff.mp hlen.symm
    rw [hne, scatter_nil]
    exact ⟨⟨fun e => (by cases e), fun e => absurd hp e.1⟩, Or.inl ⟨_, rfl⟩⟩
  · have hp : sp.placed ≠ [] := by
      intro e; rw [e] at hlen; exact hne (List.length_eq_zero_iff.mp hlen)
    by_cases hu : UniformOptional (drawEntries sp heap p)
    · rw [scatter_uniform hne hu]
      exact ⟨⟨fun e => (by cases e), fun e => absurd hu e.2⟩, Or.inl ⟨_, rfl⟩⟩
    · rw [scatter_nonuniform hne hu]
      exact ⟨⟨fun _ => ⟨hp, hu⟩, fun _ => rfl⟩, Or.inr rfl⟩

/-- the state of the V7 witness: two agents on a MultiGrid -/
def v7Space : Space :=
  { fam := .multi, w := 2, h := 2, cells := gridCells 2 2,
    placed := [mkAgent .multi 1 ⟨0, 0⟩, mkAgent .multi 2 ⟨1, 1⟩] }

theorem v7Space_reachable : Reachable v7Space := by
  have h0 : Space.init? .multi 2 2 [] = some { fam := .multi, w := 2, h := 2, cells := gridCells 2 2, placed := [] } := by
    decide
  have h1 := Reachable.step (op := .place 1 ⟨0, 0⟩) (Reachable.init h0) (sp' :=
    { fam := .multi, w := 2, h := 2, cells := gridCells 2 2, placed := [mkAgent .multi 1 ⟨0, 0⟩] }) (by decide)
  exact Reachable.step (op := .place 2 ⟨1, 1⟩) h1 (by decide)

/-- Witness V7: the full statement "for every reachable space, heap and portrayal `draw_space` succeeds"
    is false for the code as it is — agent 1 returns `{"alpha": "50"}`, agent 2 returns `{}`. -/
theorem C20_V7_full_statement_refuted :
    ¬ ∀ (sp : Space), Reachable sp → ∀ (heap : Heap) (p : Portrayal), ∃ gs, drawSpace sp heap p = .ok gs := by
  intro hall
  obtain ⟨gs, hg⟩ := hall v7Space v7Space_reachable [[("alpha", "50")]] (fun a => if a = 1 then some 0 else none)
  have : drawSpace v7Space [[("alpha", "50")]] (fun a => if a = 1 then some 0 else none) = .error .index := by decide
  rw [this] at hg
  cases hg

/-- V5: a space without agents is drawn without markers (and without an exception), by both back ends. -/
theorem C20_empty_space_draws_nothing {sp : Space} (h : Reachable sp) (heap : Heap) (p : Portrayal)
    (he : sp.placed = []) :
    drawSpace sp heap p = .ok [] ∧ (altairSupported sp.fam = true → altairRows sp heap p = .ok []) := by
  have w := reachable_wf h
  have hsa : spaceAgents sp = [] := by
    have := (spaceAgents_perm w).length_eq
    rw [he] at this
    exact List.length_eq_zero_iff.mp this
  refine ⟨by rw [drawSpace_eq w, drawEntries, hsa]; rfl, fun hs => ?_⟩
  unfold altairRows
  rw [hs, hsa]
  rfl

/-- On hex grids the marker of an agent in cell (col, row) sits at the centre of the hexagon that
    `_get_hexmesh` draws for that cell (and that the property layer colours for it). -/
theorem C20_hex_marker_at_hexagon_centre (fam : Family) (hf : fam.isHex = true) (col row : Nat) :
    transform fam ⟨col, row⟩ = hexCenter col row :=
  transform_hex_eq_hexCenter fam hf col row

/-- Distinct locations are drawn at distinct positions, in every space class. -/
theorem C20_distinct_locations_distinct_positions (fam : Family) {a b : Loc}
    (h : transform fam a = transform fam b) : a = b :=
  transform_injective fam h

/-! ## Altair -/

/-- `_draw_grid` hands Altair one row per agent currently in the space (for the space classes Altair
    supports; the others are refused with NotImplementedError), for every portrayal, shared dicts included. -/
theorem C20_altair_one_row_per_agent {sp : Space} (h : Reachable sp) (heap : Heap) (p : Portrayal) :
    (altairSupported sp.fam = true →
      altairRows sp heap p = .ok ((spaceAgents sp).filterMap (rowOf heap p)) ∧
      ((spaceAgents sp).filterMap (rowOf heap p)).Perm (sp.placed.filterMap (rowOf heap p)) ∧
      ((spaceAgents sp).filterMap (rowOf heap p)).length = sp.placed.length) ∧
    (altairSupported sp.fam = false → altairRows sp heap p = .error .notImplemented) := by
  have w := reachable_wf h
  refine ⟨fun hs => ?_, fun hs => by unfold altairRows; rw [hs]; rfl⟩
  have hl := spaceAgents_located w
  refine ⟨?_, (spaceAgents_perm w).filterMap _, ?_⟩
  · unfold altairRows
    rw [hs, altairRowsOf_eq_filterMap heap p _ hl]
    rfl
  · have hsome : ∀ a ∈ spaceAgents sp, (rowOf heap p a).isSome := by
      intro a ha; obtain ⟨l, e⟩ := hl a ha; simp [rowOf, e]
    exact (filterMap_length_full.mpr hsome).trans (spaceAgents_perm w).length_eq

/-- The row of an agent carries its coordinates under `x` and `y` and every other key exactly as its
    portrayal returned it. -/
theorem C20_altair_row_values (heap : Heap) (p : Portrayal) (a : Agent) (l : Loc) (hl : a.location = some l) :
    ∃ row, rowOf heap p a = some row ∧
      Dict.get? row "x" = some (toString l.x) ∧ Dict.get? row "y" = some (toString l.y) ∧
      ∀ k, k ≠ "x" → k ≠ "y" → Dict.get? row k = Dict.get? (portrayed heap p a.id) k :=
  ⟨_, by simp [rowOf, hl], altairRow_spec _ l⟩

/-! ## property layers -/

/-- Orthogonal grids: the image handed to `imshow(origin="lower")` shows `data[x, y]` in column `x` of image
    row `y`, i.e. at the cell's own place. -/
theorem C20_layer_image_orientation (L : Layer) (hw : L.wellFormed = true) {x y : Nat} (hx : x < L.w) (hy : y < L.h) :
    ∃ row v, (imshowRows L)[y]? = some row ∧ row[x]? = some (some v) ∧ L.at x y = some v := by
  obtain ⟨row, h1, h2⟩ := imshowRows_getElem L hy hx
  obtain ⟨v, hv⟩ := Layer.at_isSome hw hx hy
  exact ⟨row, v, h1, by rw [h2, hv], hv⟩

/-- Hex grids: the hexagon `_get_hexmesh` yields for column `x`, row `y` (number `y * w + x`, centred at
    `hexCenter x y`, where the agents of that cell are drawn) is coloured with `data[x, y]`. -/
theorem C20_layer_hex_orientation (L : Layer) (hw : L.wellFormed = true) {x y : Nat} (hx : x < L.w) (hy : y < L.h) :
    ∃ v, (hexColors L)[y * L.w + x]? = some (some v) ∧ L.at x y = some v := by
  obtain ⟨v, hv⟩ := Layer.at_isSome hw hx hy
  exact ⟨v, by rw [hexColors_getElem L hy hx, hv], hv⟩

/-- `data.ravel()`, what the code used before fix V8 -/
def hexColorsRavel (L : Layer) : List (Option Int) :=
  (List.range L.w).flatMap fun c => (List.range L.h).map fun r => L.at c r

/-- Witness V8: on a 2 × 3 layer `data.ravel()` colours the hexagon of cell (1, 0) with the value of
    cell (0, 1). -/
theorem C20_V8_ravel_refuted :
    let L : Layer := { w := 2, h := 3, vals := [0, 1, 2, 3, 4, 5] }
    (hexColorsRavel L)[0 * L.w + 1]? = some (L.at 0 1) ∧ L.at 0 1 ≠ L.at 1 0 ∧
    (hexColors L)[0 * L.w + 1]? = some (L.at 1 0) := by
  decide

/-! ## the model-parameter check -/

/-- `_check_model_params` accepts a parameter set exactly when the constructor takes no `*args` (refused by
    policy) and Python can bind the instance positionally and the parameters by keyword (`bindsByKeyword`:
    the binding rule written out — `**kw` under any name, positional-only parameters, keyword-only
    parameters, defaults, the instance parameter under any name). -/
theorem C20_check_accepts_iff_binds_by_keyword (sig : List Param) (keys : List String) :
    checkModelParams sig keys = .ok () ↔ hasVarPositional sig = false ∧ bindsByKeyword sig keys :=
  checkModelParams_ok_iff sig keys

/-- Constructors taking `*args` are refused whatever the parameters are. -/
theorem C20_check_refuses_var_positional (sig : List Param) (keys : List String)
    (h : ∃ p ∈ sig, p.kind = .varPos) : checkModelParams sig keys = .error .varPositional := by
  unfold checkModelParams
  rw [if_pos (hasVarPositional_iff.mpr h)]

/-- The split into user-adjustable and fixed parameters loses and invents nothing, keeps the order inside
    each part, puts a parameter into the fixed part exactly when `check_param_is_fixed` says so, and — the
    names of a dict being distinct — no name lands in both parts. -/
theorem C20_split_lossless_disjoint (ps : List (String × PyVal)) :
    ((splitModelParams ps).1 ++ (splitModelParams ps).2).Perm ps ∧
    (splitModelParams ps).1.Sublist ps ∧ (splitModelParams ps).2.Sublist ps ∧
    (∀ kv ∈ (splitModelParams ps).1, isFixed kv.2 = false) ∧
    (∀ kv ∈ (splitModelParams ps).2, isFixed kv.2 = true) ∧
    ((ps.map (·.1)).Nodup → ∀ k, k ∈ (splitModelParams ps).1.map (·.1) → k ∉ (splitModelParams ps).2.map (·.1)) := by
  refine ⟨split_perm ps, List.filter_sublist, List.filter_sublist, ?_, ?_, ?_⟩
  · intro kv h
    have := (List.mem_filter.mp h).2
    simpa using this
  · intro kv h
    exact (List.mem_filter.mp h).2
  · intro hnd k h1 h2
    have hp := ((split_perm ps).map (·.1)).nodup_iff.mpr hnd
    rw [List.map_append, List.nodup_append] at hp
    exact hp.2.2 k h1 k h2 rfl

/-- `ModelCreator` (fix P2) checks the constructor against all parameters, the user-adjustable ones
    included: it accepts exactly when `_check_model_params` accepts the whole parameter dict. -/
theorem C20_creator_checks_all_params (sig : List Param) (ps : List (String × PyVal)) :
    creatorCheck sig ps = .ok () ↔ checkModelParams sig (ps.map (·.1)) = .ok () :=
  creatorCheck_ok_iff sig ps

/-! ## non-vacuity -/

/-- a hex grid with three agents, two of them in one cell and sharing one portrayal dict -/
def exSpace : Space :=
  { fam := .hexm, w := 2, h := 3, cells := gridCells 2 3,
    placed := [mkAgent .hexm 1 ⟨1, 2⟩, mkAgent .hexm 2 ⟨0, 1⟩, mkAgent .hexm 3 ⟨1, 2⟩] }

def exHeap : Heap := [[("color", "red"), ("marker", "s"), ("id", "7")], [("zorder", "2")]]
def exPortrayal : Portrayal := fun a => if a = 2 then some 1 else some 0

example : Reachable exSpace := by
  have h0 : Space.init? .hexm 2 3 [] = some { fam := .hexm, w := 2, h := 3, cells := gridCells 2 3, placed := [] } := by
    decide
  have h1 := Reachable.step (op := .place 1 ⟨1, 2⟩) (Reachable.init h0) (sp' :=
    { fam := .hexm, w := 2, h := 3, cells := gridCells 2 3, placed := [mkAgent .hexm 1 ⟨1, 2⟩] }) (by decide)
  have h2 := Reachable.step (op := .place 2 ⟨0, 1⟩) h1 (sp' :=
    { fam := .hexm, w := 2, h := 3, cells := gridCells 2 3,
      placed := [mkAgent .hexm 1 ⟨1, 2⟩, mkAgent .hexm 2 ⟨0, 1⟩] }) (by decide)
  exact Reachable.step (op := .place 3 ⟨1, 2⟩) h2 (by decide)

-- `space.agents` walks the cells: agent 2 (cell (0,1)) comes before agents 1 and 3 (cell (1,2))
example : (spaceAgents exSpace).map (·.id) = [2, 1, 3] := by decide

-- the hypothesis of the partial theorem is satisfiable with several agents, markers and z-orders,
-- and the drawing consists of two non-empty scatter calls
example : UniformOptional (drawEntries exSpace exHeap exPortrayal) := by
  refine ⟨Or.inl ?_, Or.inl ?_, Or.inl ?_⟩ <;> decide

example : (drawSpace exSpace exHeap exPortrayal).toOption.map (·.map fun g => (g.marker, g.zorder, g.members.length)) =
    some [("o", "2", 1), ("s", "1", 2)] := by decide

-- a signature with every parameter kind but *args, accepted with a keyword that goes to **options
example : checkModelParams
    [⟨"self", .posOnly, false⟩, ⟨"a", .posOnly, true⟩, ⟨"n", .posOrKw, false⟩, ⟨"k", .kwOnly, false⟩,
     ⟨"options", .varKw, false⟩] ["n", "k", "a", "zz"] = .ok () := by decide

example : bindsByKeyword [⟨"self", .posOrKw, false⟩, ⟨"n", .posOrKw, false⟩] ["n"] :=
  ⟨_, _, rfl, rfl, by simp [Kind.takesKeyword], by simp⟩

example : ¬ bindsByKeyword [⟨"self", .posOrKw, false⟩, ⟨"kwargs", .posOrKw, false⟩] [] := by
  rintro ⟨inst, rest, e, _, _, hr⟩
  injection e with e1 e2
  subst e1; subst e2
  have := hr ⟨"kwargs", .posOrKw, false⟩ (by simp) rfl (by simp) (by simp)
  simp at this

end Mesa.Viz
