import MesaModel.Proofs.Devs
import MesaModel.Gen.DevsTables
import MesaModel.Proofs.DevsHeap
import MesaModel.Proofs.DevsLive
import MesaModel.Proofs.DevsOrder
import MesaModel.Proofs.DevsDoomed
import MesaModel.Proofs.DevsShared
import MesaModel.Proofs.DevsRaise
import MesaModel.Proofs.DevsHistory
/-!
# C14 — the simulators run each live event once, in (time, priority, FIFO) order

Property theorems only (helper lemmas: `Proofs/Devs.lean`, model: `Model/Devs.lean`).
`Reachable s`: every state reachable from a fresh simulator of either class by any interleaving of
scheduling / cancelling / reference-dropping commands (issued at top level or from inside executing
events), `setup`, `run_until` / `run_for` with a horizon not before the clock, `run_next_event`, callables that raise
(the run call is cut short, the program catches the exception — `caught` — and goes on: aborted states are reachable states).
`Reachable` is a SUPERSET of what a Python program can do: `Reachable.until` / `.next` / `.cmd` also apply to a state with the
exception still on its way (`raised = some x`), where a real program has to catch first; the invariants are proved for the
superset, so they hold a fortiori for real histories (a run from such a state executes events whose programs do nothing).
Event ids are handed out in scheduling order, so "(time, priority, id)" is (time, priority, FIFO).
-/
namespace Mesa.Devs

/-- The pending list of every reachable state is strictly sorted by (time, priority, id), holds only ids
    handed out so far, and nothing in it lies before the clock. -/
theorem C14_queue_sorted {s : Sim} (h : Reachable s) :
    s.pending.Pairwise (fun a b => a.lt b = true) ∧ (∀ e ∈ s.pending, e.id < s.nextId) ∧
    (∀ e ∈ s.pending, s.now ≤ e.time) :=
  let w := (reachable_inv h).1; ⟨w.sorted, w.idlt, w.future⟩

/-- The event a simulator executes next is live and is the least of all live pending events w.r.t.
    (time, priority, order of scheduling). -/
theorem C14_next_is_least_live {s : Sim} (h : Reachable s) {e : Ev} {rest : List Ev}
    (hp : popLive s.pending = some (e, rest)) :
    e ∈ s.pending ∧ e.cancelled = false ∧
    ∀ y ∈ s.pending, y.cancelled = false → y = e ∨ e.lt y = true := by
  obtain ⟨hl, hlt, _⟩ := popLive_spec (reachable_inv h).1.sorted hp
  refine ⟨(popLive_mem hp).1, hl, fun y hy hyl => ?_⟩
  rcases popLive_live_mem hp hy hyl with h | h
  · exact Or.inl h
  · exact Or.inr (hlt y h)

/-- Exactly-once accounting: at every reachable state every event id handed out so far is in exactly one
    of three places, exactly once — still pending, executed (in the log), or discarded without execution —
    and no other id occurs anywhere. -/
theorem C14_exactly_once_accounting {s : Sim} (h : Reachable s) (i : Nat) :
    (ids s.pending).count i + (logIds s.log).count i + s.gone.count i = if i < s.nextId then 1 else 0 := by
  simpa [Acc, AccH] using (reachable_inv h).2.1 i

/-- No event is ever executed twice. -/
theorem C14_never_twice {s : Sim} (h : Reachable s) : (logIds s.log).Nodup := by
  rw [List.nodup_iff_count]
  intro i
  have := C14_exactly_once_accounting h i
  split at this <;> omega

/-- An event is discarded without execution only if it was cancelled or its callable was collected:
    a pop hands out a live event, what it throws away is cancelled, and an execution logs the event
    unless its callable is dead. -/
theorem C14_only_cancelled_or_dead_discarded {s : Sim} {e : Ev} {rest : List Ev}
    (hp : popLive s.pending = some (e, rest)) :
    (∀ x ∈ skipped s.pending, x.cancelled = true) ∧ e.cancelled = false ∧
    (e.dead = false → (logIds (exec (popped s e rest) e).log) = logIds s.log ++ [e.id]) ∧
    (e.dead = true → (exec (popped s e rest) e).log = s.log) := by
  refine ⟨skipped_cancelled, (popLive_decomp hp).2, ?_, ?_⟩
  · intro hd
    rw [exec_log]; unfold entryOf; rw [if_neg (by simp [hd])]
    split <;> simp [logIds, popped, LogEntry.id]
  · intro hd
    rw [exec_log]; unfold entryOf; rw [if_pos hd]; simp [popped]

/-- Once cancelled, never executed: an event that is cancelled while pending is not in the execution log of
    any state reachable afterwards, whatever further scheduling, cancelling and running happens. -/
theorem C14_cancelled_never_executes {s s' : Sim} (h : Reachable s) {e : Ev} (he : e ∈ s.pending)
    (hc : e.cancelled = true) (hr : ReachableFrom s s') : e.id ∉ logIds s'.log :=
  dead_not_logged (reachable_inv (reachableFrom_reachable h hr)).2.1 (dead_stays (Or.inl ⟨e, he, rfl, hc⟩) hr)

/-- Once its callable has been garbage-collected, never executed: an event whose callable died while it was pending is not
    in the execution log of any state reachable afterwards (it is popped and silently discarded). -/
theorem C14_collected_never_executes {s s' : Sim} (h : Reachable s) {e : Ev} (he : e ∈ s.pending)
    (hd : e.dead = true) (hr : ReachableFrom s s') : e.id ∉ logIds s'.log :=
  doomed_not_logged (reachable_inv (reachableFrom_reachable h hr)).2.1 (doomed_stays (Or.inl ⟨e, he, rfl, hd⟩) hr)

/-- `cancel_event` marks every pending event carrying that handle. -/
theorem C14_cancel_marks (s : Sim) (k : Nat) {e : Ev} (he : e ∈ s.pending) (hu : e.isStep = false) (ht : e.tag = k) :
    ∃ e' ∈ (cancelTag s k).pending, e'.id = e.id ∧ e'.cancelled = true := by
  refine ⟨{ e with cancelled := true }, ?_, rfl, rfl⟩
  simp only [cancelTag, List.mem_map]
  exact ⟨e, he, by simp [hu, ht]⟩

/-- A cancelled event is never handed out for execution. -/
theorem C14_cancelled_never_popped {l : List Ev} {e : Ev} {rest : List Ev}
    (hp : popLive l = some (e, rest)) : e.cancelled = false := (popLive_decomp hp).2

/-- While an event runs the clock equals the event's time, and that is the clock value it is logged with. -/
theorem C14_clock_is_event_time (s : Sim) (e : Ev) (rest : List Ev) :
    (exec (popped s e rest) e).now = e.time ∧
    ∀ x ∈ entryOf (popped s e rest) e, x.clock = e.time := by
  refine ⟨by rw [exec_now]; rfl, fun x hx => ?_⟩
  rw [entryOf_clock x hx]; rfl

/-- The clock never moves backwards: the clocks of all executions so far are non-decreasing and none
    exceeds the current clock. -/
theorem C14_clock_monotone {s : Sim} (h : Reachable s) :
    (clocks s.log).Pairwise (· ≤ ·) ∧ ∀ c ∈ clocks s.log, c ≤ s.now :=
  let c := (reachable_inv h).2.2; ⟨c.mono, c.le_now⟩

/-- `run_until(T)` with `T` not before the clock: leaves the clock at `T`, leaves no live event with time
    `≤ T` pending (including events scheduled by the events it executed), and executed only events with
    time `≤ T`. -/
theorem C14_run_until_post {s s' : Sim} {f : Nat} {T : Int} (h : Reachable s)
    (hr : runUntil f s T = some s') (hn : s'.raised = none) :
    s'.now = T ∧ (∀ y ∈ s'.pending, y.cancelled = false → T < y.time) ∧
    ∃ new, s'.log = s.log ++ new ∧ ∀ x ∈ new, x.clock ≤ T :=
  runUntil_post (reachable_inv h).1 hr hn

/-- Scheduling is rejected exactly when the time lies before the clock (`Past`) or, otherwise, has the
    wrong unit (`Unit`); a rejected call — caught by the caller — leaves the simulator unchanged. -/
theorem C14_schedule_rejects_exactly (s : Sim) (t d : Int) (p a : Nat) :
    (schedAbs s t p a = .error .past ↔ t < s.now) ∧
    (schedAbs s t p a = .error .unit ↔ ¬ t < s.now ∧ okUnit s.kind t = false) ∧
    (schedRel s d p a = .error .past ↔ d < 0) ∧
    (schedRel s d p a = .error .unit ↔ ¬ d < 0 ∧ okUnit s.kind (s.now + d) = false) ∧
    ((∃ err, schedAbs s t p a = .error err) → doCmd s (.schedAbs t p a) = s) ∧
    ((∃ err, schedRel s d p a = .error err) → doCmd s (.schedRel d p a) = s) := by
  refine ⟨?_, ?_, ?_, ?_, ?_, ?_⟩
  · unfold schedAbs; split
    · simp [*]
    · split <;> simp [*]
  · unfold schedAbs; split
    · simp [*]
    · split <;> simp_all
  · unfold schedRel; split
    · simp [*]
    · split <;> simp [*]
  · unfold schedRel; split
    · simp [*]
    · split <;> simp_all
  · rintro ⟨err, h⟩; unfold doCmd; split <;> simp [doCmd1, h]
  · rintro ⟨err, h⟩; unfold doCmd; split <;> simp [doCmd1, h]

/-- Looking ahead shows the live events in the order they would execute: `peak_ahead n` is exactly what
    `n` successive pops would hand out, and that sequence is strictly increasing in (time, priority, FIFO). -/
theorem C14_peek_is_execution_order {s : Sim} (h : Reachable s) (n : Nat) :
    peek s n = popSeq n s.pending ∧ (peek s n).Pairwise (fun a b => a.lt b = true) ∧
    ∀ e ∈ peek s n, e.cancelled = false := by
  refine ⟨(popSeq_eq n s.pending).symm, ?_, ?_⟩
  · exact ((reachable_inv h).1.sorted.sublist (List.filter_sublist)).sublist (List.take_sublist _ _)
  · intro e he
    have := List.mem_of_mem_take he
    simpa [Ev.live] using (List.mem_filter.mp this).2

/-- Events scheduled up front run in sorted order: when no callable schedules or cancels anything, `run_until(T)`
    executes exactly the live events with time `≤ T`, each at its own time, in the order of the (sorted) list — i.e. in
    increasing (time, priority, order of scheduling) — skipping only events whose callable was collected. -/
theorem C14_upfront_events_run_in_sorted_order {s s' : Sim} {f : Nat} {T : Int} (h : Reachable s) (hq : Quiet s)
    (hr : runUntil f s T = some s') :
    s'.log = s.log ++ (due T s.pending).filterMap logged ∧
    (due T s.pending).Pairwise (fun a b => a.lt b = true) ∧
    ∀ e ∈ s.pending, e.cancelled = false → e.time ≤ T → e ∈ due T s.pending := by
  have hs := (reachable_inv h).1.sorted
  refine ⟨runUntil_quiet_log hq hr, ?_, ?_⟩
  · exact (hs.sublist List.filter_sublist).sublist (List.takeWhile_sublist _)
  · intro e he hl ht
    -- in a sorted list the live events due by T form a prefix of the live events
    have hlive : e ∈ s.pending.filter Ev.live := List.mem_filter.mpr ⟨he, by simp [Ev.live, hl]⟩
    have hsl : (s.pending.filter Ev.live).Pairwise (fun a b => a.lt b = true) := hs.sublist List.filter_sublist
    unfold due
    generalize s.pending.filter Ev.live = l at hlive hsl
    induction l with
    | nil => simp at hlive
    | cons x xs ih =>
      have hx := List.pairwise_cons.mp hsl
      rcases List.mem_cons.mp hlive with rfl | hmem
      · simp [ht]
      · have hxe := Ev.time_le_of_lt (hx.1 e hmem)
        have hxT : x.time ≤ T := Int.le_trans hxe ht
        simp only [List.takeWhile_cons, hxT, decide_true, if_true, List.mem_cons]
        exact Or.inr (ih hmem hx.2)

/-- `heapq` — transcribed from CPython's Lib/heapq.py in `Model/Heap.lean` and compared with the real module by the
    check — is a correct priority queue for `SimulationEvent.__lt__` (a strict weak order): `heappush` and `heappop`
    keep the heap invariant and the multiset of events, and `heappop` hands out a minimum, the root of the array. -/
theorem C14_heapq_is_priority_queue :
    Heap.SWO Ev.lt ∧
    (∀ (hp : List Ev) (e : Ev), Heap.IsHeap Ev.lt hp →
      Heap.IsHeap Ev.lt (Heap.heappush Ev.lt hp e) ∧ (Heap.heappush Ev.lt hp e).Perm (e :: hp)) ∧
    (∀ (hp hp' : List Ev) (m : Ev), Heap.IsHeap Ev.lt hp → Heap.heappop Ev.lt hp = some (m, hp') →
      hp.Perm (m :: hp') ∧ Heap.IsHeap Ev.lt hp' ∧ (∀ y ∈ hp', y.lt m = false) ∧ hp[0]? = some m) :=
  ⟨ev_swo, fun hp e h => ⟨Heap.heappush_heap ev_swo h e, Heap.heappush_perm Ev.lt hp e⟩,
   fun _ _ _ h hpop => Heap.heappop_spec ev_swo h hpop⟩

/-- The model's sorted event list is a sound abstraction of the heap array `EventList` keeps: starting from empty
    queues, `add_event` (heappush ↔ sorted insertion) and `pop_event` (heappop until a live event ↔ `popLive`) keep
    array and list in correspondence — same events, and every pop hands out the same event on both sides. -/
theorem C14_heap_refines_sorted_queue :
    Refines [] [] ∧
    (∀ (hp s : List Ev) (e : Ev), Refines hp s → (∀ x ∈ s, x.id ≠ e.id) →
      Refines (Heap.heappush Ev.lt hp e) (insert e s)) ∧
    (∀ (hp s : List Ev), Refines hp s →
      match popLive s with
      | some (e, rest) => ∃ hp', heapPopLive (s.length + 1) hp = some (e, hp') ∧ Refines hp' rest
      | none => heapPopLive (s.length + 1) hp = none) :=
  ⟨refines_nil, fun _ _ e r hid => refines_push r e hid, fun _ _ r => refines_popLive r⟩

/-- The priority levels the source defines (regenerated from `eventlist.py` on every run) are the three the model and
    the harness use, and they order events as documented: HIGH before DEFAULT before LOW. -/
theorem C14_priority_order_generated :
    Gen.priorities.lookup "HIGH" = some 1 ∧ Gen.priorities.lookup "DEFAULT" = some 5 ∧
    Gen.priorities.lookup "LOW" = some 10 ∧ Gen.priorities.length = 3 ∧
    ∀ (a b : Ev), a.time = b.time → a.prio = 1 → b.prio = 5 ∨ b.prio = 10 → a.lt b = true := by
  refine ⟨by decide, by decide, by decide, by decide, ?_⟩
  intro a b ht ha hb
  rw [Ev.lt_iff]; omega

/-! ### at least once

`Served k c i t s`: the user event with tag `k`, callable object `c` and event id `i`, scheduled for time `t`, is waiting on the list
(neither cancelled nor with a dead callable) or has been executed — that very event: `LogEntry.user i k t` is in the log — with the
clock at exactly `t`.  `ProgsSpare k c s`: no callable (event
program or step body) cancels tag `k` or drops the callable `c`; `ReachableSparing k c s s'`: `s'` is reached from `s` by any
further history whose top-level commands do not cancel `k` / drop `c` either (scheduling — also of `c` again —, cancellations of
other events, *including events that share the callable `c`*, drops of other callables, runs of any kind are all allowed).
For an ordinary scheduling call the callable is fresh and `c = k`; the id is the value of the id counter at the scheduling call.
`ProgsSpare` is a syntactic condition over ALL programs of the table, also those that never run: sufficient, not necessary. -/

/-- **At least once (absolute scheduling).**  An event that was accepted by `schedule_event_absolute` and that nobody cancels or
    drops stays served through every further history: it is never lost, and when it runs the clock is the time it was
    scheduled for. -/
theorem C14_spared_event_is_served {s s₀ s' : Sim} {t : Int} {p a : Nat} (hs : schedAbs s t p a = .ok s₀)
    (hps : ProgsSpare s.nextTag s.nextTag s) (hr : ReachableSparing s.nextTag s.nextTag s₀ s') :
    Served s.nextTag s.nextTag s.nextId t s' := by
  unfold schedAbs at hs
  split at hs
  · simp at hs
  · split at hs
    · simp at hs
    · simp only [Except.ok.injEq] at hs
      subst hs
      exact (served_stays (pushUser_serves s t p a) hps hr).1

/-- **At least once (relative scheduling, `schedule_event_now`, `schedule_event_next_tick`).** -/
theorem C14_spared_event_is_served_rel {s s₀ s' : Sim} {d : Int} {p a : Nat} (hs : schedRel s d p a = .ok s₀)
    (hps : ProgsSpare s.nextTag s.nextTag s) (hr : ReachableSparing s.nextTag s.nextTag s₀ s') :
    Served s.nextTag s.nextTag s.nextId (s.now + d) s' := by
  unfold schedRel at hs
  split at hs
  · simp at hs
  · split at hs
    · simp at hs
    · simp only [Except.ok.injEq] at hs
      subst hs
      exact (served_stays (pushUser_serves s (s.now + d) p a) hps hr).1

/-- **Every live event that is due is executed by `run_until`** — including events scheduled from inside other events, in
    any reachable state, after any further history: after a `run_until(T)` that returns normally, an uncancelled, undropped
    event scheduled for `t ≤ T` is in the execution log — the very event the call created (id = the id counter at the call) —,
    with the clock at `t`.  With `C14_never_twice`: exactly once. -/
theorem C14_spared_due_event_executed {s s₀ s' s'' : Sim} {t T : Int} {p a f : Nat} (h : Reachable s)
    (hs : schedAbs s t p a = .ok s₀) (hps : ProgsSpare s.nextTag s.nextTag s) (hr : ReachableSparing s.nextTag s.nextTag s₀ s')
    (hT : s'.now ≤ T) (hrun : runUntil f s' T = some s'') (hn : s''.raised = none) (htT : t ≤ T) :
    LogEntry.user s.nextId s.nextTag t ∈ s''.log := by
  have hw' : WF s' := reachableFrom_wf (schedAbs_wf (reachable_inv h).1 hs) (reachableSparing_from hr)
  have hserved := C14_spared_event_is_served hs hps (.until hr hT hrun)
  obtain ⟨_, hpost, _⟩ := runUntil_post hw' hrun hn
  rcases hserved with ⟨e, he, _, _, _, _, h3, h4, _⟩ | hlog
  · have := hpost e he h4
    omega
  · exact hlog

/-- The same for relative scheduling (`schedule_event_relative`, `schedule_event_now`, `schedule_event_next_tick`). -/
theorem C14_spared_due_event_executed_rel {s s₀ s' s'' : Sim} {d T : Int} {p a f : Nat} (h : Reachable s)
    (hs : schedRel s d p a = .ok s₀) (hps : ProgsSpare s.nextTag s.nextTag s) (hr : ReachableSparing s.nextTag s.nextTag s₀ s')
    (hT : s'.now ≤ T) (hrun : runUntil f s' T = some s'') (hn : s''.raised = none) (htT : s.now + d ≤ T) :
    LogEntry.user s.nextId s.nextTag (s.now + d) ∈ s''.log := by
  have hw' : WF s' := reachableFrom_wf (schedRel_wf (reachable_inv h).1 hs) (reachableSparing_from hr)
  have hserved := C14_spared_event_is_served_rel hs hps (.until hr hT hrun)
  obtain ⟨_, hpost, _⟩ := runUntil_post hw' hrun hn
  rcases hserved with ⟨e, he, _, _, _, _, h3, h4, _⟩ | hlog
  · have := hpost e he h4
    omega
  · exact hlog

/-! ### shared callables

The same callable object may be scheduled many times (`again c d p`: the program calls `schedule_event_relative` once more with
the callable `c` it still holds — a bound method `self.act` re-scheduled again and again).  Events sharing a callable are
independent of each other (each has its own handle: cancelling one leaves the others alone) except for the life of the callable:
when the program drops its last strong reference to `c`, every one of them is dead. -/

/-- **At least once, shared callable.**  A further event scheduled with a callable `c` the program still holds is never lost
    as long as nobody cancels *this* event or drops `c` — cancelling any other event that shares `c` is allowed. -/
theorem C14_shared_callable_event_is_served {s s₀ s' : Sim} {c : Nat} {d : Int} {p : Nat}
    (hs : again s c d p = some (.ok s₀)) (hps : ProgsSpare s.nextTag c s) (hr : ReachableSparing s.nextTag c s₀ s') :
    Served s.nextTag c s.nextId (s.now + d) s' := by
  unfold again at hs
  split at hs
  · simp at hs
  · rename_i a _
    simp only [Option.some.injEq] at hs
    unfold schedRel at hs
    split at hs
    · simp at hs
    · split at hs
      · simp at hs
      · simp only [Except.ok.injEq] at hs
        subst hs
        exact (served_stays (pushUser_serves s (s.now + d) p a (some c)) hps hr).1

/-- ... and `run_until(T)` executes it if it is due, although other events sharing its callable were cancelled. -/
theorem C14_shared_due_event_executed {s s₀ s' s'' : Sim} {c : Nat} {d T : Int} {p f : Nat} (h : Reachable s)
    (hs : again s c d p = some (.ok s₀)) (hps : ProgsSpare s.nextTag c s) (hr : ReachableSparing s.nextTag c s₀ s')
    (hT : s'.now ≤ T) (hrun : runUntil f s' T = some s'') (hn : s''.raised = none) (htT : s.now + d ≤ T) :
    LogEntry.user s.nextId s.nextTag (s.now + d) ∈ s''.log := by
  have hw0 : WF s₀ := by
    unfold again at hs
    split at hs
    · simp at hs
    · simp only [Option.some.injEq] at hs
      exact schedRel_wf (reachable_inv h).1 hs
  have hw' : WF s' := reachableFrom_wf hw0 (reachableSparing_from hr)
  have hserved := C14_shared_callable_event_is_served hs hps (.until hr hT hrun)
  obtain ⟨_, hpost, _⟩ := runUntil_post hw' hrun hn
  rcases hserved with ⟨e, he, _, _, _, _, h3, h4, _⟩ | hlog
  · have := hpost e he h4
    omega
  · exact hlog

/-- **Once a callable is collected, no event sharing it ever executes.**  After the program has dropped its last strong reference
    to a callable `c` it created earlier, in every state of every further history: the program cannot schedule `c` again, every
    pending event scheduled with `c` — however many there are — has a dead weak reference, and when such an event is popped
    nothing runs (the log does not grow). -/
theorem C14_collected_callable_never_runs {s s' : Sim} {c : Nat} (hc : c < s.nextTag) (hr : ReachableFrom (dropFn s c) s') :
    s'.fns.lookup c = none ∧ (∀ d p, again s' c d p = none) ∧
    (∀ e ∈ s'.pending, e.isStep = false → e.fn = c → e.dead = true) ∧
    ∀ e rest, popLive s'.pending = some (e, rest) → e.isStep = false → e.fn = c →
      (exec (popped s' e rest) e).log = s'.log := by
  have hcol := collected_stays (dropFn_collects s hc) hr
  refine ⟨hcol.unheld, fun d p => by simp [again, hcol.unheld], hcol.dead, ?_⟩
  intro e rest hp hu hf
  have hd := hcol.dead e (popLive_mem hp).1 hu hf
  rw [exec_log]; unfold entryOf; rw [if_pos hd]; simp [popped]

/-- **An event's weak reference is dead exactly when the program no longer holds its callable object** — in every reachable
    state, for every pending user event (so events that share a callable are all alive or all dead); callable ids are tags that
    have been handed out.  NOTE what this is: a consistency invariant between two *ghost* fields of the model (`Ev.dead` and
    `Sim.fns` are written together, by `pushUser` and `dropFn` only); it says the model's two views of "collected" never drift
    apart through any history, not that CPython's weak references behave so (that is in TRUSTED and compared by the check). -/
theorem C14_weakref_dead_iff_callable_dropped {s : Sim} (h : Reachable s) :
    (∀ x ∈ s.fns, x.1 < s.nextTag) ∧
    (∀ e ∈ s.pending, e.isStep = false → e.fn < s.nextTag ∧ (e.dead = true ↔ s.fns.lookup e.fn = none)) ∧
    ∀ e₁ ∈ s.pending, ∀ e₂ ∈ s.pending, e₁.isStep = false → e₂.isStep = false → e₁.fn = e₂.fn → e₁.dead = e₂.dead := by
  have hi := reachable_fnInv h
  refine ⟨hi.keys, hi.evs, ?_⟩
  intro e₁ h₁ e₂ h₂ hu₁ hu₂ hf
  have i₁ := (hi.evs e₁ h₁ hu₁).2
  have i₂ := (hi.evs e₂ h₂ hu₂).2
  rw [hf] at i₁
  have hiff : e₁.dead = true ↔ e₂.dead = true := i₁.trans i₂.symm
  cases hd₁ : e₁.dead <;> cases hd₂ : e₂.dead
  · rfl
  · rw [hd₁, hd₂] at hiff; exact absurd (hiff.mpr rfl) (by simp)
  · rw [hd₁, hd₂] at hiff; exact absurd (hiff.mp rfl) (by simp)
  · rfl

/-- **Dropping a callable kills every pending event that shares it**: none of them is in the execution log of any state
    reachable afterwards (`C14_collected_never_executes` for all sharers at once). -/
theorem C14_drop_kills_every_sharer {s s' : Sim} (h : Reachable s) {c : Nat} {e : Ev} (he : e ∈ s.pending)
    (hu : e.isStep = false) (hf : e.fn = c) (hr : ReachableFrom (dropFn s c) s') : e.id ∉ logIds s'.log := by
  have ha0 : Acc (dropFn s c) := doCmd1_accH (reachable_inv h).2.1 (.drop c)
  have hmem : { e with dead := true } ∈ (dropFn s c).pending := by
    simp only [dropFn, List.mem_map]
    exact ⟨e, he, by simp [hu, hf]⟩
  exact doomed_not_logged (reachableFrom_acc ha0 hr) (doomed_stays (Or.inl ⟨_, hmem, rfl, rfl⟩) hr)


/-! ### callables that raise

A callable (or the step body) may raise (`raise x`): the rest of its program does not run, `run_until` / `run_for` /
`run_next_event` do not return normally — the exception reaches the program with its kind (`Sim.raised = some x`), which catches it
(`caught`) and goes on.  All states on the way are `Reachable`, so every invariant above (sorted queue, accounting, never twice,
clock monotone, once cancelled / collected never executed, at-least-once over `ReachableSparing`, which has the `caught` step too)
holds in aborted states and across any number of exceptions.  Post-conditions of a run that *returns normally* carry the hypothesis
`s'.raised = none`; what a run that is cut short leaves is stated here. -/

/-- **What `run_until(T)` leaves when a callable raises `x`.**  The run has a trace (`runUntilT`, see below: the events it
    executed, in order) that ends with the raising event `e`: `e` was alive, live and due, its execution is the last log entry,
    logged at the clock the run stopped at — `e`'s time, `≤ T` —, everything executed before it is logged before it (at its own
    time `≤ T`); it is the program of THAT event — `s.prog e.act`, the step body for a step event — that contains the
    `raise x` (the kind is preserved; a `raise` in some other program of the table does not do); the raising event is consumed
    (no longer on the list), and nothing on the list lies before the clock. -/
theorem C14_run_until_aborted {s s' : Sim} {f : Nat} {T : Int} {x : Exc} (h : Reachable s) (hT : s.now ≤ T)
    (h0 : s.raised = none) (hr : runUntil f s T = some s') (hx : s'.raised = some x) :
    ∃ (tr : List (Ev × Nat)) (e : Ev) (n : Nat), runUntilT f s T = some (s', tr ++ [(e, n)]) ∧
      s'.log = s.log ++ tr.flatMap (fun y => logOf y.1) ++ logOf e ∧
      (∀ y ∈ tr ++ [(e, n)], y.1.id < y.2 ∧ y.1.cancelled = false ∧ y.1.time ≤ T) ∧
      e.dead = false ∧ s'.now = e.time ∧
      ((e.isStep = true ∧ logOf e = [.step e.id s'.now] ∧ Cmd.raise x ∈ s.stepProg) ∨
       (e.isStep = false ∧ logOf e = [.user e.id e.tag s'.now] ∧ Cmd.raise x ∈ s.prog e.act)) ∧
      e.id ∉ ids s'.pending ∧ ∀ z ∈ s'.pending, s'.now ≤ z.time := by
  obtain ⟨tr0, htr⟩ := runUntilT_of_runUntil hr
  obtain ⟨tr, e, n, rfl, hd, hnow, hprog⟩ := runUntilT_aborted h0 htr hx
  have hw := (reachable_inv h).1
  have h' : Reachable s' := .until h hT hr
  have hlog : s'.log = s.log ++ tr.flatMap (fun y => logOf y.1) ++ logOf e := by
    rw [runUntilT_log htr]; simp [List.append_assoc]
  have hlogOf : logOf e = if e.isStep then [.step e.id s'.now] else [.user e.id e.tag s'.now] := by
    unfold logOf; rw [if_neg (by simp [hd]), hnow]
  refine ⟨tr, e, n, htr, hlog, runUntilT_born hw htr, hd, hnow, ?_, ?_, (reachable_inv h').1.future⟩
  · rcases hprog with ⟨hs, hm⟩ | ⟨hs, hm⟩
    · exact Or.inl ⟨hs, by rw [hlogOf, if_pos hs], hm⟩
    · exact Or.inr ⟨hs, by rw [hlogOf, if_neg (by simp [hs])], hm⟩
  · intro hmem
    have hacc := C14_exactly_once_accounting h' e.id
    have h1 : 0 < (ids s'.pending).count e.id := List.count_pos_iff.mpr hmem
    have h2 : 0 < (logIds s'.log).count e.id := by
      apply List.count_pos_iff.mpr
      rw [hlog, hlogOf]
      split <;> simp [logIds, LogEntry.id]
    split at hacc <;> omega

/-- **... and what `run_next_event` leaves when the callable of the event it executes raises `x`** (the twin of
    `C14_run_until_aborted`): the event it popped was alive, its execution is logged — the one new log entry — at the event's
    time, which is the clock; it is that event's program (the step body for a step event) that contains the `raise x`; the
    event is consumed and nothing on the list lies before the clock. -/
theorem C14_run_next_aborted {s : Sim} {x : Exc} (h : Reachable s) (h0 : s.raised = none)
    (hx : (runNext s).raised = some x) :
    ∃ e rest, popLive s.pending = some (e, rest) ∧ e.dead = false ∧ (runNext s).now = e.time ∧
      (runNext s).log = s.log ++ logOf e ∧
      ((e.isStep = true ∧ logOf e = [.step e.id e.time] ∧ Cmd.raise x ∈ s.stepProg) ∨
       (e.isStep = false ∧ logOf e = [.user e.id e.tag e.time] ∧ Cmd.raise x ∈ s.prog e.act)) ∧
      e.id ∉ ids (runNext s).pending ∧ ∀ z ∈ (runNext s).pending, (runNext s).now ≤ z.time := by
  have h' : Reachable (runNext s) := .next h
  cases hp : popLive s.pending with
  | none =>
    have : (runNext s).raised = s.raised := by simp only [runNext, hp]
    rw [this, h0] at hx; simp at hx
  | some p =>
    obtain ⟨e, rest⟩ := p
    have hrn : runNext s = exec (popped s e rest) e := by simp only [runNext, hp, popped]
    rw [hrn] at hx
    obtain ⟨hd, hprog⟩ := exec_raised (s := popped s e rest) h0 hx
    have hlogOf : logOf e = if e.isStep then [.step e.id e.time] else [.user e.id e.tag e.time] := by
      unfold logOf; rw [if_neg (by simp [hd])]
    have hlog : (runNext s).log = s.log ++ logOf e := by
      rw [hrn, exec_log]; simp [entryOf, logOf, popped]
    refine ⟨e, rest, rfl, hd, by rw [hrn, exec_now]; rfl, hlog, ?_, ?_, (reachable_inv h').1.future⟩
    · rcases hprog with ⟨hs, hm⟩ | ⟨hs, hm⟩
      · exact Or.inl ⟨hs, by rw [hlogOf, if_pos hs], hm⟩
      · exact Or.inr ⟨hs, by rw [hlogOf, if_neg (by simp [hs])], hm⟩
    · intro hmem
      have hacc := C14_exactly_once_accounting h' e.id
      have h1 : 0 < (ids (runNext s).pending).count e.id := List.count_pos_iff.mpr hmem
      have h2 : 0 < (logIds (runNext s).log).count e.id := by
        apply List.count_pos_iff.mpr
        rw [hlog, hlogOf]
        split <;> simp [logIds, LogEntry.id]
      split at hacc <;> omega

/-- **A raising event is executed exactly once.**  Whatever the program does after the exception reached it — catch it, schedule,
    cancel, run again to the same or a later horizon, meet further exceptions —, the event that raised is never run again: in
    every later state it occurs in the execution log exactly once and not on the list. -/
theorem C14_raising_event_never_rerun {s s' s'' : Sim} {f : Nat} {T : Int} {x : Exc} (h : Reachable s) (hT : s.now ≤ T)
    (h0 : s.raised = none) (hr : runUntil f s T = some s') (hx : s'.raised = some x) (hfrom : ReachableFrom s' s'') :
    ∃ ent, s'.log.getLast? = some ent ∧ (logIds s''.log).count ent.id = 1 ∧ ent.id ∉ ids s''.pending := by
  obtain ⟨pre, ent, hlog, _⟩ := runUntil_aborted h0 hr hx
  obtain ⟨new, hnew⟩ := reachableFrom_log_grows hfrom
  have h'' : Reachable s'' := reachableFrom_reachable (.until h hT hr) hfrom
  have hacc := C14_exactly_once_accounting h'' ent.id
  have h2 : 0 < (logIds s''.log).count ent.id := by
    apply List.count_pos_iff.mpr
    rw [hnew, hlog]; simp [logIds]
  refine ⟨ent, by rw [hlog]; simp, ?_, ?_⟩
  · split at hacc <;> omega
  · intro hmem
    have h1 : 0 < (ids s''.pending).count ent.id := List.count_pos_iff.mpr hmem
    split at hacc <;> omega

/-- **Resuming after an exception.**  `run_until(T)` was cut short by an exception `x`; the program catches it and calls
    `run_until(T)` again; if that call returns normally: the clock is `T`; NOTHING is left on the list with time `≤ T` (not even a
    cancelled entry); only events with time `≤ T` ran; the event that raised is in the log exactly once (it was not run again);
    every entry that was still on the list with time `≤ T` when the first call was cut short has been consumed — it is off the
    list and its id is, exactly once, in the execution log or among the discarded (cancelled / collected) ids; and every such
    entry that was a live user event with a living callable, and that no program cancels or drops (`ProgsSpare`, sufficient), has
    been EXECUTED, at its own time: `LogEntry.user e.id e.tag e.time` is in the log. -/
theorem C14_resume_after_exception {s s' s'' : Sim} {f f' : Nat} {T : Int} {x : Exc} (h : Reachable s) (hT : s.now ≤ T)
    (h0 : s.raised = none) (hr : runUntil f s T = some s') (hx : s'.raised = some x)
    (hr2 : runUntil f' (caught s') T = some s'') (hn : s''.raised = none) :
    s''.now = T ∧ (∀ y ∈ s''.pending, T < y.time) ∧
    (∃ new, s''.log = s'.log ++ new ∧ ∀ y ∈ new, y.clock ≤ T) ∧
    (∃ ent, s'.log.getLast? = some ent ∧ (logIds s''.log).count ent.id = 1) ∧
    (∀ e ∈ s'.pending, e.time ≤ T →
      e.id ∉ ids s''.pending ∧ (logIds s''.log).count e.id + s''.gone.count e.id = 1) ∧
    (∀ e ∈ s'.pending, e.isStep = false → e.cancelled = false → e.dead = false → e.time ≤ T → ProgsSpare e.tag e.fn s' →
      LogEntry.user e.id e.tag e.time ∈ s''.log) := by
  obtain ⟨_, _, _, _, hle, _⟩ := runUntil_aborted h0 hr hx
  have h' : Reachable s' := .until h hT hr
  have hc : Reachable (caught s') := .caught h'
  have hle' : (caught s').now ≤ T := hle
  have h'' : Reachable s'' := .until hc hle' hr2
  have hw := (reachable_inv hc).1
  obtain ⟨hnow, _, hnew⟩ := C14_run_until_post hc hr2 hn
  have hnd := runUntil_nothing_due hw hr2 hn
  refine ⟨hnow, hnd, hnew, ?_, ?_, ?_⟩
  · obtain ⟨ent, h1, h2, _⟩ := C14_raising_event_never_rerun h hT h0 hr hx (.until (.caught .refl) hle' hr2)
    exact ⟨ent, h1, h2⟩
  · intro e he heT
    have he' : e ∈ (caught s').pending := he
    obtain ⟨hnp, hnext⟩ := runUntil_consumes_due hw (reachable_inv hc).2.1 hr2 hn he' heT
    refine ⟨hnp, ?_⟩
    have hacc := C14_exactly_once_accounting h'' e.id
    have hz : (ids s''.pending).count e.id = 0 := List.count_eq_zero.mpr hnp
    have hlt : e.id < s''.nextId := Nat.lt_of_lt_of_le (hw.idlt e he') hnext
    rw [if_pos hlt] at hacc; omega
  · intro e he hu hl hd heT hps
    have hserved : Served e.tag e.fn e.id e.time (caught s') := Or.inl ⟨e, he, hu, rfl, rfl, rfl, rfl, hl, hd⟩
    have hps' : ProgsSpare e.tag e.fn (caught s') := hps
    rcases (served_stays hserved hps' (.until .refl hle' hr2)).1 with ⟨y, hy, _, _, _, _, h3, _, _⟩ | hlog
    · have := hnd y hy; omega
    · exact hlog

/-! ### order of execution with nested scheduling

`runUntilT` is `runUntil` that also returns its trace: every event it executed, paired with the value of the id counter at the
moment the event was popped (`Proofs/DevsOrder.lean`; erasing the trace gives `runUntil` back).  Ids are handed out in scheduling
order, so `n ≤ e'.id` reads "`e'` was scheduled after that pop". -/

/-- **Order of execution, nested scheduling included.**  Every successful `run_until` from a reachable state has a trace with:
    the log grows by exactly the trace's entries (each at the clock of its event's time); of two events executed in the run the
    earlier one has the smaller (time, priority, id) key **unless the later one was scheduled only after the earlier one had
    been popped**; every traced event was live, due (`time ≤ T`) and older than the counter recorded for it. -/
theorem C14_execution_order {s s' : Sim} {f : Nat} {T : Int} (h : Reachable s) (hr : runUntil f s T = some s') :
    ∃ tr : List (Ev × Nat), runUntilT f s T = some (s', tr) ∧
      s'.log = s.log ++ tr.flatMap (fun y => logOf y.1) ∧
      tr.Pairwise (fun x y => x.1.lt y.1 = true ∨ x.2 ≤ y.1.id) ∧
      ∀ y ∈ tr, y.1.id < y.2 ∧ y.1.cancelled = false ∧ y.1.time ≤ T := by
  obtain ⟨tr, htr⟩ := runUntilT_of_runUntil hr
  have hw := (reachable_inv h).1
  exact ⟨tr, htr, runUntilT_log htr, runUntilT_ordered hw htr, runUntilT_born hw htr⟩

/-- **Order of execution over a whole history** (`Proofs/DevsHistory.lean`).  `runHistT` runs any list of steps — top-level
    commands, `run_until` / `run_for` / `run_next_event` calls (cut short by exceptions or not), catches — and returns the trace
    of everything executed on the way (`run_next_event` contributes its one event).  The log grows by exactly the trace; of two
    events executed anywhere in the history — in the same run call or in different ones — the earlier has the smaller
    (time, priority, id) key unless the later one was scheduled only after the earlier one had been popped; every executed
    event precedes, in that sense, everything that is still pending at the end; and the number recorded with a traced event is
    a value the id counter really had: above the event's own id (the event existed at its pop; it was live) and not above the
    final counter — so "`x.2 ≤ y.id`" can only hold for a `y` scheduled after `x` was popped. -/
theorem C14_execution_order_history {s s' : Sim} {f : Nat} {sts : List Step} {tr : List (Ev × Nat)} (h : Reachable s)
    (hr : runHistT f s sts = some (s', tr)) :
    s'.log = s.log ++ tr.flatMap (fun y => logOf y.1) ∧
    tr.Pairwise (fun x y => x.1.lt y.1 = true ∨ x.2 ≤ y.1.id) ∧
    (∀ x ∈ tr, ∀ z ∈ s'.pending, x.1.lt z = true ∨ x.2 ≤ z.id) ∧
    ∀ x ∈ tr, x.1.id < x.2 ∧ x.2 ≤ s'.nextId ∧ x.1.cancelled = false := by
  have hw := (reachable_inv h).1
  obtain ⟨_, ht, hl⟩ := runHistT_spec hw hr
  exact ⟨hl, ht.ordered, fun x hx => (ht.ahead x hx).1,
    fun x hx => ⟨(runHistT_born hw hr x hx).1, (ht.ahead x hx).2, (runHistT_born hw hr x hx).2⟩⟩

/-- **The traces of `C14_execution_order_history` are the real histories.**  Erasing the trace from `runHistT` gives `runHist` —
    nothing but the model's operations (`doCmd`, `runUntil`, `runNext`, `caught`) one after the other —, and every history
    `ReachableFrom` speaks about is such a list of steps and so has a trace. -/
theorem C14_history_traces_are_histories :
    (∀ (f : Nat) (s : Sim) (sts : List Step), (runHistT f s sts).map (·.1) = runHist f s sts) ∧
    (∀ {s s' : Sim}, ReachableFrom s s' → ∃ f sts tr, runHistT f s sts = some (s', tr)) := by
  refine ⟨runHistT_erase, fun hr => ?_⟩
  obtain ⟨f, sts, h⟩ := reachableFrom_runHist hr
  obtain ⟨tr, htr⟩ := runHistT_of_runHist h
  exact ⟨f, sts, tr, htr⟩

/-! non-vacuity: a concrete run with ties, nested scheduling and a cancellation -/
section Example
def exProg : Nat → List Cmd
  | 1 => [.schedRel 0 5 0, .cancel 0]
  | _ => []
def ex0 : Sim := init .devs exProg []
def ex1 : Sim := doCmd (doCmd (doCmd ex0 (.schedAbs 2048 5 0)) (.schedAbs 1024 10 1)) (.schedAbs 1024 1 0)
example : Reachable ex1 := .cmd _ (.cmd _ (.cmd _ (.init _ _ _)))
example : (ex1.pending.map (·.tag)) = [2, 1, 0] := by decide
example : ((runUntil 10 ex1 4096).map fun s => (s.now, s.log.map (·.id), s.gone)) =
    some (4096, [2, 1, 3], [0]) := by decide
example : schedRel ex1 (-1) 5 0 = .error .past := rfl
/-- the hypotheses of the at-least-once theorems are met by the event with tag 2 of `ex1` (program 1 cancels tag 0 only);
    the event with tag 0 is cancelled from inside program 1 and is indeed not served -/
example : ProgsSpare 2 2 ex0 := by
  refine ⟨fun a => ?_, by simp [Spares, ex0, init]⟩
  show Spares 2 2 (exProg a)
  unfold Spares exProg
  split <;> simp
example : ((runUntil 10 ex1 4096).map fun s => s.log) =
    some [.user 2 2 1024, .user 1 1 1024, .user 3 3 1024] := by decide
/-- the trace of that run as (id, priority, id counter at the pop): the event with id 3 (priority 5) runs after the event with
    id 1 (priority 10) at the same time — allowed only because it was scheduled by it (3 ≤ 3): the second disjunct of
    `C14_execution_order` is needed and is tight -/
example : ((runUntilT 10 ex1 4096).map fun p => p.2.map fun y => (y.1.id, y.1.prio, y.2)) =
    some [(2, 1, 3), (1, 10, 3), (3, 5, 4)] := by decide
/-- a history in pieces with a command in between: `run_next_event` (id 2), a new HIGH event for the same time scheduled at top
    level (id 3: smaller key than id 1, but scheduled after id 2 was popped — it still runs before id 1), `run_until` -/
example : ((runHistT 10 ex1 [.next, .cmd (.schedAbs 1024 1 0), .until 4096]).map fun p => p.2.map fun y => (y.1.id, y.1.prio, y.2)) =
    some [(2, 1, 3), (3, 1, 4), (1, 10, 4), (4, 5, 5)] := by decide

/-- shared callable: the callable of tag 0 is scheduled three times (tags 0, 1, 2 share `fn = 0`); tag 1 is cancelled — tags 0
    and 2 still run (independence); a HIGH-priority event (tag 3, program 1) drops callable 0 at time 2048, just before tag 2
    would run: tag 2 (id 2) is popped and discarded, and the program can no longer schedule the callable -/
def shProg : Nat → List Cmd
  | 1 => [.drop 0, .again 0 1024 5]
  | _ => []
def sh0 : Sim := init .devs shProg []
def sh1 : Sim := doCmd (doCmd (doCmd (doCmd sh0 (.schedAbs 1024 5 0)) (.again 0 1024 5)) (.again 0 2048 5)) (.cancel 1)
example : Reachable sh1 := .cmd _ (.cmd _ (.cmd _ (.cmd _ (.init _ _ _))))
example : (sh1.pending.map fun e => (e.tag, e.fn, e.cancelled)) = [(0, 0, false), (1, 0, true), (2, 0, false)] := by decide
example : ((runUntil 10 sh1 4096).map fun s => (s.log.map (·.id), s.gone)) = some ([0, 2], [1]) := by decide
def sh2 : Sim := doCmd sh1 (.schedAbs 2048 1 1)
example : ((runUntil 10 sh2 4096).map fun s => (s.log.map (·.id), s.gone, s.fns, s.nextId)) =
    some ([0, 3], [1, 2], [(3, 1)], 4) := by decide
example : again sh1 0 0 5 ≠ none ∧ again (dropFn sh1 0) 0 0 5 = none := by decide
/-- the hypotheses of `C14_shared_callable_event_is_served` are met by tag 2 (callable 0) when program 1 cancels the two OTHER
    events sharing callable 0 instead of dropping it: tag 2 runs all the same -/
def shProgQ : Nat → List Cmd
  | 1 => [.cancel 0, .cancel 1]
  | _ => []
def sq0 : Sim := init .devs shProgQ []
def sq1 : Sim := doCmd (doCmd (doCmd (doCmd sq0 (.schedAbs 1024 5 0)) (.again 0 1024 5)) (.again 0 2048 5)) (.schedAbs 512 5 1)
example : ProgsSpare 2 0 sq0 := by
  refine ⟨fun a => ?_, by simp [Spares, sq0, init]⟩
  show Spares 2 0 (shProgQ a)
  unfold Spares shProgQ
  split <;> simp
example : ((runUntil 10 sq1 4096).map fun s => (s.log, s.gone)) = some ([.user 3 3 512, .user 2 2 2048], [0, 1]) := by decide

/-- a callable that raises: program 1 schedules a follow-up, raises IndexError, and would schedule another one (which it never
    does); `run_until(4096)` is cut short at 1024 with the exception pending, the raising event (id 0) consumed, the follow-up
    (id 2) and the event of time 2048 (id 1) still on the list; the resumed call executes exactly those two -/
def rsProg : Nat → List Cmd
  | 1 => [.schedRel 512 5 0, .raise .index, .schedRel 0 5 0]
  | _ => []
def rs1 : Sim := doCmd (doCmd (init .devs rsProg []) (.schedAbs 1024 5 1)) (.schedAbs 2048 5 0)
example : Reachable rs1 := .cmd _ (.cmd _ (.init _ _ _))
example : ((runUntil 10 rs1 4096).map fun s => (s.raised, s.now, s.log.map (·.id), s.pending.map (·.id), s.nextId)) =
    some (some .index, 1024, [0], [2, 1], 3) := by decide
example : ((runUntil 10 rs1 4096).bind fun s => (runUntil 10 (caught s) 4096).map fun s => (s.raised, s.now, s.log.map (·.id), s.pending.map (·.id))) =
    some (none, 4096, [0, 2, 1], []) := by decide
example : ((resume 10 5 rs1 4096).map fun s => (s.now, s.log.map (·.id))) = some (4096, [0, 2, 1]) := by decide
example : ((runUntilC 10 rs1 4096).map fun s => (s.now, s.log.map (·.id))) = some (4096, [0, 2, 1]) := by decide
/-- `run_next_event` meets the same exception (`C14_run_next_aborted`): event id 0 consumed, its follow-up (id 2) on the list -/
example : ((runNext rs1).raised, (runNext rs1).now, (runNext rs1).log.map (·.id), (runNext rs1).pending.map (·.id)) =
    (some .index, 1024, [0], [2, 1]) := by decide
/-- the `ProgsSpare` hypothesis of the last clause of `C14_resume_after_exception` is met by both events left on the list when the
    run was cut short (no program of `rsProg` cancels or drops anything): both are executed by the resumed call (log above) -/
example (k c : Nat) : ProgsSpare k c (init .devs rsProg []) := by
  refine ⟨fun a => ?_, by simp [Spares, init]⟩
  show Spares k c (rsProg a)
  unfold Spares rsProg
  split <;> simp
end Example

end Mesa.Devs
