import MesaModel.Model.Devs
