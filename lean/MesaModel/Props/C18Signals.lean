import MesaModel.Proofs.Signals
/-!
# C18 (signals part) — a rejected call on a `HasObservables` changes nothing

Lemmas for the C18 assembly.  `step` is the C16 state machine of `Model/Signals.lean`; its state is the whole
observable state of the instance: subscriber table, handler liveness, Observable values, list contents.
-/
namespace Mesa.Signals

/-- Any operation of the signals state machine that raises — `observe` with an unknown name or signal type
    (`ValueError`), `unobserve` of an unknown name with `All()` (`KeyError`), `pop` / `del` / `[]=` out of range
    (`IndexError`), `remove` of an absent value (`ValueError`), a list operation on a list that was never
    assigned (`AttributeError`) — leaves the state exactly as it was and delivers nothing. -/
theorem C18_signals_reject_unchanged (s s' : St) (op : Op) (e : Err) (h : step s op = (s', .err e)) :
    s' = s ∧ emitted s op = [] := by
  rcases step_kind s op with ⟨e', h', hem⟩ | ⟨r, h', _, _⟩ | ⟨x, _, h'⟩ | ⟨s1, p, h', _, _⟩
  · rw [h'] at h; injection h with h1 _; exact ⟨h1.symm, hem⟩
  · rw [h'] at h; injection h with _ h2; cases h2
  · rw [h'] at h; injection h with _ h2; cases h2
  · rw [h] at h'; cases h'

/-- `observe` that is rejected (unknown observable, or a signal type one of the selected observables does not
    emit — e.g. `observe(All(), "append", h)` on a class that also has a plain `Observable`) leaves the
    subscriber table and everything else unchanged (G1 repaired: validation happens before any subscription). -/
theorem C18_signals_observe_reject_unchanged (s s' : St) (n : Sel Nat) (t : Sel SigType) (h : Nat) (e : Err)
    (hr : step s (.observe n t h) = (s', .err e)) : s' = s :=
  (C18_signals_reject_unchanged s s' _ e hr).1

/-- … and such a rejection happens exactly for the invalid calls, always as `ValueError`. -/
theorem C18_signals_observe_rejects_exactly {s : St} (w : s.reg.WF) (n : Sel Nat) (t : Sel SigType) (h : Nat) :
    (∃ e, (step s (.observe n t h)).2 = .err e) ↔ ¬ Reg.validObserve s.reg n t := by
  rcases Reg.observe_spec w n t h with ⟨hv, r', ho, _, _⟩ | ⟨hv, ho⟩
  · simp [step, ho, hv]
  · simp [step, ho, hv]

/-- The later behaviour is as if the rejected call had never been made: deleting the rejected calls from a
    history changes neither the final state nor the outputs of the other operations. -/
theorem C18_signals_rejected_calls_can_be_deleted (s : St) (ops : List Op) :
    ∀ (op : Op) (ops' : List Op), (∃ e, (step (run s ops).1 op).2 = .err e) →
      (run s (ops ++ op :: ops')).1 = (run s (ops ++ ops')).1 ∧
      (run (run s ops).1 (op :: ops')).2.tail = (run (run s ops).1 ops').2 := by
  intro op ops' ⟨e, he⟩
  have hst : step (run s ops).1 op = ((run s ops).1, .err e) := by
    have := C18_signals_reject_unchanged (run s ops).1 (step (run s ops).1 op).1 op e (by rw [← he])
    exact Prod.ext this.1 he
  refine ⟨?_, ?_⟩
  · rw [(run_append s ops (op :: ops')).1, (run_append s ops ops').1, run_cons, hst]
  · rw [run_cons, hst]; rfl

/-- non-vacuity: the G1 witness — `observe(All(), "insert", h)` on a class with a list and an Observable -/
example : (step (init [⟨1, .lst, [.insert, .remove, .change, .append, .replace]⟩, ⟨0, .obs, [.change]⟩])
    (.observe .all (.one .insert) 1)).2 = .err .value := by decide

end Mesa.Signals
