import MesaModel.Model.DevsLife
import MesaModel.Proofs.DevsAbm
import MesaModel.Proofs.DevsRaise
/-!
C14 / C15 over the simulator's whole lifecycle (`Model/DevsLife.lean`): the theorems of `Props/C14.lean` and `Props/C15.lean`
start from `setup (init …)` and speak about `Reachable` / `ReachableAbm` states of the event core.  The real object can be
driven differently — scheduling before `setup`, running before `setup`, `setup` twice, `setup` after a run, `reset` at any
time.  The theorems here show that the guards of `simulator.py` reduce every such history to the ones the core theorems cover:

* `C14_life_core_reachable`   every state any lifecycle history reaches has an event core that is `Reachable`
                              (so every invariant of `Props/C14.lean` holds there);
* `C14_life_idle_is_pristine` while no model is attached the clock is at the start, nothing has executed, `model.steps = 0`;
* `C14_life_refused_unchanged` a refused call (`run_*` without a model, `setup` on a used simulator) returns the state as it was;
* `C14_life_run_refused_iff`, `C14_life_setup_refused_iff` exactly which calls are refused;
* `C14_life_setup_starts_pristine` a successful `setup` of an idle simulator yields exactly the core start state
                              `setup (init …)`-shaped: clock 0, nothing executed, the event list empty (DEVS) or holding the
                              single step event for tick 1 (ABM);
* `C15_life_abm_step_invariant` under the ABM simulator every state with a model attached satisfies the step invariant of
                              `Proofs/DevsAbm.lean` (one live step event, armed for tick `steps + 1`; the steps logged so far are
                              the ticks 1 … `steps`) whatever the lifecycle history was;
* `C15_life_steps_track_clock` … hence `model.steps` equals the clock after every `run_until` to a whole tick, in every history;
* `C15_life_abm_second_setup_refused` under the ABM simulator a second `setup` is always refused (the step event is pending).
-/
namespace Mesa.Devs

/-- the property's quantifier: horizons not before the clock -/
def Life.admits (l : Life) : LOp → Prop
  | .until _ T => l.sim.now ≤ T
  | .for _ d => 0 ≤ d
  | _ => True

/-- every state a program can bring the simulator object to -/
inductive LReach : Life → Prop where
  | fresh (k : Kind) (p : Nat → List Cmd) (sp : List Cmd) : LReach (fresh k p sp)
  | step {l : Life} (o : LOp) : LReach l → l.admits o → LReach (l.step o).1

/-! ### helpers -/

theorem runNext_kind (s : Sim) : (runNext s).kind = s.kind := by
  unfold runNext; split
  · rfl
  · rw [exec_kind]

theorem runUntil_kind {f : Nat} {s s' : Sim} {T : Int} (hr : runUntil f s T = some s') : s'.kind = s.kind := by
  induction f generalizing s with
  | zero => simp [runUntil] at hr
  | succ f ih =>
    simp only [runUntil] at hr
    split at hr
    · simp only [Option.some.injEq] at hr; subst hr; rfl
    · split at hr
      · split at hr
        · simp only [Option.some.injEq] at hr; subst hr; rw [exec_kind]
        · rw [ih hr, exec_kind]
      · simp only [Option.some.injEq] at hr; subst hr; rfl

theorem setup_kind (s : Sim) : (setup s).kind = s.kind := (rearm_frame s).2.2.2.1

/-- what one lifecycle operation can do, case by case -/
theorem Life.step_cases (l : Life) (o : LOp) :
    ((l.step o).1 = l) ∨
    (o = .setup ∧ l.sim.now = 0 ∧ l.sim.pending = [] ∧ (l.step o).1 = { up := true, sim := Devs.setup l.sim }) ∨
    (o = .reset ∧ (l.step o).1 = l.reset) ∨
    (o = .next ∧ l.up = true ∧ (l.step o).1 = { l with sim := Devs.runNext l.sim }) ∨
    (o = .caught ∧ (l.step o).1 = l.caught) ∨
    (∃ f T s', (o = .until f T ∨ ∃ d, o = .for f d ∧ T = l.sim.now + d) ∧ l.up = true ∧
        Devs.runUntil f l.sim T = some s' ∧ (l.step o).1 = { l with sim := s' }) ∨
    (∃ c, o = .cmd c ∧ (l.step o).1 = l.cmd c) := by
  cases o with
  | setup =>
    simp only [Life.step, Life.setup]
    by_cases h0 : l.sim.now = 0
    · by_cases hp : l.sim.pending = []
      · right; left; simp [h0, hp]
      · left
        have : l.sim.pending.isEmpty = false := by cases h : l.sim.pending <;> simp_all
        simp [h0, this]
    · left; simp [h0]
  | reset => right; right; left; exact ⟨rfl, rfl⟩
  | next =>
    simp only [Life.step, Life.runNext]
    cases hu : l.up
    · left; simp
    · right; right; right; left; simp
  | caught => right; right; right; right; left; exact ⟨rfl, rfl⟩
  | «until» f T =>
    simp only [Life.step, Life.runUntil]
    cases hu : l.up
    · left; simp
    · cases hr : Devs.runUntil f l.sim T with
      | none => left; simp
      | some s' => right; right; right; right; right; left; exact ⟨f, T, s', by simp [hr]⟩
  | «for» f d =>
    simp only [Life.step, Life.runFor, Life.runUntil]
    cases hu : l.up
    · left; simp
    · cases hr : Devs.runUntil f l.sim (l.sim.now + d) with
      | none => left; simp
      | some s' =>
        right; right; right; right; right; left
        exact ⟨f, l.sim.now + d, s', by simp [hr]⟩
  | cmd c => right; right; right; right; right; right; exact ⟨c, rfl, rfl⟩

/-! ### the theorems -/

/-- Every lifecycle history — scheduling before `setup`, refused calls, repeated `setup`, `reset` anywhere — leaves an event
    core that is `Reachable` in the sense of `Props/C14.lean`: all C14 invariants hold in every state of every history. -/
theorem C14_life_core_reachable {l : Life} (h : LReach l) : Reachable l.sim := by
  induction h with
  | fresh k p sp => exact .init k p sp
  | @step l o _ ha ih =>
    rcases l.step_cases o with h | ⟨_, _, _, h⟩ | ⟨_, h⟩ | ⟨_, _, h⟩ | ⟨_, h⟩ | ⟨f, T, s', ho, _, hr, h⟩ | ⟨c, _, h⟩
    · rw [h]; exact ih
    · rw [h]; exact .setup ih
    · rw [h]; exact .init _ _ _
    · rw [h]; exact .next ih
    · rw [h]; exact .caught ih
    · rw [h]
      refine .until ih ?_ hr
      rcases ho with rfl | ⟨d, rfl, rfl⟩
      · exact ha
      · have : (0 : Int) ≤ d := ha
        omega
    · rw [h]; exact .cmd c ih

/-- While no model is attached (before the first `setup`, after every `reset`) the simulator is pristine: the clock is at the
    start time, nothing has executed, `model.steps` is 0 — whatever was attempted meanwhile. -/
theorem C14_life_idle_is_pristine {l : Life} (h : LReach l) (hu : l.up = false) :
    l.sim.now = 0 ∧ l.sim.steps = 0 ∧ l.sim.log = [] := by
  induction h with
  | fresh k p sp => exact ⟨rfl, rfl, rfl⟩
  | @step l o _ _ ih =>
    rcases l.step_cases o with h | ⟨_, _, _, h⟩ | ⟨_, h⟩ | ⟨_, hup, h⟩ | ⟨_, h⟩ | ⟨f, T, s', _, hup, _, h⟩ | ⟨c, _, h⟩
    · rw [h] at hu ⊢; exact ih hu
    · rw [h] at hu; simp at hu
    · rw [h]; exact ⟨rfl, rfl, rfl⟩
    · rw [h] at hu; simp [hup] at hu
    · rw [h] at hu ⊢; exact ih hu
    · rw [h] at hu; simp [hup] at hu
    · rw [h] at hu ⊢
      have hf := doCmd_frame l.sim c
      have := ih hu
      exact ⟨by simp [Life.cmd, hf.1, this.1], by simp [Life.cmd, hf.2.2.1, this.2.1], by simp [Life.cmd, hf.2.1, this.2.2]⟩

/-- A refused call returns the simulator exactly as it was. -/
theorem C14_life_refused_unchanged (l : Life) (o : LOp) (e : LErr) (h : (l.step o).2 = some e) : (l.step o).1 = l := by
  cases o with
  | setup => simp only [Life.step] at h ⊢; split at h <;> simp_all
  | reset => simp [Life.step] at h
  | next => simp only [Life.step] at h ⊢; split at h <;> simp_all
  | caught => simp [Life.step] at h
  | «until» f T => simp only [Life.step] at h ⊢; split at h <;> simp_all
  | «for» f d => simp only [Life.step] at h ⊢; split at h <;> simp_all
  | cmd c => simp [Life.step] at h

/-- The run methods are refused exactly while no model is attached. -/
theorem C14_life_run_refused_iff (l : Life) (f : Nat) (T d : Int) :
    ((l.step (.until f T)).2 = some .notSetup ↔ l.up = false) ∧
    ((l.step (.for f d)).2 = some .notSetup ↔ l.up = false) ∧
    ((l.step .next).2 = some .notSetup ↔ l.up = false) := by
  refine ⟨?_, ?_, ?_⟩
  · simp only [Life.step, Life.runUntil]
    cases l.up
    · simp
    · cases Devs.runUntil f l.sim T <;> simp
  · simp only [Life.step, Life.runFor, Life.runUntil]
    cases l.up
    · simp
    · cases Devs.runUntil f l.sim (l.sim.now + d) <;> simp
  · simp only [Life.step, Life.runNext]
    cases l.up <;> simp

/-- `setup` is refused exactly when the clock has left the start time or the event list holds an entry (cancelled ones
    included). -/
theorem C14_life_setup_refused_iff (l : Life) :
    ((l.step .setup).2 = some .notAtStart ↔ l.sim.now ≠ 0) ∧
    ((l.step .setup).2 = some .hasEvents ↔ l.sim.now = 0 ∧ l.sim.pending ≠ []) ∧
    ((l.step .setup).2 = none ↔ l.sim.now = 0 ∧ l.sim.pending = []) := by
  simp only [Life.step, Life.setup]
  by_cases h0 : l.sim.now = 0
  · cases hp : l.sim.pending <;> simp [h0]
  · simp [h0]

/-- A successful `setup` of an idle simulator starts the run where the core theorems start it: clock 0, nothing executed,
    and the event list is what `setup (init …)` holds — empty for DEVS, the single step event for tick 1 under ABM. -/
theorem C14_life_setup_starts_pristine {l : Life} (h : LReach l) (hu : l.up = false) (hok : (l.step .setup).2 = none) :
    let l' := (l.step .setup).1
    l'.up = true ∧ l'.sim.now = 0 ∧ l'.sim.steps = 0 ∧ l'.sim.log = [] ∧
    l'.sim.pending = (setup (init l.sim.kind l.sim.prog l.sim.stepProg)).pending.map
        (fun e => { e with id := e.id + l.sim.nextId }) := by
  obtain ⟨h0, hs, hl⟩ := C14_life_idle_is_pristine h hu
  obtain ⟨_, hp⟩ := (C14_life_setup_refused_iff l).2.2.1 hok
  have hst : (l.step .setup).1 = { up := true, sim := Devs.setup l.sim } := by
    simp [Life.step, Life.setup, h0, hp]
  simp only [hst]
  have hf := rearm_frame l.sim
  refine ⟨by simp, by simp [setup, hf.1, h0], by simp [setup, hf.2.2.1, hs], by simp [setup, hf.2.1, hl], ?_⟩
  simp only [setup, rearm, init]
  cases hk : l.sim.kind <;> simp [pushStep, hp, h0, insert]

/-- Under the ABM simulator, every state with a model attached satisfies the step invariant (exactly one live step event,
    armed for tick `steps + 1`; the steps executed so far were the ticks 1 … `steps`), in every lifecycle history. -/
theorem C15_life_abm_step_invariant {l : Life} (h : LReach l) (hu : l.up = true) (hk : l.sim.kind = .abm) : StepInv l.sim := by
  induction h with
  | fresh k p sp => simp [fresh] at hu
  | @step l o hl _ ih =>
    have hw := (reachable_inv (C14_life_core_reachable hl)).1
    rcases l.step_cases o with h | ⟨_, h0, hp, h⟩ | ⟨_, h⟩ | ⟨_, hup, h⟩ | ⟨_, h⟩ | ⟨f, T, s', ho, hup, hr, h⟩ | ⟨c, _, h⟩
    · rw [h] at hu hk ⊢; exact ih hu hk
    · rw [h] at hk ⊢
      simp only [setup_kind] at hk
      cases hup : l.up
      · obtain ⟨_, hs, hlog⟩ := C14_life_idle_is_pristine hl hup
        refine ⟨by simp [setup_kind, hk],
          ⟨{ time := l.sim.now + U, prio := 1, id := l.sim.nextId, tag := 0, isStep := true, cancelled := false,
             dead := false, act := 0, fn := 0 }, ⟨?_, rfl, rfl, rfl, ?_, rfl⟩⟩, ?_, ?_⟩
        · show stepEvs (setup l.sim).pending = [_]
          simp [setup, rearm, hk, pushStep, hp, insert, stepEvs]
        · simp [setup, rearm, hk, pushStep, hs, h0]
        · simp [setup, rearm, hk, pushStep, hs, h0]
        · simp [setup, rearm, hk, pushStep, hs, hlog, stepClocks]
      · -- a model is attached: the step event is pending, so this `setup` cannot have succeeded
        obtain ⟨st, ha⟩ := (ih hup hk).armed
        have : stepEvs l.sim.pending = [st] := ha.only
        rw [hp] at this; simp [stepEvs] at this
    · rw [h] at hu; simp [Life.reset] at hu
    · rw [h] at hk ⊢
      simp only [runNext_kind] at hk
      exact runNext_stepInv hw (ih hup hk)
    · rw [h] at hu hk ⊢
      have := ih hu hk
      obtain ⟨st, ha⟩ := this.armed
      exact ⟨this.abm, ⟨st, ⟨ha.only, ha.live, ha.alive, ha.isStep, ha.time, ha.prio⟩⟩, this.le, this.stepLog⟩
    · rw [h] at hk ⊢
      have hk' : l.sim.kind = .abm := by rw [← runUntil_kind hr]; exact hk
      refine runUntil_stepInv hw (ih hup hk') ?_ hr
      rcases ho with rfl | ⟨d, rfl, rfl⟩
      · assumption
      · have : (0 : Int) ≤ d := by assumption
        omega
    · rw [h] at hu hk ⊢
      have hf := doCmd_frame l.sim c
      exact doCmd_stepInv (ih hu (by simpa [Life.cmd, hf.2.2.2.1] using hk)) c

/-- … hence `model.steps` equals the clock after every `run_until` to a whole tick, whatever the lifecycle history before
    it (refused calls, resets, repeated setups, scheduling without a model). -/
theorem C15_life_steps_track_clock {l : Life} (h : LReach l) (hu : l.up = true) (hk : l.sim.kind = .abm)
    {f k : Nat} {s' : Sim} (hT : l.sim.now ≤ (k : Int) * U) (hr : runUntil f l.sim ((k : Int) * U) = some s')
    (hcalm : s'.raised = none) :
    s'.steps = k ∧ s'.now = (k : Int) * U :=
  steps_eq_clock (reachable_inv (C14_life_core_reachable h)).1 (C15_life_abm_step_invariant h hu hk) hT hr hcalm

/-- Under the ABM simulator a second `setup` is always refused: the step event is pending. -/
theorem C15_life_abm_second_setup_refused {l : Life} (h : LReach l) (hu : l.up = true) (hk : l.sim.kind = .abm) :
    (l.step .setup).2 ≠ none := by
  intro hok
  obtain ⟨_, hp⟩ := (C14_life_setup_refused_iff l).2.2.1 hok
  obtain ⟨st, ha⟩ := (C15_life_abm_step_invariant h hu hk).armed
  have : stepEvs l.sim.pending = [st] := ha.only
  rw [hp] at this; simp [stepEvs] at this

/-! ### non-vacuity: a history with every kind of refusal in it -/

/-- schedule without a model, refused setup, refused run, reset, setup, run two ticks, refused second setup -/
def lifeDemo : Life :=
  (fresh .abm (fun _ => []) []).run
    [.cmd (.schedAbs (2 * U) 5 0), .setup, .until 100 (3 * U), .reset, .setup, .until 100 (2 * U), .setup]

example : lifeDemo.up = true ∧ lifeDemo.sim.now = 2 * U ∧ lifeDemo.sim.steps = 2 := by decide
example : ((fresh .abm (fun _ => []) []).step (.until 100 (3 * U))).2 = some .notSetup := by decide
example : (((fresh .abm (fun _ => []) []).cmd (.schedAbs (2 * U) 5 0)).step .setup).2 = some .hasEvents := by decide
example : (lifeDemo.step .setup).2 = some .notAtStart := by decide
example : LReach ((fresh .devs (fun _ => []) []).step .setup).1 := .step _ (.fresh _ _ _) trivial

end Mesa.Devs
